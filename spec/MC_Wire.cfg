SPECIFICATION Spec
CONSTANTS
  Devs = {}
  Emit = TRUE
  Full = FALSE
  Part = "all"
INVARIANTS TypeOK NoPanic ReplyOnlyToRequests EmitCase
CHECK_DEADLOCK FALSE
