------------------------------- MODULE MC_Offer2 -------------------------------
EXTENDS Offer
\* three version-1 offers that all contain key "a"
OK2 == [o \in Offers |-> IF o = "o1" THEN <<"a", "b">> ELSE IF o = "o2" THEN <<"a", "c">> ELSE <<"a", "d">>]
OV2 == [o \in Offers |-> 1]
================================================================================
