SPECIFICATION Spec
CONSTANTS
  Net = "state"
  Keys = {"k1", "k2"}
  MaxBatch = 2
  MaxBatches = 2
  Devs = {}
INVARIANTS OkMeansHeld
CHECK_DEADLOCK FALSE
