---------------------------- MODULE HistoryRules ----------------------------
(* C02 - decision rules of history content validation over *views*.                              *)
(*                                                                                                *)
(* A view is what the property talks about, with every 32-byte value replaced by an identity     *)
(* (small integer; equal integers <=> equal byte strings - collision resistance of Keccak is     *)
(* assumed, DESIGN 9):                                                                            *)
(*   kv  key view      [t, id, pre, known, tx, un, wd, rc]                                       *)
(*         t     "hash" | "num" | "body" | "rcpt" | "unk"   (selector byte 0,3,1,2, anything else)*)
(*         id    identity of the hash (or number) carried by the key; a key that is not            *)
(*               selector + 32 bytes (+ 8 bytes for "num") has an identity no header has          *)
(*         pre   "num" keys longer than 9 bytes: identity of the number in the first 8 bytes      *)
(*               after the selector (what a prefix-reading decoder sees); hash-carrying keys      *)
(*               longer than 33 bytes: identity of the hash in the LAST 32 bytes (what a          *)
(*               cropping comparison sees); otherwise -1                                          *)
(*         known a header with that hash exists (then tx,un,wd,rc are ITS roots: "the header     *)
(*               with the key's block hash", whatever any header source answers)                 *)
(*   cv  content view  [ok, canon, hid, nid, pf, tx, un, wd, rc, zero] - the content decoded for *)
(*         the key's type: ok = it decodes as a header-with-proof / body / receipt list when a   *)
(*         four-byte zero offset table is tolerated as the empty list (DESIGN 8 F-C14-1);        *)
(*         canon = it is THE canonical SSZ/RLP encoding of what it decodes to;                   *)
(*         sb = the proof is the genuine historical-roots (merge-to-Capella) proof of exactly    *)
(*         that header except that its slot points beyond the historical_roots accumulator;      *)
(*         hid,nid identity of the decoded header's hash / number; pf = the proof is the genuine *)
(*         accumulator proof of exactly that header; tx,un,wd,rc = roots computed over the       *)
(*         decoded lists; wd = NONE for the legacy (pre-Shanghai) body encoding; zero = the      *)
(*         content is the zero-length byte string                                                *)
(*   sv  source view   [ans, hid, tx, un, wd, rc] - what the header source answered for the      *)
(*         key's hash: ans = FALSE is an error, otherwise the identity and roots of the header   *)
(*         it returned (possibly another block's)                                                 *)
(*                                                                                                *)
(* P level:  Bound(kv, cv)          - the property's notion "cryptographically tied to its key". *)
(* I level:  Outcome(kv, cv, sv, D) - history/validation.go ValidateContent as coded, D = set of *)
(*           named deviations from the sound procedure (DESIGN 3.3).                             *)
EXTENDS Integers, FiniteSets

NONE    == 0     \* no withdrawals root (pre-Shanghai header) / legacy body encoding
EMPTY   == 1     \* root of the empty list (transactions, receipts, withdrawals)
EMPTYUN == 2     \* hash of the empty uncle list

DevNames == {"StripWd",       \* F-C02-1 body without withdrawals accepted whatever the header's withdrawals root
             "StripEmptyWd",  \* F-C02-7 what the first repair of F-C02-1 left: a body without a withdrawals list (pre-Shanghai container) accepted
                              \*         for a header whose withdrawals root is the EMPTY-list root
             "TrustSource",   \* F-C02-2 header returned by the source never compared with the requested hash
             "NilWdPanic",    \* F-C02-3 (= F-C01-4) Shanghai-encoded body against a header without withdrawals root: nil dereference
             "NumKeyPrefix",  \* F-C02-4 block-number key longer than 9 bytes: only the first 8 bytes after the selector are read
             "SlotIndexPanic",\* F-C02-6 (= F-C01-5) slot of a historical-roots proof indexes the accumulator unchecked: index out of range
             "NonCanon",      \* F-C02-5 non-canonical encoding (zero offset table for an empty list) accepted
             "HashKeyCrop",   \* (seed C02-2) hash compared after padding / cropping the key to 32 bytes (common.BytesToHash): a key with
                              \*            bytes inserted before the genuine hash counts as that hash
             "NoKeyCheck",    \* (mutant) header accepted without comparing its hash / number with the key
             "NoUncleCheck",  \* (mutant) uncle hash not compared
             "NoTxCheck",     \* (mutant) transactions root not compared
             "NoProof"}       \* (mutant) accumulator proof not verified
DevsPinned == {"StripWd", "TrustSource", "NilWdPanic", "NumKeyPrefix", "NonCanon", "SlotIndexPanic"}    \* the code at the pinned commit, before the fix: commits
DevsToday == {}                                                                                          \* the repaired tree (KNOWN_FINDINGS.json: all seven fixed)

\* a body without a withdrawals list (legacy encoding) and a body with the EMPTY list (Shanghai encoding) are different byte strings with different
\* root sets: the first belongs to a header without a withdrawals root, the second to a header whose root is the empty-list root (sweep mutant D/01-C02)
WdMatch(bw, hw) == bw = hw

\* ------------------------------------------------------------------------------------------------ P level
Bound(kv, cv) ==
  CASE kv.t = "hash" -> cv.ok /\ cv.canon /\ cv.hid = kv.id /\ cv.pf
    [] kv.t = "num"  -> cv.ok /\ cv.canon /\ cv.nid = kv.id /\ cv.pf
    [] kv.t = "body" -> kv.known /\ cv.ok /\ cv.canon /\ cv.tx = kv.tx /\ cv.un = kv.un /\ WdMatch(cv.wd, kv.wd)
    [] kv.t = "rcpt" -> kv.known /\ cv.ok /\ cv.canon /\ cv.rc = kv.rc
    [] OTHER         -> FALSE

\* ------------------------------------------------------------------------------------------------ I level
HeaderOutcome(same, cv, D) ==
  IF ~(cv.ok /\ (cv.canon \/ "NonCanon" \in D) /\ (same \/ "NoKeyCheck" \in D)) THEN "reject"
  ELSE IF cv.sb /\ "SlotIndexPanic" \in D THEN "panic"        \* the execution-block stage passes, the slot then indexes the accumulator
  ELSE IF cv.pf \/ "NoProof" \in D THEN "accept" ELSE "reject"

SameHash(kv, hid, D) == hid = kv.id \/ ("HashKeyCrop" \in D /\ kv.pre # -1 /\ hid = kv.pre)
BodyOutcome(kv, cv, sv, D) ==
  IF ~sv.ans THEN "reject"
  ELSE IF "TrustSource" \notin D /\ ~SameHash(kv, sv.hid, D) THEN "reject"
  ELSE IF ~cv.ok \/ (~cv.canon /\ "NonCanon" \notin D) THEN "reject"
  ELSE IF "NoUncleCheck" \notin D /\ cv.un # sv.un THEN "reject"
  ELSE IF "NoTxCheck" \notin D /\ cv.tx # sv.tx THEN "reject"
  ELSE IF cv.wd = NONE THEN (IF "StripWd" \in D \/ sv.wd = NONE \/ ("StripEmptyWd" \in D /\ sv.wd = EMPTY) THEN "accept" ELSE "reject")
  ELSE IF sv.wd = NONE THEN (IF "NilWdPanic" \in D THEN "panic" ELSE "reject")
  ELSE IF cv.wd = sv.wd THEN "accept" ELSE "reject"

ReceiptsOutcome(kv, cv, sv, D) ==
  IF ~sv.ans THEN "reject"
  ELSE IF "TrustSource" \notin D /\ ~SameHash(kv, sv.hid, D) THEN "reject"
  ELSE IF sv.rc = EMPTY THEN (IF cv.zero THEN "accept" ELSE "reject")
  ELSE IF cv.ok /\ (cv.canon \/ "NonCanon" \in D) /\ ~cv.zero /\ cv.rc = sv.rc THEN "accept" ELSE "reject"

Outcome(kv, cv, sv, D) ==
  CASE kv.t = "hash" -> HeaderOutcome(SameHash(kv, cv.hid, D), cv, D)
    [] kv.t = "num"  -> HeaderOutcome(cv.nid = kv.id \/ ("NumKeyPrefix" \in D /\ kv.pre # -1 /\ cv.nid = kv.pre), cv, D)
    [] kv.t = "body" -> BodyOutcome(kv, cv, sv, D)
    [] kv.t = "rcpt" -> ReceiptsOutcome(kv, cv, sv, D)
    [] OTHER         -> "reject"

\* The smallest sets of listed deviations under which the coded procedure yields the observed outcome
\* ({} if the sound procedure already does; the empty set of sets if nothing listed explains it).
Explaining(kv, cv, sv, out, Listed) ==
  LET Fits == {D \in SUBSET Listed : Outcome(kv, cv, sv, D) = out} IN
  {D \in Fits : \A E \in Fits : Cardinality(E) >= Cardinality(D)}
==============================================================================
