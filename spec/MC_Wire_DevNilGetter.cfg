SPECIFICATION Spec
CONSTANTS
  Devs = {"NilGetter"}
  Emit = FALSE
  Full = FALSE
  Part = "lookup"
INVARIANTS NoPanic
CHECK_DEADLOCK FALSE
