-------------------------- MODULE Trace_LightClient --------------------------
(* C12 - property-level judge (monitor mode) for traces of the real beacon.ConsensusLightClient.          *)
(* One "init" event per sequence (bootstrapped store) and one "step" event per update with                 *)
(*   u        FACTS about the delivered update, computed by the harness independently of the code under    *)
(*            test: slots, participation count, whether each Merkle branch holds under the attested state  *)
(*            root (own SHA-256 fold at generalized index 105 / 55), the set sigFor of known committees    *)
(*            for which the delivered signature IS the unique valid aggregate of exactly the participating *)
(*            keys over the delivered attested header, identities of the carried headers / committee       *)
(*   now      the wall-clock slot the harness set;  verdict / vclass  what Verify*Update returned          *)
(*   pre/mid/post   store projection before verify, after verify (= before apply), after apply             *)
(* Flagged (C12):  for an accepted update every false necessary condition (Nec: participation notFuture    *)
(*   sigAfterAtt attAfterFin periodFits relevant finalityBranch committeeBranch signature); verifyPure     *)
(*   (verification does not move the store); for every applied update - verified or not - every false      *)
(*   ApplySafe conjunct (monotoneFin monotoneOpt optAhead needsTwoThirds rotation).                        *)
(* Not flagged: rejections of honest updates (completeness is a vacuity guard), the I-level prediction     *)
(*   (VerifyOn / ApplyOn) - differences are reported as DRIFT only, panics (reported, C01 territory).      *)
(* chain / notApplied are harness-integrity conjuncts (a failure is NO-VERDICT, not a violation).          *)
EXTENDS LightClientOps, Sequences, TLC, Json

Trace == ndJsonDeserialize("trace.ndjson")

VARIABLES l, st, viol, drift, cov
vars == <<l, st, viol, drift, cov>>

SeqSet(s) == {s[i] : i \in 1..Len(s)}
U(e) == [att |-> e.u.att, sig |-> e.u.sig, fin |-> e.u.fin, next |-> e.u.next, parts |-> e.u.parts,
         finOK |-> e.u.finOK, nextOK |-> e.u.nextOK, sigFor |-> SeqSet(e.u.sigFor)]

Changed(s, t) == t.fin # s.fin \/ t.finH # s.finH \/ t.cur # s.cur \/ t.nxt # s.nxt

\* ---- what the step exercised (vacuity guard / evidence); each flag says a particular wrong variant of the code
\*      would have been visible on this step ----
Flags(e, u) ==
  LET ok == e.verdict = "ok"
      nf == Failed(Nec(e.pre, u, e.now))
      ap == e.applied
      s  == e.mid   t == e.post
      thr == Max(Max(s.curMax, u.parts), s.prevMax) \div 2
      optUp == u.parts > thr /\ u.att > s.opt
      opt1 == IF optUp THEN u.att ELSE s.opt
      full == ApplyOn(s, [u EXCEPT !.parts = N], e.u.attH, e.u.finH)     \* the same update with everybody signing
  IN
  [ accFull |-> ok /\ e.u.kind = "full",  accFinality |-> ok /\ e.u.kind = "finality",  accOptimistic |-> ok /\ e.u.kind = "optimistic",
    accNextPeriod |-> ok /\ Period(u.sig) = Period(e.pre.fin) + 1,
    accSupplyOnly |-> ok /\ u.att <= e.pre.fin,
    finAdvance |-> ap /\ t.fin > s.fin,
    optAdvance |-> ap /\ t.opt > s.opt,
    adoptNext  |-> ap /\ s.nxt = NoneC /\ t.nxt # NoneC,
    rotate     |-> ap /\ t.cur # s.cur,
    rotateVisible |-> ap /\ t.cur # s.cur /\ u.next # s.nxt,
    heldAt341  |-> ap /\ ~TwoThirds(u.parts) /\ TwoThirds(u.parts + 1) /\ Changed(s, full),
    movedAt342 |-> ap /\ TwoThirds(u.parts) /\ ~TwoThirds(u.parts - 1) /\ Changed(s, t),
    blindBelow |-> ap /\ ~ok /\ ~TwoThirds(u.parts) /\ Changed(s, full),
    olderFinHeld |-> ap /\ TwoThirds(u.parts) /\ HasFin(u) /\ u.fin < s.fin /\ s.nxt = NoneC /\ HasNext(u) /\ Period(u.fin) = Period(u.att),
    olderAttHeld |-> ap /\ u.parts > thr /\ u.att < s.opt,
    optRaised  |-> ap /\ t.fin > s.fin /\ u.fin > opt1,
    blindApplied |-> ap /\ ~ok,
    oneParticipation |-> nf = {"participation", "signature"},
    oneNotFuture |-> nf = {"notFuture"},  oneSigAfterAtt |-> nf = {"sigAfterAtt"},  oneAttAfterFin |-> nf = {"attAfterFin"},
    onePeriodFits |-> nf = {"periodFits"},  oneRelevant |-> nf = {"relevant"},  oneFinalityBranch |-> nf = {"finalityBranch"},
    oneCommitteeBranch |-> nf = {"committeeBranch"},  oneSignature |-> nf = {"signature"},
    oneSignatureOtherCommittee |-> nf = {"signature"} /\ u.sigFor # {},
    oneSignatureNextPeriod |-> nf = {"signature"} /\ Period(u.sig) = Period(e.pre.fin) + 1,
    honestRejected |-> nf = {} /\ ~ok,
    panics |-> e.vclass = "panic" \/ e.apanic # "" ]

FlagNames == {"accFull", "accFinality", "accOptimistic", "accNextPeriod", "accSupplyOnly", "finAdvance", "optAdvance", "adoptNext",
              "rotate", "rotateVisible", "heldAt341", "movedAt342", "blindBelow", "olderFinHeld", "olderAttHeld", "optRaised",
              "blindApplied", "oneParticipation", "oneNotFuture", "oneSigAfterAtt", "oneAttAfterFin", "onePeriodFits", "oneRelevant",
              "oneFinalityBranch", "oneCommitteeBranch", "oneSignature", "oneSignatureOtherCommittee", "oneSignatureNextPeriod",
              "honestRejected", "panics"}
Zero == [k \in FlagNames |-> 0]

Init == l = 1 /\ st = [none |-> TRUE] /\ viol = {} /\ drift = {} /\ cov = Zero

Judge(e) ==
  LET u == U(e)
      sound == IF e.verdict = "ok" THEN Failed(Nec(e.pre, u, e.now)) ELSE {}
      pure  == IF e.mid = e.pre THEN {} ELSE {"verifyPure"}
      chain == IF e.pre = st THEN {} ELSE {"chain"}
      apply == IF e.applied THEN Failed(ApplySafe(e.mid, e.post, u))
               ELSE IF e.post = e.mid THEN {} ELSE {"notApplied"}
  IN sound \cup pure \cup chain \cup apply

\* I-level prediction (never a verdict)
Drift(e) ==
  LET u == U(e)
      vI == VerifyOn(e.pre, u, e.now)
      dv == IF vI = e.vclass \/ (vI = "signature" /\ e.vclass = "other") THEN {} ELSE {"verdict:" \o vI \o "/" \o e.vclass}
      da == IF e.applied /\ e.apanic = "" /\ ApplyOn(e.mid, u, e.u.attH, e.u.finH) # e.post THEN {"apply"} ELSE {}
  IN dv \cup da

Next ==
  /\ l <= Len(Trace)
  /\ l' = l + 1
  /\ LET e == Trace[l] IN
     CASE e.ev = "init" -> st' = e.store /\ UNCHANGED <<viol, drift, cov>>
       [] e.ev = "step" ->
            /\ st' = e.post
            /\ viol' = viol \cup {<<l, f>> : f \in Judge(e)}
            /\ drift' = drift \cup {<<l, f>> : f \in Drift(e)}
            /\ cov' = LET fl == Flags(e, U(e)) IN [k \in DOMAIN cov |-> cov[k] + IF fl[k] THEN 1 ELSE 0]
       [] OTHER -> UNCHANGED <<st, viol, drift, cov>>

Spec == Init /\ [][Next]_vars
Done == l = Len(Trace) + 1
Report == Done => /\ PrintT(<<"DRIFT", ToJson(drift)>>)
                  /\ PrintT(<<"COV", ToJson(cov)>>)
                  /\ PrintT(<<"VIOL", ToJson(viol)>>)
TraceAccepted == TLCGet("stats").diameter = Len(Trace) + 1
=============================================================================
