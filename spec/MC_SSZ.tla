------------------------------- MODULE MC_SSZ -------------------------------
(* Exhaustive checks of the reference codec SSZ.tla at reduced limits and case generation at the      *)
(* real limits (C14).                                                                                *)
(*  Mode "values": for every reduced schema every value up to one beyond each limit (bytes over       *)
(*                 {0,1}); laws RoundTrip, OverLimit; and for every in-limit value the whole mutation *)
(*                 catalogue of its encoding (each offset +-1, +-OffW, zeroed, beyond the end, swapped *)
(*                 with its neighbour; trailing bytes; truncation at every position): law Mutants.     *)
(*  Mode "bytes":  OffW = 1; every byte string of at most MaxLen symbols over 0..Sym-1 against six     *)
(*                 reduced schemas: laws Canonical (Dec b = v => Enc v = b) and LimitsEnforced.        *)
(*  Mode "gen":    the real schemas, OffW = 4: a boundary value catalogue per schema (each field at    *)
(*                 empty / one / limit / limit+1, one field at a time) with the reference encoding and  *)
(*                 the mutation catalogue; printed as CASE records for the Go engine.                   *)
EXTENDS SSZSchemas, Json

CONSTANTS Mode, MaxLen, Sym, TruncAll

VARIABLE c
Alpha == {0, 1}
SeqsUpTo(S, n) == UNION {[1..k -> S] : k \in 0..n}
PlainRuns(p) == Canon([i \in 1..Len(p) |-> <<p[i], 1>>])

\* ---- reduced schemas ---------------------------------------------------------------------------------
Reduced == [ rPing     |-> C(<<U(1), BL(2)>>),
             rOffer    |-> C(<<DL(2, BL(2))>>),
             rNodes    |-> C(<<U(1), DL(1, BL(2))>>),
             rAccept   |-> C(<<B(1), BIT(3)>>),
             rAcceptV1 |-> C(<<B(1), FL(2, 1)>>),
             rFindNodes|-> C(<<FL(2, 2)>>),
             rClient   |-> C(<<BL(2), B(1), FL(2, 2)>>),
             rFixed    |-> C(<<B(1), U(1)>>),
             rBareList |-> DL(2, BL(2)),
             rTwoLists |-> C(<<DL(1, BL(1)), DL(1, BL(1)), B(1)>>),
             rKey      |-> C(<<NIB(3), B(1)>>),
             rBytes    |-> BL(2) ]

RECURSIVE AllValues(_)
RECURSIVE Product(_, _)
Product(f, i) == IF i > Len(f) THEN {<<>>} ELSE {<<x>> \o r : x \in AllValues(f[i]), r \in Product(f, i + 1)}
AllValues(s) ==
  CASE s.t \in {"uint", "bytesN"} -> {PlainRuns(p) : p \in [1..s.n -> Alpha]}
    [] s.t = "bytelist" -> {PlainRuns(p) : p \in SeqsUpTo(Alpha, s.max + 1)}
    [] s.t = "bitlist"  -> {PlainRuns(p) : p \in SeqsUpTo({0, 1, 3, 8, 16}, 2)}
    [] s.t = "fixlist"  -> SeqsUpTo({PlainRuns(p) : p \in [1..s.n -> Alpha]}, s.max + 1)
    [] s.t = "dynlist"  -> SeqsUpTo(AllValues(s.e), s.max + 1)
    [] s.t = "nibbles"  -> {PlainRuns(p) : p \in SeqsUpTo({0, 1, 15}, s.max + 1)}
    [] s.t = "container" -> Product(s.f, 1)

\* ---- mutation catalogue ------------------------------------------------------------------------------------
Interesting(o) == o.k \in {1, 2, o.n}
MutantsOf(s, b, tot, offs) ==        \* b: the encoding, offs: where its offsets sit (both already evaluated, see SSZ!Let1)
  LET idx  == {i \in 1..Len(offs) : Interesting(offs[i])}
      Set(o, val) == SetBytes(b, o.pos, LE(val, OffW))
      fix  == IF s.t = "container" THEN FixedSize(s) ELSE 0
      cuts == IF tot <= TruncAll THEN 0..(tot - 1)
              ELSE ({0, 1, fix - 1, fix, fix + 1, tot - 1} \cup UNION {{offs[i].val - 1, offs[i].val, offs[i].val + 1} : i \in idx}) \cap 0..(tot - 1) IN
  {[m |-> "off+1", b |-> Set(offs[i], offs[i].val + 1)] : i \in idx}
  \cup {[m |-> "off-1", b |-> Set(offs[i], offs[i].val - 1)] : i \in {j \in idx : offs[j].val >= 1}}
  \cup {[m |-> "off+w", b |-> Set(offs[i], offs[i].val + OffW)] : i \in idx}
  \cup {[m |-> "off-w", b |-> Set(offs[i], offs[i].val - OffW)] : i \in {j \in idx : offs[j].val >= OffW}}
  \cup {[m |-> "off=0", b |-> Set(offs[i], 0)] : i \in idx}
  \cup {[m |-> "off>end", b |-> Set(offs[i], tot + 1)] : i \in idx}
  \cup {[m |-> "swap", b |-> SetBytes(Set(offs[i], offs[i + 1].val), offs[i + 1].pos, LE(offs[i].val, OffW))] :
           i \in {j \in 1..(Len(offs) - 1) : offs[j].tab = offs[j + 1].tab /\ offs[j].val # offs[j + 1].val /\ (Interesting(offs[j]) \/ Interesting(offs[j + 1]))}}
  \cup {[m |-> "trail0", b |-> Cat(b, Fill(0, 1))], [m |-> "trailW", b |-> Cat(b, Fill(0, OffW))], [m |-> "trailF", b |-> Cat(b, Fill(255, 1))]}
  \cup {[m |-> "trunc", b |-> Slice(b, 0, k)] : k \in cuts}
Mutants(s, v) == UNION {MutantsOf(s, b, Total(b), offs) : b \in {Enc(s, v)}, offs \in {Offsets(s, v, 0, 1) \o <<>>}}

\* ---- boundary value catalogue ------------------------------------------------------------------------------
\* lists longer than BigList elements and byte lists longer than BigBytes are only exercised far below their limit
BigList  == 2048
BigBytes == 16777216
Asc(n) == Canon([i \in 1..n |-> <<i % 251, 1>>])
Rep(x, n) == [i \in 1..n |-> x]

\* Variants(s, i): sequence of values of schema s, the first one being the base value (i salts the fill byte)
RECURSIVE Variants(_, _)
Variants(s, i) ==
  CASE s.t = "uint"   -> <<Fill(16 + i, s.n), Fill(0, s.n), Fill(255, s.n), Asc(s.n)>>
    [] s.t = "bytesN" -> <<Fill(160 + i, s.n), Fill(0, s.n), Cat(Asc(IF s.n > 600 THEN 600 ELSE s.n), Fill(9, s.n - (IF s.n > 600 THEN 600 ELSE s.n)))>>
                         \o (IF s.n = s.k THEN <<Fill(3, s.n - 1), Fill(3, s.n + 1)>> ELSE <<>>)
    [] s.t = "bytelist" -> <<Fill(48 + i, 3), <<>>, Fill(255, 1), Asc(5)>>
                           \o (IF s.max <= BigBytes THEN <<Fill(64 + i, s.max), Cat(Fill(0, 1), Fill(65 + i, s.max))>> ELSE <<Fill(66, 70000)>>)
    [] s.t = "bitlist" -> <<Fill(5, 1), Fill(1, 1), Cat(Fill(255, s.max \div 8), Fill(1, 1)), Cat(Fill(0, s.max \div 8), Fill(1, 1)),
                            Cat(Fill(255, s.max \div 8), Fill(3, 1)), Cat(Fill(0, s.max \div 8), Fill(2, 1)), <<>>, Cat(Fill(5, 1), Fill(0, 1)), Fill(128, 1),
                            Fill(0, 1)>>
    [] s.t = "fixlist" -> <<<<Fill(32 + i, s.n), Asc(s.n)>>, <<>>, <<Fill(0, s.n)>>, Rep(Fill(255, s.n), 3)>>
                          \o (IF s.max <= BigList THEN <<Rep(Fill(7, s.n), s.max), Rep(Fill(8, s.n), s.max + 1), [k \in 1..s.max |-> Canon(LE(k, s.n))]>> ELSE <<Rep(Fill(7, s.n), 300)>>)
    [] s.t = "dynlist" -> <<(IF s.max >= 3 THEN <<Fill(80 + i, 3), <<>>, Fill(81 + i, 1)>> ELSE <<Fill(80 + i, 3)>>),
                            <<>>, << <<>> >>, <<Fill(1, 1)>>, <<<<>>, <<>>>>, <<Fill(2, 1), <<>>>>, <<<<>>, Fill(4, 4)>>>>
                          \o (IF s.e.max <= BigBytes THEN <<<<Fill(90, s.e.max)>>, <<Fill(91, s.e.max + 1)>>, <<Fill(1, 1), Fill(92, s.e.max + 1)>>>> ELSE <<<<Fill(93, 70000)>>>>)
                          \o (IF s.max <= BigList THEN <<Rep(Fill(6, 1), s.max), Rep(<<>>, s.max), Rep(<<>>, s.max + 1), Rep(Fill(6, 1), s.max + 1),
                                                         [k \in 1..s.max |-> IF k = 1 /\ s.e.max <= 4096 THEN Fill(94, s.e.max) ELSE Fill(k % 256, k % 3)]>>
                              ELSE <<Rep(Fill(6, 1), 300)>>)
    [] s.t = "nibbles" -> <<PlainRuns(<<1, 2, 3>>), <<>>, PlainRuns(<<15>>), PlainRuns(<<0, 0>>), PlainRuns(<<10, 11>>), Fill(15, s.max), Fill(1, s.max - 1),
                            Fill(2, s.max + 1), Fill(2, s.max + 2)>>
    [] s.t = "container" ->
         LET base == [k \in 1..Len(s.f) |-> Variants(s.f[k], k)[1]] IN
         <<base>> \o
         LET RECURSIVE PerField(_)
             PerField(k) == IF k > Len(s.f) THEN <<>>
                            ELSE LET vs == Variants(s.f[k], k) IN
                                 [j \in 1..(Len(vs) - 1) |-> [base EXCEPT ![k] = vs[j + 1]]] \o PerField(k + 1)
         IN PerField(1)

\* ---- case space -------------------------------------------------------------------------------------------------
Schemas == IF Mode = "gen" THEN Real ELSE Reduced
Names == DOMAIN Schemas
ByteSchemas == {"rPing", "rOffer", "rAccept", "rClient", "rFixed", "rBareList"}

Parts == CASE Mode = "values" -> {[name |-> n, first |-> x] : n \in Names, x \in 0..3}
           [] Mode = "bytes"  -> {[name |-> n, first |-> x] : n \in ByteSchemas, x \in SeqsUpTo(0..(Sym - 1), 1)}
           [] Mode = "gen"    -> UNION {{[name |-> n, first |-> j] : j \in 1..Len(Variants(Schemas[n], 0))} : n \in Names}
\* (values are spread over four parts by the size of their encoding, bytes by their first symbol)
CasesOf(p) ==
  CASE Mode = "values" -> {[kind |-> "value", name |-> p.name, v |-> v] : v \in {w \in AllValues(Schemas[p.name]) : Total(Enc(Schemas[p.name], w)) % 4 = p.first}}
    [] Mode = "bytes"  -> IF p.first = <<>> THEN {[kind |-> "bytes", name |-> p.name, b |-> <<>>]}
                          ELSE {[kind |-> "bytes", name |-> p.name, b |-> PlainRuns(p.first \o t)] : t \in SeqsUpTo(0..(Sym - 1), MaxLen - 1)}
    [] Mode = "gen"    -> {[kind |-> "gen", name |-> p.name, v |-> Variants(Schemas[p.name], 0)[p.first], j |-> p.first]}

Init == c \in [kind : {"part"}, p : Parts]
Next == c.kind = "part" /\ c' \in CasesOf(c.p)
Spec == Init /\ [][Next]_c

\* ---- laws ---------------------------------------------------------------------------------------------------------------
S == Schemas[c.name]
IsValue == c.kind = "value"
RoundTrip == (IsValue /\ Within(S, c.v)) => DecTop(S, Enc(S, c.v)) = OK(c.v)
OverLimit == (IsValue /\ ~Within(S, c.v)) => ~DecTop(S, Enc(S, c.v)).ok
CanonicalAt(s, b) == \A d \in {DecTop(s, b)} : d.ok => (Enc(s, d.v) = b /\ Within(s, d.v))
MutantsLaw == (IsValue /\ Within(S, c.v)) => \A m \in Mutants(S, c.v) : CanonicalAt(S, m.b)
\* the catalogue is not idle: something in it is accepted (a different value) and something is refused
MutantsBite == (IsValue /\ Within(S, c.v) /\ Total(Enc(S, c.v)) > 0) => \E m \in Mutants(S, c.v) : ~DecTop(S, m.b).ok

IsBytes == c.kind = "bytes"
Canonical == IsBytes => CanonicalAt(S, c.b)

\* ---- generation -------------------------------------------------------------------------------------------------------------
IsGen == c.kind = "gen"
GenLaws == IsGen => /\ (Within(S, c.v) => DecTop(S, Enc(S, c.v)) = OK(c.v))
                    /\ (~Within(S, c.v) => ~DecTop(S, Enc(S, c.v)).ok)
MutList(s, v) == {[m |-> x.m, b |-> x.b, ok |-> DecTop(s, x.b).ok] : x \in Mutants(s, v)}
Emit == IsGen => PrintT(<<"CASE", ToJson([name |-> c.name, j |-> c.j, v |-> c.v, within |-> Within(S, c.v), enc |-> Enc(S, c.v),
                                          muts |-> IF Within(S, c.v) THEN MutList(S, c.v) ELSE {}])>>)
EmitSchemas == (c.kind = "part" /\ c.p = CHOOSE p \in Parts : TRUE) => PrintT(<<"SCHEMAS", ToJson(Schemas)>>)
===============================================================================
