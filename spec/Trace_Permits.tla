---------------------------- MODULE Trace_Permits ----------------------------
(* Judge for transfer-slot observations (C16).  pm.quiescent is emitted by the harness at a     *)
(* point decided from events only: every offer() that started has returned, every transfer and  *)
(* receive goroutine that started has ended, and (unless the node was stopped) the offer queue   *)
(* is empty.  It carries the acquire / release counts of the observed node's controller, the     *)
(* high-water marks and the number of slots that can actually be obtained through the API.       *)
(* pm.offerin = one inbound offer sent while the harness itself holds openSure established,     *)
(* unfinished streams of earlier accepted offers open (transfers in progress whatever the node   *)
(* thinks of its slots).  maxT = high-water mark of outbound transfer goroutines running at once *)
(* (start / end events, independent of the permits).                                             *)
(* Conjuncts: withinLimit transfersWithinLimit allReturned fullyAvailable releasedOnce           *)
(*            boundedInProgress                                                                  *)
EXTENDS Integers, Sequences, FiniteSets, TLC, Json, SequencesExt
Trace == ndJsonDeserialize("trace.ndjson")
VARIABLES l, viol
Failed(r) == {f \in DOMAIN r : ~r[f]}
Quiet(e) == [ withinLimit    |-> e.maxIn <= e.limit /\ e.maxOut <= e.limit,
              transfersWithinLimit |-> e.maxT <= e.limit,
              allReturned    |-> e.heldIn = 0 /\ e.heldOut = 0,
              fullyAvailable |-> e.freeIn = e.limit /\ e.freeOut = e.limit,
              releasedOnce   |-> ~e.overRelease /\ e.relIn <= e.acqIn /\ e.relOut <= e.acqOut ]
OfferIn(e) == [ boundedInProgress |-> e.accepted => e.openSure < e.limit ]
Init == l = 1 /\ viol = {}
Next == /\ l <= Len(Trace) /\ l' = l + 1
        /\ LET e == Trace[l] IN
           CASE e.ev = "pm.quiescent" -> viol' = viol \cup {<<l, f>> : f \in Failed(Quiet(e))}
             [] e.ev = "pm.offerin" -> viol' = viol \cup {<<l, f>> : f \in Failed(OfferIn(e))}
             [] OTHER -> UNCHANGED viol
Spec == Init /\ [][Next]_<<l, viol>>
Done == l = Len(Trace) + 1
Report == Done => PrintT(<<"VIOL", ToJson(viol)>>)
TraceAccepted == TLCGet("stats").diameter = Len(Trace) + 1
===============================================================================
