SPECIFICATION Spec
CONSTANTS
  Devs = {"ZeroLenUpdate"}
  Emit = FALSE
  Full = FALSE
  Part = "content"
INVARIANTS NoPanic
CHECK_DEADLOCK FALSE
