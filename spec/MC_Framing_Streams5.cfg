SPECIFICATION Spec
CONSTANTS
  Bits = 2
  Groups = 3
  MaxBits = 5
  Devs = {}
  Mode = "streams"
  MaxLen = 5
  MaxItems = 3
  TripleSet = "small"
INVARIANTS Decides Unique Agrees Canonical Covers RejectCauses SingleExact SingleVsSplit FirstLaw
CHECK_DEADLOCK FALSE
