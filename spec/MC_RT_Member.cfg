SPECIFICATION Spec
CONSTANTS
  Ids = {"n1","n2","n3","n4","n5"}
  Bk <- BkA
  Buckets = {1,2}
  IPs = {"a1","a2","b1","l1"}
  Subnet <- SubA
  LAN = {"l1"}
  Seqs = {1}
  BS = 2
  MR = 1
  BIL = 1
  TIL = 2
  MaxFails = 2
  MinBkt = 1
  MaxGen = 0
  MaxChecks = 1
  Ops = {"add","delete"}
  Devs = {}
VIEW view
INVARIANTS SizeBounds Unique RightBucket IPLimits ListConsistent RecConsistent
PROPERTIES NoEvictionByNewcomer FullBucketKeepsEntries RemovalHasCause Succession RecordVersioning EndpointClearsLive
CHECK_DEADLOCK FALSE
