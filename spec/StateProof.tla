------------------------------ MODULE StateProof ------------------------------
(* C13 - state content is accepted only with a hash-linked proof down to the state root.          *)
(*                                                                                                *)
(* Symbolic Merkle-Patricia tries over the nibble alphabet {0,1}: 1..3 keys of 3 nibbles, every    *)
(* leaf value small or big, so that every shape occurs (single leaf, branch, extension + branch,   *)
(* non-root extension, embedded small leaves / branches / extensions).  Nodes are hash TERMS, every  *)
(* term is a tuple whose first element is a tag string:                                            *)
(*     node  ::= <<"leaf", key, val>> | <<"ext", key, ref>> | <<"br", <<ref, ref>>>> | <<"raw", i>> *)
(*     ref   ::= <<"h", node>>  (Keccak of the node's encoding - a free, injective constructor)     *)
(*             | <<"e", node>>  (node embedded in its parent: encoding shorter than 32 bytes)      *)
(*             | <<"nil">>                                                                         *)
(*     val   ::= <<"v", "S"|"B", i>> | <<"acct", storageRoot ref, <<"ch", i>>>> | <<"h", node>>    *)
(* (the last form is a storage value whose 32 bytes happen to be the hash of a node - an attacker   *)
(* controls the values of his own contract).                                                       *)
(*                                                                                                *)
(* Two independent formulations:                                                                   *)
(*   Walk / AcceptNode / LookupAcc  - code shaped, transcribed from state/validation.go            *)
(*        (validateTrieProof, validateNodeTrieProof, validateAccountState) and state/trie/utils.go *)
(*        (TraverseTrieNode); Put from state/storage.go.                                           *)
(*   NodeAtT / ValueAtT             - the specification's own recursive descent through the trie    *)
(*        term that the header's state root commits to.                                            *)
(* Property (soundness only):  Accept => the proof's last node IS the node at the key's path under *)
(* the named header's root and hashes to the key's hash (bytecode: the account at the address has  *)
(* the key's code hash and the code hashes to it); what is stored is that node / code only; a      *)
(* rejection is an error value, never a panic.                                                     *)
(*                                                                                                *)
(* The case space is the honest proof of every node of every trie under a mutation catalogue       *)
(* (drop / duplicate / swap / replace node i by any node of this or two other tries or a crafted    *)
(* node / append / prepend; path truncate / extend / flip; key hash of any other node; other or     *)
(* unknown header; combinations that re-target consistently on two of the three coordinates).      *)
(* Devs switches named deviations: the first group are hypothetical wrong variants (each must      *)
(* violate a property: non-vacuity), the second group is what the code does today.                 *)
EXTENDS Integers, Sequences, FiniteSets, TLC, Json

CONSTANTS Devs,      \* subset of DevNames
          AllKeys,   \* TRUE: every set of 1..3 keys; FALSE: only those containing <<0,0,0>> (the rest are nibble-flip images)
          AllSmall,  \* TRUE: every subset of the keys has small values; FALSE: none, all, the first key only, all but the first
          Kinds,     \* subset of {"atn", "cstn", "acct", "code", "vref"}
          Emit       \* TRUE: print every case as <<"CASE", json>>

DevNames == {"NoRootCheck", "NoLinkCheck", "NoPathConsumed", "NoLastHash", "NoCodeHash", "NoAcctCodeHash", "NoAcctCodeHashIfEmpty", "StoreFirst",
             "LeafValueAsRef", "ShortPathPanics", "EmptyKeyPanics", "EmptyProofPutPanics"}
ASSUME Devs \subseteq DevNames
Dev(d) == d \in Devs

\* ---------------------------------------------------------------------------------------------
\* sequences
Drop(s, n) == SubSeq(s, n + 1, Len(s))
Take(s, n) == SubSeq(s, 1, n)
Pfx(a, b)  == Len(a) <= Len(b) /\ SubSeq(b, 1, Len(a)) = a
LastOf(s)  == s[Len(s)]
Rng(s)     == {s[i] : i \in 1..Len(s)}
RemoveAt(s, i)    == Take(s, i - 1) \o Drop(s, i)
InsertAt(s, i, x) == Take(s, i - 1) \o <<x>> \o Drop(s, i - 1)     \* x becomes element i
ReplaceAt(s, i, x) == [s EXCEPT ![i] = x]
Swap(s, i, j)     == [s EXCEPT ![i] = s[j], ![j] = s[i]]

\* ---------------------------------------------------------------------------------------------
\* terms
Nil        == <<"nil">>
H(n)       == <<"h", n>>
Emb(n)     == <<"e", n>>
Leaf(k, v) == <<"leaf", k, v>>
Ext(k, r)  == <<"ext", k, r>>
Br(r0, r1) == <<"br", <<r0, r1>>>>
Raw(i)     == <<"raw", i>>
None       == <<"none">>

\* Encoded sizes in bytes, mirroring RLP for a 16-ary branch with two usable slots (the harness builds
\* exactly these encodings): a reference is embedded iff the child's encoding is shorter than 32 bytes.
KeySz(n) == IF n <= 1 THEN 1 ELSE 2 + (n \div 2)
ValSz(v) == CASE v[1] = "v"    -> (IF v[2] = "S" THEN 1 ELSE 34)
              [] v[1] = "acct" -> 72
              [] OTHER         -> 33
Wrap(p)  == IF p <= 55 THEN p + 1 ELSE p + 2
RECURSIVE Size(_)
RefSz(r) == CASE r[1] = "nil" -> 1 [] r[1] = "h" -> 33 [] OTHER -> Size(r[2])
Size(n)  == CASE n[1] = "leaf" -> Wrap(KeySz(Len(n[2])) + ValSz(n[3]))
              [] n[1] = "ext"  -> Wrap(KeySz(Len(n[2])) + RefSz(n[3]))
              [] n[1] = "br"   -> Wrap(RefSz(n[2][1]) + RefSz(n[2][2]) + 15)
              [] OTHER         -> 40
Ref(n)   == IF Size(n) < 32 THEN Emb(n) ELSE H(n)

\* Trie construction from a non-empty set of <<remaining key, value>> pairs (keys of equal length).
CommonLen(K) == LET Shared(n) == \A a, b \in K : Len(a) >= n /\ Len(b) >= n /\ Take(a, n) = Take(b, n) IN
                CHOOSE n \in 0..3 : Shared(n) /\ (n = 3 \/ ~Shared(n + 1))
RECURSIVE Build(_), Child(_, _)
Build(S) ==
  IF Cardinality(S) = 1 THEN LET x == CHOOSE y \in S : TRUE IN Leaf(x[1], x[2])
  ELSE LET n == CommonLen({x[1] : x \in S}) IN
       IF n > 0 THEN LET k == (CHOOSE y \in S : TRUE)[1] IN Ext(Take(k, n), Ref(Build({<<Drop(x[1], n), x[2]>> : x \in S})))
       ELSE Br(Child(S, 0), Child(S, 1))
Child(S, b) == LET Sb == {x \in S : x[1][1] = b} IN
               IF Sb = {} THEN Nil ELSE Ref(Build({<<Tail(x[1]), x[2]>> : x \in Sb}))

\* ---------------------------------------------------------------------------------------------
\* The specification's own reading of a trie: the node / the value at a path below a node.
RECURSIVE NodeAtT(_, _), ValueAtT(_, _), Positions(_, _), Boundaries(_, _, _)
NodeAtT(n, p) ==
  IF p = <<>> THEN n
  ELSE CASE n[1] = "br"  -> LET r == n[2][p[1] + 1] IN IF r = Nil THEN None ELSE NodeAtT(r[2], Tail(p))
         [] n[1] = "ext" -> IF n[2] # <<>> /\ Pfx(n[2], p) /\ n[3] # Nil THEN NodeAtT(n[3][2], Drop(p, Len(n[2]))) ELSE None
         [] OTHER        -> None
ValueAtT(n, p) ==
  CASE n[1] = "leaf" -> IF n[2] = p THEN n[3] ELSE None
    [] n[1] = "br"   -> IF p = <<>> THEN None ELSE LET r == n[2][p[1] + 1] IN IF r = Nil THEN None ELSE ValueAtT(r[2], Tail(p))
    [] n[1] = "ext"  -> IF n[2] # <<>> /\ Pfx(n[2], p) /\ n[3] # Nil THEN ValueAtT(n[3][2], Drop(p, Len(n[2]))) ELSE None
    [] OTHER         -> None
\* positions (paths from the root at node boundaries) of all nodes below n, n itself at pre
Positions(n, pre) ==
  {pre} \cup CASE n[1] = "br"  -> UNION {IF n[2][b + 1] = Nil THEN {} ELSE Positions(n[2][b + 1][2], Append(pre, b)) : b \in {0, 1}}
               [] n[1] = "ext" -> IF n[3] = Nil \/ n[3][1] \notin {"h", "e"} THEN {} ELSE Positions(n[3][2], pre \o n[2])
               [] OTHER        -> {}
\* node boundaries on the way from n (at pre) down to the node at pre \o rest
Boundaries(n, pre, rest) ==
  IF rest = <<>> THEN <<pre>>
  ELSE <<pre>> \o CASE n[1] = "br"  -> Boundaries(n[2][rest[1] + 1][2], Append(pre, rest[1]), Tail(rest))
                    [] n[1] = "ext" -> Boundaries(n[3][2], pre \o n[2], Drop(rest, Len(n[2])))
                    [] OTHER        -> <<>>
\* is the node at position q (q # <<>>) referenced by hash from its parent?  (the root always is)
RECURSIVE RefTo(_, _)
RefTo(n, p) ==     \* the reference through which position p (non-empty, valid) is reached from n
  CASE n[1] = "br"  -> IF Len(p) = 1 THEN n[2][p[1] + 1] ELSE RefTo(n[2][p[1] + 1][2], Tail(p))
    [] n[1] = "ext" -> IF Len(p) = Len(n[2]) THEN n[3] ELSE RefTo(n[3][2], Drop(p, Len(n[2])))
    [] OTHER        -> Nil
HashedAt(root, q) == q = <<>> \/ RefTo(root, q)[1] = "h"

\* ---------------------------------------------------------------------------------------------
\* Code-shaped formulation.  Results: <<"ok", x, rest>> | <<"err", why>> | <<"panic", site>>.
Err(w)   == <<"err", w>>
Panic(w) == <<"panic", w>>
IsOk(r)  == r[1] = "ok"

\* TraverseTrieNode(node, path): the reference of the next separately-hashed node along the path and
\* the path that remains.  Embedded children are descended into within the same step.
\* Today's code returns a leaf's VALUE from the same function (deviation LeafValueAsRef), indexes the
\* path without a length check in the extension case (ShortPathPanics) and takes Key[len-1] of an
\* empty key (EmptyKeyPanics).
RECURSIVE Step(_, _)
Follow(r, rest) == CASE r[1] = "h" -> <<"ok", r, rest>>
                     [] r[1] = "e" -> Step(r[2], rest)
                     [] OTHER      -> Err("no child")
Step(n, p) ==
  CASE n[1] = "br"   -> IF p = <<>> THEN Err("path empty in branch") ELSE Follow(n[2][p[1] + 1], Tail(p))
    [] n[1] = "ext"  -> IF n[2] = <<>> THEN (IF Dev("EmptyKeyPanics") THEN Panic("emptykey") ELSE Err("empty extension key"))
                        ELSE IF Pfx(n[2], p) THEN Follow(n[3], Drop(p, Len(n[2])))
                        ELSE IF Dev("ShortPathPanics") /\ Len(p) < Len(n[2]) /\ Pfx(p, n[2]) THEN Panic("shortpath")
                        ELSE Err("different extension prefix")
    [] n[1] = "leaf" -> IF Dev("LeafValueAsRef")
                        THEN (IF n[2] # p THEN Err("different leaf prefix") ELSE <<"ok", n[3], p>>)
                        ELSE Err("leaf has no child")
    [] OTHER         -> Err("undecodable node")

\* value lookup inside the last proof node (validateAccountState's final TraverseTrieNode call)
RECURSIVE Lookup(_, _)
Lookup(n, p) ==
  CASE n[1] = "leaf" -> IF n[2] = p THEN <<"ok", n[3], <<>>>> ELSE Err("different leaf prefix")
    [] n[1] = "br"   -> IF p = <<>> THEN Err("path empty in branch")
                        ELSE LET r == n[2][p[1] + 1] IN
                             CASE r[1] = "e" -> Lookup(r[2], Tail(p)) [] r[1] = "h" -> <<"ok", r, Tail(p)>> [] OTHER -> Err("no child")
    [] n[1] = "ext"  -> IF n[2] = <<>> THEN (IF Dev("EmptyKeyPanics") THEN Panic("emptykey") ELSE Err("empty extension key"))
                        ELSE IF Pfx(n[2], p) THEN
                             CASE n[3][1] = "e" -> Lookup(n[3][2], Drop(p, Len(n[2]))) [] n[3][1] = "h" -> <<"ok", n[3], Drop(p, Len(n[2]))>> [] OTHER -> Err("no child")
                        ELSE IF Dev("ShortPathPanics") /\ Len(p) < Len(n[2]) /\ Pfx(p, n[2]) THEN Panic("shortpath")
                        ELSE Err("different extension prefix")
    [] OTHER         -> Err("undecodable node")

\* validateTrieProof(rootHash, path, proof) -> <<"ok", last node, remaining path>>
RECURSIVE WalkFrom(_, _, _)
WalkFrom(node, rem, rest) ==      \* node already hash-checked; rest = the proof nodes after it
  IF rest = <<>> THEN <<"ok", node, rem>>
  ELSE LET s == Step(node, rem) IN
       IF ~IsOk(s) THEN s
       ELSE IF ~Dev("NoLinkCheck") /\ H(rest[1]) # s[2] THEN Err("node hash is not equal")
       ELSE WalkFrom(rest[1], s[3], Tail(rest))
Walk(rootHash, path, proof) ==
  IF proof = <<>> THEN Err("proof should not be empty")
  ELSE IF ~Dev("NoRootCheck") /\ H(proof[1]) # rootHash THEN Err("node hash is not equal")
  ELSE WalkFrom(proof[1], path, Tail(proof))

\* validateNodeTrieProof
AcceptNode(rootHash, path, keyHash, proof) ==
  LET w == Walk(rootHash, path, proof) IN
  IF ~IsOk(w) THEN w
  ELSE IF ~Dev("NoPathConsumed") /\ w[3] # <<>> THEN Err("path is too long")
  ELSE IF ~Dev("NoLastHash") /\ H(w[2]) # keyHash THEN Err("node hash is not equal")
  ELSE <<"ok", w[2], <<>>>>

\* validateAccountState -> <<"ok", account value, <<>>>>
LookupAcc(rootHash, addr, proof) ==
  LET w == Walk(rootHash, addr, proof) IN
  IF ~IsOk(w) THEN w
  ELSE LET v == Lookup(w[2], w[3]) IN
       IF ~IsOk(v) THEN v
       ELSE IF v[2][1] # "acct" THEN Err("not an account")
       ELSE <<"ok", v[2], <<>>>>

\* Storage.Put: <<"ok", stored term, <<>>>> | err | panic
PutNode(keyHash, proof) ==
  IF proof = <<>> THEN (IF Dev("EmptyProofPutPanics") THEN Panic("emptyproof") ELSE Err("empty proof"))
  ELSE IF ~Dev("NoLastHash") /\ H(LastOf(proof)) # keyHash THEN Err("hash of the trie node doesn't match")
  ELSE <<"ok", IF Dev("StoreFirst") THEN proof[1] ELSE LastOf(proof), <<>>>>
PutCode(keyHash, code) ==
  IF ~Dev("NoCodeHash") /\ <<"ch", code>> # keyHash THEN Err("hash of the contract byte doesn't match") ELSE <<"ok", <<"code", code>>, <<>>>>

\* ---------------------------------------------------------------------------------------------
\* Worlds.  A trie descriptor is [keys, small, x]: the key set, the keys with small values and, for
\* x > 0, the crafted node whose hash is the value of the first key (storage tries only).
Keys3   == {<<a, b, c>> : a \in {0, 1}, b \in {0, 1}, c \in {0, 1}}
KeyNum(k) == 4 * k[1] + 2 * k[2] + k[3]
FirstKey(K) == CHOOSE k \in K : \A j \in K : KeyNum(k) <= KeyNum(j)
KeySets == {K \in SUBSET Keys3 : Cardinality(K) \in 1..3 /\ (AllKeys \/ <<0, 0, 0>> \in K)}
OtherShape(K) == IF Cardinality(K) > 1 THEN K \ {FirstKey(K)}
                 ELSE K \cup {IF <<1, 1, 1>> \in K THEN <<0, 0, 0>> ELSE <<1, 1, 1>>}

Y0 == Raw(7)                               \* arbitrary bytes that are claimed to be a trie node
SVal(k, small, salt) == <<"v", IF k \in small THEN "S" ELSE "B", KeyNum(k) + salt>>
StorTrie(K, small, saltFirst) ==
  Build({<<k, SVal(k, small, IF k = FirstKey(K) THEN saltFirst ELSE 0)>> : k \in K})
\* a fixed two-leaf storage trie per account of an account trie under test
TinyStor(i) == Build({<<<<0, 0, 0>>, <<"v", "B", 20 + i>>>>, <<<<1, 0, 0>>, <<"v", "B", 40 + i>>>>})
AVal(k, salt) == <<"acct", H(TinyStor(KeyNum(k) + salt)), <<"ch", KeyNum(k) + salt>>>>
AcctTrie(K, saltFirst) == Build({<<k, AVal(k, IF k = FirstKey(K) THEN saltFirst ELSE 0)>> : k \in K})

\* remaining key of the leaf that holds key k in the trie rooted at n
RECURSIVE LeafRem(_, _)
LeafRem(n, k) == CASE n[1] = "leaf" -> n[2]
                   [] n[1] = "br"   -> LeafRem(n[2][k[1] + 1][2], Tail(k))
                   [] n[1] = "ext"  -> LeafRem(n[3][2], Drop(k, Len(n[2])))
                   [] OTHER         -> <<>>
XNode(x, rem) == CASE x = 1 -> Ext(rem, H(Y0))                     \* an "extension" below a leaf, spelling the leaf's own key
                   [] x = 2 -> Ext(<<>>, H(Y0))                    \* extension with an empty key
                   [] OTHER -> Ext(rem \o <<0>>, H(Y0))            \* extension longer than the remaining path
VrefTrie(K, small, x) ==
  LET k0 == FirstKey(K)
      probe == Build({<<k, IF k = k0 THEN H(Raw(0)) ELSE SVal(k, small, 0)>> : k \in K})
      xn == XNode(x, LeafRem(probe, k0)) IN
  Build({<<k, IF k = k0 THEN H(xn) ELSE SVal(k, small, 0)>> : k \in K})
VrefX(K, small, x) ==
  LET k0 == FirstKey(K)
      probe == Build({<<k, IF k = k0 THEN H(Raw(0)) ELSE SVal(k, small, 0)>> : k \in K}) IN
  XNode(x, LeafRem(probe, k0))

A0 == <<0, 0, 0>>    A1 == <<1, 1, 0>>      \* the two accounts of the fixed account trie used by storage-trie cases
\* crafted nodes, never part of an honest trie (refs <<"X", <<i>>>>)
Crafted(td) == << Raw(1), Ext(<<>>, H(Y0)), Leaf(<<>>, <<"v", "B", 99>>), Ext(<<0, 0, 0, 0>>, H(Y0)), Y0,
                  IF td.x > 0 THEN VrefX(td.keys, td.small, td.x) ELSE Raw(2) >>

World(kind, td) ==
  IF kind \in {"atn", "acct", "code"} THEN
     [A |-> AcctTrie(td.keys, 0), B |-> AcctTrie(td.keys, 8), C |-> AcctTrie(OtherShape(td.keys), 0),
      R |-> Raw(3), Q |-> Raw(3), X |-> Crafted(td)]
  ELSE
     LET a == IF td.x > 0 THEN VrefTrie(td.keys, td.small, td.x) ELSE StorTrie(td.keys, td.small, 0)
         b == StorTrie(td.keys, td.small, 8)
         c == StorTrie(OtherShape(td.keys), td.small \cap OtherShape(td.keys), 0) IN
     [A |-> a, B |-> b, C |-> c,
      R |-> Build({<<A0, <<"acct", H(a), <<"ch", 0>>>>>>, <<A1, <<"acct", H(b), <<"ch", 1>>>>>>}),
      Q |-> Build({<<A0, <<"acct", H(c), <<"ch", 0>>>>>>, <<A1, <<"acct", H(b), <<"ch", 1>>>>>>}),
      X |-> Crafted(td)]

\* references used in cases: <<"A"|"B"|"C"|"R"|"Q", position>> | <<"X", <<i>>>> | <<"J", <<>>>> (a hash with no known
\* preimage) | <<"U", <<>>>> (a block hash the header source does not know)
TrieNames == {"A", "B", "C", "R", "Q"}
Res(w, r) == IF r[1] \in TrieNames THEN NodeAtT(w[r[1]], r[2])
             ELSE IF r[1] = "X" THEN w.X[r[2][1]] ELSE Raw(1000)
ResSeq(w, s) == [i \in 1..Len(s) |-> Res(w, s[i])]
AllRefs(w, names) == UNION {{<<t, q>> : q \in Positions(w[t], <<>>)} : t \in names}
XRefs == {<<"X", <<i>>>> : i \in 1..5}
RootHash(w, bh) == H(Res(w, bh))

\* the claim for the node at position q of trie t: the separately hashed nodes on the way down, the node
\* itself last (also when it is embedded - then no honest proof exists and the claim must be rejected)
ClaimProof(w, t, q) ==
  LET b == Boundaries(w[t], <<>>, q) IN
  LET keep == {i \in 1..Len(b) : i = Len(b) \/ HashedAt(w[t], b[i])} IN
  LET RECURSIVE F(_)
      F(i) == IF i > Len(b) THEN <<>> ELSE (IF i \in keep THEN <<<<t, b[i]>>>> ELSE <<>>) \o F(i + 1) IN
  F(1)
\* honest account proof for address k in account trie t: the hashed nodes down to the one that holds the leaf
RECURSIVE LeafPos(_, _, _)
LeafPos(n, pre, k) == CASE n[1] = "leaf" -> pre
                        [] n[1] = "br"   -> LeafPos(n[2][k[1] + 1][2], Append(pre, k[1]), Tail(k))
                        [] n[1] = "ext"  -> LeafPos(n[3][2], pre \o n[2], Drop(k, Len(n[2])))
                        [] OTHER         -> pre
AcctProof(w, t, k) ==
  LET b == Boundaries(w[t], <<>>, LeafPos(w[t], <<>>, k)) IN
  LET RECURSIVE F(_)
      F(i) == IF i > Len(b) THEN <<>> ELSE (IF HashedAt(w[t], b[i]) THEN <<<<t, b[i]>>>> ELSE <<>>) \o F(i + 1) IN
  F(1)

\* ---------------------------------------------------------------------------------------------
\* Cases
SmallSets(K) == IF AllSmall THEN SUBSET K ELSE {{}, K, {FirstKey(K)}, K \ {FirstKey(K)}}
\* (vref tries: the first key carries the crafted value, any subset of the others is small)

TDs(kind) == IF kind \in {"atn", "acct", "code"}
             THEN {[keys |-> K, small |-> {}, x |-> 0] : K \in KeySets}
             ELSE IF kind = "cstn" THEN UNION {{[keys |-> K, small |-> s, x |-> 0] : s \in SmallSets(K)} : K \in KeySets}
             ELSE UNION {{[keys |-> K, small |-> s, x |-> x] : s \in SUBSET (K \ {FirstKey(K)}), x \in 1..3} : K \in KeySets}

NoMut == [op |-> "honest", i |-> 0, j |-> 0, r |-> <<"J", <<>>>>]
Mut(op, i, j, r) == [op |-> op, i |-> i, j |-> j, r |-> r]

\* seed: the honest (or embedded-target) claim
Seed(kind, td, q, k) ==
  LET w == World(kind, td) IN
  CASE kind = "atn" ->
         [kind |-> kind, td |-> td, tgt |-> q, mut |-> NoMut, bh |-> <<"A", <<>>>>, path |-> q, kh |-> <<"A", q>>,
          proof |-> ClaimProof(w, "A", q), addr |-> <<>>, aproof |-> <<>>, code |-> 0]
    [] kind \in {"cstn", "vref"} ->
         [kind |-> kind, td |-> td, tgt |-> q, mut |-> NoMut, bh |-> <<"R", <<>>>>, path |-> q, kh |-> <<"A", q>>,
          proof |-> ClaimProof(w, "A", q), addr |-> A0, aproof |-> AcctProof(w, "R", A0), code |-> 0]
    [] kind = "acct" ->       \* storage-trie item whose ACCOUNT proof is under test; storage part: first leaf of the tiny trie
         [kind |-> kind, td |-> td, tgt |-> k, mut |-> NoMut, bh |-> <<"A", <<>>>>, path |-> <<0>>, kh |-> <<"S", <<0>>>>,
          proof |-> <<<<"S", <<>>>>, <<"S", <<0>>>>>>, addr |-> k, aproof |-> AcctProof(w, "A", k), code |-> 0]
    [] OTHER ->               \* "code"
         [kind |-> kind, td |-> td, tgt |-> k, mut |-> NoMut, bh |-> <<"A", <<>>>>, path |-> <<>>, kh |-> <<"K", <<KeyNum(k)>>>>,
          proof |-> <<>>, addr |-> k, aproof |-> AcctProof(w, "A", k), code |-> KeyNum(k)]

Seeds == UNION {
           IF kind \in {"atn", "cstn", "vref"}
           THEN UNION {{Seed(kind, td, q, <<>>) : q \in Positions(World(kind, td).A, <<>>)} : td \in TDs(kind)}
           ELSE UNION {{Seed(kind, td, <<>>, k) : k \in td.keys} : td \in TDs(kind)}
         : kind \in Kinds}

VARIABLES ph, w, c
vars == <<ph, w, c>>

\* "S" refs (kind acct): nodes of the tiny storage trie of the seed's account (tgt = the account key, salt 0)
ResC(cc, r)    == IF r[1] = "S" THEN NodeAtT(TinyStor(KeyNum(cc.tgt)), r[2])
                  ELSE IF r[1] = "K" THEN <<"ch", r[2][1]>> ELSE Res(w, r)
ResSeqC(cc, s) == [i \in 1..Len(s) |-> ResC(cc, s[i])]
HashOf(cc, r)  == IF r[1] = "K" THEN <<"ch", r[2][1]>> ELSE IF r[1] = "J" THEN H(Raw(1001)) ELSE H(ResC(cc, r))

\* which proof the node-level mutations apply to
NodeKinds == {"atn", "cstn"}
Prf(cc)   == IF cc.kind \in NodeKinds THEN cc.proof ELSE cc.aproof
WithPrf(cc, p) == IF cc.kind \in NodeKinds THEN [cc EXCEPT !.proof = p] ELSE [cc EXCEPT !.aproof = p]
Universe(cc) == (IF cc.kind = "cstn" THEN AllRefs(w, {"A", "B", "C", "R"}) ELSE AllRefs(w, {"A", "B", "C"})) \cup XRefs

Mutations(cc) ==
  LET P == Prf(cc)  n == Len(P)  U == Universe(cc) IN
     {[cc EXCEPT !.mut = NoMut]}
  \cup {[WithPrf(cc, RemoveAt(P, i)) EXCEPT !.mut = Mut("drop", i, 0, <<"J", <<>>>>)] : i \in 1..n}
  \cup {[WithPrf(cc, InsertAt(P, i, P[i])) EXCEPT !.mut = Mut("dup", i, 0, <<"J", <<>>>>)] : i \in 1..n}
  \cup {[WithPrf(cc, Swap(P, ij[1], ij[2])) EXCEPT !.mut = Mut("swap", ij[1], ij[2], <<"J", <<>>>>)] : ij \in {x \in (1..n) \X (1..n) : x[1] < x[2]}}
  \cup {[WithPrf(cc, ReplaceAt(P, ir[1], ir[2])) EXCEPT !.mut = Mut("repl", ir[1], 0, ir[2])] : ir \in {x \in (1..n) \X U : x[2] # P[x[1]]}}
  \cup {[WithPrf(cc, Append(P, r)) EXCEPT !.mut = Mut("append", 0, 0, r)] : r \in U}
  \cup {[WithPrf(cc, <<r>> \o P) EXCEPT !.mut = Mut("prepend", 0, 0, r)] : r \in U}
  \cup {[cc EXCEPT !.bh = <<t, <<>>>>, !.mut = Mut("header", 0, 0, <<t, <<>>>>)] : t \in (IF cc.kind = "cstn" THEN {"Q", "U"} ELSE {"B", "C", "U"})}
  \cup (IF cc.kind \in NodeKinds THEN
          {[cc EXCEPT !.path = Take(cc.path, l), !.mut = Mut("trunc", l, 0, <<"J", <<>>>>)] : l \in 0..(Len(cc.path) - 1)}
     \cup {[cc EXCEPT !.path = Append(cc.path, b), !.mut = Mut("extend", b, 0, <<"J", <<>>>>)] : b \in {0, 1}}
     \cup {[cc EXCEPT !.path = [cc.path EXCEPT ![i] = 1 - cc.path[i]], !.mut = Mut("flip", i, 0, <<"J", <<>>>>)] : i \in 1..Len(cc.path)}
     \cup {[cc EXCEPT !.kh = r, !.mut = Mut("keyhash", 0, 0, r)] : r \in (U \cup {<<"J", <<>>>>}) \ {cc.kh}}
        \* consistent on two coordinates, stale on the third
     \cup (IF n > 1 THEN {[WithPrf(cc, Take(P, n - 1)) EXCEPT !.kh = P[n - 1], !.mut = Mut("drop+keyhash", n, 0, <<"J", <<>>>>)]} ELSE {})
     \cup {[WithPrf(cc, Take(P, n - 1)) EXCEPT !.path = Take(cc.path, l), !.mut = Mut("drop+trunc", n, l, <<"J", <<>>>>)] : l \in 0..(Len(cc.path) - 1)}
     \cup (IF n > 0 THEN {[WithPrf(cc, ReplaceAt(P, n, r)) EXCEPT !.kh = r, !.mut = Mut("repl+keyhash", n, 0, r)] : r \in U \ {P[n]}} ELSE {})
     \cup {[cc EXCEPT !.path = Take(cc.path, l), !.kh = r, !.mut = Mut("trunc+keyhash", l, 0, r)] : l \in 0..(Len(cc.path) - 1), r \in Rng(P) \ {cc.kh}}
     \cup (IF cc.kind = "cstn" THEN     \* the other account (its storage trie is B), with its own or with the first account's proof
             {[cc EXCEPT !.addr = A1, !.aproof = AcctProof(w, "R", A1), !.mut = Mut("account", 1, 1, <<"J", <<>>>>)],
              [cc EXCEPT !.addr = A1, !.mut = Mut("account", 1, 0, <<"J", <<>>>>)],
              [cc EXCEPT !.aproof = AcctProof(w, "R", A1), !.mut = Mut("account", 0, 1, <<"J", <<>>>>)],
              [cc EXCEPT !.aproof = <<>>, !.mut = Mut("account", 0, 2, <<"J", <<>>>>)],
              [cc EXCEPT !.bh = <<"Q", <<>>>>, !.aproof = AcctProof(w, "Q", A0), !.mut = Mut("header+account", 0, 0, <<"Q", <<>>>>)]}
           ELSE {})
        ELSE
          {[cc EXCEPT !.addr = [cc.addr EXCEPT ![i] = 1 - cc.addr[i]], !.mut = Mut("flip", i, 0, <<"J", <<>>>>)] : i \in 1..Len(cc.addr)}
     \cup (IF cc.kind = "code" THEN
             {[cc EXCEPT !.kh = <<"K", <<i>>>>, !.mut = Mut("keyhash", i, 0, <<"J", <<>>>>)] : i \in (0..7) \ {cc.kh[2][1]}}
        \cup {[cc EXCEPT !.code = i, !.mut = Mut("code", i, 0, <<"J", <<>>>>)] : i \in (0..7) \ {cc.code}}
        \cup {[cc EXCEPT !.code = i, !.kh = <<"K", <<i>>>>, !.mut = Mut("code+keyhash", i, 0, <<"J", <<>>>>)] : i \in (0..7) \ {cc.code}}
           ELSE
             {[cc EXCEPT !.kh = r, !.mut = Mut("keyhash", 0, 0, r)] : r \in {<<"S", <<>>>>, <<"S", <<1>>>>, <<"J", <<>>>>}}
        \cup {[cc EXCEPT !.path = <<1>>, !.mut = Mut("flip", 1, 0, <<"J", <<>>>>)],
              [cc EXCEPT !.proof = <<>>, !.mut = Mut("drop", 0, 0, <<"J", <<>>>>)]}))

\* the attacker's proofs through a leaf whose value is the hash of a crafted node (kind vref; the target is the leaf)
VrefCases(cc) ==
  LET k0 == FirstKey(cc.td.keys)  X6 == <<"X", <<6>>>>  Y == <<"X", <<5>>>> IN
  IF Res(w, cc.kh)[1] # "leaf" \/ cc.path \o Res(w, cc.kh)[2] # k0 THEN {}
  ELSE {[cc EXCEPT !.proof = cc.proof \o <<X6, Y>>, !.path = k0, !.kh = Y, !.mut = Mut("vref-through", cc.td.x, 0, Y)],
        [cc EXCEPT !.proof = cc.proof \o <<X6, Y>>, !.path = k0 \o <<0>>, !.kh = Y, !.mut = Mut("vref-through+extend", cc.td.x, 0, Y)],
        [cc EXCEPT !.proof = cc.proof \o <<X6>>, !.path = k0, !.kh = X6, !.mut = Mut("vref-stop", cc.td.x, 0, X6)],
        [cc EXCEPT !.proof = cc.proof \o <<X6>>, !.path = cc.path, !.kh = X6, !.mut = Mut("vref-stop-short", cc.td.x, 0, X6)],
        [cc EXCEPT !.mut = NoMut]}

\* a header whose state root is not a trie at all (only a lying header source can produce it)
RootCases(cc) ==
  IF cc.kind # "atn" \/ cc.tgt # <<>> THEN {}
  ELSE {[cc EXCEPT !.bh = <<"X", <<i>>>>, !.proof = <<<<"X", <<i>>>>, <<"X", <<5>>>>>>, !.path = p, !.kh = <<"X", <<5>>>>,
           !.mut = Mut("craftedroot", i, Len(p), <<"X", <<i>>>>)] : i \in {2, 3, 4}, p \in {<<>>, <<0>>, <<0, 0, 0, 0>>}}
   \cup {[cc EXCEPT !.bh = <<"X", <<i>>>>, !.proof = <<<<"X", <<i>>>>>>, !.path = <<>>, !.kh = <<"X", <<i>>>>,
           !.mut = Mut("craftedroot", i, 9, <<"X", <<i>>>>)] : i \in {1, 2, 3, 4}}

\* ---------------------------------------------------------------------------------------------
\* Outcome of a case (code-shaped formulation) and what soundness demands (independent formulation)
Validate(cc) ==
  LET root == IF cc.bh[1] = "U" THEN None ELSE H(ResC(cc, cc.bh)) IN
  IF root = None THEN Err("unknown header")
  ELSE CASE cc.kind = "atn" -> AcceptNode(root, cc.path, HashOf(cc, cc.kh), ResSeqC(cc, cc.proof))
         [] cc.kind = "code" ->
              LET a == LookupAcc(root, cc.addr, ResSeqC(cc, cc.aproof)) IN
              IF ~IsOk(a) THEN a
              \* code 0 plays the empty code (the account at key 000 is the account "without code"); deviation NoAcctCodeHashIfEmpty:
              \* the comparison is skipped for such an account, so any code can be claimed for it (sweep mutant H2/15-C13)
              ELSE IF ~Dev("NoAcctCodeHash") /\ ~(Dev("NoAcctCodeHashIfEmpty") /\ a[2][3] = <<"ch", 0>>) /\ a[2][3] # HashOf(cc, cc.kh)
                   THEN Err("account state is invalid") ELSE a
         [] OTHER ->
              LET a == LookupAcc(root, cc.addr, ResSeqC(cc, cc.aproof)) IN
              IF ~IsOk(a) THEN a ELSE AcceptNode(a[2][2], cc.path, HashOf(cc, cc.kh), ResSeqC(cc, cc.proof))
Put(cc) == IF cc.kind = "code" THEN PutCode(HashOf(cc, cc.kh), cc.code) ELSE PutNode(HashOf(cc, cc.kh), ResSeqC(cc, cc.proof))

Class(r)     == IF r[1] = "ok" THEN "ok" ELSE r[1]
Accepted(cc) == IsOk(Validate(cc)) /\ IsOk(Put(cc))

\* the property's right-hand side, from the case alone with the specification's own trie reading
SoundCond(cc) ==
  /\ cc.bh[1] # "U"
  /\ LET rootNode == ResC(cc, cc.bh) IN
     CASE cc.kind = "atn" ->
            /\ cc.proof # <<>>
            /\ NodeAtT(rootNode, cc.path) = ResC(cc, LastOf(cc.proof))
            /\ H(ResC(cc, LastOf(cc.proof))) = HashOf(cc, cc.kh)
       [] cc.kind = "code" ->
            LET a == ValueAtT(rootNode, cc.addr) IN
            /\ a[1] = "acct"
            /\ a[3] = HashOf(cc, cc.kh)
            /\ <<"ch", cc.code>> = HashOf(cc, cc.kh)
       [] OTHER ->
            LET a == ValueAtT(rootNode, cc.addr) IN
            /\ a[1] = "acct"
            /\ a[2][1] = "h"
            /\ cc.proof # <<>>
            /\ NodeAtT(a[2][2], cc.path) = ResC(cc, LastOf(cc.proof))
            /\ H(ResC(cc, LastOf(cc.proof))) = HashOf(cc, cc.kh)
FinalItem(cc) == IF cc.kind = "code" THEN <<"code", cc.code>> ELSE ResC(cc, LastOf(cc.proof))

\* an honest claim: unmutated, and the target is a separately hashed node (or an account / code)
Honest(cc) == cc.mut.op = "honest" /\ (cc.kind \in {"acct", "code"} \/ HashedAt(w.A, cc.tgt))

Init == /\ ph = "seed"
        /\ c \in Seeds
        /\ w = World(c.kind, c.td)
Next == /\ ph = "seed"
        /\ ph' = "case"
        /\ w' = w
        /\ c' \in (IF c.kind = "vref" THEN VrefCases(c) ELSE Mutations(c) \cup RootCases(c))
Spec == Init /\ [][Next]_vars

\* ---- properties (evaluated on the "case" states) ----
Sound       == ph = "case" => (Accepted(c) => SoundCond(c))
NoPanic     == ph = "case" => (Validate(c)[1] # "panic" /\ Put(c)[1] # "panic")
StoredFinal == ph = "case" => (IsOk(Put(c)) => Put(c)[2] = FinalItem(c))
\* vacuity guard of the model itself: every honest claim is accepted (the design is not trivially sound)
HonestAccepted == ph = "case" => (Honest(c) => Accepted(c) /\ SoundCond(c))

Out(cc) == [kind |-> cc.kind, keys |-> cc.td.keys, small |-> cc.td.small, x |-> cc.td.x, tgt |-> cc.tgt,
            op |-> cc.mut.op, mi |-> cc.mut.i, mj |-> cc.mut.j, mr |-> cc.mut.r,
            bh |-> cc.bh, path |-> cc.path, kh |-> cc.kh, proof |-> cc.proof, addr |-> cc.addr, aproof |-> cc.aproof,
            code |-> cc.code, val |-> Class(Validate(cc)), put |-> Class(Put(cc)), snd |-> SoundCond(cc), hon |-> Honest(cc)]
EmitCase == (ph = "case" /\ Emit) => PrintT(<<"CASE", ToJson(Out(c))>>)
===============================================================================
