SPECIFICATION Spec
CONSTANTS
  N = 3
  Blk <- MCBlk3
  Devs = {"HashKeyCrop"}
INVARIANT TypeOK
INVARIANT Soundness
CHECK_DEADLOCK FALSE
