SPECIFICATION Spec
CONSTANTS
  Ids = {"n1","n2"}
  Bk <- BkL
  Buckets = {1}
  IPs = {"a1","l1"}
  Subnet <- SubA
  LAN = {"l1"}
  Seqs = {1,2}
  BS = 2
  MR = 1
  BIL = 1
  TIL = 2
  MaxFails = 2
  MinBkt = 1
  MaxGen = 0
  MaxChecks = 1
  Ops = {"add"}
  Devs = {"NoSeqCheck"}
VIEW view

PROPERTIES RecordVersioning
CHECK_DEADLOCK FALSE
