-------------------------------- MODULE Offer --------------------------------
(* OFFER / ACCEPT and the transfer slots (C09, C16): implementation-level specification of     *)
(* handleOffer, filterContentKeysV0/V1, the receive goroutine, handleOfferedContents on the     *)
(* accepting side and of GossipAndReturnPeers / offerWorker / offer / processOffer on the       *)
(* offering side, one action per step that other goroutines can interleave with.                *)
(* Deviations (each is, or was, the behaviour of the code):                                    *)
(*   "V0RateLimitedStillAccepts"  version-0 reply keeps its accept bits when no slot is free    *)
(*   "InflightMarkedLate"         keys are recorded as in flight inside the receive goroutine   *)
(*   "EarlyReturnLeaksPermit"     offer() returns before processOffer without releasing         *)
(*   "QueueFullLeaksPermit"       gossip drops a request on a full offer queue without release  *)
(*   "StopLeavesQueued"           requests still queued at shutdown keep their slot             *)
(*   "EndClearsOfferedKeys"       the end of a receive clears the in-flight mark of every OFFERED *)
(*                                key, also of keys another offer is still receiving (seed C09-1) *)
EXTENDS Integers, Sequences, FiniteSets, TLC

CONSTANTS Keys,        \* content keys
          InRangeK,    \* keys the in-range test admits
          Limit,       \* slots per direction
          Offers,      \* identifiers of inbound offers (each: a key sequence and a version)
          OfferKeys, OfferVer,
          OutReqs,     \* identifiers of outbound (gossip) requests
          QueueCap,    \* capacity of the offer queue
          Devs
Verd == {"acc", "range", "stored", "inflight", "limited", "declined"}

VARIABLES stored, inflight, inHeld,
          oPhase, oVerdicts, oAccepted, oCid, oPermit, oMarked,     \* inbound offers
          delivered,                                                 \* what reached the validation queue: set of <<offer, keys>>
          outHeld, rPhase, rPermit, offerQueue, stopped
vars == <<stored, inflight, inHeld, oPhase, oVerdicts, oAccepted, oCid, oPermit, oMarked, delivered,
          outHeld, rPhase, rPermit, offerQueue, stopped>>

Init == /\ stored \in SUBSET Keys /\ inflight = {} /\ inHeld = 0
        /\ oPhase = [o \in Offers |-> "new"] /\ oVerdicts = [o \in Offers |-> <<>>] /\ oAccepted = [o \in Offers |-> <<>>]
        /\ oCid = [o \in Offers |-> 0] /\ oPermit = [o \in Offers |-> "none"] /\ oMarked = [o \in Offers |-> FALSE]
        /\ delivered = {} /\ outHeld = 0 /\ rPhase = [r \in OutReqs |-> "new"] /\ rPermit = [r \in OutReqs |-> "none"]
        /\ offerQueue = <<>> /\ stopped = FALSE

\* ---- accepting side ----
Verdict(k, ver) == IF k \notin InRangeK THEN "range"
                   ELSE IF k \in stored THEN "stored"
                   ELSE IF ver = 1 /\ k \in inflight THEN "inflight"
                   ELSE "acc"
Filter(o) == [i \in 1..Len(OfferKeys[o]) |-> Verdict(OfferKeys[o][i], OfferVer[o])]
AccKeys(o, vs) == SelectSeq(OfferKeys[o], LAMBDA k : \E i \in 1..Len(vs) : OfferKeys[o][i] = k /\ vs[i] = "acc")
SeqSet(s) == {s[i] : i \in 1..Len(s)}

HandleOffer(o) ==
  /\ oPhase[o] = "new" /\ ~stopped
  /\ LET vs == Filter(o)  acc == AccKeys(o, vs) IN
     IF acc = <<>> THEN
        /\ oVerdicts' = [oVerdicts EXCEPT ![o] = vs] /\ oPhase' = [oPhase EXCEPT ![o] = "done"]
        /\ UNCHANGED <<inHeld, oAccepted, oCid, oPermit, oMarked, inflight>>
     ELSE IF inHeld < Limit THEN
        /\ inHeld' = inHeld + 1 /\ oPermit' = [oPermit EXCEPT ![o] = "held"]
        /\ oVerdicts' = [oVerdicts EXCEPT ![o] = vs] /\ oAccepted' = [oAccepted EXCEPT ![o] = acc]
        /\ oCid' = [oCid EXCEPT ![o] = 1] /\ oPhase' = [oPhase EXCEPT ![o] = "spawned"]
        /\ IF "InflightMarkedLate" \in Devs THEN UNCHANGED <<inflight, oMarked>>
           ELSE inflight' = inflight \cup SeqSet(acc) /\ oMarked' = [oMarked EXCEPT ![o] = TRUE]
     ELSE \* no slot
        /\ oVerdicts' = [oVerdicts EXCEPT ![o] =
              IF OfferVer[o] = 1 THEN [i \in 1..Len(vs) |-> "limited"]
              ELSE IF "V0RateLimitedStillAccepts" \in Devs THEN vs
              ELSE [i \in 1..Len(vs) |-> IF vs[i] = "acc" THEN "declined" ELSE vs[i]]]
        /\ oPhase' = [oPhase EXCEPT ![o] = "done"]
        /\ UNCHANGED <<inHeld, oAccepted, oCid, oPermit, oMarked, inflight>>
  /\ UNCHANGED <<stored, delivered, outHeld, rPhase, rPermit, offerQueue, stopped>>

\* the receive goroutine starts: (late) in-flight marking
\* deviation "ReleaseAtAccept" (seed C16-2): the slot goes back as soon as the peer has connected, the read is still to come
RecvStart(o) == /\ oPhase[o] = "spawned"
                /\ inflight' = inflight \cup SeqSet(oAccepted[o]) /\ oMarked' = [oMarked EXCEPT ![o] = TRUE]
                /\ oPhase' = [oPhase EXCEPT ![o] = "waiting"]
                /\ IF "ReleaseAtAccept" \in Devs THEN inHeld' = inHeld - 1 /\ oPermit' = [oPermit EXCEPT ![o] = "released"]
                   ELSE UNCHANGED <<inHeld, oPermit>>
                /\ UNCHANGED <<stored, oVerdicts, oAccepted, oCid, delivered, outHeld, rPhase, rPermit, offerQueue, stopped>>
\* the transfer ends one way or another; the slot goes back first
RecvOutcome(o, outcome) ==
   /\ oPhase[o] = "waiting"
   /\ IF oPermit[o] = "held" THEN inHeld' = inHeld - 1 /\ oPermit' = [oPermit EXCEPT ![o] = "released"]   \* release-once permit
      ELSE UNCHANGED <<inHeld, oPermit>>
   /\ delivered' = IF outcome = "ok" THEN delivered \cup {<<o, oAccepted[o]>>} ELSE delivered
   /\ oPhase' = [oPhase EXCEPT ![o] = "ending"]
   /\ UNCHANGED <<stored, inflight, oVerdicts, oAccepted, oCid, oMarked, outHeld, rPhase, rPermit, offerQueue, stopped>>
RecvEnd(o) == /\ oPhase[o] = "ending"
              /\ inflight' = inflight \ (IF "EndClearsOfferedKeys" \in Devs THEN SeqSet(OfferKeys[o]) ELSE SeqSet(oAccepted[o]))
              /\ oPhase' = [oPhase EXCEPT ![o] = "done"]
              /\ UNCHANGED <<stored, inHeld, oVerdicts, oAccepted, oCid, oPermit, oMarked, delivered, outHeld, rPhase, rPermit, offerQueue, stopped>>

\* ---- offering side (gossip path: takes a slot, queues the request, a worker sends it) ----
GossipTake(r) ==
   /\ rPhase[r] = "new" /\ ~stopped
   /\ IF outHeld >= Limit THEN rPhase' = [rPhase EXCEPT ![r] = "done"] /\ UNCHANGED <<outHeld, rPermit, offerQueue>>
      ELSE IF Len(offerQueue) >= QueueCap THEN
           /\ rPhase' = [rPhase EXCEPT ![r] = "done"] /\ UNCHANGED offerQueue
           /\ IF "QueueFullLeaksPermit" \in Devs THEN outHeld' = outHeld + 1 /\ rPermit' = [rPermit EXCEPT ![r] = "held"]
              ELSE UNCHANGED <<outHeld, rPermit>>                      \* taken and given back at once
      ELSE /\ outHeld' = outHeld + 1 /\ rPermit' = [rPermit EXCEPT ![r] = "held"]
           /\ offerQueue' = Append(offerQueue, r) /\ rPhase' = [rPhase EXCEPT ![r] = "queued"]
   /\ UNCHANGED <<stored, inflight, inHeld, oPhase, oVerdicts, oAccepted, oCid, oPermit, oMarked, delivered, stopped>>
WorkerTake == /\ offerQueue # <<>> /\ ~stopped
              /\ rPhase' = [rPhase EXCEPT ![Head(offerQueue)] = "sending"] /\ offerQueue' = Tail(offerQueue)
              /\ UNCHANGED <<stored, inflight, inHeld, oPhase, oVerdicts, oAccepted, oCid, oPermit, oMarked, delivered, outHeld, rPermit, stopped>>
Release(r) == outHeld' = outHeld - 1 /\ rPermit' = [rPermit EXCEPT ![r] = "released"]
\* outcome of offer(): "early" = marshal / TALKREQ error (silent peer), "reply" outcomes go through processOffer
OfferOutcome(r, outcome) ==
   /\ rPhase[r] = "sending"
   /\ CASE outcome = "early" ->
             /\ rPhase' = [rPhase EXCEPT ![r] = "done"]
             /\ IF "EarlyReturnLeaksPermit" \in Devs THEN UNCHANGED <<outHeld, rPermit>> ELSE Release(r)
        [] outcome \in {"empty", "wrongcode", "undecodable", "wrongcount", "declined"} ->
             /\ rPhase' = [rPhase EXCEPT ![r] = "done"] /\ Release(r)
        [] outcome = "accepted" ->      \* deviation "ReleaseAtTransferStart": the slot goes back when the transfer goroutine is spawned
             /\ rPhase' = [rPhase EXCEPT ![r] = "transfer"]
             /\ IF "ReleaseAtTransferStart" \in Devs THEN Release(r) ELSE UNCHANGED <<outHeld, rPermit>>
   /\ UNCHANGED <<stored, inflight, inHeld, oPhase, oVerdicts, oAccepted, oCid, oPermit, oMarked, delivered, offerQueue, stopped>>
\* the transfer goroutine ends: dial / write failure, success or shutdown - always through the deferred release
TransferEnd(r) == /\ rPhase[r] = "transfer" /\ rPhase' = [rPhase EXCEPT ![r] = "done"]
                  /\ IF rPermit[r] = "held" THEN Release(r) ELSE UNCHANGED <<outHeld, rPermit>>
                  /\ UNCHANGED <<stored, inflight, inHeld, oPhase, oVerdicts, oAccepted, oCid, oPermit, oMarked, delivered, offerQueue, stopped>>
Stop == /\ ~stopped /\ stopped' = TRUE
        /\ IF "StopLeavesQueued" \in Devs THEN UNCHANGED <<outHeld, rPermit, offerQueue, rPhase>>
           ELSE /\ outHeld' = outHeld - Len(offerQueue)
                /\ rPermit' = [r \in OutReqs |-> IF r \in SeqSet(offerQueue) THEN "released" ELSE rPermit[r]]
                /\ rPhase' = [r \in OutReqs |-> IF r \in SeqSet(offerQueue) THEN "done" ELSE rPhase[r]]
                /\ offerQueue' = <<>>
        /\ UNCHANGED <<stored, inflight, inHeld, oPhase, oVerdicts, oAccepted, oCid, oPermit, oMarked, delivered>>

Next == \/ \E o \in Offers : HandleOffer(o) \/ RecvStart(o) \/ RecvEnd(o) \/ \E oc \in {"ok", "lost", "miscount"} : RecvOutcome(o, oc)
        \/ \E r \in OutReqs : GossipTake(r) \/ TransferEnd(r)
              \/ \E oc \in {"early", "empty", "wrongcode", "undecodable", "wrongcount", "declined", "accepted"} : OfferOutcome(r, oc)
        \/ WorkerTake \/ Stop
Spec == Init /\ [][Next]_vars
Fair == Spec /\ WF_vars(Next)

----------------------------------------------------------------------------
\* ---- C09 ----
Replied(o) == oPhase[o] # "new"
OneVerdictPerKey == \A o \in Offers : Replied(o) => Len(oVerdicts[o]) = Len(OfferKeys[o])
AcceptJustified == \A o \in Offers : Replied(o) => \A i \in 1..Len(oVerdicts[o]) : oVerdicts[o][i] = "acc" =>
                        /\ OfferKeys[o][i] \in InRangeK /\ OfferKeys[o][i] \notin stored
                        /\ oPermit[o] # "none"
ConnIdIffAccepted == \A o \in Offers : Replied(o) => ((oCid[o] # 0) <=> (\E i \in 1..Len(oVerdicts[o]) : oVerdicts[o][i] = "acc"))
\* version 1: a key accepted by one offer is not accepted by another while the first is still being received
NoDoubleReceive == \A o1, o2 \in Offers : (o1 # o2 /\ OfferVer[o1] = 1 /\ OfferVer[o2] = 1 /\ oPhase[o1] \in {"spawned", "waiting"} /\ oPhase[o2] \in {"spawned", "waiting"})
                        => SeqSet(oAccepted[o1]) \cap SeqSet(oAccepted[o2]) = {}
DeliveredExactly == \A d \in delivered : d[2] = oAccepted[d[1]]
\* ---- C16 ----
\* transfers in progress, counted from the phases and not from the slots
TransfersWithinLimit == /\ Cardinality({o \in Offers : oPhase[o] \in {"spawned", "waiting"}}) <= Limit
                        /\ Cardinality({r \in OutReqs : rPhase[r] = "transfer"}) <= Limit
HeldWithinLimit == inHeld >= 0 /\ inHeld <= Limit /\ outHeld >= 0 /\ outHeld <= Limit
Quiescent == /\ \A o \in Offers : oPhase[o] \in {"new", "done"}
             /\ \A r \in OutReqs : rPhase[r] \in {"new", "done"}
             /\ offerQueue = <<>>
AllReturnedWhenQuiet == Quiescent => inHeld = 0 /\ outHeld = 0
AllReturnedAfterStop == (stopped /\ \A o \in Offers : oPhase[o] \in {"new", "done"} /\ \A r \in OutReqs : rPhase[r] \in {"new", "done", "queued"})
                           => outHeld = 0
EventuallyQuiet == <>[]Quiescent
===============================================================================
