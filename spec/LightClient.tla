----------------------------- MODULE LightClient -----------------------------
(* C12 - "The light client only advances on verified, sufficiently signed updates".                     *)
(* Design model (I level): the store of beacon.ConsensusLightClient driven by ALL abstract updates,     *)
(* each either verified-then-applied (Step) or applied without verification (BlindApply; the property's *)
(* second sentence speaks about applying any update).  VerifyOn / ApplyOn (LightClientOps) are          *)
(* transcriptions of VerifyGenericUpdate / ApplyGenericUpdate.  The property is the conjunction of      *)
(* Sound, Monotone, OptAhead, NeedsTwoThirds, RotationToStoredNext (+ NeverRotateToNone).               *)
(* `last` is an observation variable (the update of the last step) and is hidden by VIEW.               *)
EXTENDS LightClientOps, TLC

CONSTANTS MaxSlot,     \* slots 0..MaxSlot (signature slot up to MaxSlot+1)
          Now,         \* the wall-clock slot
          Coms,        \* committee identities (strings)
          Parts        \* participation counts considered (subset of 0..N)

\* abstract update as chosen by the environment: one `defect` field instead of three booleans and a signer
Defects == {"none", "finBad", "nextBad", "sigBad", "otherCom"}
Updates0 == [att : 0..MaxSlot, sig : 0..(MaxSlot + 1), fin : -1..MaxSlot, next : Coms \cup {NoneC},
             parts : Parts, defect : Defects]
Other(c) == CHOOSE x \in Coms : x # c

VARIABLES fin, opt, cur, nxt, prevMax, curMax, last
vars == <<fin, opt, cur, nxt, prevMax, curMax, last>>
View == <<fin, opt, cur, nxt, prevMax, curMax>>

Store  == [fin |-> fin,  finH |-> fin,  opt |-> opt,  optH |-> opt,  cur |-> cur,  nxt |-> nxt,
           prevMax |-> prevMax,  curMax |-> curMax]
StoreP == [fin |-> fin', finH |-> fin', opt |-> opt', optH |-> opt', cur |-> cur', nxt |-> nxt',
           prevMax |-> prevMax', curMax |-> curMax']

\* the committee an honest signer uses for store s: the one the store holds for the signature period
\* (the current one if the store holds none for that period)
HonestCom(s, u0) == LET c == IF Period(u0.sig) = Period(s.fin) THEN s.cur ELSE s.nxt IN IF c = NoneC THEN s.cur ELSE c
Full(s, u0) ==
  [ att |-> u0.att, sig |-> u0.sig, fin |-> u0.fin, next |-> u0.next, parts |-> u0.parts,
    finOK  |-> u0.defect # "finBad",
    nextOK |-> u0.defect # "nextBad",
    sigFor |-> IF u0.parts = 0 \/ u0.defect = "sigBad" THEN {}         \* no valid aggregate over zero keys
               ELSE IF u0.defect = "otherCom" THEN {Other(HonestCom(s, u0))}
               ELSE {HonestCom(s, u0)} ]

Init == /\ fin \in 0..(PeriodLen - 1) /\ opt = fin /\ cur \in Coms /\ nxt = NoneC
        /\ prevMax = 0 /\ curMax = 0 /\ last = [kind |-> "init"]

SetStore(t) == /\ fin' = t.fin /\ opt' = t.opt /\ cur' = t.cur /\ nxt' = t.nxt
               /\ prevMax' = t.prevMax /\ curMax' = t.curMax

Step == \E u0 \in Updates0 :
          LET u == Full(Store, u0)  v == VerifyOn(Store, u, Now) IN
          /\ last' = [kind |-> "update", u |-> u0, verdict |-> v]
          /\ IF v = "ok" THEN SetStore(ApplyOn(Store, u, u.att, FinSlot(u)))
             ELSE UNCHANGED <<fin, opt, cur, nxt, prevMax, curMax>>

\* ApplyOn reads neither the signature slot nor the branches nor the signature, so one representative suffices
BlindUpdates == {[att |-> a, sig |-> a + 1, fin |-> f, next |-> n, parts |-> p, defect |-> "none"] :
                   a \in 0..MaxSlot, f \in -1..MaxSlot, n \in Coms \cup {NoneC}, p \in Parts}
BlindApply == \E u0 \in BlindUpdates :
          LET u == Full(Store, u0) IN
          /\ last' = [kind |-> "blind", u |-> u0, verdict |-> "n/a"]
          /\ SetStore(ApplyOn(Store, u, u.att, FinSlot(u)))

Next == Step \/ BlindApply
Spec == Init /\ [][Next]_vars

\* ---- the property ----
LastU == Full(Store, last'.u)                       \* the update of this step, relative to the pre-state
Sound == [][(last'.kind = "update" /\ last'.verdict = "ok") => Failed(Nec(Store, LastU, Now)) = {}]_vars
Monotone == [][ApplySafe(Store, StoreP, LastU).monotoneFin /\ ApplySafe(Store, StoreP, LastU).monotoneOpt]_vars
OptAheadStep == [][ApplySafe(Store, StoreP, LastU).optAhead]_vars
NeedsTwoThirds == [][ApplySafe(Store, StoreP, LastU).needsTwoThirds]_vars
RotationToStoredNext == [][ApplySafe(Store, StoreP, LastU).rotation]_vars
OptAhead == opt >= fin
NeverRotateToNone == cur # NoneC
TypeOK == /\ fin \in 0..MaxSlot /\ opt \in 0..MaxSlot /\ cur \in Coms /\ nxt \in Coms \cup {NoneC}
          /\ prevMax \in Parts \cup {0} /\ curMax \in Parts \cup {0}
=============================================================================
