--------------------------- MODULE Gen_LightClient ---------------------------
(* C12 - case generator.  Run with `tlc -simulate`: every behaviour is one update SEQUENCE for a         *)
(* bootstrapped store.  A step first picks a class from a weighted list (TLC!RandomElement, seeded by   *)
(* -seed), then an abstract update of that class relative to the CURRENT model store:                    *)
(*   honest        passes VerifyOn (no defect)                                                           *)
(*   advance       honest and changes the finalized header or a committee when applied                   *)
(*   below         would be `advance` with full participation but has less than two thirds               *)
(*   <conjunct>    exactly this one necessary condition of acceptance is false (single fault)            *)
(*   any           anything, verified then applied;   blind   anything, applied without verification     *)
(* Only what the ENVIRONMENT chooses is emitted (slots, committee names, participation class, defect,    *)
(* mode); `expect` is the model's own verdict, recorded for drift notes only.                            *)
EXTENDS LightClient, Sequences, SequencesExt, Json

CONSTANTS SeqLen,      \* updates per sequence
          Sample       \* candidates drawn per choice (the class filter is applied to a random sample of the update space)
VARIABLES h, cls, start
gvars == <<fin, opt, cur, nxt, prevMax, curMax, last, h, cls, start>>

\* the three wire kinds: optimistic (no finality, no committee), finality (finality only), full (both)
Wire(u0) == u0.fin = -1 => u0.next = NoneC
\* `Sample` independent draws from Updates0, biased towards the class being generated (the class predicate itself is
\* applied afterwards by ClassSet; the bias only raises the hit rate).  RandomElement is evaluated once per i and field.
Clean == {"honest", "advance", "below", "participation", "notFuture", "sigAfterAtt", "attAfterFin", "periodFits", "relevant"}
DefectsFor(c) == IF c \in Clean THEN {"none"} ELSE IF c = "finalityBranch" THEN {"finBad"}
                 ELSE IF c = "committeeBranch" THEN {"nextBad"} ELSE IF c = "signature" THEN {"sigBad", "otherCom"} ELSE Defects
PartsFor(c) == IF c = "participation" THEN {0} ELSE IF c = "advance" THEN {p \in Parts : TwoThirds(p)}
               ELSE IF c = "below" THEN {p \in Parts : p > 0 /\ ~TwoThirds(p)}
               ELSE IF c \in {"any", "blind"} THEN Parts ELSE Parts \ {0}
\* (RandomElement of a filtered / derived set is unreliable in this TLC build: enumerate into a sequence first)
One(S) == LET q == SetToSeq(S) IN q[RandomElement(1..Len(q))]
Draw(c) == {[att |-> RandomElement(0..MaxSlot), sig |-> RandomElement(0..(MaxSlot + 1)), fin |-> RandomElement(-1..MaxSlot),
             next |-> One(Coms \cup {NoneC}), parts |-> One(PartsFor(c)), defect |-> One(DefectsFor(c))]
            : i \in 1..Sample}

V(u0) == VerifyOn(Store, Full(Store, u0), Now)
A(u0) == LET u == Full(Store, u0) IN ApplyOn(Store, u, u.att, FinSlot(u))
Advances(u0) == LET t == A(u0) IN t.fin # fin \/ t.cur # cur \/ t.nxt # nxt
TopPart == CHOOSE p \in Parts : \A q \in Parts : q <= p

Classes == {"honest", "advance", "below", "any", "blind"} \cup NecNames
\* class weights: about half of the steps are acceptable updates so that sequences cross period boundaries
ClassSeq == <<"honest", "honest", "honest", "advance", "advance", "advance", "advance", "advance", "below", "below", "any", "blind", "blind",
              "participation", "notFuture", "sigAfterAtt", "attAfterFin", "periodFits", "relevant",
              "finalityBranch", "committeeBranch", "signature", "signature">>
ClassSet(c, GenUpdates) ==
  IF c = "honest" THEN {u0 \in GenUpdates : u0.defect = "none" /\ V(u0) = "ok"}
  ELSE IF c = "advance" THEN {u0 \in GenUpdates : u0.defect = "none" /\ V(u0) = "ok" /\ Advances(u0)}
  ELSE IF c = "below" THEN {u0 \in GenUpdates : u0.defect = "none" /\ V(u0) = "ok" /\ ~TwoThirds(u0.parts)
                                                 /\ Advances([u0 EXCEPT !.parts = TopPart])}
  ELSE IF c = "participation" THEN {u0 \in GenUpdates : u0.defect = "none" /\ u0.parts = 0
                                      /\ Failed(Nec(Store, Full(Store, u0), Now)) = {"participation", "signature"}}
  ELSE IF c \in NecNames THEN {u0 \in GenUpdates : Failed(Nec(Store, Full(Store, u0), Now)) = {c}}
  ELSE GenUpdates

GenInit == /\ Init /\ h = <<>> /\ cls = "pick" /\ start = [fin |-> fin, cur |-> cur]

Same == UNCHANGED <<fin, opt, cur, nxt, prevMax, curMax, last, h, start>>

\* phase 1: pick a class
Pick == /\ cls = "pick"
        /\ cls' = IF Len(h) < SeqLen THEN ClassSeq[RandomElement(1..Len(ClassSeq))] ELSE "done"
        /\ Same

\* phase 2: choose one update of that class and let the model process it (verified, or blindly for class "blind").
\* The random values are bound by \E over singleton sets so that each is evaluated exactly once.
Go == /\ cls \notin {"pick", "done"}
      /\ cls' = "pick"
      /\ \E S \in {ClassSet(cls, {u0 \in Draw(cls) : Wire(u0)})} :
           IF S = {} THEN Same
           ELSE \E u0 \in {One(S)} :
                  LET v == V(u0)  blind == cls = "blind" IN
                  /\ h' = Append(h, [att |-> u0.att, sig |-> u0.sig, fin |-> u0.fin, next |-> u0.next, parts |-> u0.parts,
                                     defect |-> u0.defect, mode |-> IF blind THEN "blind" ELSE "verified",
                                     cls |-> cls, expect |-> v])
                  /\ last' = [kind |-> "gen"]
                  /\ IF blind \/ v = "ok" THEN SetStore(A(u0)) ELSE UNCHANGED <<fin, opt, cur, nxt, prevMax, curMax>>
                  /\ UNCHANGED start

GenNext == Pick \/ Go
GenSpec == GenInit /\ [][GenNext]_gvars

Emit == (cls = "done") =>
          PrintT(<<"CASE", ToJson([meta |-> [pl |-> PeriodLen, maxslot |-> MaxSlot, now |-> Now, n |-> N],
                                   start |-> start, steps |-> h])>>)
=============================================================================
