---------------------------- MODULE Trace_Framing ----------------------------
(* Property-level judge (monitor mode) for what the real framing helpers of portalwire did (C15).  *)
(* Every event carries the complete input and output of one call in run-length form                 *)
(* (<<byte, count>> runs, canonical: no empty run, neighbours differ).  The expectation is          *)
(* recomputed here with the real-geometry operators of Framing.tla (5 x 7 bits, 32-bit limit):      *)
(*   split  decodeContents(in)            -> ok, items                                              *)
(*   first  decodeSingleContent(in)       -> ok, content, rest                                      *)
(*   single decodeUtpContent v1 (in)      -> ok, content        (FINDCONTENT transfer, one item)     *)
(*   join   encodeContents(items) = out ; decodeContents(out) -> ok, back                            *)
(*   join1  encodeUtpContent v1 (item) = out ; decodeUtpContent(out) -> ok, back ;                   *)
(*          decodeSingleContent(encodeSingleContent(item)) -> ok1, c1, r1                            *)
(* Conjuncts (all C15):                                                                             *)
(*   rejects      a stream with no framing (truncated prefix / prefix exceeds the rest / overflow)   *)
(*                is not accepted                                                                    *)
(*   accepts      a stream in the image of Join is accepted                                          *)
(*   sameSplit    ... and split into exactly the joined items                                        *)
(*   singleExact  the single-item decoder does not accept when the prefix covers less than the rest  *)
(*   roundTrip    decoding what the encoder produced gives the list / item back                      *)
(*   noPanic      no call panicked                                                                   *)
(*   wellFormed   (machinery) the logged byte strings are canonical run-length strings               *)
(* Streams of class Free (a framing exists but a prefix is padded) may be accepted or rejected.      *)
(* Not an alarm, only reported (OBS field d): "joinRef" the encoder's output differs from the        *)
(* reference Join although it round-trips; "freeSplit" a Free stream was accepted with a split other *)
(* than the reference reading.                                                                       *)
EXTENDS Framing, Json

Trace == ndJsonDeserialize("trace.ndjson")

VARIABLES l, viol
vars == <<l, viol>>

Failed(r) == {f \in DOMAIN r : ~r[f]}
Canons(xs) == \A i \in 1..Len(xs) : IsCanon(xs[i])

JudgeSplit(e) ==
  LET sp == Split(e.in)  cls == Class(sp) IN
  [ wellFormed |-> IsCanon(e.in) /\ Canons(e.items),
    noPanic    |-> e.panic = "",
    rejects    |-> cls = "MustReject" => ~e.ok,
    accepts    |-> cls = "MustAccept" => e.ok,
    sameSplit  |-> (cls = "MustAccept" /\ e.ok) => e.items = Items(e.in, sp) ]
ObsSplit(e) ==
  LET sp == Split(e.in)  cls == Class(sp) IN
  [k |-> "split", c |-> cls, w |-> IF sp.ok THEN "" ELSE sp.why, n |-> IF sp.ok THEN Len(sp.ext) ELSE -1, ok |-> e.ok,
   d |-> IF cls = "Free" /\ e.ok /\ e.items # Items(e.in, sp) THEN <<"freeSplit">> ELSE <<>>]

JudgeFirst(e) ==
  LET f == First(e.in) IN
  [ wellFormed |-> IsCanon(e.in) /\ IsCanon(e.content) /\ IsCanon(e.rest),
    noPanic    |-> e.panic = "",
    rejects    |-> f.cls = "MustReject" => ~e.ok,
    accepts    |-> f.cls = "MustAccept" => e.ok,
    sameSplit  |-> (f.cls = "MustAccept" /\ e.ok) => (e.content = ItemOf(e.in, f.ext) /\ e.rest = ItemOf(e.in, f.rest)) ]
ObsFirst(e) ==
  LET f == First(e.in) IN
  [k |-> "first", c |-> f.cls, w |-> f.why, n |-> IF f.cls = "MustReject" THEN -1 ELSE 1, ok |-> e.ok,
   d |-> IF f.cls = "Free" /\ e.ok /\ (e.content # ItemOf(e.in, f.ext) \/ e.rest # ItemOf(e.in, f.rest)) THEN <<"freeSplit">> ELSE <<>>]

JudgeSingle(e) ==
  LET u == Single(e.in) IN
  [ wellFormed  |-> IsCanon(e.in) /\ IsCanon(e.content),
    noPanic     |-> e.panic = "",
    rejects     |-> (u.cls = "MustReject" /\ u.why # "trailing") => ~e.ok,
    singleExact |-> (u.cls = "MustReject" /\ u.why = "trailing") => ~e.ok,
    accepts     |-> u.cls = "MustAccept" => e.ok,
    sameSplit   |-> (u.cls = "MustAccept" /\ e.ok) => e.content = ItemOf(e.in, u.ext) ]
ObsSingle(e) ==
  LET u == Single(e.in) IN
  [k |-> "single", c |-> u.cls, w |-> u.why, n |-> IF u.cls = "MustReject" THEN -1 ELSE 1, ok |-> e.ok,
   d |-> IF u.cls = "Free" /\ e.ok /\ e.content # ItemOf(e.in, u.ext) THEN <<"freeSplit">> ELSE <<>>]

JudgeJoin(e) ==
  [ wellFormed |-> Canons(e.items) /\ IsCanon(e.out) /\ Canons(e.back),
    noPanic    |-> e.panic = "",
    roundTrip  |-> e.ok /\ e.back = e.items ]
ObsJoin(e) ==
  [k |-> "join", c |-> "List", w |-> "", n |-> Len(e.items), ok |-> e.ok,
   d |-> IF e.panic = "" /\ Canon(Join(e.items)) # e.out THEN <<"joinRef">> ELSE <<>>]

JudgeJoin1(e) ==
  [ wellFormed |-> IsCanon(e.item) /\ IsCanon(e.out) /\ IsCanon(e.back) /\ IsCanon(e.c1) /\ IsCanon(e.r1),
    noPanic    |-> e.panic = "",
    roundTrip  |-> e.ok /\ e.back = e.item /\ e.ok1 /\ e.c1 = e.item /\ e.r1 = <<>> ]
ObsJoin1(e) ==
  [k |-> "join1", c |-> "List", w |-> "", n |-> 1, ok |-> e.ok,
   d |-> IF e.panic = "" /\ Canon(Join(<<e.item>>)) # e.out THEN <<"joinRef">> ELSE <<>>]

Judge(e) == CASE e.ev = "split"  -> JudgeSplit(e)
              [] e.ev = "first"  -> JudgeFirst(e)
              [] e.ev = "single" -> JudgeSingle(e)
              [] e.ev = "join"   -> JudgeJoin(e)
              [] e.ev = "join1"  -> JudgeJoin1(e)
              [] OTHER -> [skipped |-> TRUE]
Obs(e) ==   CASE e.ev = "split"  -> ObsSplit(e)
              [] e.ev = "first"  -> ObsFirst(e)
              [] e.ev = "single" -> ObsSingle(e)
              [] e.ev = "join"   -> ObsJoin(e)
              [] e.ev = "join1"  -> ObsJoin1(e)
              [] OTHER -> [k |-> "other"]

Init == l = 1 /\ viol = {}
Next ==
  /\ l <= Len(Trace)
  /\ l' = l + 1
  /\ LET e == Trace[l] IN
     /\ viol' = viol \cup {<<l, f>> : f \in Failed(Judge(e))}
     /\ PrintT(<<"OBS", ToJson([l |-> l] @@ Obs(e))>>)

Spec == Init /\ [][Next]_vars
Done == l = Len(Trace) + 1
Report == Done => PrintT(<<"VIOL", ToJson(viol)>>)
TraceAccepted == TLCGet("stats").diameter = Len(Trace) + 1
===============================================================================
