SPECIFICATION Spec
CONSTANTS
  OffW = 4
  Devs = {"ZeroTableEmpty"}
INVARIANT Report
POSTCONDITION TraceAccepted
CHECK_DEADLOCK FALSE
