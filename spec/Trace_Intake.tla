----------------------------- MODULE Trace_Intake -----------------------------
(* Trace validation of the three sub-networks' real validateContents loops against Intake.tla, whose       *)
(* actions are re-used (Net is set per run of the judge; the harness writes one trace per network).         *)
(* Events, logged by pass-through wrappers at the validator and store interfaces in the loop's own order:   *)
(*   batch     the items with their scripted verdict / store answer   -> Receive                            *)
(*   look      the loop asked the store for an item before validating -> Look      (history only)           *)
(*   validate  the validator was called for an item                   -> Validate  (must be the item due)   *)
(*   put       the store was called for an item; res = what the loop saw, inner = what the scripted store   *)
(*             answered (they differ behind the state network's adapter)  -> Put                            *)
(*   done      the loop returned; held = the keys the store holds     -> the batch's result and the store   *)
(* Monitor mode: a mismatch is recorded as <<line, what>>; the replay continues from the specification's    *)
(* state (forced to the logged result at "done").                                                            *)
EXTENDS Intake, Json

Trace == ndJsonDeserialize("trace.ndjson")
VARIABLES l, viol
tvars == <<held, batch, pc, step, checked, validated, nb, l, viol>>
V(what) == viol' = viol \cup {<<l, what>>}
Str(b) == IF b THEN "ok" ELSE "err"
Due(e, s) == step = s /\ pc <= Len(batch) /\ Cur.key = e.key

TInit == Init /\ l = 1 /\ viol = {}
TNext ==
  /\ l <= Len(Trace)
  /\ l' = l + 1
  /\ LET e == Trace[l] IN
     CASE e.ev = "init" ->
            /\ held' = {} /\ batch' = <<>> /\ pc' = 1 /\ step' = "idle" /\ checked' = {} /\ validated' = {} /\ nb' = 0
            /\ UNCHANGED viol
       [] e.ev = "batch" ->
            IF step \in {"idle", "ok", "err"}
              THEN Receive([i \in 1..Len(e.items) |-> [key |-> e.items[i].key, valid |-> e.items[i].valid, fits |-> e.items[i].fits]]) /\ UNCHANGED viol
              ELSE V("batchOverlap") /\ UNCHANGED <<held, batch, pc, step, checked, validated, nb>>
       [] e.ev = "look" ->
            IF Due(e, "look")
              THEN Look /\ viol' = viol \cup (IF e.found = (Cur.key \in held) THEN {} ELSE {<<l, "lookAnswer">>})
              ELSE V("lookOutOfTurn") /\ UNCHANGED <<held, batch, pc, step, checked, validated, nb>>
       [] e.ev = "validate" ->
            IF Due(e, "validate")
              THEN Validate /\ viol' = viol \cup (IF e.verdict = Str(Cur.valid) THEN {} ELSE {<<l, "verdict">>})
              ELSE V("validateOutOfTurn") /\ UNCHANGED <<held, batch, pc, step, checked, validated, nb>>
       [] e.ev = "put" ->
            \* what the loop saw: logged outside the state adapter; for the other two networks (the scripted store IS the
            \* protocol's store) it shows in what the loop does next - a refusal seen ends the batch at once
            IF Due(e, "put")
              THEN LET ends == l < Len(Trace) /\ Trace[l + 1].ev = "done" /\ Trace[l + 1].res = "err"
                       seen == IF Net = "state" THEN e.res = "ok" ELSE Cur.fits \/ ~ends
                   IN  IF seen \in SeenSet(Cur.fits)
                         THEN PutAs(seen) /\ viol' = viol \cup (IF e.inner = Str(Cur.fits) THEN {} ELSE {<<l, "putInner">>})
                         ELSE PutAs(CHOOSE x \in SeenSet(Cur.fits) : TRUE) /\ V("putSeen")
              ELSE V("putOutOfTurn") /\ UNCHANGED <<held, batch, pc, step, checked, validated, nb>>
       [] e.ev = "done" ->
            /\ viol' = viol \cup (IF step \in {"ok", "err"} THEN {} ELSE {<<l, "endedEarly">>})
                            \cup (IF step \in {"ok", "err"} /\ e.res # step THEN {<<l, "batchResult">>} ELSE {})
                            \cup (IF {e.held[i] : i \in 1..Len(e.held)} = held THEN {} ELSE {<<l, "held">>})
                            \cup (IF StoredOnlyValidated /\ OkMeansChecked /\ RefusalIsError THEN {} ELSE {<<l, "invariants">>})
            /\ step' = e.res
            /\ UNCHANGED <<held, batch, pc, checked, validated, nb>>
       [] OTHER -> UNCHANGED <<held, batch, pc, step, checked, validated, nb, viol>>

TSpec == TInit /\ [][TNext]_tvars
Done == l = Len(Trace) + 1
Report == Done => PrintT(<<"VIOL", ToJson(viol)>>)
TraceAccepted == TLCGet("stats").diameter = Len(Trace) + 1
===============================================================================
