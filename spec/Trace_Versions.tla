--------------------------- MODULE Trace_Versions ---------------------------
(* Judge for C19 observations.  ver.helper: three consecutive answers of the real version      *)
(* helper for one peer ENR (conjunct negotiated).  ver.transfer: the n-th offer and large       *)
(* find-content between two real nodes (conjuncts sharedSucceeds, noCommonNoTransfer).          *)
(* With deviation CacheZeroOnError (F-C19-1) answers after the first, and transfers after the   *)
(* first attempt, behave as if version 0 had been negotiated when there is no common version.   *)
EXTENDS Integers, Sequences, FiniteSets, TLC, Json, SequencesExt
CONSTANT Devs
Universe == 0..255
V == INSTANCE Versions WITH mine <- [cur |-> <<0>>, cfg |-> <<0>>], theirs <- <<>>, cache <- <<>>, last <- [v |-> 0, want |-> 0], n <- 0
Trace == ndJsonDeserialize("trace.ndjson")
VARIABLES l, viol
SetOf(s) == {s[i] : i \in 1..Len(s)}
Adv(t) == [k |-> t.k, s |-> SetOf(t.s)]
Dev == "CacheZeroOnError" \in Devs
AnswerOK(mine, theirs, r, i) ==
   LET want == V!Negotiate(mine, Adv(theirs)) IN
   IF theirs.k = "bad" THEN r.err \/ r.v = mine[1]            \* the statement leaves a malformed entry open
   ELSE IF want = V!ErrVer THEN (IF Dev /\ i > 1 THEN ~r.err /\ r.v = 0 ELSE r.err)
   ELSE ~r.err /\ r.v = want
Helper(e) == [ negotiated |-> \A i \in 1..Len(e.res) : AnswerOK(e.mine, e.theirs, e.res[i], i) ]
\* Versions 0 and 1 are the implemented ones: OFFER / ACCEPT is refused with an unsupported-version error for any other
\* negotiated version (filterContentKeys, parseOfferResp), by design; the framing of find-content streams has no such
\* path.  For a pairing whose highest common version is implemented both transfers must succeed; for a higher one the
\* large find-content must still succeed with the stored bytes (both sides frame alike) and an offer may fail but must
\* not deliver anything else than what was offered.
Implemented == V!Implemented
Transfer(e) ==
   LET common == SetOf(e.a) \cap SetOf(e.b)
       hc == IF common = {} THEN -1 ELSE V!MaxOf(common) IN
   [ sharedSucceeds |-> common # {} => /\ e.fc \in {"ok", "noobs"} /\ (e.fc = "ok" => e.fcEq)
                                       /\ hc \in Implemented => (e.offer \in {"delivered", "noobs", "accepted-noobs"} /\ (e.offer = "delivered" => e.offerEq)),
     noCommonNoTransfer |-> common = {} => (Dev /\ e.attempt > 1) \/ (e.offer \in {"err", "noobs"} /\ e.fc \in {"err", "noobs"}),
     intact |-> (e.offer = "delivered" => e.offerEq) /\ (e.fc = "ok" => e.fcEq) ]
Failed(r) == {f \in DOMAIN r : ~r[f]}
Init == l = 1 /\ viol = {}
Next == /\ l <= Len(Trace) /\ l' = l + 1
        /\ LET e == Trace[l] IN
           CASE e.ev = "ver.helper" -> viol' = viol \cup {<<l, f>> : f \in Failed(Helper(e))}
             [] e.ev = "ver.transfer" -> viol' = viol \cup {<<l, f>> : f \in Failed(Transfer(e))}
             [] OTHER -> UNCHANGED viol
Spec == Init /\ [][Next]_<<l, viol>>
Done == l = Len(Trace) + 1
Report == Done => PrintT(<<"VIOL", ToJson(viol)>>)
TraceAccepted == TLCGet("stats").diameter = Len(Trace) + 1
===============================================================================
