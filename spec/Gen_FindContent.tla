--------------------------- MODULE Gen_FindContent ---------------------------
(* Scenario space of C08, enumerated exhaustively by TLC for the conformance harness.         *)
EXTENDS FindContent
\* ---- scenario space for generation ----
SizeClasses == {0, 1, 1174, 1175, 1176, 2048, 2049, 20000}
VerSets == {{0}, {1}, {0, 1}}
Tables == {"empty", "few", "bucket", "many"}
EnrSizes == {"min", "max", "mixed", "tight"}
Links == {"clean", "loss", "dup", "reorder"}

VARIABLES c, emitted
Init == /\ emitted = FALSE
        /\ c \in [stored : BOOLEAN, size : SizeClasses, va : VerSets, vb : VerSets, table : Tables, enr : EnrSizes, link : Links, asker : {"any", "closest"}]
        /\ (c.stored => c.table \in {"few"} /\ c.enr = "min" /\ c.asker = "any")          \* table shape is irrelevant when the content is held
        /\ (~c.stored => c.size = 0 /\ c.link = "clean" /\ c.va = {0, 1} /\ c.vb = {0, 1})
        /\ (c.link # "clean" => c.size \in {1175, 20000} /\ c.va = {0, 1} /\ c.vb = {0, 1})
Next == /\ ~emitted /\ emitted' = TRUE /\ UNCHANGED c
Spec == Init /\ [][Next]_<<c, emitted>>
Emit == emitted => PrintT(<<"CASE", ToJson([asker |-> c.asker, stored |-> c.stored, size |-> c.size, va |-> c.va, vb |-> c.vb, table |-> c.table,
                                             enr |-> c.enr, link |-> c.link, kind |-> ReplyKind(c.stored, c.size),
                                             common |-> Common(c.va, c.vb)])>>)
===============================================================================
