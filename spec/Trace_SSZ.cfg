SPECIFICATION Spec
CONSTANTS
  OffW = 4
  Devs = {}
INVARIANT Report
POSTCONDITION TraceAccepted
CHECK_DEADLOCK FALSE
