SPECIFICATION Spec
CONSTANTS
  Peers = {1, 2, 3, 4, 5}
  Self = 0
  Alpha = 3
  K = 3
  TableSeed = {4, 5}
  Holders = {}
  Devs = {}
VIEW view
INVARIANTS AlphaBound NeverSelf AskedOnce Sorted Distinct QueryBound ContentOK Closest Drained
PROPERTY Terminates
CHECK_DEADLOCK FALSE
