SPECIFICATION Spec
CONSTANTS
  OffW = 4
  Devs = {"AllowDecreasing"}
  Mode = "values"
  MaxLen = 0
  Sym = 0
  TruncAll = 64
INVARIANTS MutantsLaw
CHECK_DEADLOCK FALSE
