--------------------------- MODULE MC_HeaderProof ---------------------------
(* Exhaustive case space for C03 over a small world (E = 4): every committed header with its honest       *)
(* proof, every single-node corruption of every branch, every other header / other slot / other era        *)
(* pairing, stage-1 self-consistent forgeries vs broken ones, out-of-range and huge positions.              *)
(* One state per case; Step applies the validator as coded (I level) and the invariants compare it with    *)
(* the P level computed from the world. Every case is printed as CASE JSON (the Go engine embeds the small *)
(* world into real 8192-record epochs / batches and runs the real validator on it).                        *)
EXTENDS HeaderProof, Json

(* ------------------------------------------ the small world ------------------------------------------- *)
\* The world is laid out relative to the constants (E = 4: block numbers pre 0..5 | roots 6..9 | capella 10..13 | deneb 14.. ;
\* slots: historical-roots batches 0..7 | summaries 8..15), so the same module also runs with E = 8 (MC_HeaderProof8.cfg).
\* fmt/idx = where the header's hash is committed: "pre" at record idx (= num) of the epoch accumulator,
\* "bell"/"deneb" inside a Bellatrix-Capella / Deneb format beacon block whose root is block_roots[idx]; "none" = nowhere
M0 == MergeNum   S0 == ShanghaiNum   C0 == CancunNum   K == CapStart
PreSeq == [n \in 1..MergeNum |-> [id |-> "p" \o ToString(n - 1), num |-> n - 1, fmt |-> "pre", idx |-> n - 1]]
   \* p0 first of era / of epoch, p(E-1) last of epoch, pE first of the last (partial) epoch, p(MergeNum-1) last of era
HdrSeq == PreSeq \o <<
  [id |-> "x3", num |-> E - 1, fmt |-> "none", idx |-> 0],       \* a foreign header carrying a committed number
  [id |-> "r6", num |-> M0, fmt |-> "bell", idx |-> 0],           \* first of era, first root, first of batch
  [id |-> "r7", num |-> M0 + 1, fmt |-> "bell", idx |-> E - 1],   \* last of batch
  [id |-> "r8", num |-> M0 + 2, fmt |-> "bell", idx |-> E + 1],   \* last root, inside
  [id |-> "r9", num |-> S0 - 1, fmt |-> "bell", idx |-> 2 * E - 1], \* last of era, last root, last of batch
  [id |-> "xr", num |-> M0 + 2, fmt |-> "none", idx |-> 0],
  [id |-> "rs", num |-> M0 + 2, fmt |-> "bell", idx |-> K + 2],   \* roots-era number committed beyond the historical roots
  [id |-> "c10", num |-> S0, fmt |-> "bell", idx |-> K],          \* first of era, first summary, first of batch
  [id |-> "c11", num |-> S0 + 1, fmt |-> "bell", idx |-> E + 2],  \* Capella-era number committed below the Capella start
  [id |-> "c12", num |-> S0 + 2, fmt |-> "bell", idx |-> K + E + 2], \* last summary, inside
  [id |-> "c13", num |-> C0 - 1, fmt |-> "bell", idx |-> K + E - 1], \* last of era, last of batch
  [id |-> "d14", num |-> C0, fmt |-> "deneb", idx |-> K + E],     \* first of era, first of batch
  [id |-> "d15", num |-> C0 + 1, fmt |-> "deneb", idx |-> K + 1],
  [id |-> "d16", num |-> C0 + 2, fmt |-> "bell", idx |-> K + E + 1], \* Deneb-era number inside a Capella-format block
  [id |-> "d17", num |-> C0 + 3, fmt |-> "deneb", idx |-> K + 2 * E - 1], \* last summary, last of batch
  [id |-> "xd", num |-> C0 + 1, fmt |-> "none", idx |-> 0] >>
Hdrs == {HdrSeq[i] : i \in 1..Len(HdrSeq)}
ById(id) == CHOOSE x \in Hdrs : x.id = id
NEp == 2   NRoots == 2   NSumm == 2
NSlots == CapStart + NSumm * E
ASSUME CapStart = NRoots * E /\ MergeNum <= NEp * E /\ MergeNum > (NEp - 1) * E + 1 /\ ShanghaiNum >= MergeNum + 4 /\ CancunNum >= ShanghaiNum + 4 /\ E >= 4
ASSUME \A x, y \in Hdrs : (x.fmt # "none" /\ x.fmt = y.fmt /\ x.idx = y.idx) => x = y
ASSUME \A x, y \in Hdrs : (x.fmt \in {"bell", "deneb"} /\ y.fmt \in {"bell", "deneb"} /\ x.idx = y.idx) => x = y
ASSUME \A x \in Hdrs : x.fmt = "pre" => x.idx = x.num /\ x.num < MergeNum

Committed == {x \in Hdrs : x.fmt # "none"}
PreC == {x \in Hdrs : x.fmt = "pre"}
PostC == Committed \ PreC
HasBlock(s) == \E x \in PostC : x.idx = s
BlockAt(s) == CHOOSE x \in PostC : x.idx = s
ExecSibs(s) == [i \in 1..ExecDepth(BlockAt(s).fmt) |-> <<"es", s, i>>]        \* the rest of the beacon block: opaque
BlockRootDef(s) == IF HasBlock(s) THEN LET b == BlockAt(s) IN Fold(H(b.id), ExecSibs(s), ExecG(b.fmt), 1, ExecDepth(b.fmt))
                   ELSE <<"opq", s>>
BlockRootTab == [s \in 0..(NSlots - 1) |-> BlockRootDef(s)]            \* (zero-arity tables: TLC evaluates them once)
BlockRoot(s) == BlockRootTab[s]
HasRec(n) == \E x \in PreC : x.idx = n
Record(n) == IF HasRec(n) THEN N(H((CHOOSE x \in PreC : x.idx = n).id), <<"td", n>>) ELSE N(Z, Z)   \* {block_hash, total_difficulty}; zero padding
EpochRootTab == [e \in 0..(NEp - 1) |-> N(Tree([i \in 1..E |-> Record(e * E + i - 1)]), <<"len", E>>)]   \* list root mixed in with its length
EpochRoot(e) == EpochRootTab[e]
BlockRootsTree(first) == Tree([i \in 1..E |-> BlockRoot(first + i - 1)])
RootsEntryTab == [b \in 0..(NRoots - 1) |-> N(BlockRootsTree(b * E), <<"sr", b>>)]    \* HistoricalBatch{block_roots, state_roots}
RootsEntry(b) == RootsEntryTab[b]
SummEntryTab == [b \in 0..(NSumm - 1) |-> BlockRootsTree(CapStart + b * E)]           \* HistoricalSummary.block_summary_root
SummEntry(b) == SummEntryTab[b]
AccTab == [short \in BOOLEAN |->
              [pre |-> [e \in 1..(IF short THEN NEp - 1 ELSE NEp) |-> EpochRoot(e - 1)],
               roots |-> [b \in 1..NRoots |-> RootsEntry(b - 1)],
               summ |-> [b \in 1..NSumm |-> SummEntry(b - 1)]]]
Acc(short) == AccTab[short]
Lens(short) == [pre |-> IF short THEN NEp - 1 ELSE NEp, roots |-> NRoots, summ |-> NSumm]

\* honest provers (independent of the verifier: descent in the tree)
HonestPreTab == [n \in 0..(NEp * E - 1) |-> Siblings(EpochRoot(n \div E), Bits(4 * E + 2 * (n % E)))]
HonestPre(n) == HonestPreTab[n]
HonestBeaconTab == [s \in 0..(NSlots - 1) |->
                      IF s < CapStart THEN Siblings(RootsEntry(s \div E), Bits(2 * E + (s % E)))
                      ELSE Siblings(SummEntry((s - CapStart) \div E), Bits(E + (s % E)))]
HonestBeacon(s) == HonestBeaconTab[s]

(* --------------------------------------------- cases --------------------------------------------------- *)
\* structured proof: beacon branch bb, beacon block root bbr, execution branch ex, slot; post = has the three latter
Base(g) == IF g.fmt = "pre" THEN [bb |-> HonestPre(g.idx), bbr |-> Z, ex |-> <<>>, slot |-> 0, post |-> FALSE]
           ELSE [bb |-> HonestBeacon(g.idx), bbr |-> BlockRoot(g.idx), ex |-> ExecSibs(g.idx), slot |-> g.idx, post |-> TRUE]
Flat(p) == [chunks |-> IF p.post THEN p.bb \o <<p.bbr>> \o p.ex ELSE p.bb, hasSlot |-> p.post, slot |-> p.slot]

Mutate(p, c) == CASE c.mut = "none" -> p
                  [] c.mut = "sibB" -> [p EXCEPT !.bb[c.mi] = Junk(c.mi)]
                  [] c.mut = "sibE" -> [p EXCEPT !.ex[c.mi] = Junk(c.mi)]
                  [] c.mut = "bbr" -> [p EXCEPT !.bbr = Junk(0)]
                  [] c.mut = "lenShort" -> [p EXCEPT !.bb = SubSeq(p.bb, 1, Len(p.bb) - 1)]
                  [] c.mut = "lenLong" -> [p EXCEPT !.bb = Append(p.bb, Junk(0))]
Reslot(p, c) == IF p.post THEN [p EXCEPT !.slot = c.slot] ELSE p
\* the forger recomputes the beacon block root from the presented header's hash and the (possibly altered) execution
\* branch, with the index of the presented header's era: stage 1 becomes self-consistent
Refix(p, c) == IF c.fix = "recompute" /\ p.post
               THEN [p EXCEPT !.bbr = Fold(H(c.h), p.ex, ExecG(Fmt(EraOf(ById(c.h).num))), 1, Len(p.ex))] ELSE p
Final(c) == Refix(Reslot(Mutate(Base(ById(c.g)), c), c), c)

MutsOf(g) == LET b == Base(g) IN
   {<<"none", 0>>, <<"lenShort", 0>>, <<"lenLong", 0>>} \cup {<<"sibB", i>> : i \in 1..Len(b.bb)}
   \cup (IF b.post THEN {<<"bbr", 0>>} \cup {<<"sibE", i>> : i \in 1..Len(b.ex)} ELSE {})
Fixes(g) == IF g.fmt = "pre" THEN {"none"} ELSE {"none", "recompute"}
AllSlots == 0..(NSlots + 1) \cup {Huge}
Case(h, g, s, m, f, sh) == [h |-> h, g |-> g.id, slot |-> s, mut |-> m[1], mi |-> m[2], fix |-> f, short |-> sh]
CaseSpace ==
   \* own header: every single mutation, with and without recomputed beacon block root
   UNION {{Case(g.id, g, g.idx, m, f, FALSE) : m \in MutsOf(g), f \in Fixes(g)} : g \in Committed}
   \* own header, other slot
   \cup {Case(g.id, g, s, <<"none", 0>>, "none", FALSE) : g \in PostC, s \in AllSlots}
   \* other header (any era) with the untouched proof, stage 1 left broken or made self-consistent
   \cup UNION {{Case(x.id, g, g.idx, <<"none", 0>>, f, FALSE) : x \in Hdrs, f \in Fixes(g)} : g \in Committed}
   \* self-consistent forgery for another header of the same era, at every slot
   \cup UNION {{Case(x.id, g, s, <<"none", 0>>, "recompute", FALSE) : x \in {y \in Hdrs : EraOf(y.num) = EraOf(g.num)}, s \in AllSlots} : g \in PostC}
   \* pre-merge against a validator whose epoch accumulator is one entry short
   \cup UNION {{Case(x.id, g, 0, m, "none", TRUE) : x \in {y \in Hdrs : EraOf(y.num) = "pre"}, m \in {<<"none", 0>>, <<"lenShort", 0>>}} : g \in PreC}

(* ------------------------------------ P level over the world ------------------------------------------- *)
ExpectSem(c) ==
   LET h == ById(c.h)  era == EraOf(h.num)  fp == Flat(Final(c)) IN
   IF ~InRange(era, h.num, fp.slot, Lens(c.short)) THEN "error"
   ELSE IF era = "pre" THEN (IF h.fmt = "pre" /\ ~fp.hasSlot /\ fp.chunks = HonestPre(h.num) THEN "ok" ELSE "reject")
   ELSE IF /\ h.fmt = Fmt(era) /\ h.idx = fp.slot /\ fp.hasSlot
           /\ fp.chunks = HonestBeacon(fp.slot) \o <<BlockRoot(fp.slot)>> \o ExecSibs(fp.slot) THEN "ok" ELSE "reject"

Attr(c) == LET h == ById(c.h)  g == ById(c.g)  fp == Flat(Final(c)) IN
   [num |-> h.num, slot |-> fp.slot, lens |-> Lens(c.short), commit |-> [fmt |-> h.fmt, idx |-> h.idx],
    gen |-> [fmt |-> g.fmt, idx |-> g.idx, same |-> c.h = c.g], intact |-> fp = Flat(Base(g))]

\* stage-1 class of the presented proof (post-merge eras): honest / self-consistent forgery / broken / not applicable
Stage1(c) ==
   LET h == ById(c.h)  era == EraOf(h.num)  p == Final(c) IN
   IF era = "pre" \/ ~p.post \/ Len(p.ex) # ExecDepth(Fmt(era)) \/ Len(p.bb) # BeaconDepth(era) THEN "na"
   ELSE IF ~VerifyBranch(H(h.id), p.ex, Len(p.ex), ExecG(Fmt(era)), p.bbr) THEN "broken"
   ELSE IF h.fmt = Fmt(era) /\ p.bbr = BlockRoot(h.idx) /\ p.ex = ExecSibs(h.idx) THEN "honest" ELSE "forged"

(* -------------------------------------------- behaviour ------------------------------------------------ *)
VARIABLES c, verdict
vars == <<c, verdict>>
Init == c \in CaseSpace /\ verdict = "?"
Step == /\ verdict = "?"
        /\ verdict' = Validate(c.h, ById(c.h).num, Flat(Final(c)), Acc(c.short))
        /\ UNCHANGED c
Spec == Init /\ [][Step]_vars
Done == verdict # "?"

\* C03, both directions: the proof check succeeds exactly for the honest pair
Exact == Done => ((verdict = "ok") <=> (ExpectSem(c) = "ok"))
\* out-of-range positions yield an error (not acceptance, not a crash)
OutOfRangeIsError == Done => (ExpectSem(c) = "error" => verdict \in {"error", "reject"})
\* the attribute-level oracle used by the trace judge is the P level
AttrOracleAgrees == ExpectAttr(Attr(c)) = ExpectSem(c)

CaseOut == [h |-> c.h, g |-> c.g, slot |-> c.slot, mut |-> c.mut, mi |-> c.mi, fix |-> c.fix, short |-> c.short,
            exp |-> ExpectSem(c), s1 |-> Stage1(c), model |-> verdict]
Emit == Done => PrintT(<<"CASE", ToJson(CaseOut)>>)

World == [E |-> E, MergeNum |-> MergeNum, ShanghaiNum |-> ShanghaiNum, CancunNum |-> CancunNum, CapStart |-> CapStart,
          NEp |-> NEp, NRoots |-> NRoots, NSumm |-> NSumm, hdrs |-> HdrSeq]
ASSUME PrintT(<<"WORLD", ToJson(World)>>)
===============================================================================
