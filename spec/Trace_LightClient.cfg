SPECIFICATION Spec
CONSTANTS
  PeriodLen = 8192
  N = 512
  Devs = {}
INVARIANT Report
POSTCONDITION TraceAccepted
CHECK_DEADLOCK FALSE
