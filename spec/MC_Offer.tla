------------------------------- MODULE MC_Offer -------------------------------
EXTENDS Offer
\* two inbound offers with overlapping keys, one of each protocol version, plus a second version-1 offer
OK1 == [o \in Offers |-> IF o = "o1" THEN <<"a", "b">> ELSE IF o = "o2" THEN <<"b", "c">> ELSE <<"a">>]
OV1 == [o \in Offers |-> IF o = "o3" THEN 0 ELSE 1]
================================================================================
