----------------------------- MODULE Gen_Versions -----------------------------
(* C19 scenario space: (own listing, peer advertisement) for the helper, (set, set) for the transfers. *)
EXTENDS Versions
VARIABLES c, emitted
GInit == /\ emitted = FALSE /\ mine = [cur |-> <<0>>, cfg |-> <<0>>] /\ theirs = <<>> /\ cache = <<>> /\ last = [v |-> NoVer, want |-> NoVer] /\ n = 0   \* (the base module's variables are unused here)
         /\ \/ \E S \in SUBSET Universe \ {{}} : \E m \in Orders(S), t \in Adverts :
                 c = [kind |-> "helper", mine |-> m, theirs |-> t, a |-> {}, b |-> {}, rep |-> 3, expect |-> Negotiate(m, t)]
            \/ \E a, b \in SUBSET {0, 1, 2} \ {{}} : \E rep \in 1..3 :
                 c = [kind |-> "transfer", mine |-> <<>>, theirs |-> Adv({}), a |-> a, b |-> b, rep |-> rep,
                      expect |-> Negotiate(CHOOSE s \in Orders(a) : TRUE, Adv(b))]
GNext == ~emitted /\ emitted' = TRUE /\ UNCHANGED <<c, vars>>
GSpec == GInit /\ [][GNext]_<<c, emitted, vars>>
Emit == emitted => PrintT(<<"CASE", ToJson(c)>>)
===============================================================================
