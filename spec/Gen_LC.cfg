SPECIFICATION GenSpec
CONSTANTS
  PeriodLen = 2
  MaxSlot = 4
  Now = 4
  Coms = {"A", "B", "C"}
  Parts = {0, 1, 3, 4, 6}
  N = 6
  Devs = {}
  SeqLen = 10
  Sample = 800
INVARIANT Emit
CHECK_DEADLOCK FALSE
