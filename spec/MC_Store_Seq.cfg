SPECIFICATION Spec
CONSTANTS
  B = 3
  Cap = 3
  Target = 1
  Sizes = {1}
  Procs = {p1}
  Devs = {}
  MaxPuts = 7
  WithCrash = TRUE
  Dists <- D5
INVARIANTS WithinCapacity SizeRecOK SizeMemOK DurableNeverUnder RetainedWithinRadius OnlyPutValues CrashConsistent EmptyStoreOpenRadius
PROPERTIES RadiusMonotone OpenRadiusRule PruneFarthest
CONSTRAINT StateBound
CHECK_DEADLOCK FALSE
