--------------------------- MODULE LightClientBoot ---------------------------
(* Implementation-level (I) specification of how the beacon light client gets and loses its store:          *)
(* ConsensusLightClient.bootstrap and the part of Sync / Start around it (beacon/light_client.go).           *)
(*   Sync      = bootstrap, then the updates of the periods up to now, then a finality and an optimistic    *)
(*               update, each fetched from the API, verified and applied; the first error ends Sync.          *)
(*   bootstrap = fetch the bootstrap for the trusted checkpoint root; it must be of the current fork's type,  *)
(*               (when the configuration is strict) not older than the maximal checkpoint age, its header's   *)
(*               root must BE the checkpoint, and its current sync committee must be proven under the         *)
(*               header's state root (depth 5, index 22); only then the store is REPLACED by                  *)
(*               <<header, header, committee, no next committee, maxima 0>>.                                  *)
(*   Start     = Sync again (up to ten times) whenever Sync failed: a later Sync begins with bootstrap, so a  *)
(*               store that had advanced is set back to the checkpoint (the only way the finalized header     *)
(*               ever moves backwards; C12's statement is about updates).                                     *)
(* The update steps themselves are LightClientOps.tla's; here they only advance an abstract height.           *)
(* Named deviations: "SkipCommitteeProof", "SkipHeaderHash", "AnyForkType", "StoreBeforeChecks" (the store   *)
(* is assigned before the checks have passed).                                                                *)
EXTENDS Integers, TLC

CONSTANTS Strict, MaxSyncs, MaxHeight, Devs

\* a bootstrap as the API hands it over
Boots == [api : {"ok", "err"}, type : {"current", "older"}, hdr : {"checkpoint", "other"}, com : {"proven", "unproven"}, age : {"fresh", "old"}]
None == [hdr |-> "none", com |-> "none", height |-> 0]

BootOKs(b, strict) ==
             /\ b.api = "ok"
             /\ b.type = "current" \/ "AnyForkType" \in Devs
             /\ b.age = "fresh" \/ ~strict
             /\ b.hdr = "checkpoint" \/ "SkipHeaderHash" \in Devs
             /\ b.com = "proven" \/ "SkipCommitteeProof" \in Devs
BootOK(b) == BootOKs(b, Strict)

VARIABLES store,    \* None or [hdr, com, height]: whose header / committee the store rests on, how far it advanced
          phase,    \* "idle" | "booted" | "synced" | "failed"
          syncs
vars == <<store, phase, syncs>>

Init == store = None /\ phase = "idle" /\ syncs = 0

\* Sync begins: bootstrap
Bootstrap(b) ==
  /\ phase \in {"idle", "failed"} /\ syncs < MaxSyncs /\ syncs' = syncs + 1
  /\ IF BootOK(b)
       THEN store' = [hdr |-> b.hdr, com |-> b.com, height |-> 0] /\ phase' = "booted"
       ELSE /\ phase' = "failed"
            /\ store' = IF "StoreBeforeChecks" \in Devs /\ b.api = "ok" THEN [hdr |-> b.hdr, com |-> b.com, height |-> 0] ELSE store
\* ... continues: one verified update applied (abstractly: the height grows), or an error ends Sync
Advance == /\ phase = "booted" /\ store.height < MaxHeight
           /\ store' = [store EXCEPT !.height = @ + 1] /\ UNCHANGED <<phase, syncs>>
Fail    == /\ phase = "booted" /\ phase' = "failed" /\ UNCHANGED <<store, syncs>>
Finish  == /\ phase = "booted" /\ phase' = "synced" /\ UNCHANGED <<store, syncs>>

Next == (\E b \in Boots : Bootstrap(b)) \/ Advance \/ Fail \/ Finish
Spec == Init /\ [][Next]_vars

TypeOK == phase \in {"idle", "booted", "synced", "failed"} /\ syncs \in 0..MaxSyncs
\* whatever the store rests on is the trusted checkpoint's header and a committee proven under it
Bound == store # None => store.hdr = "checkpoint" /\ store.com = "proven"
\* a failed bootstrap leaves the store as it was
FailedKeeps == [][(phase' = "failed" /\ phase # "booted") => store' = store]_vars
\* the store goes back only through a successful bootstrap (a new Sync), never otherwise
BackOnlyByBootstrap == [][store'.height < store.height => (phase \in {"idle", "failed"} /\ phase' = "booted")]_vars
===============================================================================
