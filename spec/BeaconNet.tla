------------------------------ MODULE BeaconNet ------------------------------
(* Implementation-level (I) specification of the beacon sub-network's intake of offered content:        *)
(* beacon.Network.validateContents (beacon/beacon_network.go) over beacon.BeaconValidator                *)
(* (beacon/validation.go) and beacon.Storage (BeaconStore.tla, whose actions are re-used).               *)
(*                                                                                                       *)
(* A batch of n items is taken item by item, as the loop in the code does:                               *)
(*    Validate(i)   the validator's verdict on item i under its key; a refusal ends the batch with an    *)
(*                  error (the items before it STAY stored, the items after it are never looked at)      *)
(*    StoreItem     the accepted item goes to the store under the rule of its kind (BeaconStore's puts)   *)
(*    Finish        every item accepted and stored: the batch is handed to gossip                        *)
(* The validator's rules, per kind of content (Verdict):                                                 *)
(*    update range   key and content decode, the key's count = the number of updates in the content      *)
(*    bootstrap      decodes, is of the CURRENT fork (Electra) and its slot is not older than four months *)
(*                   (the block hash of the key is NOT compared with the header: "TODO" in the code)      *)
(*    finality       key and content decode, current fork, key slot <= the update's finalized slot       *)
(*    optimistic     key and content decode, current fork, key slot  = the update's signature slot       *)
(*    summaries      key and content decode, key epoch = content epoch, the oracle supplies the finalized *)
(*                   state root and the five-node branch links the summaries' root to it (not: a bad     *)
(*                   node, another list, a branch that reaches the root at another depth)                 *)
(*    anything else  refused (empty key, unknown selector)                                               *)
(* An item is a record of abstract facets; the harness concretises every facet into real bytes.          *)
(* Named deviations (Devs, beyond BeaconStore's):                                                        *)
(*    "NoCountCheck"        the key's count is not compared                                              *)
(*    "FinalityKeyAbove"    a finality update is accepted under a key slot ABOVE its finalized slot      *)
(*    "OptimisticLoose"     the optimistic update's key slot may be below the signature slot             *)
(*    "SummariesNoProof"    the branch is not verified                                                   *)
(*    "AnyFork"             content of an older fork is accepted                                         *)
(*    "ContinueAfterReject" a refused item does not end the batch                                        *)
EXTENDS BeaconStore

CONSTANTS MaxBatch,    \* items per batch
          MaxBatches  \* bound on the batches received (model checking only)

Kinds == {"update", "bootstrap", "finality", "optimistic", "summaries", "unknown", "emptykey"}
Forks == {"electra", "older"}
Auxs  == {"ok", "old", "badbranch", "otherlist", "wrongdepth", "oraclefail"}
NoItem == [kind |-> "none"]

\* kind; kdec / dec: key / content decodes; fork; ka: the key's number (bootstrap id, start period, slot, epoch);
\* kb: the key's count (update ranges); cv: the content's number (finalized slot, signature slot, epoch); tags: the
\* content's records (one per update of a range, else one); aux: age of a bootstrap / state of a summaries proof
Base(k) == [kind : {k}, kdec : BOOLEAN, dec : BOOLEAN, fork : Forks, ka : {0}, kb : {0}, cv : {0}, tags : {<<1>>}, aux : {"ok"}]
ItemsOf(kind) ==
  CASE kind = "update" ->
         { [i EXCEPT !.ka = s, !.kb = c, !.tags = ts] : i \in Base("update"), s \in Periods, c \in 1..MaxRange,
              ts \in UNION {[1..n -> Tags] : n \in 1..MaxRange} }
    [] kind = "bootstrap" ->
         { [i EXCEPT !.ka = d, !.tags = <<t>>, !.aux = a] : i \in Base("bootstrap"), d \in Ids, t \in Tags, a \in {"ok", "old"} }
    [] kind \in {"finality", "optimistic"} ->
         { [i EXCEPT !.ka = k, !.cv = c, !.tags = <<t>>] : i \in Base(kind), k \in 0..MaxSlot, c \in 0..MaxSlot, t \in Tags }
    [] kind = "summaries" ->
         { [i EXCEPT !.ka = k, !.cv = c, !.tags = <<t>>, !.aux = a] : i \in Base("summaries"), k \in 0..MaxEpoch, c \in 0..MaxEpoch, t \in Tags,
              a \in {"ok", "badbranch", "otherlist", "wrongdepth", "oraclefail"} }
    [] OTHER -> Base(kind)
Items == UNION {ItemsOf(k) : k \in Kinds}

Current(i) == i.fork = "electra" \/ "AnyFork" \in Devs

Verdict(i) ==
  CASE i.kind = "update"     -> i.kdec /\ i.dec /\ (i.kb = Len(i.tags) \/ "NoCountCheck" \in Devs)
    [] i.kind = "bootstrap"  -> i.dec /\ Current(i) /\ i.aux = "ok"
    [] i.kind = "finality"   -> i.kdec /\ i.dec /\ Current(i) /\ (i.ka <= i.cv \/ "FinalityKeyAbove" \in Devs)
    [] i.kind = "optimistic" -> i.kdec /\ i.dec /\ Current(i) /\ (i.ka = i.cv \/ ("OptimisticLoose" \in Devs /\ i.ka <= i.cv))
    [] i.kind = "summaries"  -> i.kdec /\ i.dec /\ i.ka = i.cv /\ (i.aux = "ok" \/ ("SummariesNoProof" \in Devs /\ i.aux # "oraclefail"))
    [] OTHER -> FALSE

\* what the statement of the network asks of an accepted item, written without looking at Verdict
Bound(i) ==
  /\ i.dec /\ i.kind \in {"update", "bootstrap", "finality", "optimistic", "summaries"}
  /\ i.kind # "bootstrap" => i.kdec
  /\ i.kind \in {"bootstrap", "finality", "optimistic"} => i.fork = "electra"
  /\ i.kind = "update" => i.kb = Len(i.tags)
  /\ i.kind = "bootstrap" => i.aux = "ok"
  /\ i.kind = "finality" => i.ka <= i.cv
  /\ i.kind = "optimistic" => i.ka = i.cv
  /\ i.kind = "summaries" => i.ka = i.cv /\ i.aux = "ok"

VARIABLES left,     \* items of the current batch not yet taken
          cur,      \* the accepted item waiting to be stored, or NoItem
          res,      \* "idle" | "run" | "ok" | "err"
          acc,      \* ghost: the places <<kind, where, tag>> the validator accepted a record for
          rej,      \* ghost: refusals within the current batch
          nb        \* batches received
nvars == <<boot, upd, fin, opt, hs, open, nops, left, cur, res, acc, rej, nb>>
StoreVars == <<boot, upd, fin, opt, hs, open, nops>>

NInit == Init /\ left = 0 /\ cur = NoItem /\ res = "idle" /\ acc = {} /\ rej = 0 /\ nb = 0

\* the places an accepted item may write: kind, where (id / period / content slot / key epoch), tag
Places(i) ==
  CASE i.kind = "update"     -> {<<"update", i.ka + k - 1, i.tags[k]>> : k \in 1..Len(i.tags)}
    [] i.kind = "bootstrap"  -> {<<"bootstrap", i.ka, i.tags[1]>>}
    [] i.kind = "finality"   -> {<<"finality", i.cv, i.tags[1]>>}
    [] i.kind = "optimistic" -> {<<"optimistic", i.cv, i.tags[1]>>}
    [] i.kind = "summaries"  -> {<<"summaries", i.ka, i.tags[1]>>}
    [] OTHER -> {}

Receive(n) == /\ open /\ res # "run" /\ n \in 1..MaxBatch
              /\ left' = n /\ res' = "run" /\ rej' = 0 /\ nb' = nb + 1 /\ UNCHANGED <<StoreVars, cur, acc>>

\* The verdicts the validator may give.  A finality update that satisfies every rule MAY still be refused: today's code
\* refuses all of them (the current fork is demanded, and the conversion to the generic update, FromLightClientFinalityUpdate,
\* has no case for the current fork's type); refusing is always safe, so both are behaviours of the specification.
Allowed(i) == IF i.kind = "finality" /\ Verdict(i) THEN BOOLEAN ELSE {Verdict(i) <=> TRUE}

ValidateAs(i, v) ==
  /\ open /\ res = "run" /\ cur = NoItem /\ left > 0
  /\ IF v
       THEN cur' = i /\ acc' = acc \cup Places(i) /\ UNCHANGED <<left, res, rej>>
       ELSE /\ rej' = rej + 1
            /\ IF "ContinueAfterReject" \in Devs
                 THEN left' = left - 1 /\ UNCHANGED <<cur, res, acc>>
                 ELSE left' = 0 /\ res' = "err" /\ UNCHANGED <<cur, acc>>
  /\ UNCHANGED <<StoreVars, nb>>
Validate(i) == \E v \in Allowed(i) : ValidateAs(i, v)

\* the store takes the accepted item under the rule of its kind; the finality / optimistic update is held under the
\* CONTENT's slot, the summaries under the KEY's epoch (equal by the verdict)
PutOf(i) ==
  CASE i.kind = "update"     -> PutUpdates(i.ka, i.tags)
    [] i.kind = "bootstrap"  -> PutBootstrap(i.ka, i.tags[1])
    [] i.kind = "finality"   -> PutFinality(i.cv, i.tags[1])
    [] i.kind = "optimistic" -> PutOptimistic(i.cv, i.tags[1])
    [] i.kind = "summaries"  -> PutSummaries(i.ka, i.tags[1])

StoreItem == /\ cur # NoItem /\ PutOf(cur)
             /\ cur' = NoItem /\ left' = left - 1 /\ UNCHANGED <<res, acc, rej, nb>>

Finish == /\ res = "run" /\ cur = NoItem /\ left = 0
          /\ res' = "ok" /\ UNCHANGED <<StoreVars, left, cur, acc, rej, nb>>

NCrash  == Crash /\ left' = 0 /\ cur' = NoItem /\ res' = "idle" /\ UNCHANGED <<acc, rej, nb>>
NReopen == Reopen /\ UNCHANGED <<left, cur, res, acc, rej, nb>>

\* an update range must fit the period universe of the model
Fits(i) == i.kind = "update" => i.ka + Len(i.tags) - 1 <= MaxPeriod

NNext == \/ nb < MaxBatches /\ \E n \in 1..MaxBatch : Receive(n)
         \/ \E i \in Items : Fits(i) /\ Validate(i)
         \/ StoreItem \/ Finish \/ NCrash \/ NReopen
NSpec == NInit /\ [][NNext]_nvars

----------------------------------------------------------------------------
\* reading the store under the item's OWN key
ReadKey(i) ==
  CASE i.kind = "update"     -> GetUpdates(i.ka, i.kb)
    [] i.kind = "bootstrap"  -> GetBootstrap(i.ka)
    [] i.kind = "finality"   -> GetFinality(i.ka)
    [] i.kind = "optimistic" -> GetOptimistic(i.ka)
    [] i.kind = "summaries"  -> GetSummaries(i.ka)

\* every accepted item satisfies the binding rules
AcceptedBound == [][(cur = NoItem /\ cur' # NoItem) => Bound(cur')]_nvars
\* an item that was accepted and stored can at once be read back under the key it came with (the answer may be a
\* newer record of the same kind, never "not found")
ReadYourWrite == [][(cur # NoItem /\ cur' = NoItem /\ open') => \A i \in {cur} : ReadKey(i)' # NotFound]_nvars
\* nothing is in the store that the validator did not accept for that place
StoredOnlyAccepted ==
  /\ \A d \in Ids : boot[d] # Absent => <<"bootstrap", d, boot[d]>> \in acc
  /\ \A p \in Periods : upd[p] # Absent => <<"update", p, upd[p]>> \in acc
  /\ fin.t # 0 => <<"finality", fin.s, fin.t>> \in acc
  /\ opt.t # 0 => <<"optimistic", opt.s, opt.t>> \in acc
  /\ hs.t # 0 => <<"summaries", hs.e, hs.t>> \in acc
\* after a refusal nothing more of the batch reaches the store
NothingAfterReject == [][(res = "err" /\ res' = "err") => UNCHANGED <<boot, upd, fin, opt, hs>>]_nvars
\* a batch is reported good only when every item of it was accepted and stored
OkMeansAll == res = "ok" => left = 0 /\ cur = NoItem /\ rej = 0
===============================================================================
