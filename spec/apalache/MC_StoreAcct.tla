---------------------------- MODULE MC_StoreAcct ----------------------------
EXTENDS StoreAcct
\* @type: () => Set(Int);
IdsC == 1..4
NoSplit == FALSE
Split == TRUE
\* an arbitrary state satisfying the candidate invariant (sizes are unbounded naturals)
IndInit == /\ held \in [Ids -> Nat] /\ dheld \in [Ids -> Nat]
           /\ rec \in Nat /\ drec \in Nat /\ counter \in Nat /\ open \in BOOLEAN
           /\ NeverUnder /\ CounterIsFigure
=============================================================================
