CONSTANTS
  Ids <- IdsC
  SplitBatch <- NoSplit
INIT Init
NEXT Next
INVARIANT IndInv
