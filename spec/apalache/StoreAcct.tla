------------------------------ MODULE StoreAcct ------------------------------
(* The usage accounting of storage/pebble.ContentStorage in isolation (C05 / C17), for ARBITRARY item  *)
(* sizes: the in-memory counter, the persisted usage figure and the bytes held.  Put adds the item's    *)
(* length to the counter even when it overwrites (the code does not subtract the replaced item), writes *)
(* item and figure in one batch; Prune removes a set of items and subtracts exactly their lengths;      *)
(* Crash falls back to the last durable pair or keeps the unsynced batch (each batch is atomic);         *)
(* Reopen loads the counter from the persisted figure.  IndInv (the figure never under-reports, the     *)
(* counter equals the figure while open) is inductive; Apalache checks Init => IndInv and               *)
(* IndInv /\ Next => IndInv' from an arbitrary state of the bounded instance, with sizes ranging over   *)
(* all naturals - the part TLC's ContentStore model covers only for three sizes.                         *)
(* Deviation SplitBatch (seed C17-1 / C17-3): item and figure are written by two batches, a crash may    *)
(* keep the first without the second - the negative control.                                              *)
EXTENDS Integers, FiniteSets, Apalache

CONSTANTS
  \* @type: Set(Int);
  Ids,
  \* @type: Bool;
  SplitBatch

VARIABLES
  \* @type: Int -> Int;
  held,     \* id -> length held (0 = absent): what a reader of the database sees
  \* @type: Int;
  rec,      \* persisted usage figure as a reader sees it
  \* @type: Int;
  counter,  \* in-memory counter
  \* @type: Int -> Int;
  dheld,    \* durable state: what survives a crash that loses the unsynced batch
  \* @type: Int;
  drec,
  \* @type: Bool;
  open

vars == <<held, rec, counter, dheld, drec, open>>

\* @type: (Int -> Int) => Int;
Bytes(h) == ApaFoldSet(LAMBDA acc, i : acc + h[i], 0, Ids)

Init == /\ held = [i \in Ids |-> 0] /\ rec = 0 /\ counter = 0
        /\ dheld = [i \in Ids |-> 0] /\ drec = 0 /\ open = TRUE

\* one unsynced batch: item + figure (the durable pair stays)
Put(i, s) == /\ open /\ s >= 0
             /\ counter' = counter + s
             /\ held' = [held EXCEPT ![i] = s]
             /\ rec' = IF SplitBatch THEN rec ELSE counter + s     \* deviation: the figure follows in a later batch
             /\ UNCHANGED <<dheld, drec, open>>
\* deviation only: the second batch of a split put
PutFigure == /\ open /\ SplitBatch /\ rec' = counter /\ UNCHANGED <<held, counter, dheld, drec, open>>
\* a pruning pass: removes the items of D, subtracts exactly their lengths, commits with Sync
Prune(D) == /\ open /\ D \subseteq Ids
            /\ LET h2 == [i \in Ids |-> IF i \in D THEN 0 ELSE held[i]]
                   freed == Bytes(held) - Bytes(h2) IN
               /\ counter >= freed
               /\ counter' = counter - freed /\ rec' = counter - freed /\ held' = h2
               /\ dheld' = h2 /\ drec' = counter - freed
            /\ UNCHANGED open
Sync == /\ open /\ dheld' = held /\ drec' = rec /\ UNCHANGED <<held, rec, counter, open>>
Crash == /\ open /\ open' = FALSE
         /\ \/ UNCHANGED <<held, rec>> /\ dheld' = held /\ drec' = rec          \* the unsynced batches survive
            \/ held' = dheld /\ rec' = drec /\ UNCHANGED <<dheld, drec>>        \* they are lost
         /\ UNCHANGED counter
Reopen == /\ ~open /\ open' = TRUE /\ counter' = rec /\ UNCHANGED <<held, rec, dheld, drec>>

Next == \/ \E i \in Ids, s \in Nat : Put(i, s)
        \/ PutFigure
        \/ \E D \in SUBSET Ids : Prune(D)
        \/ Sync \/ Crash \/ Reopen

TypeOK == /\ held \in [Ids -> Nat] /\ dheld \in [Ids -> Nat]
          /\ rec \in Nat /\ drec \in Nat /\ counter \in Nat /\ open \in BOOLEAN
\* the figure never under-reports - in the visible state and in the durable one
NeverUnder == rec >= Bytes(held) /\ drec >= Bytes(dheld)
CounterIsFigure == open => counter = rec
IndInv == TypeOK /\ NeverUnder /\ CounterIsFigure
===============================================================================
