CONSTANTS
  Ids <- IdsC
  SplitBatch <- Split
INIT Init
NEXT Next
INVARIANT IndInv
