SPECIFICATION Spec
CONSTANTS
  Devs = {"LeafValueAsRef"}
  AllKeys = FALSE
  AllSmall = FALSE
  Kinds = {"vref"}
  Emit = FALSE
INVARIANTS Sound NoPanic StoredFinal HonestAccepted EmitCase
CHECK_DEADLOCK FALSE
