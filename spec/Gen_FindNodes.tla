---------------------------- MODULE Gen_FindNodes ----------------------------
(* Scenario space of C11 (responder side), enumerated exhaustively by TLC.                     *)
EXTENDS FindNodes
DistLists == {"empty", "zero", "d256", "mix", "repeat", "over", "overonly", "all", "toolong", "low"}
Fills == {"empty", "liveAndUnverified", "movedAfterCheck", "fullMax", "fullTight"}
Classes == {"loop", "lan", "pub"}
VARIABLES c, emitted
Init == /\ emitted = FALSE
        /\ c \in [dists : DistLists, fill : Fills, asker : Classes, self : {"lan", "pub"}]
Next == ~emitted /\ emitted' = TRUE /\ UNCHANGED c
Spec == Init /\ [][Next]_<<c, emitted>>
Emit == emitted => PrintT(<<"CASE", ToJson(c)>>)
===============================================================================
