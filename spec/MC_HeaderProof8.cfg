SPECIFICATION Spec
CONSTANTS
  E = 8
  MergeNum = 10
  ShanghaiNum = 14
  CancunNum = 18
  CapStart = 16
  GBell = 3228
  GDeneb = 6444
  Devs = {}
INVARIANTS Exact OutOfRangeIsError AttrOracleAgrees
CHECK_DEADLOCK FALSE
