SPECIFICATION NSpec
CONSTANTS
  Ids = {1}
  MaxPeriod = 2
  MaxSlot = 1
  MaxEpoch = 1
  NTags = 1
  MaxRange = 2
  MaxOps = 0
  MaxBatch = 2
  MaxBatches = 2
  WithCrash = FALSE
  Devs = {"SummariesNoProof"}
PROPERTIES AcceptedBound
CHECK_DEADLOCK FALSE
