SPECIFICATION Spec
CONSTANTS
  N = 3
  Blk <- MCBlk3
  Devs = {"SlotIndexPanic"}
INVARIANT TypeOK
INVARIANT NoPanic
CHECK_DEADLOCK FALSE
