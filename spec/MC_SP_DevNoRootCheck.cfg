SPECIFICATION Spec
CONSTANTS
  Devs = {"NoRootCheck"}
  AllKeys = FALSE
  AllSmall = FALSE
  Kinds = {"atn"}
  Emit = FALSE
INVARIANTS Sound NoPanic StoredFinal HonestAccepted EmitCase
CHECK_DEADLOCK FALSE
