SPECIFICATION Spec
CONSTANTS
  B = 3
  Cap = 3
  Target = 1
  Sizes = {1, 2}
  Procs = {p1}
  Devs = {"SizeKeyRadius"}
  MaxPuts = 7
  WithCrash = TRUE
  Dists <- D3

PROPERTIES OpenRadiusRule
CONSTRAINT StateBound
CHECK_DEADLOCK FALSE
