SPECIFICATION Spec
CONSTANTS
  Universe = {0, 1, 2}
  Devs = {}
INVARIANTS AnswerIsNegotiated Agree FramingRoundTrips FramingMismatchDetected
CHECK_DEADLOCK FALSE
