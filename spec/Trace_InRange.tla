---------------------------- MODULE Trace_InRange ----------------------------
(* Judge for the in-range helper (C06): in range  <=>  XOR distance, read big-endian, strictly  *)
(* below the radius.  Deviation "InRangeLogDist" (listed finding F-C06-2): the code compares the *)
(* radius with the log2 distance instead (radius > LogDist).                                    *)
EXTENDS Distance, FiniteSets, TLC, Json, SequencesExt
CONSTANT Devs
Trace == ndJsonDeserialize("trace.ndjson")
VARIABLES l, viol

\* radius (32 bytes, big-endian) > n for a small natural n
GtSmall(r, n) == (\E i \in 1..30 : r[i] # 0) \/ r[31] * 256 + r[32] > n
Expected(e) == IF "InRangeLogDist" \in Devs THEN GtSmall(e.radius, LogDist(e.node, e.id))
               ELSE InRangeBE(e.node, e.radius, e.id)
Init == l = 1 /\ viol = {}
Next == /\ l <= Len(Trace) /\ l' = l + 1
        /\ LET e == Trace[l] IN
           IF e.ev = "inrange" /\ e.res # Expected(e) THEN viol' = viol \cup {<<l, "inrange">>}
           \* advert: the radius the node reports in a PONG / PING payload (decoded as the little-endian SSZ uint256 it is specified
           \* to be, logged big-endian) is the radius of its store
           ELSE IF e.ev = "advert" /\ e.got # e.radius THEN viol' = viol \cup {<<l, "advertised">>}
           ELSE UNCHANGED viol
Spec == Init /\ [][Next]_<<l, viol>>
Done == l = Len(Trace) + 1
Report == Done => PrintT(<<"VIOL", ToJson(viol)>>)
TraceAccepted == TLCGet("stats").diameter = Len(Trace) + 1
===============================================================================
