SPECIFICATION Spec
CONSTANTS
  N = 3
  Blk <- MCBlk3
  Devs = {}
INVARIANT TypeOK
INVARIANT Soundness
INVARIANT NoPanic
INVARIANT Completeness
CHECK_DEADLOCK FALSE
