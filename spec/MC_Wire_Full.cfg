SPECIFICATION Spec
CONSTANTS
  Devs = {}
  Emit = TRUE
  Full = TRUE
  Part = "all"
INVARIANTS TypeOK NoPanic ReplyOnlyToRequests EmitCase
CHECK_DEADLOCK FALSE
