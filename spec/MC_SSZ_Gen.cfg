SPECIFICATION Spec
CONSTANTS
  OffW = 4
  Devs = {}
  Mode = "gen"
  MaxLen = 0
  Sym = 0
  TruncAll = 24
INVARIANTS GenLaws Emit EmitSchemas
CHECK_DEADLOCK FALSE
