SPECIFICATION Spec
CONSTANTS
  PeriodLen = 2
  MaxSlot = 4
  Now = 4
  Coms = {"A", "B", "C"}
  Parts = {0, 1, 3, 4}
  N = 6
  Devs = {}
INVARIANTS TypeOK OptAhead NeverRotateToNone
PROPERTIES Sound Monotone OptAheadStep NeedsTwoThirds RotationToStoredNext
VIEW View
CHECK_DEADLOCK FALSE
