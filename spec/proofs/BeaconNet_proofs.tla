-------------------------- MODULE BeaconNet_proofs --------------------------
(* TLAPS proofs about BeaconNet.tla for ARBITRARY constants: with no deviation switched on, whatever the      *)
(* validator accepts satisfies the binding rules (which are written without looking at Verdict); after a       *)
(* refusal nothing more of the batch reaches the store.                                                        *)
EXTENDS BeaconNet, TLAPS

ASSUME NoDevs == Devs = {}

LEMMA VerdictBound == ASSUME NEW i, Verdict(i) PROVE Bound(i)
  <1>1. CASE i.kind = "update" BY <1>1, NoDevs DEF Verdict, Bound, Current
  <1>2. CASE i.kind = "bootstrap" BY <1>2, NoDevs DEF Verdict, Bound, Current
  <1>3. CASE i.kind = "finality" BY <1>3, NoDevs DEF Verdict, Bound, Current
  <1>4. CASE i.kind = "optimistic" BY <1>4, NoDevs DEF Verdict, Bound, Current
  <1>5. CASE i.kind = "summaries" BY <1>5, NoDevs DEF Verdict, Bound, Current
  <1>6. CASE i.kind \notin {"update", "bootstrap", "finality", "optimistic", "summaries"} BY <1>6 DEF Verdict
  <1> QED BY <1>1, <1>2, <1>3, <1>4, <1>5, <1>6

LEMMA AllowedTrue == ASSUME NEW i, TRUE \in Allowed(i) PROVE Verdict(i)
  BY DEF Allowed

THEOREM AcceptedBoundStep ==
  ASSUME [NNext]_nvars
  PROVE  (cur = NoItem /\ cur' # NoItem) => Bound(cur')
  <1>1. ASSUME NEW n \in 1..MaxBatch, Receive(n) PROVE cur' = cur BY <1>1 DEF Receive
  <1>2. ASSUME NEW i \in Items, Validate(i) PROVE (cur = NoItem /\ cur' # NoItem) => Bound(cur')
    <2>1. PICK v \in Allowed(i) : ValidateAs(i, v) BY <1>2 DEF Validate
    <2>4. v \in BOOLEAN BY DEF Allowed
    <2>2. CASE v = TRUE
      <3>1. cur' = i BY <2>1, <2>2 DEF ValidateAs
      <3>2. Verdict(i) BY <2>2, AllowedTrue
      <3> QED BY <3>1, <3>2, VerdictBound
    <2>3. CASE v = FALSE
      <3>1. cur' = cur BY <2>1, <2>3, NoDevs DEF ValidateAs
      <3> QED BY <3>1
    <2> QED BY <2>2, <2>3, <2>4
  <1>3. ASSUME StoreItem PROVE cur' = NoItem BY <1>3 DEF StoreItem
  <1>4. ASSUME Finish PROVE cur' = cur BY <1>4 DEF Finish
  <1>5. ASSUME NCrash PROVE cur' = NoItem BY <1>5 DEF NCrash
  <1>6. ASSUME NReopen PROVE cur' = cur BY <1>6 DEF NReopen
  <1>7. ASSUME UNCHANGED nvars PROVE cur' = cur BY <1>7 DEF nvars
  <1> QED BY <1>1, <1>2, <1>3, <1>4, <1>5, <1>6, <1>7 DEF NNext

THEOREM AcceptedBoundHolds == NSpec => AcceptedBound
  <1>1. [NNext]_nvars => ((cur = NoItem /\ cur' # NoItem) => Bound(cur')) BY AcceptedBoundStep
  <1> QED BY <1>1, PTL DEF NSpec, AcceptedBound

\* after a refusal nothing more of the batch reaches the store: the inductive invariant res = "err" => cur = NoItem
ErrInv == res = "err" => cur = NoItem /\ left = 0

THEOREM ErrInvStep == ASSUME ErrInv, [NNext]_nvars PROVE ErrInv'
  <1>1. ASSUME NEW n \in 1..MaxBatch, Receive(n) PROVE ErrInv' BY <1>1 DEF Receive, ErrInv
  <1>2. ASSUME NEW i \in Items, Validate(i) PROVE ErrInv'
    <2>1. PICK v \in Allowed(i) : ValidateAs(i, v) BY <1>2 DEF Validate
    <2> QED BY <2>1, NoDevs DEF ValidateAs, ErrInv, NoItem
  <1>3. ASSUME StoreItem PROVE ErrInv' BY <1>3 DEF StoreItem, ErrInv
  <1>4. ASSUME Finish PROVE ErrInv' BY <1>4 DEF Finish, ErrInv
  <1>5. ASSUME NCrash PROVE ErrInv' BY <1>5 DEF NCrash, ErrInv
  <1>6. ASSUME NReopen PROVE ErrInv' BY <1>6 DEF NReopen, ErrInv
  <1>7. ASSUME UNCHANGED nvars PROVE ErrInv' BY <1>7 DEF nvars, ErrInv
  <1> QED BY <1>1, <1>2, <1>3, <1>4, <1>5, <1>6, <1>7 DEF NNext

THEOREM NothingAfterRejectStep ==
  ASSUME ErrInv, [NNext]_nvars, res = "err", res' = "err"
  PROVE  UNCHANGED <<boot, upd, fin, opt, hs>>
  <1>0. cur = NoItem /\ left = 0 BY DEF ErrInv
  <1>1. ASSUME NEW n \in 1..MaxBatch, Receive(n) PROVE UNCHANGED <<boot, upd, fin, opt, hs>> BY <1>1 DEF Receive, StoreVars
  <1>2. ASSUME NEW i \in Items, Validate(i) PROVE UNCHANGED <<boot, upd, fin, opt, hs>>
    <2>1. PICK v \in Allowed(i) : ValidateAs(i, v) BY <1>2 DEF Validate
    <2> QED BY <2>1 DEF ValidateAs, StoreVars
  <1>3. ASSUME StoreItem PROVE FALSE BY <1>3, <1>0 DEF StoreItem
  <1>4. ASSUME Finish PROVE UNCHANGED <<boot, upd, fin, opt, hs>> BY <1>4 DEF Finish, StoreVars
  <1>5. ASSUME NCrash PROVE FALSE BY <1>5 DEF NCrash
  <1>6. ASSUME NReopen PROVE UNCHANGED <<boot, upd, fin, opt, hs>> BY <1>6 DEF NReopen, Reopen
  <1>7. ASSUME UNCHANGED nvars PROVE UNCHANGED <<boot, upd, fin, opt, hs>> BY <1>7 DEF nvars
  <1> QED BY <1>1, <1>2, <1>3, <1>4, <1>5, <1>6, <1>7 DEF NNext
=============================================================================
