---------------------------- MODULE Offer_proofs ----------------------------
(* TLAPS proof, on Offer.tla itself (the module TLC checks for C09 / C16), that the INBOUND slot accounting   *)
(* is right for ANY finite set of offers and any natural limit: the counter inHeld always equals the number of *)
(* offers whose permit is held and never exceeds the limit.  (Outbound: same discipline, see Slots_proofs; the   *)
(* Stop action releases a whole queue at once and stays with TLC.)  No deviation switched on.                    *)
EXTENDS Offer, FiniteSetTheorems, TLAPS

ASSUME OffersFinite == IsFiniteSet(Offers)
ASSUME LimitNat == Limit \in Nat
ASSUME NoDevs == Devs = {}

HeldIn == {o \in Offers : oPermit[o] = "held"}
InTypeOK == /\ oPermit \in [Offers -> {"none", "held", "released"}]
            /\ oPhase \in [Offers -> {"new", "spawned", "waiting", "ending", "done"}]
            /\ inHeld \in Int
InInv == /\ InTypeOK
         /\ inHeld = Cardinality(HeldIn) /\ inHeld <= Limit
         /\ \A o \in Offers : oPhase[o] = "new" => oPermit[o] = "none"

LEMMA HeldInFinite == IsFiniteSet(HeldIn)
  BY OffersFinite, FS_Subset DEF HeldIn

THEOREM InInit == Init => InInv
  <1> SUFFICES ASSUME Init PROVE InInv OBVIOUS
  <1>1. HeldIn = {} BY DEF Init, HeldIn
  <1>2. Cardinality(HeldIn) = 0 BY <1>1, FS_EmptySet
  <1> QED BY <1>2, LimitNat DEF Init, InInv, InTypeOK

THEOREM InStep == InInv /\ [Next]_vars => InInv'
  <1> SUFFICES ASSUME InInv, [Next]_vars PROVE InInv' OBVIOUS
  <1> USE DEF InInv, InTypeOK
  <1>f. IsFiniteSet(HeldIn) BY HeldInFinite
  <1>n. Cardinality(HeldIn) \in Nat BY <1>f, FS_CardinalityType
  \* actions that leave the inbound accounting alone
  <1>u. ASSUME UNCHANGED <<inHeld, oPermit, oPhase>> PROVE InInv' BY <1>u DEF HeldIn
  <1>1. ASSUME NEW o \in Offers, HandleOffer(o) PROVE InInv'
    <2>0. oPhase[o] = "new" /\ oPermit[o] = "none" BY <1>1 DEF HandleOffer
    <2>1. CASE inHeld' = inHeld /\ oPermit' = oPermit /\ oPhase' = [oPhase EXCEPT ![o] = "done"]
      <3>1. HeldIn' = HeldIn BY <2>1 DEF HeldIn
      <3> QED BY <2>1, <3>1
    <2>2. CASE inHeld < Limit /\ inHeld' = inHeld + 1 /\ oPermit' = [oPermit EXCEPT ![o] = "held"] /\ oPhase' = [oPhase EXCEPT ![o] = "spawned"]
      <3>1. HeldIn' = HeldIn \cup {o} BY <2>2 DEF HeldIn
      <3>2. o \notin HeldIn BY <2>0 DEF HeldIn
      <3>3. Cardinality(HeldIn') = Cardinality(HeldIn) + 1 BY <3>1, <3>2, <1>f, FS_AddElement
      <3> QED BY <2>2, <3>3, <1>n, LimitNat
    <2>3. (inHeld' = inHeld /\ oPermit' = oPermit /\ oPhase' = [oPhase EXCEPT ![o] = "done"])
          \/ (inHeld < Limit /\ inHeld' = inHeld + 1 /\ oPermit' = [oPermit EXCEPT ![o] = "held"] /\ oPhase' = [oPhase EXCEPT ![o] = "spawned"])
      BY <1>1 DEF HandleOffer
    <2> QED BY <2>1, <2>2, <2>3
  <1>2. ASSUME NEW o \in Offers, RecvStart(o) PROVE InInv'
    <2>1. UNCHANGED <<inHeld, oPermit>> /\ oPhase' = [oPhase EXCEPT ![o] = "waiting"] /\ oPhase[o] = "spawned" BY <1>2, NoDevs DEF RecvStart
    <2>2. HeldIn' = HeldIn BY <2>1 DEF HeldIn
    <2> QED BY <2>1, <2>2
  <1>3. ASSUME NEW o \in Offers, NEW oc \in {"ok", "lost", "miscount"}, RecvOutcome(o, oc) PROVE InInv'
    <2>0. oPhase[o] = "waiting" /\ oPhase' = [oPhase EXCEPT ![o] = "ending"] BY <1>3 DEF RecvOutcome
    <2>1. CASE oPermit[o] = "held"
      <3>1. inHeld' = inHeld - 1 /\ oPermit' = [oPermit EXCEPT ![o] = "released"] BY <1>3, <2>1 DEF RecvOutcome
      <3>2. HeldIn' = HeldIn \ {o} BY <3>1 DEF HeldIn
      <3>3. o \in HeldIn BY <2>1 DEF HeldIn
      <3>4. Cardinality(HeldIn') = Cardinality(HeldIn) - 1 BY <3>2, <3>3, <1>f, FS_RemoveElement
      <3> QED BY <2>0, <3>1, <3>4, <1>n, LimitNat
    <2>2. CASE oPermit[o] # "held"
      <3>1. UNCHANGED <<inHeld, oPermit>> BY <1>3, <2>2 DEF RecvOutcome
      <3>2. HeldIn' = HeldIn BY <3>1 DEF HeldIn
      <3> QED BY <2>0, <3>1, <3>2
    <2> QED BY <2>1, <2>2
  <1>4. ASSUME NEW o \in Offers, RecvEnd(o) PROVE InInv'
    <2>1. UNCHANGED <<inHeld, oPermit>> /\ oPhase' = [oPhase EXCEPT ![o] = "done"] /\ oPhase[o] = "ending" BY <1>4 DEF RecvEnd
    <2>2. HeldIn' = HeldIn BY <2>1 DEF HeldIn
    <2> QED BY <2>1, <2>2
  <1>5. ASSUME NEW r \in OutReqs, GossipTake(r) PROVE InInv' BY <1>5, <1>u DEF GossipTake
  <1>6. ASSUME NEW r \in OutReqs, TransferEnd(r) PROVE InInv' BY <1>6, <1>u DEF TransferEnd
  <1>7. ASSUME NEW r \in OutReqs, NEW oc \in {"early", "empty", "wrongcode", "undecodable", "wrongcount", "declined", "accepted"}, OfferOutcome(r, oc)
        PROVE InInv' BY <1>7, <1>u DEF OfferOutcome
  <1>8. ASSUME WorkerTake PROVE InInv' BY <1>8, <1>u DEF WorkerTake
  <1>9. ASSUME Stop PROVE InInv' BY <1>9, <1>u DEF Stop
  <1>10. ASSUME UNCHANGED vars PROVE InInv' BY <1>10, <1>u DEF vars
  <1> QED BY <1>1, <1>2, <1>3, <1>4, <1>5, <1>6, <1>7, <1>8, <1>9, <1>10 DEF Next

THEOREM InboundSlotsSafe == Spec => []InInv
  BY InInit, InStep, PTL DEF Spec

THEOREM InboundWithinLimit == InInv => (inHeld >= 0 /\ inHeld <= Limit)
  <1> SUFFICES ASSUME InInv PROVE inHeld >= 0 /\ inHeld <= Limit OBVIOUS
  <1>1. Cardinality(HeldIn) \in Nat BY HeldInFinite, FS_CardinalityType
  <1> QED BY <1>1 DEF InInv
=============================================================================
