------------------------- MODULE BeaconStore_proofs -------------------------
(* TLAPS proofs of two action properties of BeaconStore.tla for ARBITRARY constants (any set of ids, any    *)
(* bounds): with no deviation switched on, the historical-summaries record only ever moves to a strictly     *)
(* newer epoch, and a put never touches another kind of record.                                               *)
EXTENDS BeaconStore, TLAPS

ASSUME NoDevs == Devs = {}

THEOREM SummariesStep ==
  ASSUME [Next]_vars
  PROVE  (open /\ open' /\ hs.t # 0) => (hs' = hs \/ hs'.e > hs.e)
  <1>1. ASSUME NEW i \in Ids, NEW t \in Tags, PutBootstrap(i, t) PROVE hs' = hs BY <1>1 DEF PutBootstrap
  <1>2. ASSUME NEW s \in Periods, NEW n \in 1..MaxRange, NEW ts \in [1..n -> Tags], PutUpdates(s, ts) PROVE hs' = hs BY <1>2 DEF PutUpdates
  <1>3. ASSUME NEW s \in 0..MaxSlot, NEW t \in Tags, PutFinality(s, t) PROVE hs' = hs BY <1>3 DEF PutFinality
  <1>4. ASSUME NEW s \in 0..MaxSlot, NEW t \in Tags, PutOptimistic(s, t) PROVE hs' = hs BY <1>4 DEF PutOptimistic
  <1>5. ASSUME NEW e \in 0..MaxEpoch, NEW t \in Tags, PutSummaries(e, t) PROVE hs.t # 0 => (hs' = hs \/ hs'.e > hs.e)
        BY <1>5, NoDevs DEF PutSummaries
  <1>6. ASSUME Crash PROVE hs' = hs BY <1>6 DEF Crash
  <1>7. ASSUME Reopen PROVE hs' = hs BY <1>7 DEF Reopen
  <1>8. ASSUME UNCHANGED vars PROVE hs' = hs BY <1>8 DEF vars
  <1> QED BY <1>1, <1>2, <1>3, <1>4, <1>5, <1>6, <1>7, <1>8 DEF Next

THEOREM SummariesMonotoneHolds == Spec => SummariesMonotone
  <1>1. [Next]_vars => ((open /\ open' /\ hs.t # 0) => (hs' = hs \/ hs'.e > hs.e)) BY SummariesStep
  <1> QED BY <1>1, PTL DEF Spec, SummariesMonotone

\* a put never touches another kind of record
THEOREM SeparationStep ==
  ASSUME [Next]_vars, open, open'
  PROVE  /\ (boot' # boot => upd' = upd /\ hs' = hs /\ fin' = fin /\ opt' = opt)
         /\ (upd' # upd => boot' = boot /\ hs' = hs /\ fin' = fin /\ opt' = opt)
         /\ (hs' # hs => boot' = boot /\ upd' = upd /\ fin' = fin /\ opt' = opt)
  <1>1. ASSUME NEW i \in Ids, NEW t \in Tags, PutBootstrap(i, t) PROVE upd' = upd /\ hs' = hs /\ fin' = fin /\ opt' = opt BY <1>1 DEF PutBootstrap
  <1>2. ASSUME NEW s \in Periods, NEW n \in 1..MaxRange, NEW ts \in [1..n -> Tags], PutUpdates(s, ts) PROVE boot' = boot /\ hs' = hs /\ fin' = fin /\ opt' = opt BY <1>2 DEF PutUpdates
  <1>3. ASSUME NEW s \in 0..MaxSlot, NEW t \in Tags, PutFinality(s, t) PROVE boot' = boot /\ upd' = upd /\ hs' = hs BY <1>3 DEF PutFinality
  <1>4. ASSUME NEW s \in 0..MaxSlot, NEW t \in Tags, PutOptimistic(s, t) PROVE boot' = boot /\ upd' = upd /\ hs' = hs BY <1>4 DEF PutOptimistic
  <1>5. ASSUME NEW e \in 0..MaxEpoch, NEW t \in Tags, PutSummaries(e, t) PROVE boot' = boot /\ upd' = upd /\ fin' = fin /\ opt' = opt BY <1>5 DEF PutSummaries
  <1>6. ASSUME Crash PROVE FALSE BY <1>6 DEF Crash
  <1>7. ASSUME Reopen PROVE FALSE BY <1>7 DEF Reopen
  <1>8. ASSUME UNCHANGED vars PROVE boot' = boot /\ upd' = upd /\ hs' = hs BY <1>8 DEF vars
  <1> QED BY <1>1, <1>2, <1>3, <1>4, <1>5, <1>6, <1>7, <1>8 DEF Next

THEOREM AnswersNotOlderHolds == AnswersNotOlder
  BY DEF AnswersNotOlder, GetFinality, GetOptimistic, GetSummaries, NotFound
=============================================================================
