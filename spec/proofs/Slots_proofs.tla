---------------------------- MODULE Slots_proofs ----------------------------
(* TLAPS proof that the slot discipline of Slots.tla keeps its counter equal to the number of requests  *)
(* holding a slot, within 0..Limit, for ANY finite set of requests and any natural limit.              *)
EXTENDS Slots, FiniteSetTheorems, TLAPS

ASSUME ReqFinite == IsFiniteSet(Req)
ASSUME LimitNat == Limit \in Nat
ASSUME Once == ReleaseOnce = TRUE

LEMMA HeldFinite == IsFiniteSet(Held)
  BY ReqFinite, FS_Subset DEF Held

THEOREM InitInd == Init => IndInv
  <1> SUFFICES ASSUME Init PROVE IndInv OBVIOUS
  <1>1. Held = {} BY DEF Init, Held
  <1>2. Cardinality(Held) = 0 BY <1>1, FS_EmptySet
  <1> QED BY <1>2, LimitNat DEF Init, IndInv, TypeOK, Inv

THEOREM StepInd == IndInv /\ [Next]_vars => IndInv'
  <1> SUFFICES ASSUME IndInv, [Next]_vars PROVE IndInv' OBVIOUS
  <1> USE DEF IndInv, TypeOK, Inv
  <1>f. IsFiniteSet(Held) BY HeldFinite
  <1>n. Cardinality(Held) \in Nat BY <1>f, FS_CardinalityType
  <1>1. ASSUME NEW r \in Req, Take(r) PROVE IndInv'
    <2>1. CASE used < Limit
      <3>1. st' = [st EXCEPT ![r] = "held"] /\ used' = used + 1 BY <1>1, <2>1 DEF Take
      <3>2. st[r] = "new" BY <1>1 DEF Take
      <3>3. Held' = Held \cup {r} BY <3>1, <3>2 DEF Held
      <3>4. r \notin Held BY <3>2 DEF Held
      <3>5. Cardinality(Held') = Cardinality(Held) + 1 BY <3>3, <3>4, <1>f, FS_AddElement
      <3>6. st' \in [Req -> {"new", "held", "released", "refused"}] BY <3>1
      <3> QED BY <3>1, <3>5, <3>6, <2>1, <1>n, LimitNat
    <2>2. CASE ~(used < Limit)
      <3>1. st' = [st EXCEPT ![r] = "refused"] /\ used' = used BY <1>1, <2>2 DEF Take
      <3>2. st[r] = "new" BY <1>1 DEF Take
      <3>3. Held' = Held BY <3>1, <3>2 DEF Held
      <3>4. st' \in [Req -> {"new", "held", "released", "refused"}] BY <3>1
      <3> QED BY <3>1, <3>3, <3>4
    <2> QED BY <2>1, <2>2
  <1>2. ASSUME NEW r \in Req, Release(r) PROVE IndInv'
    <2>1. CASE st[r] = "held"
      <3>1. st' = [st EXCEPT ![r] = "released"] /\ used' = used - 1 BY <1>2, <2>1, Once DEF Release
      <3>2. Held' = Held \ {r} BY <3>1 DEF Held
      <3>3. r \in Held BY <2>1 DEF Held
      <3>4. Cardinality(Held') = Cardinality(Held) - 1 BY <3>2, <3>3, <1>f, FS_RemoveElement
      <3>5. Cardinality(Held) > 0 BY <3>3, <1>f, <1>n, FS_EmptySet
      <3>6. st' \in [Req -> {"new", "held", "released", "refused"}] BY <3>1
      <3> QED BY <3>1, <3>4, <3>5, <3>6, <1>n, LimitNat
    <2>2. CASE st[r] # "held"
      <3>1. UNCHANGED vars BY <1>2, <2>2, Once DEF Release
      <3> QED BY <3>1 DEF vars, Held
    <2> QED BY <2>1, <2>2
  <1>3. CASE UNCHANGED vars BY <1>3 DEF vars, Held
  <1> QED BY <1>1, <1>2, <1>3 DEF Next

THEOREM Safety == Spec => []IndInv
  BY InitInd, StepInd, PTL DEF Spec

THEOREM WithinLimitHolds == IndInv => WithinLimit
  BY DEF IndInv, Inv, WithinLimit
=============================================================================
