SPECIFICATION TSpec
CONSTANTS
  Ids = {1, 2, 3}
  MaxPeriod = 11
  MaxSlot = 9
  MaxEpoch = 9
  NTags = 1
  MaxRange = 3
  MaxOps = 0
  MaxBatch = 4
  MaxBatches = 0
  WithCrash = FALSE
  Devs = {}
INVARIANT Report
POSTCONDITION TraceAccepted
CHECK_DEADLOCK FALSE
