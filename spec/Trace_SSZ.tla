------------------------------ MODULE Trace_SSZ ------------------------------
(* Property-level judge (monitor mode) for what the real SSZ encoders / decoders of shisui did (C14).        *)
(* Events (byte strings in canonical run-length form, values in the abstract form of SSZ.tla):               *)
(*   val    name, v: abstract value -> real object -> MarshalSSZ = enc (encok) -> UnmarshalSSZ (decok)        *)
(*          -> back (the decoded object rendered as an abstract value)                                       *)
(*   bytes  name, in: byte string -> UnmarshalSSZ (decok) -> v (rendered) and MarshalSSZ again = reenc (reok) *)
(*   skip   the abstract value has no representation in the Go type (e.g. 33 bytes for a [32]byte)            *)
(*   vec    one of the repository's content vectors (or a damaged copy) through a deep fork container:          *)
(*          bytes -> value -> bytes (re) -> value -> bytes (re2); byte strings logged as length + tag            *)
(* Conjuncts (all C14), with s the schema bound to the name (SSZSchemas!Real):                                *)
(*   roundTrip  Within(s, v) => encok /\ decok /\ back = v                                                    *)
(*   overLimit  ~Within(s, v) => the value does not survive: ~encok \/ ~decok                                  *)
(*   canonical  decok => reok /\ reenc = in                                                                    *)
(*   limits     decok => Within(s, decoded value)                                                             *)
(*   vectorRoundTrip  a pristine vector decodes, re-encodes to itself, and does so again                        *)
(*   noPanic                                                                                                 *)
(*   wellFormed (machinery) logged strings are canonical run-length strings                                   *)
(* Not alarms, reported per event in OBS.d: "encRef" the real encoding differs from the reference encoding,    *)
(* "decRef" the real decoder and the strict reference decoder disagree on acceptance or on the value.           *)
(* OBS.x: the reference decoder *with the deviations of this run* (constant Devs) reproduces exactly what the   *)
(* code did with this input.  With Devs = {} that is plain conformance; the check re-runs the violating events   *)
(* with the deviation of each listed finding and absorbs a violation only if x holds there.                     *)
EXTENDS SSZSchemas, Json

Trace == ndJsonDeserialize("trace.ndjson")

VARIABLES l, viol
vars == <<l, viol>>
Failed(r) == {f \in DOMAIN r : ~r[f]}

ValRec(e, s, within) ==
  [ wellFormed |-> IsCanon(e.enc),
    noPanic    |-> e.panic = "",
    roundTrip  |-> within => (e.encok /\ e.decok /\ e.back = e.v),
    overLimit  |-> ~within => (~e.encok \/ ~e.decok) ]
BytesRec(e, s) ==
  [ wellFormed |-> IsCanon(e.in) /\ IsCanon(e.reenc),
    noPanic    |-> e.panic = "",
    canonical  |-> e.decok => (e.reok /\ e.reenc = e.in),
    limits     |-> e.decok => Within(s, e.v) ]

\* the repository's own content vectors through the deep fork containers (not modelled: byte strings are length + tag)
VecRec(e) ==
  [ noPanic         |-> e.panic = "",
    vectorRoundTrip |-> e.m = "vector" => (e.decok /\ e.reok /\ e.re = e.in /\ e.re2 = e.re),
    canonical       |-> e.decok => (e.reok /\ e.re = e.in /\ e.re2 = e.re) ]

FailedOf(e) ==
  CASE e.ev = "val"   -> UNION {Failed(ValRec(e, Real[e.name], w)) : w \in {Within(Real[e.name], e.v)}}
    [] e.ev = "bytes" -> Failed(BytesRec(e, Real[e.name]))
    [] e.ev = "vec"   -> Failed(VecRec(e))
    [] OTHER -> {}

ObsVal(e, s) ==
  UNION {UNION {{ [k |-> "val", name |-> e.name, m |-> "", within |-> Within(s, e.v), ok |-> e.encok /\ e.decok,
                   d |-> IF e.encok /\ e.enc # ref THEN <<"encRef">> ELSE <<>>,
                   x |-> IF e.encok /\ e.enc = ref THEN (IF d.ok THEN e.decok /\ e.back = d.v ELSE ~e.decok) ELSE FALSE] }
                : d \in {DecTop(s, ref)}} : ref \in {Enc(s, e.v)}}
ObsBytes(e, s) ==
  UNION {{ [k |-> "bytes", name |-> e.name, m |-> e.m, within |-> d.ok, ok |-> e.decok,
            d |-> IF d.ok # e.decok \/ (d.ok /\ e.decok /\ d.v # e.v) THEN <<"decRef">> ELSE <<>>,
            x |-> IF d.ok THEN e.decok /\ e.v = d.v /\ e.reok /\ e.reenc = Enc(s, d.v) ELSE ~e.decok] } : d \in {DecTop(s, e.in)}}
Obs(e) == CASE e.ev = "val"   -> CHOOSE o \in ObsVal(e, Real[e.name]) : TRUE
            [] e.ev = "bytes" -> CHOOSE o \in ObsBytes(e, Real[e.name]) : TRUE
            [] e.ev = "vec" -> [k |-> "vec", name |-> e.name, m |-> e.m, within |-> e.m = "vector", ok |-> e.decok, d |-> <<>>, x |-> FALSE]
            [] OTHER -> [k |-> e.ev, name |-> e.name]

Init == l = 1 /\ viol = {}
Next ==
  /\ l <= Len(Trace)
  /\ l' = l + 1
  /\ \E e \in {Trace[l]} :
       /\ viol' = viol \cup {<<l, f>> : f \in FailedOf(e)}
       /\ PrintT(<<"OBS", ToJson([l |-> l] @@ Obs(e))>>)

Spec == Init /\ [][Next]_vars
Done == l = Len(Trace) + 1
Report == Done => PrintT(<<"VIOL", ToJson(viol)>>)
TraceAccepted == TLCGet("stats").diameter = Len(Trace) + 1
===============================================================================
