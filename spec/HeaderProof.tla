----------------------------- MODULE HeaderProof -----------------------------
(* C03 - header proofs: honest proofs verify and nothing else does, in all four eras.                     *)
(*                                                                                                        *)
(* Pure operators, no variables (MC_HeaderProof enumerates a case space over a small world with E = 4;     *)
(* Trace_HeaderProof instantiates the position rules with the real constants to judge recorded traces).    *)
(*                                                                                                        *)
(*  * Merkle trees are symbolic hash TERMS: every term is a tuple whose first element is a tag, so TLC     *)
(*    never compares a string with a tuple: Z = <<"zero">>, N(l, r) = <<"n", l, r>>, H(id) = <<"h", id>>.   *)
(*    The constructors are injective: collision resistance is assumed (DESIGN 9).                          *)
(*  * P level: which (accumulator entry, generalized index) is "the position fixed by the block number    *)
(*    (pre-merge) or by the proof's slot (post-merge)", when it is in range, and - over a world that says  *)
(*    what is committed where - whether a presented (header, proof) pair is the honest one.                *)
(*  * I level: Validate = validation/header_validator.go as coded (era dispatch on the block number, SSZ   *)
(*    sizes, stage 1 = execution branch header hash -> beacon block root, stage 2 = beacon branch against  *)
(*    the trusted accumulator entry), with the code's wrong variants as named deviations (Devs).            *)
EXTENDS Integers, Sequences, FiniteSets, TLC

CONSTANTS E,            \* records per pre-merge epoch = slots per historical batch (8192); a power of two >= 4
          MergeNum,     \* first block number of the merge->Capella era (15 537 394)
          ShanghaiNum,  \* first block number of the Capella->Deneb era (17 034 870)
          CancunNum,    \* first block number of the post-Deneb era (19 426 587)
          CapStart,     \* first slot covered by historical summaries = capellaForkEpoch*32 = 758*8192
          GBell,        \* generalized index of execution_payload.block_hash in a Bellatrix/Capella block (3228)
          GDeneb,       \* the same in a Deneb block (6444)
          Devs          \* deviations switched on in the I level

DevNames == {"RootsNoBounds",     \* F-C01-5: HistoricalRoots[slot / E] is not bounds-checked (as coded today)
             "PreNoBounds",       \* F-C03-2: HistoricalEpochs[num / E] is not bounds-checked (as coded today; latent)
             "PreIndexNoShift",   \* pre-merge gindex 4E + rec instead of 4E + 2 rec
             "RootsGIndex",       \* merge->Capella gindex E + j instead of 2E + j
             "DepthShort",        \* merge->Capella branch verified one level short
             "SummNoCapOffset",   \* summaries index slot / E (Capella start not subtracted)
             "ExecGSame",         \* post-Deneb execution branch verified with the Bellatrix index
             "EraOffByOne",       \* era dispatch `num <= MergeNum`
             "SkipRootCompare",   \* stage 2 result ignored
             "SkipStage1"}        \* execution branch not verified
ASSUME Devs \subseteq DevNames

Huge == -1    \* stands for every slot beyond TLC's 32-bit integers (2^40, 2^63, 2^64-1 ...): past every accumulator

(* ------------------------------------------ hash terms ------------------------------------------------ *)
Z == <<"zero">>
N(l, r) == <<"n", l, r>>
H(id) == <<"h", id>>                    \* keccak(rlp(header)) of the header named id
Junk(i) == <<"junk", i>>                \* an attacker-chosen chunk unrelated to every committed value
Log2(n) == LET RECURSIVE L(_) L(k) == IF k <= 1 THEN 0 ELSE 1 + L(k \div 2) IN L(n)

RECURSIVE Tree(_)                       \* SSZ merkleization of a power-of-two vector of chunks, written structurally
Tree(leaves) == IF Len(leaves) = 1 THEN leaves[1]
                ELSE LET m == Len(leaves) \div 2 IN N(Tree(SubSeq(leaves, 1, m)), Tree(SubSeq(leaves, m + 1, Len(leaves))))

RECURSIVE Bits(_)                       \* path of a generalized index from the root, most significant step first
Bits(g) == IF g <= 1 THEN <<>> ELSE Append(Bits(g \div 2), g % 2)
RECURSIVE Siblings(_, _)                \* honest prover: independent top-down descent, result in bottom-up order
Siblings(t, path) == IF path = <<>> THEN <<>>
                     ELSE Append(Siblings(t[2 + Head(path)], Tail(path)), t[2 + (1 - Head(path))])
RECURSIVE Descend(_, _)
Descend(t, path) == IF path = <<>> THEN t ELSE Descend(t[2 + Head(path)], Tail(path))

RECURSIVE Fold(_, _, _, _, _)           \* verifier loop shared by fastssz VerifyProof and zrnt VerifyMerkleBranch
Fold(node, branch, g, k, d) == IF k > d THEN node
                               ELSE Fold(IF g % 2 = 1 THEN N(branch[k], node) ELSE N(node, branch[k]), branch, g \div 2, k + 1, d)

(* ------------------------------------ P level: eras and positions -------------------------------------- *)
EraOf(num) == IF num < MergeNum THEN "pre" ELSE IF num < ShanghaiNum THEN "roots"
              ELSE IF num < CancunNum THEN "capella" ELSE "deneb"
Fmt(era) == CASE era = "pre" -> "pre" [] era \in {"roots", "capella"} -> "bell" [] OTHER -> "deneb"   \* how the header is committed
ExecG(fmt) == IF fmt = "deneb" THEN GDeneb ELSE GBell
ExecDepth(fmt) == Log2(ExecG(fmt))                                                                  \* 11 / 12
BeaconDepth(era) == CASE era = "pre" -> Log2(E) + 2 [] era = "roots" -> Log2(E) + 1 [] OTHER -> Log2(E)  \* 15 / 14 / 13
\* lens = [pre |-> #epoch roots, roots |-> #historical roots, summ |-> #historical summaries] of the trusted accumulators
EntryIndex(era, num, slot) == CASE era = "pre" -> num \div E [] era = "roots" -> slot \div E [] OTHER -> (slot - CapStart) \div E
GIndex(era, num, slot) == CASE era = "pre" -> 4 * E + 2 * (num % E) [] era = "roots" -> 2 * E + (slot % E) [] OTHER -> E + (slot % E)
InRange(era, num, slot, lens) ==
   IF era = "pre" THEN num \div E < lens.pre
   ELSE /\ slot # Huge /\ slot >= 0
        /\ era = "roots" => slot \div E < lens.roots
        /\ era # "roots" => slot >= CapStart /\ (slot - CapStart) \div E < lens.summ
Position(era, num, slot) == IF era = "pre" THEN num ELSE slot     \* index of the committed leaf within its accumulator family

(* The property on abstract attributes (this is what the trace judge evaluates on real executions):       *)
(*   a.num, a.slot      block number of the presented header, slot field of the presented proof (Huge = -1) *)
(*   a.lens             sizes of the trusted accumulators the validator holds                               *)
(*   a.commit           where the presented header's hash is committed: [fmt in pre|bell|deneb|none, idx]   *)
(*   a.gen              the commitment the proof was honestly generated for: [fmt, idx, same (header)]       *)
(*   a.intact           the presented proof is byte for byte that honest proof                              *)
ExpectAttr(a) ==
   LET era == EraOf(a.num)  pos == Position(era, a.num, a.slot) IN
   IF ~InRange(era, a.num, a.slot, a.lens) THEN "error"
   ELSE IF /\ a.commit.fmt = Fmt(era) /\ a.commit.idx = pos
           /\ a.gen.same /\ a.gen.fmt = a.commit.fmt /\ a.gen.idx = a.commit.idx /\ a.intact
        THEN "ok" ELSE "reject"

(* ------------------------------- I level: the validator as coded --------------------------------------- *)
Dev(d) == d \in Devs
EraI(num) == IF num < MergeNum + (IF Dev("EraOffByOne") THEN 1 ELSE 0) THEN "pre" ELSE IF num < ShanghaiNum THEN "roots"
             ELSE IF num < CancunNum THEN "capella" ELSE "deneb"
ExecGI(era) == IF era = "deneb" /\ ~Dev("ExecGSame") THEN GDeneb ELSE GBell
VerifyBranch(leaf, branch, d, g, root) == Fold(leaf, branch, g, 1, d) = root

\* proof = [chunks |-> sequence of 32-byte chunks, hasSlot |-> the byte string ends with an 8-byte slot, slot |-> its value]
\* acc   = [pre |-> Seq(root), roots |-> Seq(root), summ |-> Seq(block summary root)]
ValidatePre(hid, num, proof, acc) ==
   LET ei == num \div E
       g == 4 * E + (IF Dev("PreIndexNoShift") THEN 1 ELSE 2) * (num % E) IN
   IF ei >= Len(acc.pre) THEN (IF Dev("PreNoBounds") THEN "panic" ELSE "error")    \* h.preMergeAcc.HistoricalEpochs[epochIndex]
   ELSE IF proof.hasSlot THEN "error"                                               \* "proof length should be 32*n bytes"
   ELSE IF Len(proof.chunks) # Log2(g) THEN "error"                                 \* fastssz: "invalid proof length"
   ELSE IF VerifyBranch(H(hid), proof.chunks, Log2(g), g, acc.pre[ei + 1]) THEN "ok" ELSE "reject"

ValidatePost(era, hid, proof, acc) ==
   LET bd == BeaconDepth(era)
       ed == ExecDepth(Fmt(era)) IN             \* SSZ sizes of the proof container of this era: bd + 1 + ed chunks + slot
   IF ~proof.hasSlot \/ Len(proof.chunks) # bd + 1 + ed THEN "error"                \* UnmarshalSSZ: ssz.ErrSize
   ELSE
   LET bb == SubSeq(proof.chunks, 1, bd)
       bbr == proof.chunks[bd + 1]
       ex == SubSeq(proof.chunks, bd + 2, bd + 1 + ed)
       s == proof.slot
       stage1 == Dev("SkipStage1") \/ VerifyBranch(H(hid), ex, ed, ExecGI(era), bbr) IN
   IF ~stage1 THEN "reject"                                                         \* ErrExecutionBlockProof
   ELSE IF era = "roots" THEN
        IF s = Huge \/ s \div E >= Len(acc.roots) THEN (IF Dev("RootsNoBounds") THEN "panic" ELSE "error")
        ELSE LET g == (IF Dev("RootsGIndex") THEN E ELSE 2 * E) + (s % E)
                 d == IF Dev("DepthShort") THEN bd - 1 ELSE bd IN
             IF Dev("SkipRootCompare") \/ VerifyBranch(bbr, bb, d, g, acc.roots[s \div E + 1]) THEN "ok" ELSE "reject"
   ELSE \* GetHistoricalSummary: (slot - capellaStart) / E, unsigned: a slot below the start wraps to a huge index
        LET off == IF Dev("SummNoCapOffset") THEN 0 ELSE CapStart IN
        IF s = Huge \/ s < off \/ (s - off) \div E >= Len(acc.summ) THEN "error"
        ELSE IF Dev("SkipRootCompare") \/ VerifyBranch(bbr, bb, bd, E + (s % E), acc.summ[(s - off) \div E + 1]) THEN "ok" ELSE "reject"

Validate(hid, num, proof, acc) ==
   LET era == EraI(num) IN
   IF era = "pre" THEN ValidatePre(hid, num, proof, acc) ELSE ValidatePost(era, hid, proof, acc)
===============================================================================
