------------------------------- MODULE MC_Gossip -------------------------------
EXTENDS Gossip
LdA == [n \in Nodes |-> IF n <= 2 THEN 1 ELSE IF n <= 4 THEN 2 ELSE n]      \* ties among the closest
================================================================================
