--------------------------- MODULE Trace_StateProof ---------------------------
(* Property-level judge (monitor mode) for traces of the real state.StateValidator.ValidateContent *)
(* + state.Storage.Put (engine "stateproof").                                                     *)
(*                                                                                                *)
(* A "world" event carries the universe U of trie nodes exactly as the harness's own builder made   *)
(* them (never as the code under test decoded them): U[id] = [k, key, ch, vt, va, vb, sz] with      *)
(*   k   "leaf" | "ext" | "br" | "raw" (bytes that are not a node the builder made)                *)
(*   key nibbles; ch = child references [t |-> "h"|"e"|"n", id] (16 for a branch, 1 for an ext)      *)
(*   vt  "acct" (va = id of the storage root node, vb = id of the code) | "val" (va = id of the     *)
(*       node whose hash the 32 value bytes are, else 0) | ""                                       *)
(* Hash equality is id equality (ids are per distinct byte string; 0 / -1 = no known preimage).     *)
(* A "case" event carries the item in ids (header's state root, path, key hash, proofs, address,    *)
(* code) and what the code did: val / put in {"ok","err","panic"}, panic site and class, and what    *)
(* reached the store.                                                                             *)
(*                                                                                                *)
(* Conjuncts (all C13):                                                                           *)
(*   sound   accepted (val = ok /\ put = ok) => the soundness condition, computed with the          *)
(*           specification's own descent At / ValueAt from the logged attributes                   *)
(*   stored  put = ok => exactly one write, under the content id, a one-field container holding    *)
(*           the final proof node (the code), readable back; put # ok => nothing written          *)
(*   noPanic neither call panicked                                                                *)
(* Acceptance of honest proofs is NOT judged (vacuity guard in the check).                          *)
(*                                                                                                *)
(* Devs (known findings, DESIGN 3.3: a deviation substitutes the conjunct it invalidates; every    *)
(* event is judged under the property as stated -> viol, and, if that fails, with the              *)
(* substitutions -> violK):                                                                        *)
(*   "LeafValueAsRef"  sound is evaluated with a descent that, like TraverseTrieNode, treats a      *)
(*                     leaf's 32-byte value as the reference of a child node                        *)
(*   "TraversePanics"  noPanic tolerates a panic of ValidateContent iff the code-shaped walk       *)
(*                     (CWalk, transcribed from validateTrieProof / TraverseTrieNode) reaches an    *)
(*                     extension whose key is longer than the remaining path or is empty, the site  *)
(*                     is TraverseTrieNode and the error class fits                                 *)
(*   "PutEmptyProof"   noPanic tolerates a panic of Put iff the proof is empty, at the put* sites    *)
EXTENDS Integers, Sequences, FiniteSets, TLC, Json

CONSTANT Devs      \* the deviations of the currently listed findings; the property as stated is always judged too

Trace == ndJsonDeserialize("trace.ndjson")

VARIABLES l, wl,
          viol,     \* <<line, conjunct>> false under the property as stated
          violK,    \* <<line, conjunct>> still false with the substitutions of Devs (what no listed finding explains)
          drift
vars == <<l, wl, viol, violK, drift>>

Drop(s, n) == SubSeq(s, n + 1, Len(s))
Pfx(a, b)  == Len(a) <= Len(b) /\ SubSeq(b, 1, Len(a)) = a
LastOf(s)  == s[Len(s)]
Failed(r)  == {f \in DOMAIN r : ~r[f]}

\* ---- the specification's own reading of the committed trie ----
IsRef(r) == r.t \in {"h", "e"} /\ r.id >= 1
RECURSIVE At(_, _, _, _), ValueAt(_, _, _)
\* id of the node located exactly at path p below node id; 0 if there is none
At(U, id, p, D) ==
  IF id < 1 THEN 0
  ELSE IF p = <<>> THEN id
  ELSE LET n == U[id] IN
       CASE n.k = "br"   -> LET r == n.ch[p[1] + 1] IN IF IsRef(r) THEN At(U, r.id, Tail(p), D) ELSE 0
         [] n.k = "ext"  -> IF n.key # <<>> /\ Pfx(n.key, p) /\ IsRef(n.ch[1]) THEN At(U, n.ch[1].id, Drop(p, Len(n.key)), D) ELSE 0
         [] n.k = "leaf" -> IF "LeafValueAsRef" \in D /\ n.vt = "val" /\ n.va >= 1 /\ n.key = p THEN At(U, n.va, p, D) ELSE 0
         [] OTHER        -> 0
\* id of the leaf that holds the value of key p below node id; 0 if there is none
ValueAt(U, id, p) ==
  IF id < 1 THEN 0
  ELSE LET n == U[id] IN
       CASE n.k = "leaf" -> IF n.key = p THEN id ELSE 0
         [] n.k = "br"   -> IF p = <<>> THEN 0 ELSE LET r == n.ch[p[1] + 1] IN IF IsRef(r) THEN ValueAt(U, r.id, Tail(p)) ELSE 0
         [] n.k = "ext"  -> IF n.key # <<>> /\ Pfx(n.key, p) /\ IsRef(n.ch[1]) THEN ValueAt(U, n.ch[1].id, Drop(p, Len(n.key))) ELSE 0
         [] OTHER        -> 0

Accepted(e) == e.val = "ok" /\ e.put = "ok"

SoundCond(U, e, D) ==
  /\ e.bh >= 1
  /\ CASE e.kind = "atn" ->
            /\ Len(e.proof) > 0
            /\ At(U, e.bh, e.path, D) = LastOf(e.proof)
            /\ e.kh = LastOf(e.proof)
       [] e.kind = "cstn" ->
            LET a == ValueAt(U, e.bh, e.addr) IN
            /\ a >= 1
            /\ U[a].vt = "acct"
            /\ U[a].va >= 1
            /\ Len(e.proof) > 0
            /\ At(U, U[a].va, e.path, D) = LastOf(e.proof)
            /\ e.kh = LastOf(e.proof)
       [] OTHER ->
            LET a == ValueAt(U, e.bh, e.addr) IN
            /\ a >= 1
            /\ U[a].vt = "acct"
            /\ U[a].vb >= 1
            /\ U[a].vb = e.kc
            /\ e.code = e.kc

StoredCond(e) ==
  IF e.put = "ok"
  THEN /\ e.st.n = 1 /\ e.st.key /\ e.st.wf /\ e.st.rb
       /\ IF e.kind = "code" THEN e.st.id = e.code /\ e.code >= 1
          ELSE Len(e.proof) > 0 /\ e.st.id = LastOf(e.proof)
  ELSE e.st.n = 0

\* ---- code-shaped walk (what validateTrieProof / TraverseTrieNode do on the repaired tree), used only to attribute panics to the
\* listed findings and to report drift; results r: "ok" | "err" | "short" (path shorter than an extension key whose
\* prefix it is: path[index] panics) | "empty" (extension with an empty key: Key[len-1] panics)
R(r, h, p, lf) == [r |-> r, h |-> h, p |-> p, lf |-> lf]
ErrR == R("err", 0, <<>>, 0)
RECURSIVE Trav(_, _, _)
TravRef(U, r, rest) == CASE r.t = "h" -> R("ok", r.id, rest, 0)
                         [] r.t = "e" -> (IF r.id >= 1 THEN Trav(U, r.id, rest) ELSE ErrR)
                         [] OTHER     -> ErrR
Trav(U, id, p) ==
  LET n == U[id] IN
  CASE n.k = "br"   -> IF p = <<>> THEN ErrR ELSE TravRef(U, n.ch[p[1] + 1], Tail(p))
    [] n.k = "ext"  -> IF n.key = <<>> THEN R("empty", 0, <<>>, 0)
                       ELSE IF Pfx(n.key, p) THEN TravRef(U, n.ch[1], Drop(p, Len(n.key)))
                       ELSE IF Len(p) < Len(n.key) /\ Pfx(p, n.key) THEN R("short", 0, <<>>, 0)
                       ELSE ErrR
    [] n.k = "leaf" -> IF n.key = <<>> \/ n.key # p THEN ErrR
                       ELSE R("ok", IF n.vt = "val" THEN n.va ELSE 0, p, id)
    [] OTHER        -> ErrR
RECURSIVE WalkFrom(_, _, _, _)
WalkFrom(U, id, rem, rest) ==
  IF rest = <<>> THEN R("ok", id, rem, 0)
  ELSE LET s == Trav(U, id, rem) IN
       IF s.r # "ok" THEN s
       ELSE IF Len(s.p) >= Len(rem) THEN ErrR     \* repaired code: a node followed by another proof node must consume part of the path (a leaf does not)
       ELSE IF s.h < 1 \/ s.h # rest[1] THEN ErrR
       ELSE WalkFrom(U, rest[1], s.p, Tail(rest))
CWalk(U, root, path, proof) ==
  IF proof = <<>> \/ root < 1 THEN ErrR
  ELSE IF proof[1] # root THEN ErrR
  ELSE WalkFrom(U, proof[1], path, Tail(proof))
CNode(U, root, path, kh, proof) ==
  LET w == CWalk(U, root, path, proof) IN
  IF w.r # "ok" THEN w.r ELSE IF w.p # <<>> \/ w.h # kh THEN "err" ELSE "ok"
CAcct(U, root, addr, proof) ==      \* -> R with lf = the account leaf
  LET w == CWalk(U, root, addr, proof) IN
  IF w.r # "ok" THEN w
  ELSE LET t == Trav(U, w.h, w.p) IN
       IF t.r # "ok" THEN t
       ELSE IF t.lf >= 1 /\ U[t.lf].vt = "acct" THEN t ELSE ErrR
Predict(U, e) ==
  IF \/ Len(e.path) > 64 \/ Len(e.proof) > 65 \/ Len(e.aproof) > 65          \* SSZ limits: rejected when decoding
     \/ \E i \in 1..Len(e.proof) : U[e.proof[i]].sz > 1024
     \/ \E i \in 1..Len(e.aproof) : U[e.aproof[i]].sz > 1024
  THEN "err"
  ELSE CASE e.kind = "atn"  -> CNode(U, e.bh, e.path, e.kh, e.proof)
         [] e.kind = "cstn" -> LET a == CAcct(U, e.bh, e.addr, e.aproof) IN
                               IF a.r # "ok" THEN a.r ELSE CNode(U, U[a.lf].va, e.path, e.kh, e.proof)
         [] OTHER           -> LET a == CAcct(U, e.bh, e.addr, e.aproof) IN
                               IF a.r # "ok" THEN a.r
                               ELSE IF U[a.lf].vb >= 1 /\ U[a.lf].vb = e.kc THEN "ok" ELSE "err"

ValPanicOK(U, e, D) ==
  \/ e.val # "panic"
  \/ /\ "TraversePanics" \in D
     /\ e.vsite = "state/trie.TraverseTrieNode"
     /\ LET p == Predict(U, e) IN
        \/ p = "short" /\ e.vcls = "index out of range"
        \/ p = "empty" /\ e.vcls = "index out of range (negative)"
PutPanicOK(e, D) ==
  \/ e.put # "panic"
  \/ /\ "PutEmptyProof" \in D
     /\ e.kind \in {"atn", "cstn"} /\ Len(e.proof) = 0
     /\ e.psite \in {"state.(*Storage).putAccountTrieNode", "state.(*Storage).putContractStorageTrieNode"}
     /\ e.pcls = "index out of range (negative)"

Judge(U, e, D) ==
  [ sound   |-> Accepted(e) => SoundCond(U, e, D),
    stored  |-> StoredCond(e),
    noPanic |-> ValPanicOK(U, e, D) /\ PutPanicOK(e, D) ]

\* I-level drift (never an alarm): today's code-shaped walk predicts another verdict class than observed
Drifts(U, e) == LET p == Predict(U, e) IN
                CASE p = "ok"  -> e.val # "ok"
                  [] p = "err" -> e.val # "err"
                  [] OTHER     -> e.val # "err"      \* "short" / "empty": the repaired TraverseTrieNode returns an error (it panicked at the pinned commit)

Init == l = 1 /\ wl = 0 /\ viol = {} /\ violK = {} /\ drift = {}

Next ==
  /\ l <= Len(Trace)
  /\ l' = l + 1
  /\ LET e == Trace[l] IN
     CASE e.ev = "world" -> wl' = l /\ UNCHANGED <<viol, violK, drift>>
       [] e.ev = "case"  -> LET U == Trace[wl].U IN
                            /\ wl' = wl
                            /\ LET bad == Failed(Judge(U, e, {})) IN
                               /\ viol' = viol \cup {<<l, f>> : f \in bad}
                               /\ violK' = IF bad = {} \/ Devs = {} THEN violK \cup {<<l, f>> : f \in bad}
                                           ELSE violK \cup {<<l, f>> : f \in Failed(Judge(U, e, Devs))}
                            /\ drift' = IF Drifts(U, e) /\ Cardinality(drift) < 50 THEN drift \cup {l} ELSE drift
       [] OTHER          -> UNCHANGED <<wl, viol, violK, drift>>

Spec == Init /\ [][Next]_vars
Done == l = Len(Trace) + 1
Report == Done => PrintT(<<"VIOLK", ToJson(violK)>>) /\ PrintT(<<"DRIFT", ToJson(drift)>>) /\ PrintT(<<"VIOL", ToJson(viol)>>)
TraceAccepted == TLCGet("stats").diameter = Len(Trace) + 1
===============================================================================
