------------------------------ MODULE MC_Wire ------------------------------
(* Exhaustive enumeration of the C01 shape space (one initial state per case; the invariants check the reference   *)
(* dispatcher of Wire.tla on every case and print the case), and the stateful sequence model (Part = "seq").        *)
EXTENDS Wire

CONSTANTS Devs,     \* deviations switched on in the reference dispatcher (subset of DevNames)
          Emit,     \* print the cases / sequences
          Full,     \* thorough tier: every content class for every key shape
          Part      \* slice of the case space: "all" | "req" | "utp" | "resp" | "stream" | "content" | "lookup" | "seq"

CaseSpace ==
  CASE Part = "req"     -> ReqSpace
    [] Part = "utp"     -> UtpSpace
    [] Part = "resp"    -> RespSpace
    [] Part = "stream"  -> StreamSpace
    [] Part = "content" -> ContentSpace(Full)
    [] Part = "lookup"  -> LookupSpace
    [] OTHER            -> AllCases(Full)

VARIABLES ph, c, hist, sum
vars == <<ph, c, hist, sum>>

Init == IF Part = "seq"
        THEN ph = "seq" /\ c = Z /\ hist = <<>> /\ sum = -1
        ELSE ph = "case" /\ c \in CaseSpace /\ hist = <<>> /\ sum = -1
Next == /\ Part = "seq" /\ Len(hist) < MaxSeq
        /\ \E s \in Senders, x \in SeqShapes :
             /\ c' = x
             /\ hist' = Append(hist, [from |-> s, in |-> x, sumlen |-> sum])
             /\ sum' = IF PanicsToday(FactsIn(x, sum), Devs) THEN sum ELSE SumAfter(sum, x)
        /\ ph' = ph
Spec == Init /\ [][Next]_vars
\* what the sequence model's invariant and transitions depend on (the history itself is an observation, kept for printing)
SeqView == <<ph, c, Len(hist), sum, IF hist = <<>> THEN -1 ELSE hist[Len(hist)].sumlen>>

\* ---- properties of the model -----------------------------------------------------------------------------
NoPanic    == IF ph = "case" THEN Legal(Handle(c, Devs)) \/ Handle(c, Devs) = "any"
              ELSE hist # <<>> => ~PanicsToday(FactsIn(c, hist[Len(hist)].sumlen), Devs)
TypeOK     == ph = "case" => (c.ch \in {"req", "utp", "resp", "stream", "val", "pipe", "put", "get", "lookup"} /\ Expect(c) \in Outcomes \cup {"any"})
\* a reply is only expected for a request code whose body decodes
ReplyOnlyToRequests == ph = "case" /\ c.ch = "req" /\ Expect(c) = "reply" => c.code \in ReqCodes /\ Decodes(c)

Out(x)     == x @@ [exp |-> Expect(x), today |-> Handle(x, DevNames)]
EmitCase   == (ph = "case" /\ Emit) => PrintT(<<"CASE", ToJson(Out(c))>>)
EmitSeq    == (ph = "seq" /\ Emit /\ Len(hist) = MaxSeq) => PrintT(<<"SEQ", ToJson(hist)>>)
=============================================================================
