SPECIFICATION Spec
CONSTANTS
  OffW = 4
  Devs = {"TrailingFixed"}
INVARIANT Report
POSTCONDITION TraceAccepted
CHECK_DEADLOCK FALSE
