SPECIFICATION Spec
CONSTANTS
  Bits = 7
  Groups = 5
  MaxBits = 32
  Devs = {}
  Mode = "shapes"
  MaxLen = 0
  MaxItems = 3
  TripleSet = "medium"
INVARIANTS ShapeCanonical ShapeSingle Emit
CHECK_DEADLOCK FALSE
