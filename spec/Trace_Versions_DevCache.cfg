SPECIFICATION Spec
CONSTANT Devs = {"CacheZeroOnError"}
INVARIANT Report
POSTCONDITION TraceAccepted
CHECK_DEADLOCK FALSE
