SPECIFICATION Spec
CONSTANTS
  Peers = {1, 2, 3, 4, 5, 6}
  Self = 0
  Alpha = 3
  K = 16
  TableSeed = {4, 6}
  Holders = {2, 5}
  Devs = {}
INVARIANTS GenDone
CHECK_DEADLOCK FALSE
