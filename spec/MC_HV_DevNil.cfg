SPECIFICATION Spec
CONSTANTS
  N = 3
  Blk <- MCBlk3
  Devs = {"NilWdPanic"}
INVARIANT TypeOK
INVARIANT NoPanic
CHECK_DEADLOCK FALSE
