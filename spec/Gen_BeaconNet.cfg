SPECIFICATION GSpec
CONSTANTS
  Ids = {1, 2, 3}
  MaxPeriod = 5
  MaxSlot = 4
  MaxEpoch = 4
  NTags = 2
  MaxRange = 3
  MaxOps = 0
  MaxBatch = 3
  MaxBatches = 6
  WithCrash = FALSE
  Devs = {}
INVARIANT GenDone
CHECK_DEADLOCK FALSE
