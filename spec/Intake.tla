-------------------------------- MODULE Intake --------------------------------
(* Implementation-level (I) specification of the three sub-networks' intake of a received batch:          *)
(* history.Network.validateContents, beacon.Network.validateContents, state.Network.validateContents.     *)
(* The three loops look alike and differ in exactly the points this module names (constant Net):          *)
(*                                                                                                         *)
(*                       already stored        validator refuses      store refuses                        *)
(*   "history"           item SKIPPED          batch ends, error      IGNORED today (the result is dropped)*)
(*                       (not validated)                                                                   *)
(*   "beacon"            validated, put again  batch ends, error      batch ends, error                    *)
(*   "state"             validated, put again  batch ends, error      the loop returns the error - but the *)
(*                                                                    state store adapter SWALLOWS the     *)
(*                                                                    inner store's error and reports ok   *)
(*                                                                                                         *)
(* One action per step of the loop: Look (history's read before validation), Validate, Put, Finish.       *)
(* The environment decides each item's verdict and whether the store takes it (valid / fits in Items).     *)
(* A batch that ends without error is handed to gossip by the caller (processContentLoop).                 *)
(* Properties: what the store newly holds was validated in this run (StoredOnlyValidated); a good batch    *)
(* had every item validated or - history - found stored (OkMeansChecked); nothing of a batch is looked at  *)
(* after a refusal (NothingAfterReject).  OkMeansHeld - after a good batch the node holds every item of    *)
(* it - is the property one would like for "gossip only what you hold"; it holds for "beacon" and is       *)
(* VIOLATED for "history" and "state" when the store refuses an item (documented behaviour, see DESIGN     *)
(* I.10).  Named deviations: "ContinueAfterReject", "PutBeforeValidate".                                   *)
EXTENDS Integers, Sequences, FiniteSets, TLC

CONSTANTS Net,        \* "history" | "beacon" | "state"
          Keys,       \* content keys
          MaxBatch,   \* items per batch
          MaxBatches, \* batches (model checking only)
          Devs

\* an item: its key, the validator's verdict on it, whether the (inner) store takes it
Items == [key : Keys, valid : BOOLEAN, fits : BOOLEAN]
NoItem == [key |-> "none"]

SkipsStored   == Net = "history"

VARIABLES held,     \* keys the store holds
          batch,    \* the items of the current batch
          pc,       \* index of the item being taken (1..Len(batch)+1)
          step,     \* "idle" | "look" | "validate" | "put" | "ok" | "err"
          checked,  \* ghost: keys validated (or found stored) in the current batch
          validated,\* ghost: keys the validator accepted at any time
          nb
vars == <<held, batch, pc, step, checked, validated, nb>>

Init == /\ held = {} /\ batch = <<>> /\ pc = 1 /\ step = "idle" /\ checked = {} /\ validated = {} /\ nb = 0

First == IF SkipsStored THEN "look" ELSE "validate"

Receive(b) == /\ step \in {"idle", "ok", "err"} /\ Len(b) \in 1..MaxBatch
              /\ batch' = b /\ pc' = 1 /\ step' = First /\ checked' = {} /\ nb' = nb + 1
              /\ UNCHANGED <<held, validated>>

Cur == batch[pc]
Advance == IF pc = Len(batch) THEN pc' = pc + 1 /\ step' = "ok" ELSE pc' = pc + 1 /\ step' = First

\* history: the store is asked first; an item it holds is skipped without validation
Look == /\ step = "look"
        /\ IF Cur.key \in held
             THEN Advance /\ checked' = checked \cup {Cur.key}
             ELSE step' = "validate" /\ UNCHANGED <<pc, checked>>
        /\ UNCHANGED <<held, batch, validated, nb>>

Validate ==
  /\ step = "validate"
  /\ IF Cur.valid
       THEN /\ step' = "put" /\ checked' = checked \cup {Cur.key} /\ validated' = validated \cup {Cur.key} /\ UNCHANGED pc
       ELSE /\ IF "ContinueAfterReject" \in Devs THEN Advance ELSE step' = "err" /\ UNCHANGED pc
            /\ UNCHANGED <<checked, validated>>
  /\ UNCHANGED <<held, batch, nb>>

\* What the loop sees of the store's answer.  A refusal MAY stay hidden from the history and state loops - today it always
\* does (history drops Put's result, the state adapter answers nil whatever its inner store said); a loop that reports it is
\* a behaviour of this specification too.  The beacon loop must see it.
SeenSet(fits) == IF fits THEN {TRUE} ELSE IF Net = "beacon" THEN {FALSE} ELSE BOOLEAN
PutAs(seen) ==
       /\ step = "put" /\ seen \in SeenSet(Cur.fits)
       /\ held' = IF Cur.fits THEN held \cup {Cur.key} ELSE held
       /\ IF seen THEN Advance ELSE step' = "err" /\ UNCHANGED pc
       /\ UNCHANGED <<batch, checked, validated, nb>>
Put == \E seen \in BOOLEAN : PutAs(seen)

\* deviation: the item goes to the store before the validator has seen it
EarlyPut == /\ "PutBeforeValidate" \in Devs /\ step = "validate"
            /\ held' = IF Cur.fits THEN held \cup {Cur.key} ELSE held
            /\ UNCHANGED <<batch, pc, step, checked, validated, nb>>

Next == \/ nb < MaxBatches /\ \E n \in 1..MaxBatch : \E b \in [1..n -> Items] : Receive(b)
        \/ Look \/ Validate \/ Put \/ EarlyPut
Spec == Init /\ [][Next]_vars

----------------------------------------------------------------------------
TypeOK == /\ held \subseteq Keys /\ step \in {"idle", "look", "validate", "put", "ok", "err"}
          /\ pc \in 1..(MaxBatch + 1)
\* whatever the store holds was accepted by the validator at some time
StoredOnlyValidated == held \subseteq validated
\* a good batch: every item was validated, or (history) found stored
OkMeansChecked == step = "ok" => \A i \in 1..Len(batch) : batch[i].key \in checked
\* nothing of the batch is touched after a refusal
NothingAfterReject == [][step = "err" /\ step' = "err" => UNCHANGED <<held, pc, checked>>]_vars
\* the wish: after a good batch the node holds every item of it
OkMeansHeld == step = "ok" => \A i \in 1..Len(batch) : batch[i].key \in held
\* a refusal by the validator is never reported as a good batch
RefusalIsError == step = "ok" => \A i \in 1..Len(batch) : batch[i].valid \/ (SkipsStored /\ batch[i].key \in held)
===============================================================================
