----------------------------- MODULE RoutingTable -----------------------------
(* Implementation-level specification of portalwire's Kademlia routing table                  *)
(* (table.go, table_reval.go, node.go).  One action per table operation as the loop applies   *)
(* them: handleAddNode (found / inbound, with bumpInBucket and addReplacement), deleteNode,    *)
(* revalidation start / response (alive, dead, new record), handleTrackRequest.                *)
(* The random choices of the code (which replacement is promoted, which node is revalidated)   *)
(* are nondeterministic here.  Properties: C07 (structural invariants) and C18 (action         *)
(* properties over the operation label).                                                       *)
EXTENDS Integers, Sequences, FiniteSets, TLC, SequencesExt

CONSTANTS Ids, Bk,          \* node ids and their (fixed) bucket: Bk[id]
          Buckets,
          IPs, Subnet, LAN, \* addresses, Subnet[ip], LAN \subseteq IPs
          Seqs,
          BS, MR,           \* bucket size (16), max replacements (10)
          BIL, TIL,         \* bucket / table per-subnet limits (2, 10)
          MaxFails, MinBkt, \* 5, bucketSize/4
          MaxChecks,        \* cap on the liveness credit (model finiteness only)
          Ops,              \* enabled operations: subset of {"add", "delete", "reval", "track"}
          MaxGen,           \* cap on the incarnation counter (model finiteness only)
          Devs              \* named deviations (regression mutants): "EvictOldest", "NoSeqCheck", "KeepLive",
                            \* "StaleByID" (seed C18-3: the result of a liveness check is matched with the table by node id,
                            \* so a check started for an entry that has since left is applied to the id's NEW entry)

Recs == [id : Ids, ip : IPs, seq : Seqs]
NoRec == [id |-> "none"]

VARIABLES entries, repl,      \* [Buckets -> Seq(Ids)]
          rec,                \* [Ids -> Recs \cup {NoRec}]  record held for a node in the table
          checks, live, list, \* per id (meaningful for entries): liveness credit, validated flag, reval list
          active,             \* liveness checks in flight: <<id, incarnation the check was started for>> (at most one per id)
          gen,                \* [Ids -> 0..MaxGen] incarnation: counts how often the id entered the entries (a new tableNode object)
          fails,              \* findnode failure counter (node DB)
          tabIP, bktIP,       \* [subnet -> count], [Buckets -> [subnet -> count]]
          op                  \* label of the last operation (observation only)
vars == <<entries, repl, rec, checks, live, list, active, gen, fails, tabIP, bktIP, op>>
view == <<entries, repl, rec, checks, live, list, active, gen, fails, tabIP, bktIP>>
ActiveIds == {a[1] : a \in active}
NextGen(n) == IF gen[n] < MaxGen THEN gen[n] + 1 ELSE gen[n]

Subnets == {Subnet[i] : i \in IPs}
InSeq(s, x) == \E i \in 1..Len(s) : s[i] = x
Without(s, x) == SelectSeq(s, LAMBDA y : y # x)

Init == /\ entries = [b \in Buckets |-> <<>>] /\ repl = [b \in Buckets |-> <<>>]
        /\ rec = [n \in Ids |-> NoRec] /\ checks = [n \in Ids |-> 0] /\ live = [n \in Ids |-> FALSE]
        /\ list = [n \in Ids |-> "none"] /\ active = {} /\ gen = [n \in Ids |-> 0] /\ fails = [n \in Ids |-> 0]
        /\ tabIP = [s \in Subnets |-> 0] /\ bktIP = [b \in Buckets |-> [s \in Subnets |-> 0]]
        /\ op = [name |-> "init"]

\* addIP / removeIP as coded
CanAdd(b, ip, t, k) == ip \in LAN \/ (t[Subnet[ip]] < TIL /\ k[b][Subnet[ip]] < BIL)
AddT(ip, t) == IF ip \in LAN THEN t ELSE [t EXCEPT ![Subnet[ip]] = @ + 1]
AddK(b, ip, k) == IF ip \in LAN THEN k ELSE [k EXCEPT ![b][Subnet[ip]] = @ + 1]
RemT(ip, t) == IF ip \in LAN \/ t[Subnet[ip]] = 0 THEN t ELSE [t EXCEPT ![Subnet[ip]] = @ - 1]
RemK(b, ip, k) == IF ip \in LAN \/ k[b][Subnet[ip]] = 0 THEN k ELSE [k EXCEPT ![b][Subnet[ip]] = @ - 1]

\* bumpInBucket(b, r, inbound) for an entry n; "others" lists the variables the caller leaves alone
Bump(r, inbound) ==
  LET n == r.id  b == Bk[n] IN
  IF r.seq <= rec[n].seq /\ ~inbound /\ "NoSeqCheck" \notin Devs THEN UNCHANGED <<rec, live, list, tabIP, bktIP>>
  ELSE IF r.ip # rec[n].ip THEN
       LET t1 == RemT(rec[n].ip, tabIP)  k1 == RemK(b, rec[n].ip, bktIP) IN
       IF CanAdd(b, r.ip, t1, k1)
       THEN /\ tabIP' = AddT(r.ip, t1) /\ bktIP' = AddK(b, r.ip, k1)
            /\ rec' = [rec EXCEPT ![n] = r]
            /\ live' = IF "KeepLive" \in Devs THEN live ELSE [live EXCEPT ![n] = FALSE]
            /\ list' = [list EXCEPT ![n] = "fast"]
       ELSE UNCHANGED <<rec, live, list, tabIP, bktIP>>      \* old record put back
  ELSE /\ rec' = [rec EXCEPT ![n] = r] /\ UNCHANGED <<live, list, tabIP, bktIP>>

\* handleAddNode
AddNode(r, inbound, force) ==
  LET n == r.id  b == Bk[n] IN
  /\ op' = [name |-> "add", id |-> n, inbound |-> inbound, r |-> r]
  /\ IF InSeq(entries[b], n) THEN
        Bump(r, inbound) /\ UNCHANGED <<entries, repl, checks, active, gen, fails>>
     ELSE IF Len(entries[b]) >= BS THEN
        IF "EvictOldest" \in Devs /\ ~InSeq(repl[b], n) /\ CanAdd(b, r.ip, tabIP, bktIP) THEN
           \* deviation: the newcomer replaces the oldest entry
           LET old == Head(entries[b]) IN
           /\ entries' = [entries EXCEPT ![b] = Append(Tail(@), n)]
           /\ rec' = [rec EXCEPT ![n] = r, ![old] = NoRec]
           /\ tabIP' = AddT(r.ip, RemT(rec[old].ip, tabIP)) /\ bktIP' = AddK(b, r.ip, RemK(b, rec[old].ip, bktIP))
           /\ checks' = [checks EXCEPT ![n] = 0, ![old] = 0] /\ live' = [live EXCEPT ![n] = FALSE, ![old] = FALSE]
           /\ list' = [list EXCEPT ![n] = "fast", ![old] = "none"]
           /\ gen' = [gen EXCEPT ![n] = NextGen(n)]
           /\ UNCHANGED <<repl, active, fails>>
        \* addReplacement
        ELSE IF InSeq(repl[b], n) \/ ~CanAdd(b, r.ip, tabIP, bktIP) THEN UNCHANGED view
        ELSE LET t1 == AddT(r.ip, tabIP)  k1 == AddK(b, r.ip, bktIP)
                 full == Len(repl[b]) >= MR
                 gone == IF full THEN repl[b][Len(repl[b])] ELSE n
                 new == <<n>> \o (IF full THEN SubSeq(repl[b], 1, Len(repl[b]) - 1) ELSE repl[b]) IN
             /\ repl' = [repl EXCEPT ![b] = new]
             /\ rec' = IF full THEN [rec EXCEPT ![n] = r, ![gone] = NoRec] ELSE [rec EXCEPT ![n] = r]
             /\ tabIP' = IF full THEN RemT(rec[gone].ip, t1) ELSE t1
             /\ bktIP' = IF full THEN RemK(b, rec[gone].ip, k1) ELSE k1
             /\ UNCHANGED <<entries, checks, live, list, active, gen, fails>>
     ELSE IF ~CanAdd(b, r.ip, tabIP, bktIP) THEN UNCHANGED view
     ELSE /\ entries' = [entries EXCEPT ![b] = Append(@, n)]
          /\ repl' = [repl EXCEPT ![b] = Without(@, n)]        \* as coded: no removeIP for a replacement record of n
          /\ rec' = [rec EXCEPT ![n] = r]
          /\ tabIP' = AddT(r.ip, tabIP) /\ bktIP' = AddK(b, r.ip, bktIP)
          /\ checks' = [checks EXCEPT ![n] = IF force THEN 1 ELSE 0]
          /\ live' = [live EXCEPT ![n] = force] /\ list' = [list EXCEPT ![n] = "fast"]
          /\ gen' = [gen EXCEPT ![n] = NextGen(n)]
          /\ UNCHANGED <<active, fails>>

\* deleteInBucket: remove the entry, promote a random replacement
DeleteEntry(n) ==
  LET b == Bk[n] IN
  /\ InSeq(entries[b], n)
  /\ IF repl[b] = <<>> THEN
        /\ entries' = [entries EXCEPT ![b] = Without(@, n)]
        /\ UNCHANGED <<repl, gen>>
        /\ rec' = [rec EXCEPT ![n] = NoRec]
        /\ list' = [list EXCEPT ![n] = "none"] /\ live' = [live EXCEPT ![n] = FALSE] /\ checks' = [checks EXCEPT ![n] = 0]
     ELSE \E i \in 1..Len(repl[b]) :
        LET r == repl[b][i] IN
        /\ entries' = [entries EXCEPT ![b] = Append(Without(@, n), r)]
        /\ repl' = [repl EXCEPT ![b] = Without(@, r)]
        /\ rec' = [rec EXCEPT ![n] = NoRec]
        /\ list' = [list EXCEPT ![n] = "none", ![r] = "fast"] /\ live' = [live EXCEPT ![n] = FALSE, ![r] = FALSE]
        /\ checks' = [checks EXCEPT ![n] = 0, ![r] = 0]
        /\ gen' = [gen EXCEPT ![r] = NextGen(r)]
  /\ tabIP' = RemT(rec[n].ip, tabIP) /\ bktIP' = RemK(b, rec[n].ip, bktIP)

OpAdd == /\ "add" \in Ops
         /\ \E r \in Recs, inbound \in BOOLEAN, force \in BOOLEAN : (inbound => ~force) /\ AddNode(r, inbound, force)

OpDelete == /\ "delete" \in Ops
            /\ \E n \in Ids : /\ DeleteEntry(n) /\ op' = [name |-> "delete", id |-> n] /\ UNCHANGED <<active, fails>>

OpRevalStart == /\ "reval" \in Ops
                /\ \E n \in Ids : /\ list[n] # "none" /\ n \notin ActiveIds /\ active' = active \cup {<<n, gen[n]>>}
                                  /\ op' = [name |-> "revalstart", id |-> n]
                                  /\ UNCHANGED <<entries, repl, rec, checks, live, list, gen, fails, tabIP, bktIP>>

\* handleResponse; a live answer may carry a new record (RequestENR on a higher sequence number)
OpRevalResp == /\ "reval" \in Ops
   /\ \E a \in active, alive \in BOOLEAN, nr \in Recs \cup {NoRec} :
   LET n == a[1]
       \* the response carries the entry object the check was started for: when that object has left the entries
       \* (its revalList is nil) the response is dropped, also when the id has a NEW entry meanwhile
       stale == a[2] # gen[n] IN
   /\ (nr # NoRec => alive /\ nr.id = n)
   /\ active' = active \ {a}
   /\ op' = [name |-> "revalresp", id |-> n, alive |-> alive, credit |-> checks[n], stale |-> stale]
   /\ IF list[n] = "none" \/ (stale /\ "StaleByID" \notin Devs) THEN UNCHANGED <<entries, repl, rec, checks, live, list, gen, fails, tabIP, bktIP>>
      ELSE IF ~alive THEN
           IF checks[n] \div 3 <= 0 THEN DeleteEntry(n) /\ UNCHANGED fails
           ELSE /\ checks' = [checks EXCEPT ![n] = @ \div 3] /\ list' = [list EXCEPT ![n] = "fast"]
                /\ UNCHANGED <<entries, repl, rec, live, gen, fails, tabIP, bktIP>>
      ELSE IF nr = NoRec \/ rec[n] = NoRec
           THEN /\ checks' = [checks EXCEPT ![n] = IF @ < MaxChecks THEN @ + 1 ELSE @]
                /\ live' = [live EXCEPT ![n] = TRUE] /\ list' = [list EXCEPT ![n] = "slow"]
                /\ UNCHANGED <<entries, repl, rec, gen, fails, tabIP, bktIP>>
           ELSE \* credit and live are set first, then the record is bumped (an endpoint change clears live again)
                LET seqOK == nr.seq > rec[n].seq \/ "NoSeqCheck" \in Devs
                    ipch  == nr.ip # rec[n].ip
                    t1 == RemT(rec[n].ip, tabIP)  k1 == RemK(Bk[n], rec[n].ip, bktIP)
                    fits == CanAdd(Bk[n], nr.ip, t1, k1)
                    applied == seqOK /\ (~ipch \/ fits) IN
                /\ checks' = [checks EXCEPT ![n] = IF @ < MaxChecks THEN @ + 1 ELSE @]
                /\ rec' = IF applied THEN [rec EXCEPT ![n] = nr] ELSE rec
                /\ tabIP' = IF applied /\ ipch THEN AddT(nr.ip, t1) ELSE tabIP
                /\ bktIP' = IF applied /\ ipch THEN AddK(Bk[n], nr.ip, k1) ELSE bktIP
                /\ live' = [live EXCEPT ![n] = ~(applied /\ ipch) \/ "KeepLive" \in Devs]
                /\ list' = [list EXCEPT ![n] = IF applied /\ ipch THEN "fast" ELSE "slow"]
                /\ UNCHANGED <<entries, repl, gen, fails>>

OpTrack == /\ "track" \in Ops
   /\ \E n \in Ids, ok \in BOOLEAN :
   LET f == IF ok THEN 0 ELSE (IF fails[n] < MaxFails THEN fails[n] + 1 ELSE fails[n]) IN
   /\ fails' = [fails EXCEPT ![n] = f]
   /\ op' = [name |-> "track", id |-> n, ok |-> ok, fails |-> f, nb |-> Len(entries[Bk[n]])]
   /\ IF ~ok /\ f >= MaxFails /\ Len(entries[Bk[n]]) >= MinBkt /\ InSeq(entries[Bk[n]], n)
      THEN DeleteEntry(n) /\ UNCHANGED active
      ELSE UNCHANGED <<entries, repl, rec, checks, live, list, active, gen, tabIP, bktIP>>

Next == OpAdd \/ OpDelete \/ OpRevalStart \/ OpRevalResp \/ OpTrack
Spec == Init /\ [][Next]_vars

----------------------------------------------------------------------------
\* ---- C07: structural invariants ----
AllIn(b) == {entries[b][i] : i \in 1..Len(entries[b])} \cup {repl[b][i] : i \in 1..Len(repl[b])}
SizeBounds == \A b \in Buckets : Len(entries[b]) <= BS /\ Len(repl[b]) <= MR
Unique == \A b \in Buckets : /\ IsInjective(entries[b]) /\ IsInjective(repl[b])
                             /\ \A i \in 1..Len(entries[b]) : ~InSeq(repl[b], entries[b][i])
RightBucket == \A b \in Buckets : \A n \in AllIn(b) : Bk[n] = b
CountIn(S, s) == Cardinality({n \in S : rec[n].ip \notin LAN /\ Subnet[rec[n].ip] = s})
IPLimits == /\ \A b \in Buckets, s \in Subnets : CountIn(AllIn(b), s) <= BIL
            /\ \A s \in Subnets : CountIn(UNION {AllIn(b) : b \in Buckets}, s) <= TIL
ListConsistent == \A n \in Ids : (list[n] # "none") <=> InSeq(entries[Bk[n]], n)     \* what the reval-list panics guard
RecConsistent == \A n \in Ids : (rec[n] # NoRec) <=> n \in AllIn(Bk[n])
\* ---- C18: action properties over the operation label ----
EntrySet(e, b) == {e[b][i] : i \in 1..Len(e[b])}
NoEvictionByNewcomer == [][op'.name = "add" => \A b \in Buckets : EntrySet(entries, b) \subseteq EntrySet(entries', b)]_vars
FullBucketKeepsEntries == [][(op'.name = "add" /\ Len(entries[Bk[op'.id]]) >= BS) =>
                               /\ entries'[Bk[op'.id]] = entries[Bk[op'.id]]
                               /\ \/ repl'[Bk[op'.id]] = repl[Bk[op'.id]]
                                  \/ repl'[Bk[op'.id]] = SubSeq(<<op'.id>> \o repl[Bk[op'.id]], 1, IF Len(repl[Bk[op'.id]]) >= MR THEN MR ELSE Len(repl[Bk[op'.id]]) + 1)]_vars
RemovalHasCause == [][\A b \in Buckets : \A n \in EntrySet(entries, b) \ EntrySet(entries', b) :
                        \/ op'.name = "delete" /\ op'.id = n
                        \/ op'.name = "revalresp" /\ op'.id = n /\ ~op'.alive /\ op'.credit \div 3 = 0 /\ ~op'.stale   \* a check of THIS entry
                        \/ op'.name = "track" /\ op'.id = n /\ ~op'.ok /\ op'.fails >= MaxFails /\ op'.nb >= MinBkt]_vars
Succession == [][\A b \in Buckets : (EntrySet(entries, b) \ EntrySet(entries', b) # {} /\ repl[b] # <<>>)
                     => /\ Len(entries'[b]) = Len(entries[b]) /\ Len(repl'[b]) = Len(repl[b]) - 1
                        /\ InSeq(repl[b], entries'[b][Len(entries'[b])])]_vars
RecordVersioning == [][\A n \in Ids : (rec[n] # NoRec /\ rec'[n] # NoRec /\ rec'[n] # rec[n]) =>
                          (rec'[n].seq > rec[n].seq \/ (op'.name = "add" /\ op'.inbound /\ op'.id = n))]_vars
EndpointClearsLive == [][\A n \in Ids : (rec[n] # NoRec /\ rec'[n] # NoRec /\ rec'[n].ip # rec[n].ip) => ~live'[n]]_vars
===============================================================================
