SPECIFICATION Spec
CONSTANTS
  Strict = TRUE
  MaxSyncs = 3
  MaxHeight = 2
  Devs = {}
INVARIANTS TypeOK Bound
CHECK_DEADLOCK FALSE
PROPERTIES FailedKeeps BackOnlyByBootstrap
