SPECIFICATION Spec
CONSTANTS
  B = 3
  Cap = 3
  Target = 1
  Sizes = {1}
  Procs = {p1, p2}
  Devs = {"NoPutLock"}
  MaxPuts = 6
  WithCrash = FALSE
  Dists <- D4
INVARIANTS SizeRecOK

CONSTRAINT StateBound
CHECK_DEADLOCK FALSE
