SPECIFICATION Spec
CONSTANTS
  E = 4
  MergeNum = 6
  ShanghaiNum = 10
  CancunNum = 14
  CapStart = 8
  GBell = 3228
  GDeneb = 6444
  Devs = {"RootsNoBounds"}
INVARIANTS OutOfRangeIsError
CHECK_DEADLOCK FALSE
