SPECIFICATION Spec
CONSTANTS
  Ids = {1, 2}
  MaxPeriod = 3
  MaxSlot = 2
  MaxEpoch = 2
  NTags = 2
  MaxRange = 2
  MaxOps = 4
  WithCrash = TRUE
  Devs = {"FinNewestWins"}
INVARIANTS TypeOK RangeAllOrNothing AnswersNotOlder RestartConsistent
PROPERTIES SummariesMonotone Separation FinalityMonotone
CHECK_DEADLOCK FALSE
