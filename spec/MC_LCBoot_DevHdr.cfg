SPECIFICATION Spec
CONSTANTS
  Strict = TRUE
  MaxSyncs = 3
  MaxHeight = 2
  Devs = {"SkipHeaderHash"}
INVARIANTS Bound
CHECK_DEADLOCK FALSE
