------------------------------- MODULE Versions -------------------------------
(* Protocol version negotiation (C19): getOrStoreHighestVersion / findBiggestSameNumber and    *)
(* the per-peer versions cache, plus the framing both sides derive from it.                     *)
(* A peer's advertisement is [k |-> "set", s |-> versions], k = "none" (no pv entry) or "bad".  *)
(* Deviation "CacheZeroOnError" (F-C19-1, current code): the result 0 is written to the cache  *)
(* before the no-common-version error is returned, so only the first query fails.              *)
EXTENDS Integers, Sequences, FiniteSets, TLC, Json

CONSTANTS Universe,   \* versions that can be advertised
          Devs
NoVer == 255
ErrVer == 254
RECURSIVE MaxOf(_)
MaxOf(S) == LET x == CHOOSE y \in S : TRUE IN IF S = {x} THEN x ELSE (LET m == MaxOf(S \ {x}) IN IF x > m THEN x ELSE m)
\* the rule of the property: mine = sequence as listed (first = base), theirs = set | "none" | "bad"
Negotiate(mine, theirs) ==
   IF theirs.k = "none" THEN mine[1]
   ELSE IF theirs.k = "bad" THEN ErrVer
   ELSE LET common == {mine[i] : i \in 1..Len(mine)} \cap theirs.s IN
        IF common = {} THEN ErrVer ELSE MaxOf(common)

\* ---- I level: one node querying one peer repeatedly through its cache ----
VARIABLES mine, theirs, cache, last, n
vars == <<mine, theirs, cache, last, n>>
Adv(S) == [k |-> "set", s |-> S]
Adverts == {Adv(S) : S \in SUBSET Universe \ {{}}} \cup {[k |-> "none", s |-> {}], [k |-> "bad", s |-> {}]}
Orders(S) == {s \in [1..Cardinality(S) -> S] : \A i, j \in 1..Cardinality(S) : i # j => s[i] # s[j]}
Init == /\ \E S \in SUBSET Universe \ {{}} : mine \in Orders(S)
        /\ theirs \in Adverts /\ cache = NoVer /\ last = NoVer /\ n = 0
Query == /\ n < 3 /\ n' = n + 1
         /\ IF cache # NoVer THEN last' = cache /\ UNCHANGED cache
            ELSE LET v == Negotiate(mine, theirs) IN
                 /\ last' = v
                 /\ cache' = IF v = ErrVer
                             THEN (IF "CacheZeroOnError" \in Devs /\ theirs.k # "bad" THEN 0 ELSE NoVer)
                             ELSE v
         /\ UNCHANGED <<mine, theirs>>
Next == Query
Spec == Init /\ [][Next]_vars
\* every answer, first or repeated, is the negotiated version (or the error)
AnswerIsNegotiated == n > 0 => last = Negotiate(mine, theirs)

\* ---- symmetry of the rule: two nodes that both advertise their (implemented) sets agree ----
Agree == \A a, b \in SUBSET Universe \ {{}} :
            \A sa \in Orders(a), sb \in Orders(b) : Negotiate(sa, Adv(b)) = Negotiate(sb, Adv(a))
\* framing: version 1 prefixes the content with its length, version 0 sends it raw
Frame(v, c) == IF v = 1 THEN <<"len", c>> ELSE c
Unframe(v, f) == IF v = 1 THEN (IF Len(f) = 2 /\ f[1] = "len" THEN f[2] ELSE <<"error">>) ELSE f
FramingRoundTrips == \A v \in {0, 1} : Unframe(v, Frame(v, <<"x">>)) = <<"x">>
FramingMismatchDetected == Unframe(1, Frame(0, <<"x">>)) = <<"error">>
===============================================================================
