------------------------------- MODULE Versions -------------------------------
(* Protocol version negotiation (C19): getOrStoreHighestVersion / findBiggestSameNumber and    *)
(* the per-peer versions cache, plus the framing both sides derive from it.                     *)
(* A peer's advertisement is [k |-> "set", s |-> versions], k = "none" (no pv entry) or "bad".  *)
(* Deviation "CacheZeroOnError" (F-C19-1, current code): the result 0 is written to the cache  *)
(* before the no-common-version error is returned, so only the first query fails.              *)
EXTENDS Integers, Sequences, FiniteSets, TLC, Json

CONSTANTS Universe,   \* versions that can be advertised
          Devs
NoVer == 255
ErrVer == 254
RECURSIVE MaxOf(_)
MaxOf(S) == LET x == CHOOSE y \in S : TRUE IN IF S = {x} THEN x ELSE (LET m == MaxOf(S \ {x}) IN IF x > m THEN x ELSE m)
\* the rule of the property: mine = sequence as listed (first = base), theirs = set | "none" | "bad"
Negotiate(mine, theirs) ==
   IF theirs.k = "none" THEN mine[1]
   ELSE IF theirs.k = "bad" THEN ErrVer
   ELSE LET common == {mine[i] : i \in 1..Len(mine)} \cap theirs.s IN
        IF common = {} THEN ErrVer ELSE MaxOf(common)

\* ---- I level: one node querying two peers, in any order, repeatedly, through its per-peer cache ----
\* mine is the node's own list as the helper finds it (the code keeps it in a slice that negotiation must not
\* touch), mine0 the list it was configured with and advertises.
\* Deviation "SortsOwnList" (seed C19-3): the negotiation with a listing peer sorts the own list in place, so the
\* base version used for a LATER peer without a list becomes the smallest own version.
VARIABLES mine, theirs, cache, last, n
vars == <<mine, theirs, cache, last, n>>
Adv(S) == [k |-> "set", s |-> S]
Adverts == {Adv(S) : S \in SUBSET Universe \ {{}}} \cup {[k |-> "none", s |-> {}], [k |-> "bad", s |-> {}]}
Orders(S) == {s \in [1..Cardinality(S) -> S] : \A i, j \in 1..Cardinality(S) : i # j => s[i] # s[j]}
Sorted(m) == CHOOSE s \in Orders({m[i] : i \in 1..Len(m)}) : \A i \in 1..Len(m) - 1 : s[i] < s[i + 1]
Peers == {1, 2}
Init == /\ \E S \in SUBSET Universe \ {{}} : \E m \in Orders(S) : mine = [cur |-> m, cfg |-> m]
        /\ theirs \in [Peers -> Adverts] /\ cache = [p \in Peers |-> NoVer] /\ last = [v |-> NoVer, want |-> NoVer] /\ n = 0
Query(p) == /\ n < 4 /\ n' = n + 1
            /\ IF cache[p] # NoVer THEN last' = [v |-> cache[p], want |-> Negotiate(mine.cfg, theirs[p])] /\ UNCHANGED <<cache, mine>>
               ELSE LET v == Negotiate(mine.cur, theirs[p]) IN
                    /\ last' = [v |-> v, want |-> Negotiate(mine.cfg, theirs[p])]
                    /\ cache' = [cache EXCEPT ![p] = IF v = ErrVer
                                                     THEN (IF "CacheZeroOnError" \in Devs /\ theirs[p].k # "bad" THEN 0 ELSE NoVer)
                                                     ELSE v]
                    /\ mine' = IF "SortsOwnList" \in Devs /\ theirs[p].k = "set" THEN [mine EXCEPT !.cur = Sorted(mine.cur)] ELSE mine
            /\ UNCHANGED theirs
Next == \E p \in Peers : Query(p)
Spec == Init /\ [][Next]_vars
\* every answer, first or repeated, to whichever peer, is what the configured list and the peer's advertisement give
AnswerIsNegotiated == n > 0 => last.v = last.want

\* ---- symmetry of the rule: two nodes that both advertise their (implemented) sets agree ----
Agree == \A a, b \in SUBSET Universe \ {{}} :
            \A sa \in Orders(a), sb \in Orders(b) : Negotiate(sa, Adv(b)) = Negotiate(sb, Adv(a))
\* Versions 0 and 1 are the implemented ones.  OFFER / ACCEPT is refused with an unsupported-version error for any other negotiated
\* version (filterContentKeys, parseOfferResp) - by design, the version list is not user-configurable (portalwire.Versions); the
\* framing of find-content streams has no such path: version 1 prefixes the content with its length, every other version sends it raw.
Implemented == {0, 1}
OfferSupported(v) == v \in Implemented
Frame(v, c) == IF v = 1 THEN <<"len", c>> ELSE c
Unframe(v, f) == IF v = 1 THEN (IF Len(f) = 2 /\ f[1] = "len" THEN f[2] ELSE <<"error">>) ELSE f
FramingRoundTrips == \A v \in {0, 1, 2} : Unframe(v, Frame(v, <<"x">>)) = <<"x">>
FramingMismatchDetected == Unframe(1, Frame(0, <<"x">>)) = <<"error">>
===============================================================================
