SPECIFICATION Spec
CONSTANTS
  OffW = 4
  Devs = {"BareListMin"}
  Mode = "values"
  MaxLen = 0
  Sym = 0
  TruncAll = 64
INVARIANTS RoundTrip
CHECK_DEADLOCK FALSE
