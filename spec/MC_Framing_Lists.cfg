SPECIFICATION Spec
CONSTANTS
  Bits = 2
  Groups = 3
  MaxBits = 5
  Devs = {}
  Mode = "lists"
  MaxLen = 0
  MaxItems = 3
  TripleSet = "small"
INVARIANTS Inverse
CHECK_DEADLOCK FALSE
