SPECIFICATION Spec
CONSTANTS
  OffW = 4
  Devs = {}
  Mode = "values"
  MaxLen = 0
  Sym = 0
  TruncAll = 64
INVARIANTS RoundTrip OverLimit MutantsLaw MutantsBite
CHECK_DEADLOCK FALSE
