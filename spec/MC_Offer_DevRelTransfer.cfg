SPECIFICATION Spec
CONSTANTS
  Keys = {"a", "b", "c"}
  InRangeK = {"a", "b"}
  Limit = 1
  Offers = {"o1", "o2", "o3"}
  OfferKeys <- OK1
  OfferVer <- OV1
  OutReqs = {"r1", "r2", "r3"}
  QueueCap = 1
  Devs = {"ReleaseAtTransferStart"}
INVARIANTS TransfersWithinLimit
CHECK_DEADLOCK FALSE
