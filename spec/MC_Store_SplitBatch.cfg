SPECIFICATION Spec
CONSTANTS
  B = 3
  Cap = 3
  Target = 1
  Sizes = {1, 2}
  Procs = {p1}
  Devs = {"SplitBatch"}
  MaxPuts = 7
  WithCrash = TRUE
  Dists <- D3

INVARIANTS CrashConsistent
CONSTRAINT StateBound
CHECK_DEADLOCK FALSE
