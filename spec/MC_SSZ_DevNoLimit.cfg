SPECIFICATION Spec
CONSTANTS
  OffW = 4
  Devs = {"NoLimit"}
  Mode = "values"
  MaxLen = 0
  Sym = 0
  TruncAll = 64
INVARIANTS OverLimit
CHECK_DEADLOCK FALSE
