----------------------------- MODULE Trace_Lookup -----------------------------
(* Property-level judge (monitor mode) for traces of the real lookup / ContentLookup (C10).     *)
(* The harness owns the peers: q.start / q.end are logged under the tracer mutex by the query   *)
(* function itself, rank[i] is the position of node i in XOR-distance order to the target       *)
(* (node 0 = the local node).  Conjuncts: askedOnce neverSelf knownPeer alpha askedSeen         *)
(* terminates sorted distinct atMost16 resultSeen closest drained contentOK                     *)
EXTENDS Integers, Sequences, FiniteSets, TLC, Json, SequencesExt

Trace == ndJsonDeserialize("trace.ndjson")
Alpha == 3
K == 16

VARIABLES l, rank, seen, asked, running, supplied, cancelled, viol
vars == <<l, rank, seen, asked, running, supplied, cancelled, viol>>

Failed(r) == {f \in DOMAIN r : ~r[f]}
R(i) == rank[i + 1]
SetOf(s) == {s[i] : i \in 1..Len(s)}

Start(e) == [ askedOnce |-> e.p \notin asked,
              neverSelf |-> e.p # 0,
              knownPeer |-> e.p >= 0,
              alpha     |-> Cardinality(running \cup {e.p}) <= Alpha,
              askedSeen |-> e.p \in seen ]

DoneNode(e) ==
  LET res == e.res IN
  [ sorted     |-> \A i \in 1..(Len(res) - 1) : res[i] >= 0 /\ res[i + 1] >= 0 => R(res[i]) < R(res[i + 1]),
    distinct   |-> Cardinality(SetOf(res)) = Len(res),
    atMost16   |-> Len(res) <= K,
    resultSeen |-> SetOf(res) \subseteq seen,
    closest    |-> (~e.cancelled) => \A n \in seen : n \in SetOf(res) \/ (Len(res) = K /\ R(n) > R(res[K])),
    drained    |-> running = {} ]

DoneContent(e) ==
  [ contentOK |-> IF supplied = {} THEN ~e.found ELSE e.found /\ <<e.ctag, e.clen>> \in supplied,
    drained   |-> running = {} ]

Init == l = 1 /\ rank = <<>> /\ seen = {} /\ asked = {} /\ running = {} /\ supplied = {} /\ cancelled = FALSE /\ viol = {}

Next ==
  /\ l <= Len(Trace)
  /\ l' = l + 1
  /\ LET e == Trace[l] IN
     CASE e.ev = "lk.init" ->
            /\ rank' = e.rank /\ seen' = SetOf(e.seed) /\ asked' = {} /\ running' = {} /\ supplied' = {} /\ cancelled' = FALSE
            /\ UNCHANGED viol
       [] e.ev = "q.start" ->
            /\ viol' = viol \cup {<<l, f>> : f \in Failed(Start(e))}
            /\ asked' = asked \cup {e.p} /\ running' = running \cup {e.p}
            /\ UNCHANGED <<rank, seen, supplied, cancelled>>
       [] e.ev = "q.end" ->
            /\ running' = running \ {e.p}
            /\ seen' = seen \cup SetOf(e.ans)
            /\ supplied' = IF e.content THEN supplied \cup {<<e.ctag, e.clen>>} ELSE supplied
            /\ UNCHANGED <<rank, asked, cancelled, viol>>
       [] e.ev = "lk.cancel" -> cancelled' = TRUE /\ UNCHANGED <<rank, seen, asked, running, supplied, viol>>
       [] e.ev = "lk.hang" -> viol' = viol \cup {<<l, "terminates">>} /\ UNCHANGED <<rank, seen, asked, running, supplied, cancelled>>
       [] e.ev = "lk.ret" ->        \* logged the moment the lookup call returns: no query may still be out
            /\ viol' = viol \cup (IF running = {} THEN {} ELSE {<<l, "drained">>})
            /\ UNCHANGED <<rank, seen, asked, running, supplied, cancelled>>
       [] e.ev = "lk.done" ->
            /\ viol' = viol \cup {<<l, f>> : f \in Failed(IF e.kind = "node" THEN DoneNode(e) ELSE DoneContent(e))}
            /\ UNCHANGED <<rank, seen, asked, running, supplied, cancelled>>
       [] OTHER -> UNCHANGED <<rank, seen, asked, running, supplied, cancelled, viol>>

Spec == Init /\ [][Next]_vars
Done == l = Len(Trace) + 1
Report == Done => PrintT(<<"VIOL", ToJson(viol)>>)
TraceAccepted == TLCGet("stats").diameter = Len(Trace) + 1
===============================================================================
