-------------------------- MODULE HistoryValidation --------------------------
(* C02 - "History content is accepted only when bound to its key and the trusted roots".         *)
(*                                                                                                *)
(* A pure decision procedure: the whole case is chosen in Init (case \in CaseSpace), one step     *)
(* applies the coded procedure (HistoryRules!Outcome, I level) and the invariants compare it with *)
(* the property (HistoryRules!Bound, P level).  TLC enumerates the case space exhaustively and    *)
(* prints every case as JSON for the Go harness, which concretises it from genuine mainnet        *)
(* vectors / synthetic blocks and runs the real HistoryValidator on it.                           *)
(*                                                                                                *)
(* Symbolic universe: chain blocks 1..N with attributes Blk[b] =                                  *)
(*   [wdk : "none" | "empty" | "some"   withdrawals root of the header: none (pre-Shanghai),      *)
(*                                        root of the empty list, a proper root                   *)
(*    er  : BOOLEAN   no transactions, hence the empty receipts root                              *)
(*    un  : BOOLEAN   has uncles                                                                  *)
(*    pf  : BOOLEAN   a genuine accumulator proof exists (mainnet vector) - synthetic blocks: no  *)
(*    hr  : BOOLEAN   that proof is of the historical-roots kind (merge until Capella)]           *)
(* plus one forged header F = N+1 that is in no accumulator (its hash and, optionally, its number *)
(* belong to no chain block) and 0 = "the hash / number of nothing".                              *)
(* Roots are integers: identical integers <=> identical roots; blocks without transactions share  *)
(* EMPTY, blocks without uncles share EMPTYUN - exactly the coincidences of real blocks.          *)
EXTENDS HistoryRules, Sequences, TLC, Json

CONSTANTS N, Blk, Devs
ASSUME N \in Nat /\ Devs \subseteq DevNames

F   == N + 1
MUT == 7                      \* a root that belongs to no block (field-level mutation)
Chain == 1..N

TxRoot(b) == IF Blk[b].er THEN EMPTY ELSE 10 * b + 3
RcRoot(b) == IF Blk[b].er THEN EMPTY ELSE 10 * b + 4
UnRoot(b) == IF Blk[b].un THEN 10 * b + 5 ELSE EMPTYUN
WdRoot(b) == CASE Blk[b].wdk = "none"  -> NONE
               [] Blk[b].wdk = "empty" -> EMPTY
               [] OTHER                -> 10 * b + 6

\* ---- keys: <<type, hash | number>> -------------------------------------------------------------
KeyTypes == {"hash", "num", "body", "rcpt", "unk"}
\* x: the key is over-long - selector, the hash / number h, then further bytes (it then denotes nothing)
\* x: malformed length with the genuine value embedded - a number key with bytes appended, a hash-carrying key with bytes
\* inserted between selector and hash
Keys == {k \in [t : KeyTypes, h : 0..F, x : BOOLEAN] : k.x => (k.t # "unk" /\ k.h # 0)}

\* ---- contents ------------------------------------------------------------------------------------
\* nc: non-canonical encoding - an empty transactions / withdrawals / receipts list written as a four-byte zero offset table
Blank == [kind |-> "junk", hid |-> 0, nid |-> 0, pf |-> 0, tx |-> 0, un |-> 0, wd |-> 0, rc |-> 0, zero |-> FALSE, nc |-> FALSE]
\* 0 = damaged / random proof, p = the genuine proof of block p, -p = that proof with its slot moved beyond the accumulator
Proofs == {0} \cup {p \in Chain : Blk[p].pf} \cup {-p : p \in {q \in Chain : Blk[q].pf /\ Blk[q].hr}}
HdrContents ==
     {[Blank EXCEPT !.kind = "hdr", !.hid = b, !.nid = b, !.pf = p] : b \in Chain, p \in Proofs}
\cup {[Blank EXCEPT !.kind = "hdr", !.hid = F, !.nid = n, !.pf = p] : n \in 1..F, p \in Proofs}   \* forged header claiming number n
BodyContents ==
  {[Blank EXCEPT !.kind = "body", !.tx = t, !.un = u, !.wd = w] :
      t \in {TxRoot(b) : b \in Chain} \cup {MUT},
      u \in {UnRoot(b) : b \in Chain} \cup {MUT},
      w \in {WdRoot(b) : b \in Chain} \cup {NONE, EMPTY, MUT}}
NcBodyContents == {[c EXCEPT !.nc = TRUE] : c \in {d \in BodyContents : d.tx = EMPTY \/ d.wd = EMPTY}}
RcContents ==
     {[Blank EXCEPT !.kind = "rcpt", !.rc = r] : r \in ({RcRoot(b) : b \in Chain} \ {EMPTY}) \cup {MUT}}   \* proper receipt lists
\cup {[Blank EXCEPT !.kind = "rcpt", !.rc = EMPTY, !.nc = TRUE]}                                    \* the zero offset table
\cup {[Blank EXCEPT !.kind = "rcpt", !.rc = EMPTY, !.zero = TRUE]}                                  \* the zero-length content
Contents == HdrContents \cup BodyContents \cup NcBodyContents \cup RcContents \cup {Blank}

\* ---- header sources ------------------------------------------------------------------------------
Sources == {[m |-> "honest", j |-> 0], [m |-> "err", j |-> 0]} \cup {[m |-> "lie", j |-> j] : j \in Chain}
Returned(k, s) == CASE s.m = "honest" -> IF k.h \in Chain /\ ~k.x THEN k.h ELSE 0      \* 0 = error ("not found")
                    [] s.m = "lie"    -> s.j
                    [] OTHER          -> 0

CaseSpace == {c \in [k : Keys, c : Contents, s : Sources] :
                 /\ c.s.m = "lie" => (c.s.j # c.k.h \/ c.k.x)                       \* a lie is another block's header
                 /\ c.k.t \notin {"body", "rcpt"} => c.s.m = "honest"}    \* the source is consulted for bodies and receipts only

\* ---- views ---------------------------------------------------------------------------------------
KeyView(k) ==
  LET kn == k.h \in Chain /\ k.t \in {"body", "rcpt"} /\ ~k.x IN
  [t |-> k.t, id |-> IF k.x THEN -5 ELSE k.h, pre |-> IF k.x THEN k.h ELSE -1, known |-> kn,
   tx |-> IF kn THEN TxRoot(k.h) ELSE -1, un |-> IF kn THEN UnRoot(k.h) ELSE -1,
   wd |-> IF kn THEN WdRoot(k.h) ELSE -1, rc |-> IF kn THEN RcRoot(k.h) ELSE -1]

NotOk == [ok |-> FALSE, canon |-> FALSE, sb |-> FALSE, hid |-> -2, nid |-> -2, pf |-> FALSE, tx |-> -2, un |-> -2, wd |-> -2, rc |-> -2, zero |-> FALSE]
ContentView(c, t) ==
  CASE t \in {"hash", "num"} /\ c.kind = "hdr" ->
         [NotOk EXCEPT !.ok = TRUE, !.canon = TRUE, !.hid = c.hid, !.nid = c.nid, !.pf = (c.hid \in Chain /\ c.pf = c.hid),
                       !.sb = (c.hid \in Chain /\ c.pf = -c.hid)]
    [] t = "body" /\ c.kind = "body" -> [NotOk EXCEPT !.ok = TRUE, !.canon = ~c.nc, !.tx = c.tx, !.un = c.un, !.wd = c.wd]
    [] t = "rcpt" /\ c.kind = "rcpt" -> [NotOk EXCEPT !.ok = TRUE, !.canon = ~c.nc, !.rc = c.rc, !.zero = c.zero]
    [] OTHER -> [NotOk EXCEPT !.zero = c.zero]          \* wrong kind of content for this key: does not decode

SourceView(k, s) ==
  LET r == Returned(k, s) IN
  IF r = 0 THEN [ans |-> FALSE, hid |-> -3, tx |-> -3, un |-> -3, wd |-> -3, rc |-> -3]
  ELSE [ans |-> TRUE, hid |-> r, tx |-> TxRoot(r), un |-> UnRoot(r), wd |-> WdRoot(r), rc |-> RcRoot(r)]

\* ---- the one-step behaviour ----------------------------------------------------------------------
VARIABLES cs, out
vars == <<cs, out>>

Init == cs \in CaseSpace /\ out = "new"
Next == out = "new" /\ out' = Outcome(KeyView(cs.k), ContentView(cs.c, cs.k.t), SourceView(cs.k, cs.s), Devs) /\ UNCHANGED cs
Spec == Init /\ [][Next]_vars

BoundCase(c) == Bound(KeyView(c.k), ContentView(c.c, c.k.t))
\* the genuine content of the key's block, offered under its key with an honest source
Genuine(c) ==
  /\ c.k.h \in Chain /\ ~c.k.x /\ ~c.c.nc /\ c.s.m = "honest"
  /\ CASE c.k.t \in {"hash", "num"} -> Blk[c.k.h].pf /\ c.c.kind = "hdr" /\ c.c.hid = c.k.h /\ c.c.pf = c.k.h
       [] c.k.t = "body" -> c.c.kind = "body" /\ c.c.tx = TxRoot(c.k.h) /\ c.c.un = UnRoot(c.k.h) /\ c.c.wd = WdRoot(c.k.h)
       [] c.k.t = "rcpt" -> c.c.kind = "rcpt" /\ c.c.rc = RcRoot(c.k.h) /\ c.c.zero = Blk[c.k.h].er
       [] OTHER -> FALSE

TypeOK       == out \in {"new", "accept", "reject", "panic"}
Soundness    == out = "accept" => BoundCase(cs)                \* C02
NoPanic      == out # "panic"                                  \* a panic is not a legal outcome
Completeness == (out # "new" /\ Genuine(cs)) => out = "accept" \* not part of C02: keeps the model honest (vacuity)

\* ---- generation: every evaluated case, with the coded outcome and the property's verdict ----------
Emit == out # "new" =>
  PrintT(<<"CASE", ToJson([kt |-> cs.k.t, kh |-> cs.k.h, kx |-> cs.k.x, nc |-> cs.c.nc,
                           ck |-> cs.c.kind, hid |-> cs.c.hid, nid |-> cs.c.nid, pf |-> cs.c.pf,
                           tx |-> cs.c.tx, un |-> cs.c.un, wd |-> cs.c.wd, rc |-> cs.c.rc, zero |-> cs.c.zero,
                           sm |-> cs.s.m, sj |-> cs.s.j,
                           out |-> out, bound |-> BoundCase(cs), genuine |-> Genuine(cs)])>>)
==============================================================================
