SPECIFICATION Spec
CONSTANTS
  Universe = {0, 1, 2}
  Devs = {"CacheZeroOnError"}
INVARIANTS AnswerIsNegotiated
CHECK_DEADLOCK FALSE
