SPECIFICATION GSpec
CONSTANTS
  Universe = {0, 1, 2}
  Devs = {}
INVARIANT Emit
CHECK_DEADLOCK FALSE
