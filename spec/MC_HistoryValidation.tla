------------------------ MODULE MC_HistoryValidation ------------------------
(* Model-checking root for HistoryValidation: the block universes.                               *)
EXTENDS HistoryValidation

\* 1 pre-Shanghai with transactions, receipts and uncles (its header proof of the historical-roots kind); 2 Shanghai with withdrawals; 3 pre-Shanghai without transactions
MCBlk3 == <<[wdk |-> "none",  er |-> FALSE, un |-> TRUE,  pf |-> TRUE, hr |-> TRUE],
            [wdk |-> "some",  er |-> FALSE, un |-> FALSE, pf |-> TRUE, hr |-> FALSE],
            [wdk |-> "none",  er |-> TRUE,  un |-> FALSE, pf |-> TRUE, hr |-> FALSE]>>
\* + 4 Shanghai header with the empty withdrawals root and no transactions (synthetic: no accumulator proof)
\* + 5 a second Shanghai block with withdrawals (cross-pairing of withdrawals between two Shanghai blocks)
MCBlk5 == MCBlk3 \o <<[wdk |-> "empty", er |-> TRUE,  un |-> FALSE, pf |-> FALSE, hr |-> FALSE],
                      [wdk |-> "some",  er |-> FALSE, un |-> FALSE, pf |-> TRUE, hr |-> FALSE]>>
==============================================================================
