SPECIFICATION Spec
CONSTANTS
  Net = "history"
  Keys = {"k1", "k2"}
  MaxBatch = 2
  MaxBatches = 2
  Devs = {}
INVARIANTS TypeOK StoredOnlyValidated OkMeansChecked RefusalIsError
CHECK_DEADLOCK FALSE
PROPERTIES NothingAfterReject
