CONSTANTS
  Req <- ReqC
  Limit <- LimitC
  ReleaseOnce <- OnceF
INIT Init
NEXT Next
INVARIANT IndInv
