SPECIFICATION Spec
CONSTANTS
  Peers = {1, 2, 3, 4}
  Self = 0
  Alpha = 2
  K = 3
  TableSeed = {1, 2, 3, 4}
  Holders = {}
  Devs = {"AlphaPlus"}
VIEW view
INVARIANTS AlphaBound

CHECK_DEADLOCK FALSE
