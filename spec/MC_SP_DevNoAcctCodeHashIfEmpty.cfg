SPECIFICATION Spec
CONSTANTS
  Devs = {"NoAcctCodeHashIfEmpty"}
  AllKeys = FALSE
  AllSmall = FALSE
  Kinds = {"code"}
  Emit = FALSE
INVARIANTS Sound NoPanic StoredFinal HonestAccepted EmitCase
CHECK_DEADLOCK FALSE
