----------------------------- MODULE Trace_Table -----------------------------
(* Property-level judge (monitor mode) for traces of the real portalwire routing table.        *)
(* Each event carries the buckets that changed (entries and replacements with id, log distance, *)
(* /24 network, address, port, sequence number, liveness credit, live flag, revalidation list)   *)
(* and, for serially applied operations, the operation label.                                   *)
(*   C07 (state invariants, every event): sizes unique noSelf rightBucket ipBucket ipTable      *)
(*        known noPanic; "lists" (revalidation-list bookkeeping) is reported as drift only       *)
(*   C18 (action properties, "op" events): noEviction fullKeeps removalCause succession         *)
(*        recordVersion endpointClearsLive creditKept creditSpent creditExhausted staleIgnored   *)
(*        newcomerQueued                                                                         *)
(* The statement does not fix the rate at which failed checks consume credit (the pinned code    *)
(* divides by 3): the judge demands that a passed check never costs credit, that a failed check  *)
(* an entry survives costs credit, and that removals at failed checks are consistent with ONE    *)
(* monotone decay rule over the whole trace (every credit at which an entry was removed lies     *)
(* below every credit at which one survived).  The pinned arithmetic (+1, div 3) is compared     *)
(* too, but only reported as drift.                                                              *)
(* Real constants: 17 buckets, bucket size 16, 10 replacements, 2 per /24 per bucket, 10 per    *)
(* /24 per table, 5 failures, bucketSize/4 = 4.                                                *)
EXTENDS Integers, Sequences, FiniteSets, TLC, Json, SequencesExt

Trace == ndJsonDeserialize("trace.ndjson")

NB == 17   BS == 16   MR == 10   BIL == 2   TIL == 10   MaxFails == 5   MinBkt == 4
BucketIndex(ld) == IF ld <= 240 THEN 0 ELSE ld - 240      \* bucketAtDistance: d <= 239 -> 0, else d - 240

VARIABLES l, tab, viol, maxRem, minStay, drift,
          cf      \* ghost: <<id, ip>> -> fruitless node queries in a row, counted by the judge itself (the code's own counter is what
                  \* sweep mutant G3/35-C18 stopped resetting): a query that brings something resets it
vars == <<l, tab, viol, maxRem, minStay, drift, cf>>
CF(c, k) == IF k \in DOMAIN c THEN c[k] ELSE 0
CFPut(c, k, v) == [j \in DOMAIN c \cup {k} |-> IF j = k THEN v ELSE c[j]]
CFAfter(c, o) == IF o.name # "track" THEN c ELSE CFPut(c, <<o.id, o.ip>>, IF o.ok THEN 0 ELSE CF(c, <<o.id, o.ip>>) + 1)

EmptyTab == [b \in 0..(NB - 1) |-> [e |-> <<>>, r |-> <<>>]]
Apply(t, ch) == [b \in 0..(NB - 1) |->
                   IF \E i \in 1..Len(ch) : ch[i].b = b
                   THEN LET c == ch[CHOOSE i \in 1..Len(ch) : ch[i].b = b] IN [e |-> c.e, r |-> c.r]
                   ELSE t[b]]

Rng(s) == {s[i] : i \in 1..Len(s)}
IdsOf(s) == {s[i].id : i \in 1..Len(s)}
IdSeq(s) == [i \in 1..Len(s) |-> s[i].id]
Find(s, id) == s[CHOOSE i \in 1..Len(s) : s[i].id = id]
AllNodes(t) == UNION {Rng(t[b].e) \cup Rng(t[b].r) : b \in 0..(NB - 1)}
Count(t) == LET RECURSIVE F(_) F(b) == IF b = NB THEN 0 ELSE Len(t[b].e) + Len(t[b].r) + F(b + 1) IN F(0)
Nets(S) == {n.net : n \in S} \ {-1}
Failed(r) == {f \in DOMAIN r : ~r[f]}

\* ---- C07 ----
Inv(t, e) ==
  [ sizes       |-> \A b \in 0..(NB - 1) : Len(t[b].e) <= BS /\ Len(t[b].r) <= MR,
    unique      |-> Cardinality({n.id : n \in AllNodes(t)}) = Count(t),
    noSelf      |-> \A n \in AllNodes(t) : n.id # 0 /\ n.ld # 0,
    rightBucket |-> \A b \in 0..(NB - 1) : \A n \in Rng(t[b].e) \cup Rng(t[b].r) : BucketIndex(n.ld) = b,
    ipBucket    |-> \A b \in 0..(NB - 1) : LET S == Rng(t[b].e) \cup Rng(t[b].r) IN
                       \A s \in Nets(S) : Cardinality({n \in S : n.net = s}) <= BIL,
    ipTable     |-> LET S == AllNodes(t) IN \A s \in Nets(S) : Cardinality({n \in S : n.net = s}) <= TIL,
    lists       |-> \A b \in 0..(NB - 1) : /\ \A n \in Rng(t[b].e) : n.list \in {"fast", "slow"}
                                           /\ \A n \in Rng(t[b].r) : n.list = "",
    known       |-> \A n \in AllNodes(t) : n.id >= 0 /\ n.ip >= 0,
    noPanic     |-> e.panic = "" ]

\* ---- C18 ----
IsAdd(o) == o.name \in {"addFound", "addInbound"}
Adds(o) == IsAdd(o) \/ o.name = "seeds" \/ (o.name = "track" /\ o.ok)
EndpointChanged(a, b) == a.ip # b.ip \/ a.port # b.port
RecChanged(a, b) == EndpointChanged(a, b) \/ a.seq # b.seq

Act(pre, post, o, cfn) ==
  LET b0 == BucketIndex(o.ld)
      Removed(b) == IdsOf(pre[b].e) \ IdsOf(post[b].e) IN
  [ noEviction |-> Adds(o) => \A b \in 0..(NB - 1) : IdsOf(pre[b].e) \subseteq IdsOf(post[b].e),
    fullKeeps  |-> (IsAdd(o) /\ o.id # 0 /\ Len(pre[b0].e) >= BS /\ o.id \notin IdsOf(pre[b0].e)) =>
                      /\ IdSeq(post[b0].e) = IdSeq(pre[b0].e)
                      /\ \/ IdSeq(post[b0].r) = IdSeq(pre[b0].r)
                         \/ /\ o.id \notin IdsOf(pre[b0].r)
                            /\ IdSeq(post[b0].r) = SubSeq(<<o.id>> \o IdSeq(pre[b0].r), 1,
                                                          IF Len(pre[b0].r) >= MR THEN MR ELSE Len(pre[b0].r) + 1),
    \* a newcomer to a full bucket that is in neither list and whose address is under no /24 limit (LAN, net = -1) has no reason
    \* to be turned away: it becomes the first replacement, also when the list is already full (sweep mutant C/17-C18)
    newcomerQueued |-> (IsAdd(o) /\ o.id # 0 /\ o.net = -1 /\ Len(pre[b0].e) >= BS /\ o.id \notin IdsOf(pre[b0].e) /\ o.id \notin IdsOf(pre[b0].r)) =>
                          (Len(post[b0].r) >= 1 /\ post[b0].r[1].id = o.id),
    removalCause |-> \A b \in 0..(NB - 1) : \A n \in Removed(b) :
                        \/ o.name = "delete" /\ o.id = n
                        \/ o.name = "reval" /\ o.id = n /\ ~o.alive
                        \/ o.name = "track" /\ o.id = n /\ ~o.ok /\ CF(cfn, <<o.id, o.ip>>) >= MaxFails /\ o.nb >= MinBkt,
    succession |-> \A b \in 0..(NB - 1) : Removed(b) # {} =>
                        IF pre[b].r = <<>> THEN Len(post[b].e) = Len(pre[b].e) - 1 /\ post[b].r = <<>>
                        ELSE /\ Len(post[b].e) = Len(pre[b].e) /\ Len(post[b].r) = Len(pre[b].r) - 1
                             /\ post[b].e[Len(post[b].e)].id \in IdsOf(pre[b].r)
                             /\ IdsOf(post[b].r) \subseteq IdsOf(pre[b].r),
    recordVersion |-> \A b \in 0..(NB - 1) : \A n \in IdsOf(pre[b].e) \cap IdsOf(post[b].e) :
                        LET x == Find(pre[b].e, n)  y == Find(post[b].e, n) IN
                        RecChanged(x, y) => (y.seq > x.seq \/ (o.name = "addInbound" /\ o.id = n)),
    endpointClearsLive |-> \A b \in 0..(NB - 1) : \A n \in IdsOf(pre[b].e) \cap IdsOf(post[b].e) :
                        LET x == Find(pre[b].e, n)  y == Find(post[b].e, n) IN
                        EndpointChanged(x, y) => ~y.live,
    \* the result of a liveness check that was started for an entry which has since left the table (op "revalstale":
    \* delivered for the old entry object) changes nothing - whether or not the id has a new entry meanwhile
    staleIgnored |-> (o.name = "revalstale") =>
                        /\ IdSeq(post[b0].e) = IdSeq(pre[b0].e) /\ IdSeq(post[b0].r) = IdSeq(pre[b0].r)
                        /\ \A i \in 1..Len(pre[b0].e) : post[b0].e[i].chk = pre[b0].e[i].chk /\ post[b0].e[i].live = pre[b0].e[i].live,
    creditKept |-> (o.name = "reval" /\ o.isentry /\ o.alive) =>
                      o.id \in IdsOf(post[b0].e) /\ Find(post[b0].e, o.id).chk >= o.credit,
    creditSpent |-> (o.name = "reval" /\ o.isentry /\ ~o.alive /\ o.id \in IdsOf(post[b0].e)) =>
                      Find(post[b0].e, o.id).chk < o.credit ]

\* failed liveness check of an entry: did it leave?
FailedReval(o) == o.name = "reval" /\ o.isentry /\ ~o.alive
Left(post, o) == o.id \notin IdsOf(post[BucketIndex(o.ld)].e)
Mx(a, b) == IF a > b THEN a ELSE b
Mn(a, b) == IF a < b THEN a ELSE b
\* the pinned arithmetic (drift only)
Pinned(post, o) ==
  LET b0 == BucketIndex(o.ld) IN
  (o.name = "reval" /\ o.isentry) =>
     IF o.alive THEN o.id \in IdsOf(post[b0].e) /\ Find(post[b0].e, o.id).chk = o.credit + 1
     ELSE IF o.credit \div 3 = 0 THEN o.id \notin IdsOf(post[b0].e)
     ELSE o.id \in IdsOf(post[b0].e) /\ Find(post[b0].e, o.id).chk = o.credit \div 3

Init == l = 1 /\ tab = EmptyTab /\ viol = {} /\ maxRem = -1 /\ minStay = 1000000 /\ drift = {} /\ cf = <<>>

Next ==
  /\ l <= Len(Trace)
  /\ l' = l + 1
  /\ LET e == Trace[l] IN
     CASE e.ev = "init" -> tab' = EmptyTab /\ cf' = <<>> /\ UNCHANGED <<viol, maxRem, minStay, drift>>
       [] e.ev = "op" ->
            LET post == Apply(tab, e.ch)
                o == e.op
                mr == IF FailedReval(o) /\ Left(post, o) THEN Mx(maxRem, o.credit) ELSE maxRem
                ms == IF FailedReval(o) /\ ~Left(post, o) THEN Mn(minStay, o.credit) ELSE minStay
                cfn == CFAfter(cf, o) IN
            /\ tab' = post /\ maxRem' = mr /\ minStay' = ms /\ cf' = cfn
            /\ drift' = IF Pinned(post, o) THEN drift ELSE drift \cup {<<l, "creditArithmetic">>}
            /\ viol' = viol \cup {<<l, f>> : f \in Failed(Inv(post, e)) \cup Failed(Act(tab, post, o, cfn))}
                             \cup (IF FailedReval(o) /\ mr >= ms THEN {<<l, "creditExhausted">>} ELSE {})
       [] e.ev = "snap" ->
            LET post == Apply(tab, e.ch) IN
            /\ tab' = post
            /\ viol' = viol \cup {<<l, f>> : f \in Failed(Inv(post, e))}
            /\ UNCHANGED <<maxRem, minStay, drift, cf>>
       [] OTHER -> UNCHANGED <<tab, viol, maxRem, minStay, drift, cf>>

Spec == Init /\ [][Next]_vars
Done == l = Len(Trace) + 1
Report == Done => PrintT(<<"VIOL", ToJson(viol)>>) /\ PrintT(<<"DRIFT", ToJson(drift)>>)
TraceAccepted == TLCGet("stats").diameter = Len(Trace) + 1
===============================================================================
