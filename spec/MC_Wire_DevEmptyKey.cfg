SPECIFICATION Spec
CONSTANTS
  Devs = {"EmptyKey"}
  Emit = FALSE
  Full = FALSE
  Part = "all"
INVARIANTS NoPanic
CHECK_DEADLOCK FALSE
