CONSTANTS
  Req <- ReqC
  Limit <- LimitC
  ReleaseOnce <- OnceT
INIT Init
NEXT Next
INVARIANT IndInv
