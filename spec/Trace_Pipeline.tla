---------------------------- MODULE Trace_Pipeline ----------------------------
(* Judge for node-level pipeline observations (Shisui.tla) on a real history Network:           *)
(* pl.batch = one offered batch (per item: key, valid under the harness validator, in range of   *)
(* the node's radius; the keys the node accepted; what was stored before), pl.settled = what is  *)
(* stored afterwards and which gossip offers the audience received (to >= 0: scripted peer of     *)
(* kind covered / unknown / zero; to = -2 - i: source node i).                                   *)
(* Conjuncts (cross-module invariants): storedOnlyValidated storedWithinRadius                   *)
(* gossipOnlyValidBatch gossipWholeBatch neverBackToSource gossipOnlyToCovered nothingUnstored    *)
EXTENDS Integers, Sequences, FiniteSets, TLC, Json, SequencesExt
Trace == ndJsonDeserialize("trace.ndjson")
VARIABLES l, peers, batch, storedPrev, viol
vars == <<l, peers, batch, storedPrev, viol>>
Failed(r) == {f \in DOMAIN r : ~r[f]}
SetOf(s) == {s[i] : i \in 1..Len(s)}
Item(b, k) == b.items[CHOOSE i \in 1..Len(b.items) : b.items[i].k = k]
HasItem(b, k) == \E i \in 1..Len(b.items) : b.items[i].k = k
Settled(b, e) ==
  LET acc == SetOf(b.accepted)
      new == SetOf(e.stored) \ storedPrev
      okBatch == \A k \in acc : k \in storedPrev \/ Item(b, k).valid IN
  [ storedOnlyValidated |-> \A k \in new : k \in acc /\ HasItem(b, k) /\ Item(b, k).valid,
    storedWithinRadius  |-> \A k \in new : HasItem(b, k) /\ Item(b, k).inrange,
    nothingUnstored     |-> storedPrev \subseteq SetOf(e.stored),
    gossipOnlyValidBatch |-> e.gossip # <<>> => okBatch,
    gossipWholeBatch    |-> \A i \in 1..Len(e.gossip) : e.gossip[i].keys = b.accepted,
    neverBackToSource   |-> \A i \in 1..Len(e.gossip) : e.gossip[i].to # -2 - b.src,
    gossipOnlyToCovered |-> \A i \in 1..Len(e.gossip) : e.gossip[i].to >= 0 => peers[e.gossip[i].to + 1] = "covered" ]
Init == l = 1 /\ peers = <<>> /\ batch = [b |-> -1] /\ storedPrev = {} /\ viol = {}
Next == /\ l <= Len(Trace) /\ l' = l + 1
        /\ LET e == Trace[l] IN
           CASE e.ev = "pl.init" -> peers' = e.peers /\ storedPrev' = {} /\ batch' = [b |-> -1] /\ UNCHANGED viol
             [] e.ev = "pl.batch" -> batch' = e /\ storedPrev' = SetOf(e.stored_before) /\ UNCHANGED <<peers, viol>>
             [] e.ev = "pl.settled" -> /\ viol' = viol \cup {<<l, f>> : f \in Failed(Settled(batch, e))}
                                       /\ storedPrev' = SetOf(e.stored) /\ UNCHANGED <<peers, batch>>
             [] OTHER -> UNCHANGED <<peers, batch, storedPrev, viol>>
Spec == Init /\ [][Next]_vars
Done == l = Len(Trace) + 1
Report == Done => PrintT(<<"VIOL", ToJson(viol)>>)
TraceAccepted == TLCGet("stats").diameter = Len(Trace) + 1
===============================================================================
