SPECIFICATION Spec
CONSTANTS
  N = 5
  Blk <- MCBlk5
  Devs = {}
INVARIANT TypeOK
INVARIANT Soundness
INVARIANT NoPanic
INVARIANT Completeness
CHECK_DEADLOCK FALSE
