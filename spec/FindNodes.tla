------------------------------ MODULE FindNodes ------------------------------
(* FINDNODES / NODES (C11): what a responder may put into a reply and what an asker may keep. *)
(* Address classes: "loop" (loopback), "lan", "pub".  netutil.CheckRelayIP as the rule for      *)
(* records that may be relayed: a loopback record only to a loopback peer, a LAN record only to *)
(* a LAN (or loopback) peer.  Buckets: log distances <= 240 share bucket 0.                     *)
EXTENDS Integers, Sequences, FiniteSets, TLC, Json

MaxPacket == 1280
ResultLimit == 32
RelayOK(sender, addr) == /\ (addr = "loop" => sender = "loop")
                         /\ (addr = "lan" => sender \in {"lan", "loop"})
BucketIndex(ld) == IF ld <= 240 THEN 0 ELSE ld - 240
SetOf(s) == {s[i] : i \in 1..Len(s)}
ValidDists(ds) == {d \in SetOf(ds) : d >= 0 /\ d <= 256}

\* ---- responder: obs = [dists, decoded, total, enrs, table, asker, self, maxdg] ----
\* enrs[i] = [i (>= 0 table node, -2 local record, -1 unknown), ld, cls, valid]; table[j] = [i, ld, live, cls]
TabNode(tab, i) == tab[CHOOSE j \in 1..Len(tab) : tab[j].i = i]
ResponderOK(o) ==
  LET E == o.enrs  vd == ValidDists(o.dists)
      covered == {BucketIndex(d) : d \in vd \ {0}} IN
  [ onePacket   |-> o.maxdg <= MaxPacket,
    decodes     |-> o.reqvalid => (o.decoded /\ o.total = 1),   \* an over-long distance list may be answered with an empty reply
    atMost32    |-> Len(E) <= ResultLimit,
    noDup       |-> Cardinality({E[k].i : k \in 1..Len(E)}) = Len(E),
    allValid    |-> \A k \in 1..Len(E) : E[k].valid /\ E[k].i # -1,
    selfOnlyForZero |-> \A k \in 1..Len(E) : E[k].i = -2 => 0 \in vd,
    zeroGivesSelf   |-> (vd = {0} /\ RelayOK(o.asker, o.self)) => (Len(E) = 1 /\ E[1].i = -2),
    fromCoveringBuckets |-> \A k \in 1..Len(E) : E[k].i >= 0 =>
                               /\ \E j \in 1..Len(o.table) : o.table[j].i = E[k].i
                               /\ BucketIndex(E[k].ld) \in covered,
    onlyLive    |-> \A k \in 1..Len(E) : E[k].i >= 0 => (\E j \in 1..Len(o.table) : o.table[j].i = E[k].i /\ o.table[j].live),
    relaySafe   |-> \A k \in 1..Len(E) : RelayOK(o.asker, E[k].cls) ]

\* ---- asker: which records of a NODES reply may be used ----
\* rec = [sigok, ld (log distance from the RESPONDER), dup, port, cls, decodable]; requested = set of distances
Usable(rec, requested, responderCls) ==
   /\ rec.decodable /\ rec.sigok /\ rec.ld \in requested /\ ~rec.dup /\ rec.port > 1024 /\ RelayOK(responderCls, rec.cls)
AskerOK(o) ==
  [ keptOnlyUsable |-> \A k \in 1..Len(o.kept) :
                          \E j \in 1..Len(o.recs) : o.recs[j].n = o.kept[k] /\ Usable(o.recs[j], SetOf(o.dists), o.responder),
    keptDistinct   |-> Cardinality(SetOf(o.kept)) = Len(o.kept) ]
===============================================================================
