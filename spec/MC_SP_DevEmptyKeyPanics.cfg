SPECIFICATION Spec
CONSTANTS
  Devs = {"EmptyKeyPanics"}
  AllKeys = FALSE
  AllSmall = FALSE
  Kinds = {"atn", "vref"}
  Emit = FALSE
INVARIANTS Sound NoPanic StoredFinal HonestAccepted EmitCase
CHECK_DEADLOCK FALSE
