-------------------------------- MODULE Gossip --------------------------------
(* Gossip target selection and the radius cache behind it (C20).                              *)
(* State: which table nodes have a known radius (from AddEnr = maximum, or the latest ping /    *)
(* pong of a payload type the network supports), and whether that radius covers the content.    *)
(* GossipCall picks targets among the covered candidates of the 32 table nodes nearest the      *)
(* content id: the four closest plus up to four random others, never the source.  Nodes are     *)
(* numbered by rank of log distance to the content id (ties are modelled by Ld being a          *)
(* non-injective function).  Deviations: "IncludeSource", "UnknownAsMax", "TakeAll".           *)
EXTENDS Integers, Sequences, FiniteSets, TLC

CONSTANTS Nodes, Ld,      \* table nodes and their log distance to the content id
          Window,         \* 32 in the code
          NClose, NFar,   \* 4 and 4
          Devs
Radii == {"unknown", "zero", "max"}
Types == {"supported", "unsupported", "undecodable"}
VARIABLES cache, result, src, calls
vars == <<cache, result, src, calls>>

Covers(n) == cache[n] = "max" \/ (cache[n] = "unknown" /\ "UnknownAsMax" \in Devs)
InWindow(n) == Cardinality({m \in Nodes : Ld[m] < Ld[n]}) < Window
Cands(s) == {n \in Nodes : InWindow(n) /\ Covers(n) /\ (n # s \/ "IncludeSource" \in Devs)}
\* the selection rule of the property, as a predicate on a result set
Allowed(R, s) ==
   LET C == Cands(s) IN
   /\ R \subseteq C
   /\ IF "TakeAll" \in Devs THEN R = C
      ELSE /\ Cardinality(R) = (IF Cardinality(C) <= NClose + NFar THEN Cardinality(C) ELSE NClose + NFar)
           /\ LET out == C \ R IN
              out # {} => Cardinality({r \in R : \A c \in out : Ld[r] <= Ld[c]}) >= NClose

Init == cache = [n \in Nodes |-> "unknown"] /\ result = {} /\ src = 0 /\ calls = 0
Deliver(n, t, r) == /\ calls = 0
                    /\ cache' = IF t = "supported" THEN [cache EXCEPT ![n] = r] ELSE cache
                    /\ UNCHANGED <<result, src, calls>>
AddEnr(n) == calls = 0 /\ cache' = [cache EXCEPT ![n] = "max"] /\ UNCHANGED <<result, src, calls>>
GossipCall(s) == /\ calls < 1 /\ calls' = calls + 1 /\ src' = s
                 /\ \E R \in SUBSET Nodes : Allowed(R, s) /\ result' = R
                 /\ UNCHANGED cache
Next == \/ \E n \in Nodes, t \in Types, r \in {"zero", "max"} : Deliver(n, t, r)
        \/ \E n \in Nodes : AddEnr(n)
        \/ \E s \in Nodes \cup {0} : GossipCall(s)
Spec == Init /\ [][Next]_vars

\* ---- C20 ----
NeverSource   == calls > 0 => src \notin result
OnlyKnown     == calls > 0 => \A r \in result : cache[r] # "unknown"
OnlyCovered   == calls > 0 => \A r \in result : cache[r] = "max"
AtMostEight   == calls > 0 => Cardinality(result) <= NClose + NFar
InsideWindow  == calls > 0 => \A r \in result : InWindow(r)
ClosestFirst  == calls > 0 => LET C == {n \in Nodes : InWindow(n) /\ cache[n] = "max" /\ n # src}  out == C \ result IN
                               out # {} => Cardinality({r \in result : \A c \in out : Ld[r] <= Ld[c]}) >= NClose
===============================================================================
