SPECIFICATION Spec
CONSTANTS
  Net = "beacon"
  Keys = {"k1", "k2"}
  MaxBatch = 2
  MaxBatches = 2
  Devs = {"ContinueAfterReject"}
INVARIANTS RefusalIsError
CHECK_DEADLOCK FALSE
