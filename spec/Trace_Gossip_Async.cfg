SPECIFICATION Spec
CONSTANT Devs = {"AsyncPing"}
INVARIANT Report
POSTCONDITION TraceAccepted
CHECK_DEADLOCK FALSE
