SPECIFICATION Spec
CONSTANT Devs = {}
INVARIANT Report
POSTCONDITION TraceAccepted
CHECK_DEADLOCK FALSE
