SPECIFICATION Spec
CONSTANT Devs = {"RadiusLE"}
INVARIANT Report
POSTCONDITION TraceAccepted
CHECK_DEADLOCK FALSE
