SPECIFICATION Spec
CONSTANTS
  Devs = {"ShortSummariesKey"}
  Emit = FALSE
  Full = FALSE
  Part = "all"
INVARIANTS NoPanic
CHECK_DEADLOCK FALSE
