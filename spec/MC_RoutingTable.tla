-------------------------- MODULE MC_RoutingTable --------------------------
EXTENDS RoutingTable
\* membership slice: four ids share bucket 1, one sits in bucket 2; two public /24s and one LAN address
BkA == [n \in Ids |-> IF n \in {"n1", "n2", "n3", "n4"} THEN 1 ELSE 2]
SubA == [i \in IPs |-> IF i \in {"a1", "a2"} THEN "A" ELSE IF i = "b1" THEN "B" ELSE "L"]
\* liveness slice: one bucket, LAN only
BkL == [n \in Ids |-> 1]
SubL == [i \in IPs |-> "L"]
=============================================================================
