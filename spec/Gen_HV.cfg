SPECIFICATION Spec
CONSTANTS
  N = 3
  Blk <- MCBlk3
  Devs = {"StripWd", "TrustSource", "NilWdPanic", "NumKeyPrefix", "NonCanon", "SlotIndexPanic"}
INVARIANT Emit
CHECK_DEADLOCK FALSE
