SPECIFICATION Spec
CONSTANTS
  OffW = 4
  Devs = {"BareListMin"}
INVARIANT Report
POSTCONDITION TraceAccepted
CHECK_DEADLOCK FALSE
