------------------------------- MODULE Framing -------------------------------
(* Content stream framing of uTP transfers (C15).                                                  *)
(*                                                                                                 *)
(* A uTP content stream is the concatenation, item by item, of an unsigned LEB128 length prefix    *)
(* followed by that many content bytes (portalwire: encodeContents / decodeContents,               *)
(* encodeSingleContent / decodeSingleContent, and for a FINDCONTENT transfer with protocol         *)
(* version 1 exactly one such item, encode/decodeUtpContent).                                      *)
(*                                                                                                 *)
(* The LEB128 geometry is a parameter: a prefix has at most `Groups` bytes, each carrying `Bits`   *)
(* value bits below one continuation flag, and the value must fit `MaxBits` bits.  Real scale:     *)
(* 5 x 7 bits, 32-bit limit.  Exhaustive scale: 3 x 2 bits, 5-bit limit (bytes are 0..7).          *)
(*                                                                                                 *)
(* Two levels:                                                                                     *)
(*   P  (declarative)  IsVarint / IsChunk / Parses: a stream is a framing of a list iff it can be  *)
(*      cut into chunks each of which is a well-formed prefix followed by exactly as many bytes as *)
(*      the prefix says.  No algorithm, no reading direction.                                      *)
(*   I  (algorithmic)  Split: the left-to-right decision procedure with the three rejection causes *)
(*      the property names (truncated prefix, prefix exceeds the remaining bytes, overflow) and    *)
(*      the named deviations `Devs` (realistic wrong variants of the procedure).                   *)
(* MC_Framing.tla checks exhaustively that I without deviations decides P (unique decodability,    *)
(* inverse law, canonical form, classification of every rejected stream) and that every deviation  *)
(* breaks one of these laws.  Trace_Framing.tla uses Split/Expect/Single at real scale as the      *)
(* oracle for what the real helpers did.                                                           *)
(*                                                                                                 *)
(* Representation: a byte string is a sequence of runs <<byte, count>> (run-length form), so that  *)
(* items of 2^21 bytes are a single element.  A plain byte sequence is the special case count = 1  *)
(* (AsRuns).  Only the prefix bytes are ever inspected; contents are skipped by arithmetic.        *)
EXTENDS Integers, Sequences, FiniteSets, TLC

CONSTANTS Bits,      \* value bits per prefix byte (7)
          Groups,    \* maximum number of prefix bytes (5)
          MaxBits,   \* width of the length value (32)
          Devs       \* deviations switched on in the algorithmic level

DevNames == {"WideVarint",      \* prefix decoded with a wider integer: more groups, no limit on the last one
             "NoExceedsCheck",  \* prefix > remaining bytes: take what is there instead of rejecting
             "SingleTrailing",  \* single-item decoder ignores bytes behind the item
             "NarrowPrefix"}    \* encoder truncates the length to two groups
ASSUME Devs \subseteq DevNames

Base     == 2^Bits                      \* continuation flag = Base, value = byte % Base
Cont(b)  == b >= Base
Val(b)   == b % Base
TopShift == Bits * (Groups - 1)
TopLimit == 2^(MaxBits - TopShift)      \* the last group may only carry values below this (16 / 2)
\* TLC integers are 32-bit signed: a last group whose shifted value does not fit 31 bits is reported as
\* Beyond.  Every stream length is itself a TLC integer, so Beyond exceeds any remaining length.
IntBits  == 31
TopRep   == IF TopShift >= IntBits THEN 1 ELSE 2^(IntBits - TopShift)
Beyond   == -1

\* ---------------------------------------------------------------------------------------------
\* run-length byte strings

AsRuns(s) == [i \in 1..Len(s) |-> <<s[i], 1>>]

RECURSIVE TotalFrom(_, _)
TotalFrom(rs, i) == IF i > Len(rs) THEN 0 ELSE rs[i][2] + TotalFrom(rs, i + 1)
Total(rs) == TotalFrom(rs, 1)

RECURSIVE Expand(_)
Expand(rs) == IF rs = <<>> THEN <<>> ELSE [i \in 1..rs[1][2] |-> rs[1][1]] \o Expand(Tail(rs))

\* canonical form: no empty run, neighbouring runs differ
IsCanon(rs) == /\ \A i \in 1..Len(rs) : rs[i][2] >= 1
               /\ \A i \in 1..(Len(rs) - 1) : rs[i][1] # rs[i + 1][1]
RECURSIVE CanonFrom(_, _, _)
CanonFrom(rs, i, acc) ==
  IF i > Len(rs) THEN acc
  ELSE IF rs[i][2] = 0 THEN CanonFrom(rs, i + 1, acc)
  ELSE IF acc # <<>> /\ acc[Len(acc)][1] = rs[i][1]
       THEN CanonFrom(rs, i + 1, [acc EXCEPT ![Len(acc)] = <<@[1], @[2] + rs[i][2]>>])
       ELSE CanonFrom(rs, i + 1, Append(acc, rs[i]))
Canon(rs) == CanonFrom(rs, 1, <<>>)

\* A cursor is (r, o): run index and bytes of that run already consumed; o < rs[r][2], or r = Len(rs) + 1.
Norm(rs, r, o) == IF r <= Len(rs) /\ o >= rs[r][2] THEN [r |-> r + 1, o |-> 0] ELSE [r |-> r, o |-> o]

RECURSIVE Skip(_, _, _, _)
Skip(rs, r, o, n) ==            \* cursor after n more bytes (the caller guarantees they exist)
  IF r > Len(rs) THEN [r |-> r, o |-> 0]
  ELSE LET left == rs[r][2] - o IN
       IF n < left THEN [r |-> r, o |-> o + n] ELSE Skip(rs, r + 1, 0, n - left)

RECURSIVE Take(_, _, _, _)
Take(rs, r, o, n) ==            \* the next n bytes from the cursor, as runs
  IF n = 0 \/ r > Len(rs) THEN <<>>
  ELSE LET left == rs[r][2] - o IN
       IF n <= left THEN << <<rs[r][1], n>> >>
       ELSE << <<rs[r][1], left>> >> \o Take(rs, r + 1, 0, n - left)

\* ---------------------------------------------------------------------------------------------
\* encoder (minimal LEB128) and Join

RECURSIVE Enc(_)
Enc(n) == IF n < Base THEN <<n>> ELSE <<(n % Base) + Base>> \o Enc(n \div Base)

Prefix(n) == IF "NarrowPrefix" \in Devs THEN Enc(n % (Base * Base)) ELSE Enc(n)

RECURSIVE Join(_)
Join(items) ==                  \* items: sequence of run-length byte strings
  IF items = <<>> THEN <<>>
  ELSE AsRuns(Prefix(Total(Head(items)))) \o Head(items) \o Join(Tail(items))

\* ---------------------------------------------------------------------------------------------
\* algorithmic level: the left-to-right decision procedure

GroupsI   == IF "WideVarint" \in Devs THEN Groups + 2 ELSE Groups
TopLimitI == IF "WideVarint" \in Devs THEN Base ELSE TopLimit

\* prefix at the cursor: [st |-> "ok", val, n (prefix bytes), minimal, r, o (cursor behind it)] or
\* [st |-> "truncated" | "overflow"]
RECURSIVE DecVar(_, _, _, _, _)
DecVar(rs, r, o, k, acc) ==
  IF r > Len(rs) THEN [st |-> "truncated"]
  ELSE LET b   == rs[r][1]
           nxt == Norm(rs, r, o + 1) IN
       IF k = GroupsI - 1 /\ (Cont(b) \/ Val(b) >= TopLimitI) THEN [st |-> "overflow"]
       ELSE IF Cont(b) THEN DecVar(rs, nxt.r, nxt.o, k + 1, acc + Val(b) * 2^(Bits * k))
       ELSE [st |-> "ok",
             val |-> IF k = Groups - 1 /\ Val(b) >= TopRep THEN Beyond ELSE acc + Val(b) * 2^(Bits * k),
             n |-> k + 1, minimal |-> (k = 0 \/ Val(b) # 0), r |-> nxt.r, o |-> nxt.o]

Exceeds(val, remaining) == val = Beyond \/ val > remaining

\* [ok |-> TRUE, ext |-> sequence of [off, len, r, o] (content extents, 0-based offset, cursor), minimal]
\* or [ok |-> FALSE, why |-> "truncated" | "overflow" | "exceeds", at |-> offset of the offending prefix]
RECURSIVE SplitFrom(_, _, _, _, _)
SplitFrom(rs, tot, r, o, pos) ==
  IF r > Len(rs) THEN [ok |-> TRUE, ext |-> <<>>, minimal |-> TRUE]
  ELSE LET h == DecVar(rs, r, o, 0, 0) IN
       IF h.st # "ok" THEN [ok |-> FALSE, why |-> h.st, at |-> pos]
       ELSE LET start == pos + h.n IN
            IF Exceeds(h.val, tot - start)
            THEN IF "NoExceedsCheck" \in Devs
                 THEN [ok |-> TRUE, ext |-> <<[off |-> start, len |-> tot - start, r |-> h.r, o |-> h.o]>>, minimal |-> h.minimal]
                 ELSE [ok |-> FALSE, why |-> "exceeds", at |-> pos]
            ELSE LET c    == Skip(rs, h.r, h.o, h.val)
                     rest == SplitFrom(rs, tot, c.r, c.o, start + h.val) IN
                 IF ~rest.ok THEN rest
                 ELSE [ok |-> TRUE, ext |-> <<[off |-> start, len |-> h.val, r |-> h.r, o |-> h.o]>> \o rest.ext,
                       minimal |-> h.minimal /\ rest.minimal]

Split(rs) == LET n == Norm(rs, 1, 0) IN SplitFrom(rs, Total(rs), n.r, n.o, 0)

ItemOf(rs, e) == Take(rs, e.r, e.o, e.len)
Items(rs, sp) == [i \in 1..Len(sp.ext) |-> ItemOf(rs, sp.ext[i])]

\* Three-valued expectation for an arbitrary stream handed to the multi-item decoder:
\*   MustReject  no framing exists (one of the three causes)
\*   MustAccept  the stream is the image under Join of exactly one list, sp.ext
\*   Free        a framing exists but some prefix is padded (non-minimal): the statement is silent
Class(sp) == IF ~sp.ok THEN "MustReject" ELSE IF sp.minimal THEN "MustAccept" ELSE "Free"

\* Single-item stream (FINDCONTENT transfer, version 1): acceptable only if the one prefix covers exactly the rest.
Single(rs) ==
  LET n == Norm(rs, 1, 0)
      h == DecVar(rs, n.r, n.o, 0, 0)
      tot == Total(rs) IN
  IF h.st # "ok" THEN [cls |-> "MustReject", why |-> h.st]
  ELSE IF Exceeds(h.val, tot - h.n) THEN [cls |-> "MustReject", why |-> "exceeds"]
  ELSE IF h.val < tot - h.n /\ "SingleTrailing" \notin Devs THEN [cls |-> "MustReject", why |-> "trailing"]
  ELSE [cls |-> IF h.minimal THEN "MustAccept" ELSE "Free", why |-> "",
        ext |-> [off |-> h.n, len |-> h.val, r |-> h.r, o |-> h.o]]

\* First item and rest, as the single-content decoder returns them (trailing bytes are the caller's business).
First(rs) ==
  LET n == Norm(rs, 1, 0)
      h == DecVar(rs, n.r, n.o, 0, 0)
      tot == Total(rs) IN
  IF h.st # "ok" THEN [cls |-> "MustReject", why |-> h.st]
  ELSE IF Exceeds(h.val, tot - h.n) THEN [cls |-> "MustReject", why |-> "exceeds"]
  ELSE LET c == Skip(rs, h.r, h.o, h.val) IN
       [cls |-> IF h.minimal THEN "MustAccept" ELSE "Free", why |-> "",
        ext |-> [off |-> h.n, len |-> h.val, r |-> h.r, o |-> h.o],
        rest |-> [off |-> h.n + h.val, len |-> tot - h.n - h.val, r |-> c.r, o |-> c.o]]

\* ---------------------------------------------------------------------------------------------
\* property level: what a framing is (plain byte sequences; used at exhaustive scale only)

RECURSIVE VarintValue(_)
VarintValue(v) == IF v = <<>> THEN 0 ELSE Val(Head(v)) + Base * VarintValue(Tail(v))

IsVarint(v) == /\ Len(v) \in 1..Groups
               /\ \A i \in 1..(Len(v) - 1) : Cont(v[i])
               /\ ~Cont(v[Len(v)])
               /\ (Len(v) = Groups => v[Groups] < TopLimit)

IsChunk(c) == \E h \in 1..Len(c) : IsVarint(SubSeq(c, 1, h)) /\ VarintValue(SubSeq(c, 1, h)) = Len(c) - h

Bounds(s, C) == C \cup {0, Len(s)}
ChunksOK(s, C) == \A a \in Bounds(s, C), b \in Bounds(s, C) :
                     (a < b /\ ~\E m \in Bounds(s, C) : a < m /\ m < b) => IsChunk(SubSeq(s, a + 1, b))
\* every way of cutting s into chunks (a set of interior cut positions)
Parses(s) == {C \in SUBSET (1..(Len(s) - 1)) : ChunksOK(s, C)}
===============================================================================
