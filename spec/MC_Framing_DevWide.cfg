SPECIFICATION Spec
CONSTANTS
  Bits = 2
  Groups = 3
  MaxBits = 5
  Devs = {"WideVarint"}
  Mode = "streams"
  MaxLen = 4
  MaxItems = 3
  TripleSet = "small"
INVARIANTS Decides
CHECK_DEADLOCK FALSE
