----------------------------- MODULE Trace_Offer -----------------------------
(* Judge for OFFER observations on a real accepting node (C09).  of.offer = one offer with the  *)
(* facts of every key at that moment (in range by the node's own in-range test, stored, being    *)
(* received from an earlier accepted offer), the slots free before it, the decoded reply and     *)
(* what happened to the transfer; of.late = a transfer completed later.                          *)
(* Conjuncts: oneVerdictPerKey acceptJustified slotObtained noAcceptNoCid deliveredExactly       *)
(* countMismatchDiscarded.  Verdict 0 = accepted (both encodings).                               *)
EXTENDS Integers, Sequences, FiniteSets, TLC, Json, SequencesExt
Trace == ndJsonDeserialize("trace.ndjson")
VARIABLES l, viol
Failed(r) == {f \in DOMAIN r : ~r[f]}
Offer(e) ==
  LET V == e.verdicts  K == e.keys
      AccI == {i \in 1..Len(V) : V[i] = 0} IN
  [ oneVerdictPerKey |-> e.decoded => Len(V) = Len(K),
    acceptJustified  |-> \A i \in AccI : i <= Len(K) =>
                            /\ K[i].inrange /\ ~K[i].stored
                            /\ (e.version = 1 => ~K[i].inflight),
    slotObtained     |-> AccI # {} => e.free > 0,
    noAcceptNoCid    |-> (e.decoded /\ AccI = {}) => e.cid = 0,
    deliveredExactly |-> e.delivered => (e.dkeys = e.accepted /\ e.dequal /\ e.transfer = "correct"),
    countMismatchDiscarded |-> e.transfer \in {"short", "long"} => ~e.delivered ]
Late(e) == [ deliveredExactly |-> e.delivered => (e.dkeys = e.accepted /\ e.dequal) ]
\* of.real = an offer SENT by a real node (production offer path) of which the receiver declined some keys: what reaches the
\* receiver's validation queue is the accepted keys (in range, not stored: expect), in order, each with its own content
Real(e) == [ deliveredExactly |-> e.delivered => (e.dkeys = e.expect /\ e.dequal) ]
Init == l = 1 /\ viol = {}
Next == /\ l <= Len(Trace) /\ l' = l + 1
        /\ LET e == Trace[l] IN
           CASE e.ev = "of.offer" -> viol' = viol \cup {<<l, f>> : f \in Failed(Offer(e))}
             [] e.ev = "of.late" -> viol' = viol \cup {<<l, f>> : f \in Failed(Late(e))}
             [] e.ev = "of.real" -> viol' = viol \cup {<<l, f>> : f \in Failed(Real(e))}
             [] OTHER -> UNCHANGED viol
Spec == Init /\ [][Next]_<<l, viol>>
Done == l = Len(Trace) + 1
Report == Done => PrintT(<<"VIOL", ToJson(viol)>>)
TraceAccepted == TLCGet("stats").diameter = Len(Trace) + 1
===============================================================================
