------------------------------ MODULE MC_Slots ------------------------------
EXTENDS Slots
\* @type: () => Set(Int);
ReqC == 1..6
LimitC == 3
OnceT == TRUE
OnceF == FALSE
\* an arbitrary state satisfying the candidate invariant (Apalache: --init=IndInit)
IndInit == st \in [Req -> {"new", "held", "released", "refused"}] /\ used \in 0..6 /\ Inv
=============================================================================
