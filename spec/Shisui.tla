-------------------------------- MODULE Shisui --------------------------------
(* One portal node as a composition: content store + radius + in-flight set + transfer slots +  *)
(* validation queue + the sub-network's content pipeline                                        *)
(*      offer accepted -> stream received -> validated -> stored -> gossiped                    *)
(* (portalwire.handleOffer / handleOfferedContents, history|state|beacon processContentLoop /   *)
(* validateContents, PortalProtocol.Gossip).  This module is the growth point of the            *)
(* specification beyond the twenty listed properties: it states the cross-module invariants      *)
(* that no single component owns.                                                                *)
(*                                                                                            *)
(* Variable <-> Go field map:                                                                   *)
(*   store     storage.ContentStorage (keys held)          radiusIn   inRange(self, Radius(), id)  *)
(*   inflight  PortalProtocol.transferringKeyCache          inHeld     utpController.inboundLimit   *)
(*   queue     PortalProtocol.contentQueue (capacity QCap)  batches    ContentElement{Node,Keys,..} *)
(*   gossiped  OfferRequestWithNode put on offerQueue       covered    radiusCache + inRange        *)
(* A batch item is a key; whether its content is valid under that key is the environment's      *)
(* choice (Valid), as is which peers cover which key.                                            *)
(* Deviations: "GossipBeforeValidate", "StoreInvalid", "BackToSource", "PartialGossip",         *)
(*             "IgnoreRadiusOnStore", "AcceptOutOfRadius" (admission is checked twice - by the   *)
(*             offer filter and by the store - so only both together break StoredWithinRadius).  *)
EXTENDS Integers, Sequences, FiniteSets, TLC

CONSTANTS Keys, Peers,
          Valid,      \* set of <<peer, key>>: the content that peer offers under that key is valid
          InRadius,   \* keys the node's own radius admits
          Covers,     \* [Peers -> SUBSET Keys]: keys each peer's reported radius covers
          Limit, QCap, Devs
Batches == {b \in [src : Peers, keys : SUBSET Keys] : b.keys # {}}

VARIABLES store,      \* keys held
          origin,     \* [key -> peer whose content is stored] (ghost)
          inflight, inHeld,
          recv,       \* set of batches being received
          queue,      \* sequence of batches awaiting validation
          validating, \* set of batches in the validation pool
          gossiped,   \* set of [batch, to] : offers issued by gossip
          offered     \* batches ever offered (bounds the model)
vars == <<store, origin, inflight, inHeld, recv, queue, validating, gossiped, offered>>

Init == /\ store = {} /\ origin = [k \in Keys |-> 0] /\ inflight = {} /\ inHeld = 0 /\ recv = {} /\ queue = <<>>
        /\ validating = {} /\ gossiped = {} /\ offered = {}

\* handleOffer: accept the keys that are in range, not stored, not in flight; needs a slot
Offer(b) == /\ b \notin offered /\ Cardinality(offered) < 3
            /\ offered' = offered \cup {b}
            /\ LET acc == {k \in b.keys : (k \in InRadius \/ "AcceptOutOfRadius" \in Devs) /\ k \notin store /\ k \notin inflight} IN
               IF acc = {} \/ inHeld >= Limit THEN UNCHANGED <<inflight, inHeld, recv>>
               ELSE /\ inflight' = inflight \cup acc /\ inHeld' = inHeld + 1
                    /\ recv' = recv \cup {[src |-> b.src, keys |-> acc]}
            /\ UNCHANGED <<store, origin, queue, validating, gossiped>>
\* the stream arrives (or not): slot and in-flight marks go back; a complete batch is queued if there is room
Received(b, ok) == /\ b \in recv /\ recv' = recv \ {b}
                   /\ inHeld' = inHeld - 1 /\ inflight' = inflight \ b.keys
                   /\ queue' = IF ok /\ Len(queue) < QCap THEN Append(queue, b) ELSE queue
                   /\ UNCHANGED <<store, origin, validating, gossiped, offered>>
Dequeue == /\ queue # <<>> /\ validating' = validating \cup {Head(queue)} /\ queue' = Tail(queue)
           /\ UNCHANGED <<store, origin, inflight, inHeld, recv, gossiped, offered>>
\* validateContents: items in order; stored ones are skipped; the first invalid item aborts (earlier ones stay
\* stored, nothing is gossiped); valid items are put (the store may refuse for radius); then the whole batch is gossiped
ValidOf(b) == {k \in b.keys : <<b.src, k>> \in Valid}
Process(b) ==
  /\ b \in validating /\ validating' = validating \ {b}
  /\ LET bad == {k \in b.keys : k \notin store /\ <<b.src, k>> \notin Valid}
         \* the code walks the keys in order: any subset of the good keys may have been stored before the first bad one
         allGood == bad = {}
         admit(S) == {k \in S : k \in InRadius \/ "IgnoreRadiusOnStore" \in Devs} IN
     \E done \in SUBSET (b.keys \ store) :
        /\ (allGood => done = b.keys \ store)
        /\ (~allGood => done \subseteq (b.keys \ bad) \/ "StoreInvalid" \in Devs)
        /\ LET put == admit(done) IN
           /\ store' = store \cup put
           /\ origin' = [k \in Keys |-> IF k \in put THEN b.src ELSE origin[k]]
        /\ LET targets == {p \in Peers : (p # b.src \/ "BackToSource" \in Devs) /\ (\E k \in b.keys : k \in Covers[p])} IN
           gossiped' = IF allGood \/ "GossipBeforeValidate" \in Devs
                       THEN gossiped \cup {[batch |-> b, to |-> p] : p \in targets}
                       ELSE gossiped
  /\ UNCHANGED <<inflight, inHeld, recv, queue, offered>>

Next == \/ \E b \in Batches : Offer(b)
        \/ \E b \in recv, ok \in BOOLEAN : Received(b, ok)
        \/ Dequeue
        \/ \E b \in validating : Process(b)
Spec == Init /\ [][Next]_vars

----------------------------------------------------------------------------
\* cross-module invariants
StoredOnlyValidated   == \A k \in store : <<origin[k], k>> \in Valid
StoredWithinRadius    == store \subseteq InRadius
GossipOnlyValidBatch  == \A g \in gossiped : \A k \in g.batch.keys : <<g.batch.src, k>> \in Valid \/ k \in store
NeverBackToSource     == \A g \in gossiped : g.to # g.batch.src
GossipOnlyToCovered   == \A g \in gossiped : \E k \in g.batch.keys : k \in Covers[g.to]
InflightIffReceiving  == inflight = UNION {b.keys : b \in recv}
SlotsMatchReceives    == inHeld = Cardinality(recv) /\ inHeld <= Limit
QueueBounded          == Len(queue) <= QCap
ReceivedWereAccepted  == \A b \in recv : b.keys \subseteq InRadius
===============================================================================
