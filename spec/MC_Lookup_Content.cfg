SPECIFICATION Spec
CONSTANTS
  Peers = {1, 2, 3, 4}
  Self = 0
  Alpha = 2
  K = 3
  TableSeed = {3, 4}
  Holders = {1, 3}
  Devs = {}
VIEW view
INVARIANTS AlphaBound NeverSelf AskedOnce Sorted Distinct QueryBound ContentOK Closest Drained
PROPERTY Terminates
CHECK_DEADLOCK FALSE
