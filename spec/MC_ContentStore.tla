-------------------------- MODULE MC_ContentStore --------------------------
EXTENDS ContentStore
\* five distances whose big-endian and little-endian orders differ
D5 == {[hi |-> 0, lo |-> 1], [hi |-> 0, lo |-> 2], [hi |-> 1, lo |-> 0], [hi |-> 2, lo |-> 1], [hi |-> 1, lo |-> 2]}
D4 == {[hi |-> 0, lo |-> 1], [hi |-> 0, lo |-> 2], [hi |-> 1, lo |-> 0], [hi |-> 2, lo |-> 1]}
D3 == {[hi |-> 0, lo |-> 2], [hi |-> 1, lo |-> 0], [hi |-> 2, lo |-> 1]}
\* ghosts and per-process scratch that no later step reads are hidden from the fingerprint
View == <<db, sizeRec, size, radius, durable, wal, lock, pc, arg, newSize, del, freed, loaded, nput, open,
          [d \in Dists |-> everPut[d]]>>
=============================================================================
