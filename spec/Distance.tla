------------------------------- MODULE Distance -------------------------------
(* The XOR metric of the Portal Network on ids represented as byte sequences.                 *)
(* Ids, distances and radii are sequences of bytes (most significant byte first), so that no  *)
(* 256-bit integer ever reaches TLC.  Big-endian numeric order is lexicographic order on the   *)
(* sequence; little-endian order is lexicographic order on the reversed sequence - exactly     *)
(* the difference between what property C06 demands and what uint256.UnmarshalSSZ computes.    *)
(* Mirrors: enode.LogDist, storage/pebble.xor / inRadius, portalwire.inRange.                 *)
EXTENDS Integers, Sequences, Bitwise

XorSeq(a, b) == [i \in 1..Len(a) |-> a[i] ^^ b[i]]

RECURSIVE LexLessFrom(_, _, _)
LexLessFrom(a, b, i) == IF i > Len(a) THEN FALSE
                        ELSE IF a[i] < b[i] THEN TRUE
                        ELSE IF a[i] > b[i] THEN FALSE
                        ELSE LexLessFrom(a, b, i + 1)

BELess(a, b) == LexLessFrom(a, b, 1)          \* a < b as big-endian numbers
BELeq(a, b)  == ~BELess(b, a)
Rev(a)       == [i \in 1..Len(a) |-> a[Len(a) + 1 - i]]
LELess(a, b) == BELess(Rev(a), Rev(b))        \* a < b when the bytes are read little-endian

MaxSeq(n)  == [i \in 1..n |-> 255]
ZeroSeq(n) == [i \in 1..n |-> 0]

\* number of leading zero bits of a byte
Lz8(x) == IF x >= 128 THEN 0 ELSE IF x >= 64 THEN 1 ELSE IF x >= 32 THEN 2 ELSE IF x >= 16 THEN 3
          ELSE IF x >= 8 THEN 4 ELSE IF x >= 4 THEN 5 ELSE IF x >= 2 THEN 6 ELSE IF x >= 1 THEN 7 ELSE 8

RECURSIVE LzFrom(_, _)
LzFrom(a, i) == IF i > Len(a) THEN 0
                ELSE IF a[i] = 0 THEN 8 + LzFrom(a, i + 1) ELSE Lz8(a[i])

\* enode.LogDist: bit length of a XOR b (0 when equal)
LogDist(a, b) == Len(a) * 8 - LzFrom(XorSeq(a, b), 1)

\* The in-range rule of C06: distance strictly below the radius, both read big-endian.
InRangeBE(node, radius, id) == BELess(XorSeq(node, id), radius)
===============================================================================
