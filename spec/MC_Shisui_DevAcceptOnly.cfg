SPECIFICATION Spec
CONSTANTS
  Keys = {"a", "b", "c"}
  Peers = {1, 2, 3}
  Valid <- ValidA
  InRadius = {"a", "b"}
  Covers <- CoversA
  Limit = 2
  QCap = 1
  Devs = {"AcceptOutOfRadius"}
INVARIANTS StoredWithinRadius
CHECK_DEADLOCK FALSE
