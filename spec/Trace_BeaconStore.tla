-------------------------- MODULE Trace_BeaconStore --------------------------
(* Trace validation of the real beacon.Storage against BeaconStore.tla (I level: the module's own     *)
(* actions are re-used, the trace only supplies their arguments).  Every put event takes the           *)
(* corresponding action of the specification; a put that the store refused (an undecodable content,   *)
(* a malformed key) must be an invalid one and changes nothing.  Every "obs" event is the full         *)
(* projected state as a reader sees it after the operation (every bootstrap id, every update range     *)
(* (s, c), the finality / optimistic update at every slot and the summaries at every epoch of the      *)
(* universe): it is compared with the specification's read operators in the state the actions led to. *)
(* Monitor mode: a mismatch is recorded as <<line, what>> and the replay continues from the            *)
(* specification's state.  Slots and epochs are logged as indices into the harness's increasing table  *)
(* of real values (whose byte patterns distinguish a numeric from a bytewise comparison); periods      *)
(* relative to the run's base period; contents as 31-bit fingerprints.                                  *)
EXTENDS BeaconStore, Json

Trace == ndJsonDeserialize("trace.ndjson")

VARIABLES l, viol
tvars == <<boot, upd, fin, opt, hs, open, nops, l, viol>>

Failed(r) == {f \in DOMAIN r : ~r[f]}
Store == <<boot, upd, fin, opt, hs, open, nops>>

Obs(e) ==
  [ bootstrap  |-> \A i \in 1..Len(e.boot) : e.boot[i] = GetBootstrap(i),
    range      |-> \A j \in 1..Len(e.upd) : e.upd[j].r = GetUpdates(e.upd[j].s, e.upd[j].c),
    finality   |-> \A s \in 1..Len(e.fin) : e.fin[s] = GetFinality(s - 1),
    optimistic |-> \A s \in 1..Len(e.opt) : e.opt[s] = GetOptimistic(s - 1),
    summaries  |-> \A x \in 1..Len(e.hs) : e.hs[x] = GetSummaries(x - 1) ]

PutResult(e) == IF (e.res = "ok") = e.valid THEN {} ELSE {<<l, "putResult">>}

TInit == Init /\ l = 1 /\ viol = {}

TNext ==
  /\ l <= Len(Trace)
  /\ l' = l + 1
  /\ LET e == Trace[l] IN
     CASE e.ev = "init" ->
            /\ boot' = [i \in Ids |-> Absent] /\ upd' = [p \in Periods |-> Absent]
            /\ fin' = NoRec /\ opt' = NoRec /\ hs' = NoHS /\ open' = TRUE /\ nops' = 0
            /\ UNCHANGED viol
       [] e.ev = "putBoot" ->
            /\ viol' = viol \cup PutResult(e)
            /\ IF e.valid THEN PutBootstrap(e.id, e.tag) ELSE UNCHANGED Store
       [] e.ev = "putUpd" ->
            /\ viol' = viol \cup PutResult(e)
            /\ IF e.valid THEN PutUpdates(e.start, e.tags) ELSE UNCHANGED Store
       [] e.ev = "putFin" ->
            /\ viol' = viol \cup PutResult(e)
            /\ IF e.valid THEN PutFinality(e.s, e.tag) ELSE UNCHANGED Store
       [] e.ev = "putOpt" ->
            /\ viol' = viol \cup PutResult(e)
            /\ IF e.valid THEN PutOptimistic(e.s, e.tag) ELSE UNCHANGED Store
       [] e.ev = "putHS" ->
            /\ viol' = viol \cup PutResult(e)
            /\ IF e.valid THEN PutSummaries(e.e, e.tag) ELSE UNCHANGED Store
       [] e.ev = "restart" ->      \* Crash \cdot Reopen
            /\ fin' = NoRec /\ opt' = NoRec /\ UNCHANGED <<boot, upd, hs, open, nops, viol>>
       [] e.ev = "obs" ->
            /\ viol' = viol \cup {<<l, f>> : f \in Failed(Obs(e))}
            /\ UNCHANGED Store
       [] OTHER -> UNCHANGED <<Store, viol>>

TSpec == TInit /\ [][TNext]_tvars
Done == l = Len(Trace) + 1
Report == Done => PrintT(<<"VIOL", ToJson(viol)>>)
TraceAccepted == TLCGet("stats").diameter = Len(Trace) + 1
===============================================================================
