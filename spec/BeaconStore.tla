----------------------------- MODULE BeaconStore -----------------------------
(* Implementation-level (I) specification of beacon.Storage (beacon/storage.go): the beacon     *)
(* network's content store.  Unlike the radius store it keeps five kinds of records with five    *)
(* different replacement rules:                                                                   *)
(*   bootstrap           by content id, overwritten by a later put                               *)
(*   update range        one record per sync-committee period; a put of n updates under start    *)
(*                       period s writes periods s .. s+n-1 (the number of updates in the content *)
(*                       decides, not the count in the key); a get of (s, c) returns the c        *)
(*                       records in order or not-found if ANY is missing (all or nothing)          *)
(*   finality update     one in-memory slot, LAST WRITE WINS (not: newest finalized slot wins);   *)
(*                       a get for finalized slot x answers only when the held slot >= x           *)
(*   optimistic update   the same with the signature slot                                          *)
(*   historical summaries one record [epoch, bytes]; replaced only by a STRICTLY newer epoch;     *)
(*                       a get for epoch e answers only when the held epoch >= e                    *)
(* One action per Put branch; reads are operators (they do not change the state).  Contents are   *)
(* abstract tags (1..NTags; 0 = absent).  Crash / Reopen: bootstrap, updates and summaries are    *)
(* in the database and every batch is committed with Sync (the store's writeOptions field is nil, *)
(* which pebble reads as Sync), so a completed put survives; the two "latest" updates live only   *)
(* in the in-memory cache and are lost by every restart.                                           *)
(* Named deviations (Devs):                                                                        *)
(*   "SummariesAnyEpoch"  a summaries put replaces the record whatever its epoch (>= or older)    *)
(*   "RangePartial"       a range get returns the prefix found instead of not-found               *)
(*   "FinNewestWins"      the ideal rule the code does NOT implement: an older finality update    *)
(*                        does not replace a newer one (used to show FinalityMonotone is violated *)
(*                        by today's last-write-wins rule and holds with it)                       *)
(*   "CountFromKey"       a range put writes key.count records (would index past the content)     *)
EXTENDS Integers, Sequences, FiniteSets, TLC

CONSTANTS Ids,        \* bootstrap content ids
          MaxPeriod,  \* periods 0..MaxPeriod
          MaxSlot,    \* slots 0..MaxSlot
          MaxEpoch,   \* epochs 0..MaxEpoch
          NTags,      \* content tags 1..NTags
          MaxRange,   \* longest update range put / asked
          MaxOps,     \* bound on the number of puts (model checking only)
          WithCrash,  \* explore Crash / Reopen
          Devs

Tags    == 1..NTags
Periods == 0..MaxPeriod
Absent  == 0
NotFound == <<0>>       \* no tag is 0

VARIABLES boot,   \* Ids -> Tags \cup {0}
          upd,    \* Periods -> Tags \cup {0}
          fin,    \* [s |-> slot, t |-> tag]   t = 0: none
          opt,    \* [s |-> slot, t |-> tag]
          hs,     \* [e |-> epoch, t |-> tag]
          open, nops
vars == <<boot, upd, fin, opt, hs, open, nops>>

NoRec == [s |-> 0, t |-> 0]
NoHS  == [e |-> 0, t |-> 0]

Init == /\ boot = [i \in Ids |-> Absent] /\ upd = [p \in Periods |-> Absent]
        /\ fin = NoRec /\ opt = NoRec /\ hs = NoHS
        /\ open = TRUE /\ nops = 0

Count == nops' = nops + 1

PutBootstrap(i, t) ==
   /\ open /\ boot' = [boot EXCEPT ![i] = t] /\ Count
   /\ UNCHANGED <<upd, fin, opt, hs, open>>

\* ts: the updates in the content, in order; start: the key's start period
RangeWritten(start, ts) == {p \in Periods : p >= start /\ p < start + Len(ts)}
PutUpdates(start, ts) ==
   /\ open /\ start + Len(ts) - 1 <= MaxPeriod
   /\ upd' = [p \in Periods |-> IF p \in RangeWritten(start, ts) THEN ts[p - start + 1] ELSE upd[p]]
   /\ Count
   /\ UNCHANGED <<boot, fin, opt, hs, open>>

PutFinality(s, t) ==
   /\ open
   /\ fin' = IF "FinNewestWins" \in Devs /\ fin.t # 0 /\ s < fin.s THEN fin ELSE [s |-> s, t |-> t]
   /\ Count /\ UNCHANGED <<boot, upd, opt, hs, open>>

PutOptimistic(s, t) ==
   /\ open /\ opt' = [s |-> s, t |-> t]
   /\ Count /\ UNCHANGED <<boot, upd, fin, hs, open>>

PutSummaries(e, t) ==
   /\ open
   /\ hs' = IF hs.t = 0 \/ e > hs.e \/ "SummariesAnyEpoch" \in Devs THEN [e |-> e, t |-> t] ELSE hs
   /\ Count /\ UNCHANGED <<boot, upd, fin, opt, open>>

\* ---- reads ----
GetBootstrap(i) == IF boot[i] = Absent THEN NotFound ELSE <<boot[i]>>
\* the records found from period s on, up to c of them, stopping at the first gap (no RECURSIVE operator: TLAPS reads this module)
Prefix(u, s, c) == LET Has(k) == s + k - 1 <= MaxPeriod /\ u[s + k - 1] # Absent
                       n == CHOOSE m \in 0..c : (\A k \in 1..m : Has(k)) /\ (m = c \/ ~Has(m + 1))
                   IN  [k \in 1..n |-> u[s + k - 1]]
GetUpdates(s, c) ==
   LET got == Prefix(upd, s, c) IN
   IF Len(got) = c THEN got
   ELSE IF "RangePartial" \in Devs /\ got # <<>> THEN got ELSE NotFound
GetFinality(s)   == IF fin.t # 0 /\ fin.s >= s THEN <<fin.t>> ELSE NotFound
GetOptimistic(s) == IF opt.t # 0 /\ opt.s >= s THEN <<opt.t>> ELSE NotFound
GetSummaries(e)  == IF hs.t # 0 /\ hs.e >= e THEN <<hs.t>> ELSE NotFound

\* ---- process death and restart ----
Crash == /\ WithCrash /\ open
         /\ fin' = NoRec /\ opt' = NoRec /\ open' = FALSE
         /\ UNCHANGED <<boot, upd, hs, nops>>
Reopen == /\ ~open /\ open' = TRUE /\ UNCHANGED <<boot, upd, fin, opt, hs, nops>>

Next == \/ nops < MaxOps /\
           \/ \E i \in Ids, t \in Tags : PutBootstrap(i, t)
           \/ \E s \in Periods, n \in 1..MaxRange : \E ts \in [1..n -> Tags] : PutUpdates(s, ts)
           \/ \E s \in 0..MaxSlot, t \in Tags : PutFinality(s, t) \/ PutOptimistic(s, t)
           \/ \E e \in 0..MaxEpoch, t \in Tags : PutSummaries(e, t)
        \/ Crash \/ Reopen
Spec == Init /\ [][Next]_vars

----------------------------------------------------------------------------
(* Properties                                                                                  *)
TypeOK == /\ boot \in [Ids -> Tags \cup {0}] /\ upd \in [Periods -> Tags \cup {0}]
          /\ fin.t \in Tags \cup {0} /\ opt.t \in Tags \cup {0} /\ hs.t \in Tags \cup {0}
\* a range answer is exactly the per-period records, in order, and complete
RangeAllOrNothing == \A s \in Periods, c \in 1..MaxRange :
      LET r == GetUpdates(s, c) IN
      r # NotFound => /\ Len(r) = c
                      /\ \A k \in 1..c : s + k - 1 <= MaxPeriod /\ r[k] = upd[s + k - 1] /\ r[k] # Absent
\* an answer is never older than what was asked for
AnswersNotOlder == /\ \A s \in 0..MaxSlot : GetFinality(s) # NotFound => fin.s >= s
                   /\ \A s \in 0..MaxSlot : GetOptimistic(s) # NotFound => opt.s >= s
                   /\ \A e \in 0..MaxEpoch : GetSummaries(e) # NotFound => hs.e >= e
\* the summaries record only moves to a strictly newer epoch (within a run and across restarts of synced state)
SummariesMonotone == [][(open /\ open' /\ hs.t # 0) => (hs' = hs \/ hs'.e > hs.e)]_vars
\* the ideal rule for the finality slot; today's code (last write wins) violates it
FinalityMonotone == [][(open /\ open' /\ fin.t # 0) => fin'.s >= fin.s]_vars
\* restart: the database part is some prefix of what was written, the cache is empty
RestartConsistent == ~open => fin = NoRec /\ opt = NoRec
\* a put never touches another kind of record
Separation == [][/\ (boot' # boot => upd' = upd /\ hs' = hs /\ fin' = fin /\ opt' = opt) \/ ~open \/ ~open'
                 /\ (upd' # upd => boot' = boot /\ hs' = hs /\ fin' = fin /\ opt' = opt) \/ ~open \/ ~open'
                 /\ (hs' # hs => boot' = boot /\ upd' = upd /\ fin' = fin /\ opt' = opt) \/ ~open \/ ~open']_vars
===============================================================================
