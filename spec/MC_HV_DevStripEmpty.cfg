SPECIFICATION Spec
CONSTANTS
  N = 5
  Blk <- MCBlk5
  Devs = {"StripEmptyWd"}
INVARIANT TypeOK
INVARIANT Soundness
CHECK_DEADLOCK FALSE
