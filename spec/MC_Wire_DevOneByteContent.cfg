SPECIFICATION Spec
CONSTANTS
  Devs = {"OneByteContent"}
  Emit = FALSE
  Full = FALSE
  Part = "resp"
INVARIANTS NoPanic
CHECK_DEADLOCK FALSE
