----------------------------- MODULE FindContent -----------------------------
(* FINDCONTENT (C08): what a responder may answer and what the asker ends up with.            *)
(* P level: the reply is Raw(stored bytes) | ConnId followed by a uTP stream that decodes,     *)
(* under the version both sides negotiate, to the stored bytes | Enrs(L) with L drawn from the *)
(* responder's table, in non-decreasing log-distance to the content id, never the asker;       *)
(* every datagram carrying the reply fits one discv5 packet (1280 bytes).                      *)
(* I level: the code's three-way split at MaxPacket - TalkRespOverhead - 2 and the ENR packing *)
(* rule sum(len + 4) <= budget.  The module also spans the scenario space that TLC enumerates  *)
(* for the conformance harness (Gen_FindContent.cfg).                                          *)
EXTENDS Integers, Sequences, FiniteSets, TLC, Json

MaxPacket == 1280
TalkRespOverhead == 103          \* 16 IV + 23 header + 24 auth data + 16 tag + 9 talkresp rlp ... as in portal_protocol.go
InlineBudget == MaxPacket - TalkRespOverhead - 2      \* 1175

\* ---- reference semantics (I level) ----
ReplyKind(stored, size) == IF ~stored THEN "enrs" ELSE IF size <= InlineBudget THEN "raw" ELSE "connid"

\* highest common version; 255 = none
RECURSIVE MaxOf(_)
MaxOf(S) == IF S = {} THEN 255 ELSE LET x == CHOOSE y \in S : TRUE IN
            IF S \ {x} = {} THEN x ELSE (IF x > MaxOf(S \ {x}) THEN x ELSE MaxOf(S \ {x}))
Common(a, b) == MaxOf(a \cap b)

\* ---- P level: is an observed outcome allowed? ----
\* obs: [kind, len, tag, maxdg] ; kind \in {"raw","utp","enrs","err"}
OutcomeOK(stored, slen, stag, obs) ==
   [ kindConsistent |-> IF stored THEN obs.kind \in {"raw", "utp", "err"} ELSE obs.kind \in {"enrs", "err"},
     bytesEqual     |-> obs.kind \in {"raw", "utp"} => (obs.len = slen /\ obs.tag = stag),
     packetFits     |-> obs.maxdg <= MaxPacket ]

\* design-level sanity of the reference: an inline reply always fits, the threshold is tight
InlineFits == \A s \in 0..InlineBudget : s + 2 + TalkRespOverhead <= MaxPacket
===============================================================================
