SPECIFICATION Spec
CONSTANTS
  N = 3
  Blk <- MCBlk3
  Devs = {"StripWd", "TrustSource", "NilWdPanic", "NumKeyPrefix", "NonCanon", "SlotIndexPanic"}
INVARIANT TypeOK
INVARIANT Completeness
CHECK_DEADLOCK FALSE
