SPECIFICATION Spec
CONSTANTS
  N = 5
  Blk <- MCBlk5
  Devs = {"StripWd", "TrustSource", "NilWdPanic", "NumKeyPrefix", "NonCanon", "SlotIndexPanic"}
INVARIANT Emit
CHECK_DEADLOCK FALSE
