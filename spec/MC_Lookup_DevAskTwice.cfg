SPECIFICATION Spec
CONSTANTS
  Peers = {1, 2, 3}
  Self = 0
  Alpha = 2
  K = 3
  TableSeed = {3}
  Holders = {}
  Devs = {"AskTwice"}
VIEW view
INVARIANTS AskedOnce

CHECK_DEADLOCK FALSE
