SPECIFICATION Spec
CONSTANTS
  Devs = {}
  Emit = FALSE
  Full = FALSE
  Part = "seq"
INVARIANTS NoPanic
VIEW SeqView
CHECK_DEADLOCK FALSE
