SPECIFICATION TSpec
CONSTANTS
  Strict = TRUE
  MaxSyncs = 0
  MaxHeight = 0
  Devs = {}
INVARIANT Report
POSTCONDITION TraceAccepted
CHECK_DEADLOCK FALSE
