SPECIFICATION Spec
CONSTANTS
  PeriodLen = 2
  MaxSlot = 4
  Now = 4
  Coms = {"A", "B"}
  Parts = {0, 1, 3, 4}
  N = 6
  Devs = {"OptNoCompare"}
PROPERTIES Monotone
VIEW View
CHECK_DEADLOCK FALSE
