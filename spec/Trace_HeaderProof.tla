-------------------------- MODULE Trace_HeaderProof --------------------------
(* Property-level judge (monitor mode) for C03: one "case" event per evaluation of the real                *)
(* validation.HeaderValidator. The expected outcome is recomputed here from the logged abstract attributes *)
(* with the operators of HeaderProof instantiated with the real constants (era dispatch, position, range): *)
(*   num, slot (-1 = beyond 32 bits, "huge"), lens (sizes of the trusted accumulators held by the          *)
(*   validator), commit (where the presented header's hash is committed: fmt, idx), gen (the commitment    *)
(*   the proof was honestly generated for, and whether for the presented header), intact (proof bytes      *)
(*   equal to that honest proof), out (ok | error | panic).                                                *)
(* Conjuncts (all C03):                                                                                    *)
(*   complete  the honest pair is accepted                                                                 *)
(*   sound     anything else is not accepted                                                               *)
(*   oorError  a position outside the trusted accumulators yields an error - not a panic, not acceptance   *)
(* xcheck is not a property conjunct: for TLC-generated cases the expectation computed in the small world  *)
(* must equal the one computed from the concrete attributes (a mismatch is a defect of the harness).        *)
EXTENDS Integers, Sequences, FiniteSets, TLC, Json

Trace == ndJsonDeserialize("trace.ndjson")
HP == INSTANCE HeaderProof WITH E <- 8192, MergeNum <- 15537394, ShanghaiNum <- 17034870, CancunNum <- 19426587,
                                CapStart <- 6209536, GBell <- 3228, GDeneb <- 6444, Devs <- {}

VARIABLES l, viol
vars == <<l, viol>>
Failed(r) == {f \in DOMAIN r : ~r[f]}

Check(e) ==
  LET a == [num |-> e.num, slot |-> e.slot, lens |-> e.lens, commit |-> e.commit, gen |-> e.gen, intact |-> e.intact]
      exp == HP!ExpectAttr(a)
      inr == HP!InRange(HP!EraOf(e.num), e.num, e.slot, e.lens) IN
  [ complete |-> exp = "ok" => e.out = "ok",
    sound    |-> exp # "ok" => e.out # "ok",
    oorError |-> ~inr => e.out = "error",
    xcheck   |-> e.exp \in {"ok", "reject", "error"} => e.exp = exp ]

Init == l = 1 /\ viol = {}
Next == /\ l <= Len(Trace)
        /\ l' = l + 1
        /\ LET e == Trace[l] IN
           IF e.ev = "case" THEN viol' = viol \cup {<<l, f>> : f \in Failed(Check(e))} ELSE UNCHANGED viol
Spec == Init /\ [][Next]_vars
Done == l = Len(Trace) + 1
Report == Done => PrintT(<<"VIOL", ToJson(viol)>>)
TraceAccepted == TLCGet("stats").diameter = Len(Trace) + 1
===============================================================================
