SPECIFICATION Spec
CONSTANTS
  Nodes = {1, 2, 3, 4, 5, 6}
  Ld <- LdA
  Window = 5
  NClose = 2
  NFar = 1
  Devs = {}
INVARIANTS NeverSource OnlyKnown OnlyCovered AtMostEight InsideWindow ClosestFirst
CHECK_DEADLOCK FALSE
