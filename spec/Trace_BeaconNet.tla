--------------------------- MODULE Trace_BeaconNet ---------------------------
(* Trace validation of the beacon network's intake (beacon.Network.validateContents over the real       *)
(* BeaconValidator and the real beacon.Storage) against BeaconNet.tla, whose actions are re-used; the    *)
(* trace supplies their arguments.  The events are logged by pass-through wrappers at the two            *)
(* interfaces the loop calls through, in the order the loop makes the calls:                             *)
(*   batch     n items handed to validateContents                      -> Receive(n)                     *)
(*   validate  the item's facets and the validator's real verdict      -> ValidateAs(item, verdict), the *)
(*             verdict must be one the specification allows for those facets                             *)
(*   put       the store was called for an item                        -> StoreItem: only for the item   *)
(*             just accepted, and the real store must take it                                            *)
(*   done      validateContents returned                               -> Finish / the batch's error     *)
(*   obs       the full projected state as a reader sees it            -> BeaconStore's read operators   *)
(*   api       the same universe read through the network's own getters (for what the store holds)       *)
(*   restart   the store is closed and reopened                                                          *)
(* Monitor mode: a mismatch is recorded as <<line, what>> and the replay continues from the              *)
(* specification's state (with the pointer variables forced where the real run went another way).        *)
EXTENDS BeaconNet, Json

Trace == ndJsonDeserialize("trace.ndjson")

VARIABLES l, viol
tvars == <<boot, upd, fin, opt, hs, open, nops, left, cur, res, acc, rej, nb, l, viol>>
Ptr == <<left, cur, res, acc, rej, nb>>

Failed(r) == {f \in DOMAIN r : ~r[f]}
Obs(e) ==
  [ bootstrap  |-> \A i \in 1..Len(e.boot) : e.boot[i] = GetBootstrap(i),
    range      |-> \A j \in 1..Len(e.upd) : e.upd[j].r = GetUpdates(e.upd[j].s, e.upd[j].c),
    finality   |-> \A s \in 1..Len(e.fin) : e.fin[s] = GetFinality(s - 1),
    optimistic |-> \A s \in 1..Len(e.opt) : e.opt[s] = GetOptimistic(s - 1),
    summaries  |-> \A x \in 1..Len(e.hs) : e.hs[x] = GetSummaries(x - 1),
    \* the specification's own invariant on the replayed state (what is stored was accepted for that place)
    storedOnlyAccepted |-> StoredOnlyAccepted ]

V(what) == viol' = viol \cup {<<l, what>>}

TInit == NInit /\ l = 1 /\ viol = {}

TNext ==
  /\ l <= Len(Trace)
  /\ l' = l + 1
  /\ LET e == Trace[l] IN
     CASE e.ev = "init" ->
            /\ boot' = [i \in Ids |-> Absent] /\ upd' = [p \in Periods |-> Absent]
            /\ fin' = NoRec /\ opt' = NoRec /\ hs' = NoHS /\ open' = TRUE /\ nops' = 0
            /\ left' = 0 /\ cur' = NoItem /\ res' = "idle" /\ acc' = {} /\ rej' = 0 /\ nb' = 0
            /\ UNCHANGED viol
       [] e.ev = "batch" ->
            IF res # "run" THEN Receive(e.n) /\ UNCHANGED viol
            ELSE V("batchOverlap") /\ left' = e.n /\ cur' = NoItem /\ UNCHANGED <<StoreVars, res, acc, rej, nb>>
       [] e.ev = "validate" ->
            IF res = "run" /\ cur = NoItem /\ left > 0 /\ e.known
              THEN LET v == (e.verdict = "ok") IN
                   IF v \in Allowed(e.item)
                     THEN ValidateAs(e.item, v) /\ UNCHANGED viol
                     ELSE ValidateAs(e.item, Verdict(e.item)) /\ V("verdict")
              ELSE V("validateOutOfTurn") /\ UNCHANGED <<StoreVars, Ptr>>
       [] e.ev = "put" ->
            IF cur # NoItem /\ e.known /\ e.item = cur
              THEN /\ StoreItem
                   /\ viol' = viol \cup (IF e.res = "ok" THEN {} ELSE {<<l, "putResult">>}) \cup (IF e.idok THEN {} ELSE {<<l, "contentId">>})
              ELSE V("putWithoutAccept") /\ UNCHANGED <<StoreVars, Ptr>>
       [] e.ev = "done" ->
            CASE cur # NoItem ->         \* accepted by the specification, never stored by the code
                   /\ V("acceptedNotStored") /\ cur' = NoItem /\ left' = 0 /\ res' = IF e.res = "ok" THEN "ok" ELSE "err"
                   /\ UNCHANGED <<StoreVars, acc, rej, nb>>
              [] cur = NoItem /\ res = "run" /\ left = 0 ->
                   /\ Finish /\ viol' = viol \cup (IF e.res = "ok" THEN {} ELSE {<<l, "batchResult">>})
              [] cur = NoItem /\ res = "run" /\ left > 0 ->      \* the loop stopped before the end without a refusal
                   /\ V("endedEarly") /\ left' = 0 /\ res' = IF e.res = "ok" THEN "ok" ELSE "err"
                   /\ UNCHANGED <<StoreVars, cur, acc, rej, nb>>
              [] OTHER ->                                          \* res = "err": a refusal ended the batch
                   /\ viol' = viol \cup (IF res = "err" /\ e.res = "err" THEN {} ELSE {<<l, "batchResult">>})
                   /\ UNCHANGED <<StoreVars, Ptr>>
       [] e.ev = "restart" ->      \* Crash \cdot Reopen between batches
            /\ fin' = NoRec /\ opt' = NoRec /\ left' = 0 /\ cur' = NoItem /\ res' = "idle"
            /\ UNCHANGED <<boot, upd, hs, open, nops, acc, rej, nb, viol>>
       [] e.ev = "obs" ->
            /\ viol' = viol \cup {<<l, f>> : f \in Failed(Obs(e))}
            /\ UNCHANGED <<StoreVars, Ptr>>
       [] e.ev = "api" ->           \* the network's getters return exactly what the store holds (object encoding = stored bytes less the digest)
            /\ viol' = viol \cup {<<l, f>> : f \in Failed(
                  [ apiBootstrap  |-> e.boot = e.bootBody,
                    apiFinality   |-> e.fin = e.finBody,
                    apiOptimistic |-> e.opt = e.optBody,
                    apiRange      |-> \A j \in 1..Len(e.upd) : e.upd[j].api = e.upd[j].body ])}
            /\ UNCHANGED <<StoreVars, Ptr>>
       [] OTHER -> UNCHANGED <<StoreVars, Ptr, viol>>

TSpec == TInit /\ [][TNext]_tvars
Done == l = Len(Trace) + 1
Report == Done => PrintT(<<"VIOL", ToJson(viol)>>)
TraceAccepted == TLCGet("stats").diameter = Len(Trace) + 1
===============================================================================
