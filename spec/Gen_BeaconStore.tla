--------------------------- MODULE Gen_BeaconStore ---------------------------
(* Behaviour generation for the beacon store (simulate mode): BeaconStore's actions with a history  *)
(* variable recording the environment's choices; one JSON behaviour per run of MaxOps operations.   *)
EXTENDS BeaconStore, Json
VARIABLE hist
gvars == <<boot, upd, fin, opt, hs, open, nops, hist>>
Rec(op, a, ts) == hist' = Append(hist, [op |-> op, a |-> a, ts |-> ts])
GInit == Init /\ hist = <<>>
GNext == /\ nops < MaxOps
         /\ \/ \E i \in Ids, t \in Tags : PutBootstrap(i, t) /\ Rec("boot", i, <<t>>)
            \/ \E s \in Periods, n \in 1..MaxRange : \E ts \in [1..n -> Tags] : PutUpdates(s, ts) /\ Rec("upd", s, ts)
            \/ \E s \in 0..MaxSlot, t \in Tags : PutFinality(s, t) /\ Rec("fin", s, <<t>>)
            \/ \E s \in 0..MaxSlot, t \in Tags : PutOptimistic(s, t) /\ Rec("opt", s, <<t>>)
            \/ \E e \in 0..MaxEpoch, t \in Tags : PutSummaries(e, t) /\ Rec("hs", e, <<t>>)
            \/ /\ open /\ fin' = NoRec /\ opt' = NoRec /\ nops' = nops + 1 /\ Rec("restart", 0, <<>>)
               /\ UNCHANGED <<boot, upd, hs, open>>
GSpec == GInit /\ [][GNext]_gvars
GenDone == nops = MaxOps => PrintT(<<"CASE", ToJson(hist)>>)
===============================================================================
