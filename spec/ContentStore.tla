----------------------------- MODULE ContentStore -----------------------------
(* Implementation-level (I) specification of storage/pebble.ContentStorage.                   *)
(* One action per critical section of the Go code (= one verifGate point in /repo):           *)
(*   PutBegin  Check(put.check)  Add(put.add)  Commit(put.commit)                             *)
(*   Scan(prune.scan)  Load(prune.load)  Store(prune.store)  PCommit(prune.commit)            *)
(* plus Crash (keep any prefix of the unsynced batches) and Open (NewStorage).                *)
(* Distances are two-digit numbers [hi, lo] in base B: BE reads hi*B+lo (the property's       *)
(* reading and pebble's key order), LE reads lo*B+hi (what uint256.UnmarshalSSZ computes).    *)
(* Named deviations (DESIGN 3.3), selected by Devs:                                           *)
(*   "RadiusLE"  radius and admission decode key bytes little-endian (F-C06-1, current code)  *)
(*   "NoPutLock" Put is not serialised (F-C05-1/2/3; the code before the fix: commit)         *)
(*   "SizeKeyRadius" open derives the radius from the size record when no item is left        *)
(*   "SplitBatch" item and size record are written as two separate unsynced batches (seed      *)
(*                C17-1): a crash between them leaves the item without its size update          *)
EXTENDS Integers, Sequences, FiniteSets, TLC

CONSTANTS Dists,    \* set of [hi |-> 0..B-1, lo |-> 0..B-1], never <<0,0>> (= the node id itself)
          B, Cap, Target, Sizes, Procs, Devs,
          MaxPuts,  \* bound on the number of puts started
          WithCrash \* BOOLEAN: explore Crash / Open

NoD == [hi |-> 0, lo |-> 0]                  \* the size record's key; never an item
BE(d) == d.hi * B + d.lo
LE(d) == d.lo * B + d.hi
MaxR  == B * B                                \* above every distance under either reading
Num(d) == IF "RadiusLE" \in Devs THEN LE(d) ELSE BE(d)
Locked == "NoPutLock" \notin Devs

VARIABLES db,       \* Dists -> size (0 = absent): what a reader of the database sees
          sizeRec,  \* persisted usage figure as a reader sees it
          size,     \* in-memory counter (atomic.Uint64)
          radius,   \* in-memory radius, as a number under the store's reading
          durable,  \* [db, rec]: state as of the last synced commit
          wal,      \* sequence of committed but unsynced batches
          lock,     \* holder of the Put mutex or "none"
          pc, arg, newSize, del, freed, loaded,   \* per-process locals
          nput,     \* puts started
          everPut,  \* ghost: Dists -> set of sizes ever put
          open      \* FALSE between Crash and Open
vars == <<db, sizeRec, size, radius, durable, wal, lock, pc, arg, newSize, del, freed, loaded, nput, everPut, open>>

RECURSIVE SumOver(_, _)
SumOver(m, D) == IF D = {} THEN 0 ELSE LET d == CHOOSE x \in D : TRUE IN m[d] + SumOver(m, D \ {d})
Bytes(m) == SumOver(m, Dists)
Present(m) == {d \in Dists : m[d] > 0}
Empty == [d \in Dists |-> 0]

ApplyBatch(st, b) ==
   IF b.kind = "put" THEN [db |-> [st.db EXCEPT ![b.d] = b.s], rec |-> b.rec]
   ELSE [db |-> [d \in Dists |-> IF d \in b.del THEN 0 ELSE st.db[d]], rec |-> b.rec]
RECURSIVE ApplyAll(_, _)
ApplyAll(st, bs) == IF bs = <<>> THEN st ELSE ApplyAll(ApplyBatch(st, Head(bs)), Tail(bs))

Init == /\ db = Empty /\ sizeRec = 0 /\ size = 0 /\ radius = MaxR
        /\ durable = [db |-> Empty, rec |-> 0] /\ wal = <<>> /\ lock = "none"
        /\ pc = [p \in Procs |-> "idle"]
        /\ arg = [p \in Procs |-> [d |-> NoD, s |-> 0]]
        /\ newSize = [p \in Procs |-> 0] /\ del = [p \in Procs |-> {}] /\ freed = [p \in Procs |-> 0]
        /\ loaded = [p \in Procs |-> 0] /\ nput = 0 /\ everPut = [d \in Dists |-> {}] /\ open = TRUE

Goto(p, where) == pc' = [pc EXCEPT ![p] = where]
Unlock(p) == lock' = IF lock = p THEN "none" ELSE lock

PutBegin(p) == /\ open /\ pc[p] = "idle" /\ nput < MaxPuts
               /\ (Locked => lock = "none")
               /\ lock' = IF Locked THEN p ELSE lock
               /\ \E d \in Dists, s \in Sizes :
                     /\ arg' = [arg EXCEPT ![p] = [d |-> d, s |-> s]]
                     /\ everPut' = [everPut EXCEPT ![d] = @ \cup {s}]
               /\ nput' = nput + 1
               /\ Goto(p, "check")
               /\ UNCHANGED <<db, sizeRec, size, radius, durable, wal, newSize, del, freed, loaded, open>>

Check(p) == /\ pc[p] = "check"
            /\ IF radius > Num(arg[p].d)
               THEN Goto(p, "add") /\ UNCHANGED lock
               ELSE Goto(p, "idle") /\ Unlock(p)          \* ErrInsufficientRadius
            /\ UNCHANGED <<db, sizeRec, size, radius, durable, wal, arg, newSize, del, freed, loaded, nput, everPut, open>>

Add(p) == /\ pc[p] = "add"
          /\ size' = size + arg[p].s
          /\ newSize' = [newSize EXCEPT ![p] = size + arg[p].s]
          /\ Goto(p, "commit")
          /\ UNCHANGED <<db, sizeRec, radius, durable, wal, lock, arg, del, freed, loaded, nput, everPut, open>>

\* one atomic, unsynced batch: item + size record
Commit(p) == /\ pc[p] = "commit"
             /\ db' = [db EXCEPT ![arg[p].d] = arg[p].s]
             /\ sizeRec' = newSize[p]
             /\ wal' = IF "SplitBatch" \in Devs
                        THEN wal \o << [kind |-> "put", d |-> arg[p].d, s |-> arg[p].s, rec |-> sizeRec],
                                       [kind |-> "prune", del |-> {}, rec |-> newSize[p]] >>
                        ELSE Append(wal, [kind |-> "put", d |-> arg[p].d, s |-> arg[p].s, rec |-> newSize[p]])
             /\ IF newSize[p] > Cap THEN Goto(p, "scan") /\ UNCHANGED lock
                                    ELSE Goto(p, "idle") /\ Unlock(p)
             /\ UNCHANGED <<size, radius, durable, arg, newSize, del, freed, loaded, nput, everPut, open>>

\* the prune loop: walk keys from the far end (big-endian key order), delete until Target is freed,
\* the first key not deleted becomes the radius
RECURSIVE ScanFrom(_, _, _, _)
ScanFrom(m, rest, D, f) ==
   IF rest = {} THEN [del |-> D, freed |-> f, next |-> NoD]
   ELSE LET far == CHOOSE x \in rest : \A y \in rest : BE(y) <= BE(x) IN
        IF f < Target THEN ScanFrom(m, rest \ {far}, D \cup {far}, f + m[far])
        ELSE [del |-> D, freed |-> f, next |-> far]

Scan(p) == /\ pc[p] = "scan"
           /\ LET r == ScanFrom(db, Present(db), {}, 0) IN
              /\ del' = [del EXCEPT ![p] = r.del]
              /\ freed' = [freed EXCEPT ![p] = r.freed]
              /\ radius' = IF r.next = NoD THEN radius ELSE Num(r.next)
           /\ Goto(p, "load")
           /\ UNCHANGED <<db, sizeRec, size, durable, wal, lock, arg, newSize, loaded, nput, everPut, open>>

Load(p) == /\ pc[p] = "load"
           /\ loaded' = [loaded EXCEPT ![p] = size]
           /\ IF size < freed[p] THEN Goto(p, "idle") /\ Unlock(p)     \* "prune error" return
                                 ELSE Goto(p, "store") /\ UNCHANGED lock
           /\ UNCHANGED <<db, sizeRec, size, radius, durable, wal, arg, newSize, del, freed, nput, everPut, open>>

Store(p) == /\ pc[p] = "store"
            /\ size' = loaded[p] - freed[p]
            /\ Goto(p, "pcommit")
            /\ UNCHANGED <<db, sizeRec, radius, durable, wal, lock, arg, newSize, del, freed, loaded, nput, everPut, open>>

\* the prune batch is committed with Sync: everything before it becomes durable too
PCommit(p) == /\ pc[p] = "pcommit"
              /\ LET b == [kind |-> "prune", del |-> del[p], rec |-> loaded[p] - freed[p]]
                     st == ApplyBatch([db |-> db, rec |-> sizeRec], b) IN
                 /\ db' = st.db /\ sizeRec' = st.rec
                 /\ durable' = st /\ wal' = <<>>
              /\ Goto(p, "idle") /\ Unlock(p)
              /\ UNCHANGED <<size, radius, arg, newSize, del, freed, loaded, nput, everPut, open>>

\* process death: any prefix of the unsynced batches survives
Crash == /\ WithCrash /\ open
         /\ \E j \in 0..Len(wal) :
              LET st == ApplyAll(durable, SubSeq(wal, 1, j)) IN
              /\ db' = st.db /\ sizeRec' = st.rec /\ durable' = st
         /\ wal' = <<>> /\ open' = FALSE /\ lock' = "none"
         /\ pc' = [p \in Procs |-> "idle"]
         /\ UNCHANGED <<size, radius, arg, newSize, del, freed, loaded, nput, everPut>>

\* NewStorage: load the size record, prune when over capacity, derive the radius when > 95 % full
Open == /\ ~open
        /\ LET sz == sizeRec
               r  == ScanFrom(db, Present(db), {}, 0)
               pr == sz > Cap
               sz2 == IF pr /\ sz >= r.freed THEN sz - r.freed ELSE sz
               db2 == IF pr /\ sz >= r.freed THEN [d \in Dists |-> IF d \in r.del THEN 0 ELSE db[d]] ELSE db
               far == IF Present(db2) = {} THEN NoD ELSE CHOOSE x \in Present(db2) : \A y \in Present(db2) : BE(y) <= BE(x)
           IN /\ db' = db2 /\ sizeRec' = sz2 /\ size' = sz2
              /\ durable' = IF pr /\ sz >= r.freed THEN [db |-> db2, rec |-> sz2] ELSE durable
              /\ radius' = IF sz > Cap - Target
                           THEN (IF far = NoD THEN (IF "SizeKeyRadius" \in Devs THEN 0 ELSE MaxR) ELSE Num(far))
                           ELSE MaxR
        /\ open' = TRUE
        /\ UNCHANGED <<wal, lock, pc, arg, newSize, del, freed, loaded, nput, everPut>>

Step(p) == PutBegin(p) \/ Check(p) \/ Add(p) \/ Commit(p) \/ Scan(p) \/ Load(p) \/ Store(p) \/ PCommit(p)
Next == (\E p \in Procs : Step(p)) \/ Crash \/ Open
Spec == Init /\ [][Next]_vars

----------------------------------------------------------------------------
(* Properties (P level).  "At all times" = whenever no call is in progress (DESIGN 2.1).      *)
Quiescent == open /\ \A p \in Procs : pc[p] = "idle"
SmallOnly == \A s \in Sizes : s <= Target
WithinCapacity       == (Quiescent /\ SmallOnly) => Bytes(db) <= Cap                  \* C05
SizeRecOK            == Quiescent => sizeRec >= Bytes(db)                             \* C05
SizeMemOK            == Quiescent => size >= Bytes(db)                                \* C05
DurableNeverUnder    == durable.rec >= Bytes(durable.db)                              \* C05 / C17
RetainedWithinRadius == Quiescent => \A d \in Present(db) : BE(d) <= radius           \* C06 (big-endian reading)
EmptyStoreOpenRadius == (Quiescent /\ Present(db) = {} /\ nput = 0) => radius = MaxR
OnlyPutValues        == \A d \in Dists : db[d] > 0 => db[d] \in everPut[d]            \* C04 / C17
RadiusMonotone       == [][(open /\ open') => radius' <= radius]_vars                 \* C06, within a run
\* C17: whatever prefix survives, the reopened store is consistent
CrashConsistent      == (~open) => /\ sizeRec >= Bytes(db)
                                   /\ \A d \in Dists : db[d] > 0 => db[d] \in everPut[d]
OpenRadiusRule       == [][(~open /\ open') =>
                              /\ (sizeRec <= Cap - Target => radius' = MaxR)
                              /\ (Present(db') = {} => radius' = MaxR)]_vars           \* C17
\* C05: every pruning pass removes a farthest-first prefix that frees Target or everything
PruneFarthest == [][\A p \in Procs : (pc[p] = "pcommit" /\ pc'[p] = "idle" /\ open') =>
                       \A x \in Present(db) \ Present(db'), y \in Present(db') : BE(x) >= BE(y)]_vars
StateBound == size <= 4 * Cap
===============================================================================
