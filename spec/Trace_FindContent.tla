-------------------------- MODULE Trace_FindContent --------------------------
(* Judge for FINDCONTENT observations between two real nodes (C08).  Conjuncts:               *)
(* kindConsistent bytesEqual packetFits enrsFromTable enrsSorted askerExcluded                *)
EXTENDS FindContent, SequencesExt
Trace == ndJsonDeserialize("trace.ndjson")
VARIABLES l, viol
Failed(r) == {f \in DOMAIN r : ~r[f]}
TabIds(e) == {e.table[i].i : i \in 1..Len(e.table)}
Judge(e) ==
  LET base == OutcomeOK(e.stored, e.slen, e.stag, [kind |-> e.kind, len |-> e.len, tag |-> e.tag, maxdg |-> e.maxdg]) IN
  [ kindConsistent |-> e.kind = "noobs" \/ base.kindConsistent,
    bytesEqual     |-> base.bytesEqual,
    packetFits     |-> base.packetFits,
    enrsFromTable  |-> \A i \in 1..Len(e.enrs) : e.enrs[i].valid /\ (e.enrs[i].i >= 0 \/ e.enrs[i].i = -2) /\ e.enrs[i].i \in TabIds(e),
    enrsSorted     |-> \A i \in 1..(Len(e.enrs) - 1) : e.enrs[i].ld <= e.enrs[i + 1].ld,
    askerExcluded  |-> \A i \in 1..Len(e.enrs) : e.enrs[i].i # -2 ]
Init == l = 1 /\ viol = {}
Next == /\ l <= Len(Trace) /\ l' = l + 1
        /\ LET e == Trace[l] IN
           IF e.ev = "findcontent" THEN viol' = viol \cup {<<l, f>> : f \in Failed(Judge(e))} ELSE UNCHANGED viol
Spec == Init /\ [][Next]_<<l, viol>>
Done == l = Len(Trace) + 1
Report == Done => PrintT(<<"VIOL", ToJson(viol)>>)
TraceAccepted == TLCGet("stats").diameter = Len(Trace) + 1
===============================================================================
