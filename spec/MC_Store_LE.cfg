SPECIFICATION Spec
CONSTANTS
  B = 3
  Cap = 3
  Target = 1
  Sizes = {1}
  Procs = {p1}
  Devs = {"RadiusLE"}
  MaxPuts = 7
  WithCrash = FALSE
  Dists <- D5
INVARIANTS RetainedWithinRadius

CONSTRAINT StateBound
CHECK_DEADLOCK FALSE
