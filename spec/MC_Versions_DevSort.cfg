SPECIFICATION Spec
CONSTANTS
  Universe = {0, 1, 2}
  Devs = {"SortsOwnList"}
INVARIANTS AnswerIsNegotiated
CHECK_DEADLOCK FALSE
