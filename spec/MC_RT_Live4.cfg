SPECIFICATION Spec
CONSTANTS
  Ids = {"n1","n2","n3","n4"}
  Bk <- BkL
  Buckets = {1}
  IPs = {"l1"}
  Subnet <- SubL
  LAN = {"l1"}
  Seqs = {1}
  BS = 2
  MR = 1
  BIL = 1
  TIL = 2
  MaxFails = 2
  MinBkt = 1
  MaxGen = 1
  MaxChecks = 3
  Ops = {"add","delete","reval","track"}
  Devs = {}
VIEW view
INVARIANTS SizeBounds Unique RightBucket IPLimits ListConsistent RecConsistent
PROPERTIES NoEvictionByNewcomer FullBucketKeepsEntries RemovalHasCause Succession RecordVersioning EndpointClearsLive
CHECK_DEADLOCK FALSE
