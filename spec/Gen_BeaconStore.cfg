SPECIFICATION GSpec
CONSTANTS
  Ids = {1, 2, 3}
  MaxPeriod = 5
  MaxSlot = 4
  MaxEpoch = 4
  NTags = 3
  MaxRange = 3
  MaxOps = 14
  WithCrash = TRUE
  Devs = {}
INVARIANT GenDone
CHECK_DEADLOCK FALSE
