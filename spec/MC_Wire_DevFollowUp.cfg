SPECIFICATION Spec
CONSTANTS
  Devs = {"FollowUpDeref"}
  Emit = FALSE
  Full = FALSE
  Part = "all"
INVARIANTS NoPanic
CHECK_DEADLOCK FALSE
