----------------------------- MODULE SSZSchemas -----------------------------
(* The SSZ layouts of shisui's wire types as schemas of the reference codec (C14): the portal messages, the three   *)
(* bodies of the CONTENT union, the ping-extension payloads, the history / beacon / state content-key containers and  *)
(* the history and state content containers, with the limits declared in the code (ssz-max / ssz-size tags, ztyp      *)
(* limits) and in the statement: 64 keys per offer, 2048-byte keys and ENRs, 32 ENRs, 256 distances, 1100-byte ping    *)
(* payload, 2-byte connection id.  A name is bound to the real Go type in harness/engines/ssz/ssz.go (table).          *)
(* Bare (non-container) schemas are what the code really writes for that type: portalwire.Content / ConnectionId /     *)
(* Enrs are union bodies, history EphemeralHeaderPayload and PortalReceipts are written as a bare list.                *)
EXTENDS SSZ

Real == [ Ping  |-> C(<<U(8), U(2), BL(1100)>>),
          Pong  |-> C(<<U(8), U(2), BL(1100)>>),
          FindNodes   |-> C(<<FL(256, 2)>>),
          Nodes       |-> C(<<U(1), DL(32, BL(2048))>>),
          FindContent |-> C(<<BL(2048)>>),
          Content     |-> BL(2048),
          ConnectionId|-> B(2),
          Enrs        |-> DL(32, BL(2048)),
          Offer       |-> C(<<DL(64, BL(2048))>>),
          Accept      |-> C(<<B(2), BIT(64)>>),
          AcceptV1    |-> C(<<B(2), FL(64, 1)>>),
          ClientInfo  |-> C(<<BL(200), B(32), FL(400, 2)>>),
          Capabilities|-> FL(400, 2),
          BasicRadius |-> C(<<B(32)>>),
          HistoryRadius |-> C(<<B(32), U(2)>>),
          ErrorPayload  |-> C(<<U(2), BL(300)>>),
          HistFindEphemeralKey  |-> C(<<B(32), U(1)>>),
          HistOfferEphemeralKey |-> C(<<B(32)>>),
          BeaconUpdateKey     |-> C(<<U(8), U(8)>>),
          BeaconBootstrapKey  |-> C(<<B(32)>>),
          BeaconFinalityKey   |-> C(<<U(8)>>),
          BeaconOptimisticKey |-> C(<<U(8)>>),
          BeaconSummariesKey  |-> C(<<U(8)>>),
          StateAccountKey  |-> C(<<NIB(64), B(32)>>),
          StateStorageKey  |-> C(<<B(32), NIB(64), B(32)>>),
          StateBytecodeKey |-> C(<<B(32), B(32)>>),
          HistHeaderWithProof  |-> C(<<BL(8192), BL(1024)>>),
          HistHeaderWithProof2 |-> C(<<BL(8192), BL(1024)>>),
          HistProofAccumulator |-> C(<<BV(480, 32)>>),
          HistProofRoots       |-> C(<<BV(448, 32), B(32), BV(352, 32), U(8)>>),
          HistProofCapella     |-> C(<<BV(416, 32), B(32), BV(352, 32), U(8)>>),
          HistProofDeneb       |-> C(<<BV(416, 32), B(32), BV(384, 32), U(8)>>),
          HistEphemeralPayload |-> DL(256, BL(2048)),
          HistOfferEphemeral   |-> C(<<BL(2048)>>),
          HistHeaderRecord     |-> C(<<B(32), B(32)>>),
          HistEpochAccumulator |-> C(<<BV(524288, 64)>>),
          HistBodyLegacy       |-> C(<<DL(16384, BL(16777216)), BL(131072)>>),
          HistBodyShanghai     |-> C(<<DL(16384, BL(16777216)), BL(131072), DL(16, BL(192))>>),
          HistReceipts         |-> DL(16384, BL(134217728)),
          HistSSZProof         |-> C(<<B(32), FL(65536, 32)>>),
          HistMasterAccumulator|-> C(<<FL(1897, 32)>>),
          StateTrieNode     |-> C(<<BL(1024)>>),
          StateTrieProof    |-> DL(65, BL(1024)),
          StateBytecode     |-> C(<<BL(32768)>>),
          StateAccountProof |-> C(<<DL(65, BL(1024)), B(32)>>),
          StateStorageProof |-> C(<<DL(65, BL(1024)), DL(65, BL(1024)), B(32)>>),
          StateBytecodeProof|-> C(<<BL(32768), DL(65, BL(1024)), B(32)>>) ]

===============================================================================
