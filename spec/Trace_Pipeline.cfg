SPECIFICATION Spec
INVARIANT Report
POSTCONDITION TraceAccepted
CHECK_DEADLOCK FALSE
