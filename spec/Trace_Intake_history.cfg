SPECIFICATION TSpec
CONSTANTS
  Net = "history"
  Keys = {1, 2, 3, 4, 5, 6}
  MaxBatch = 4
  MaxBatches = 0
  Devs = {}
INVARIANT Report
POSTCONDITION TraceAccepted
CHECK_DEADLOCK FALSE
