---------------------------- MODULE Trace_History ----------------------------
(* Property-level judge (monitor mode) for traces of the real history content validation (C02). *)
(* Every "eval" event carries the views of HistoryRules recomputed by the harness from the      *)
(* concrete (key, content, header source) with its own strict decoders, and what the code did:  *)
(*   out      "accept" | "reject" | "panic"     (ValidateContent / validateContents / a getter)  *)
(*   stored   the recording store received a Put during the call                                 *)
(*   returned a getter handed the content back to its caller                                     *)
(* Conjuncts (all C02):                                                                          *)
(*   sound     out = accept  => Bound(key, content)                                              *)
(*   stored    stored        => Bound(key, content)      (StoredOnlyIfAccepted)                  *)
(*   returned  returned      => Bound(key, content)                                              *)
(*   noPanic   out # panic                                                                       *)
(* Nothing else is flagged: a rejection is always allowed (rejected genuine vectors are counted *)
(* by the check's vacuity guard, they are not violations of C02).                               *)
(* For every failing conjunct the judge also reports which listed deviations of the coded       *)
(* procedure (HistoryRules!DevsToday) explain the observed outcome - the smallest sets D with    *)
(* Outcome(.., D) = out - so that the check can tell listed findings from anything new, and      *)
(* "drift" where the I-level prediction (DevsToday) differs from the observation without any     *)
(* conjunct failing (never a verdict).  It finally counts the events per class                   *)
(* layer|key type|bound|outcome|intended bound of the abstract case (COV record) for the check's  *)
(* vacuity guard and coverage accounting.                                                        *)
EXTENDS HistoryRules, Sequences, TLC, Json

Trace == ndJsonDeserialize("trace.ndjson")

\* nviol counts the reported records: they are printed as they are found (<<"V", json>> lines), not accumulated in the state
VARIABLES l, nviol, cov
vars == <<l, nviol, cov>>

P(e) ==
  LET b == Bound(e.k, e.c) IN
  [ sound    |-> e.out = "accept" => b,
    stored   |-> e.stored => b,
    returned |-> e.returned => b,
    noPanic  |-> e.out # "panic" ]

Failed(r) == {f \in DOMAIN r : ~r[f]}

\* what the code is modelled to do with the deviations listed today (I level; never used for a verdict)
Pred(e) == Outcome(e.k, e.c, e.s, DevsToday)

\* outcome to be explained for a failing conjunct: a store / return without acceptance is explained by nothing
Why(e, f) ==
  IF f \in {"stored", "returned"} /\ e.out # "accept" THEN {}
  ELSE Explaining(e.k, e.c, e.s, e.out, DevsToday)

B2S(b) == IF b THEN "T" ELSE "F"
Class(e) == e.layer \o "|" \o e.k.t \o "|" \o B2S(Bound(e.k, e.c)) \o "|" \o e.out \o "|" \o e.ib
Bump(f, k) == IF k \in DOMAIN f THEN [f EXCEPT ![k] = @ + 1] ELSE f @@ (k :> 1)

Say(S) == \A x \in S : PrintT(<<"V", ToJson(x)>>)

Init == l = 1 /\ nviol = 0 /\ cov = <<>>

Next ==
  /\ l <= Len(Trace)
  /\ l' = l + 1
  /\ LET e == Trace[l] IN
     IF e.ev = "eval"
     THEN LET fs  == Failed(P(e))
              new == {<<l, f, Why(e, f)>> : f \in fs}
                       \cup (IF fs = {} /\ Pred(e) # e.out THEN {<<l, "drift", {{Pred(e)}}>>} ELSE {}) IN
          /\ cov' = Bump(cov, Class(e))
          /\ nviol' = nviol + Cardinality(new)
          /\ Say(new)
     ELSE UNCHANGED <<nviol, cov>>

Spec == Init /\ [][Next]_vars
Done == l = Len(Trace) + 1
Report == Done => (PrintT(<<"COV", ToJson(cov)>>) /\ PrintT(<<"VIOL", ToJson(<<nviol>>)>>))
TraceAccepted == TLCGet("stats").diameter = Len(Trace) + 1
===============================================================================
