SPECIFICATION Spec
CONSTANTS
  Devs = {"EmptyProofPutPanics"}
  AllKeys = FALSE
  AllSmall = FALSE
  Kinds = {"atn"}
  Emit = FALSE
INVARIANTS Sound NoPanic StoredFinal HonestAccepted EmitCase
CHECK_DEADLOCK FALSE
