SPECIFICATION Spec
CONSTANTS
  Net = "state"
  Keys = {"k1", "k2"}
  MaxBatch = 2
  MaxBatches = 2
  Devs = {"PutBeforeValidate"}
INVARIANTS StoredOnlyValidated
CHECK_DEADLOCK FALSE
