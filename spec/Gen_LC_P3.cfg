SPECIFICATION GenSpec
CONSTANTS
  PeriodLen = 3
  MaxSlot = 7
  Now = 7
  Coms = {"A", "B", "C"}
  Parts = {0, 1, 3, 4, 6}
  N = 6
  Devs = {}
  SeqLen = 14
  Sample = 2500
INVARIANT Emit
CHECK_DEADLOCK FALSE
