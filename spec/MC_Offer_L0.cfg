SPECIFICATION Spec
CONSTANTS
  Keys = {"a", "b", "c"}
  InRangeK = {"a", "b"}
  Limit = 0
  Offers = {"o1", "o2", "o3"}
  OfferKeys <- OK1
  OfferVer <- OV1
  OutReqs = {"r1", "r2", "r3"}
  QueueCap = 1
  Devs = {}
INVARIANTS OneVerdictPerKey AcceptJustified ConnIdIffAccepted NoDoubleReceive DeliveredExactly HeldWithinLimit TransfersWithinLimit AllReturnedWhenQuiet AllReturnedAfterStop
CHECK_DEADLOCK FALSE
