SPECIFICATION Spec
CONSTANTS
  Peers = {1, 2, 3}
  Self = 0
  Alpha = 2
  K = 3
  TableSeed = {2, 3}
  Holders = {}
  Devs = {"DrainGivesUp"}
VIEW view
INVARIANT Drained
CHECK_DEADLOCK FALSE
