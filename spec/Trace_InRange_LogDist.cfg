SPECIFICATION Spec
CONSTANT Devs = {"InRangeLogDist"}
INVARIANT Report
POSTCONDITION TraceAccepted
CHECK_DEADLOCK FALSE
