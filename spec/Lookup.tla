------------------------------- MODULE Lookup -------------------------------
(* Implementation-level specification of portalwire/lookup.go (the iterative Kademlia lookup)  *)
(* and of ContentLookup / contentLookupWorker built on it.  Actions mirror the code: Seed and   *)
(* StartQueries are the two halves of startQueries(), Reply is a query goroutine delivering     *)
(* into replyCh (any outstanding query may complete next, with ANY answer: subsets of all ids   *)
(* including the local node, duplicates, cycles, nothing), Consume is advance() taking one      *)
(* reply, Cancel / Drain are context cancellation and shutdown().  In the content variant a     *)
(* reply may carry content: the first such reply wins (CAS) and cancels the lookup.             *)
(* Deviations (regression mutants): "AskTwice" (asked not recorded), "NoSelfMark" (local node   *)
(* not pre-marked as asked), "AlphaPlus" (one query too many), "NoSeenFilter", "DrainMiscount", "DrainGivesUp"  *)
(* (seed C10-3: advance() folds every reply already waiting in the channel into one wake-up but *)
(* counts one finished query - the in-flight counter stays too high and the lookup never ends). *)
EXTENDS Integers, Sequences, FiniteSets, TLC, Json

CONSTANTS Peers,      \* peer ids (naturals); distance to target = the id itself (smaller = closer)
          Self,       \* the local node's id (may appear in answers)
          Alpha, K,   \* concurrency (3), result size (16)
          TableSeed,  \* nodes the local table returns first
          Holders,    \* content variant: peers that answer with content (empty set = node lookup)
          Devs

Ids == Peers \cup {Self}
VARIABLES asked, seen, result, inflight, replyCh, queries, started, cancelled, phase, qlog, winner, supplied, hist
vars == <<asked, seen, result, inflight, replyCh, queries, started, cancelled, phase, qlog, winner, supplied, hist>>
view == <<asked, seen, result, inflight, replyCh, queries, started, cancelled, phase, winner, supplied, {x \in UNION {qlog[i] : i \in 1..Len(qlog)} : \E i, j \in 1..Len(qlog) : i # j /\ x \in qlog[i] /\ x \in qlog[j]}>>

\* result is a sequence sorted by distance (= id), at most K long
RECURSIVE Insert(_, _)
Insert(s, n) == IF s = <<>> THEN <<n>>
                ELSE IF n < Head(s) THEN <<n>> \o s ELSE <<Head(s)>> \o Insert(Tail(s), n)
Push(s, n) == LET t == Insert(s, n) IN IF Len(t) > K THEN SubSeq(t, 1, K) ELSE t
RECURSIVE PushAll(_, _)
PushAll(s, ns) == IF ns = {} THEN s ELSE LET n == CHOOSE x \in ns : \A y \in ns : x <= y IN PushAll(Push(s, n), ns \ {n})

AlphaEff == IF "AlphaPlus" \in Devs THEN Alpha + 1 ELSE Alpha
Init == /\ asked = (IF "NoSelfMark" \in Devs THEN {} ELSE {Self}) /\ seen = {} /\ result = <<>> /\ inflight = {} /\ replyCh = <<>>
        /\ queries = -1 /\ started = FALSE /\ cancelled = FALSE /\ phase = "run" /\ qlog = <<>>
        /\ winner = 0 /\ supplied = {} /\ hist = <<>>

\* startQueries, first call: local table answer goes through the reply channel
Seed == /\ phase = "run" /\ queries = -1
        /\ queries' = 1 /\ replyCh' = Append(replyCh, TableSeed) /\ started' = TRUE
        /\ UNCHANGED <<asked, seen, result, inflight, cancelled, phase, qlog, winner, supplied, hist>>

\* startQueries, later calls: ask closest unasked while queries < Alpha   (one atomic step of the lookup goroutine)
RECURSIVE Pick(_, _, _, _)
Pick(res, i, a, q) == IF i > Len(res) \/ q >= AlphaEff THEN [a |-> a, q |-> q, new |-> {}]
                      ELSE IF res[i] \notin a
                           THEN LET r == Pick(res, i + 1, (IF "AskTwice" \in Devs THEN a ELSE a \cup {res[i]}), q + 1) IN [a |-> r.a, q |-> r.q, new |-> r.new \cup {res[i]}]
                           ELSE Pick(res, i + 1, a, q)
StartQueries == /\ phase = "run" /\ queries >= 0 /\ ~started
                /\ LET r == Pick(result, 1, asked, queries) IN
                   /\ asked' = r.a /\ queries' = r.q /\ inflight' = inflight \cup r.new
                   /\ qlog' = qlog \o <<r.new>>
                   /\ started' = TRUE
                   /\ phase' = IF r.q > 0 THEN "run" ELSE "done"
                /\ UNCHANGED <<seen, result, replyCh, cancelled, winner, supplied, hist>>

\* a peer's query function returns: any subset of ids (adversarial), delivered to the channel
Reply(p) == /\ p \in inflight
            /\ inflight' = inflight \ {p}
            /\ IF p \in Holders
               THEN \* contentLookupWorker: content found; the first one wins (CAS) and cancels the context
                    /\ replyCh' = Append(replyCh, {})
                    /\ hist' = Append(hist, [ev |-> "reply", p |-> p, ans |-> {}, content |-> TRUE])
                    /\ supplied' = supplied \cup {p}
                    /\ winner' = IF winner = 0 THEN p ELSE winner
                    /\ cancelled' = TRUE
               ELSE /\ \E ans \in SUBSET Ids :
                          /\ replyCh' = Append(replyCh, ans)
                          /\ hist' = Append(hist, [ev |-> "reply", p |-> p, ans |-> ans, content |-> FALSE])
                    /\ UNCHANGED <<winner, supplied, cancelled>>
            /\ UNCHANGED <<asked, seen, result, queries, started, phase, qlog>>

\* lookup goroutine consumes one reply
Consume == /\ phase = "run" /\ replyCh # <<>> /\ queries >= 0 /\ started
           /\ LET batch == IF "DrainMiscount" \in Devs THEN UNION {replyCh[i] : i \in 1..Len(replyCh)} ELSE Head(replyCh)
                  ns == IF "NoSeenFilter" \in Devs THEN batch ELSE batch \ seen IN
              /\ seen' = seen \cup ns /\ result' = PushAll(result, ns)
           /\ replyCh' = (IF "DrainMiscount" \in Devs THEN <<>> ELSE Tail(replyCh)) /\ queries' = queries - 1 /\ started' = FALSE
           /\ hist' = Append(hist, [ev |-> "consume", p |-> 0, ans |-> {}, content |-> FALSE])
           /\ UNCHANGED <<asked, inflight, cancelled, phase, qlog, winner, supplied>>

\* cancellation: shutdown drains outstanding replies
\* the select in advance() may take the cancellation branch whenever the context is cancelled - by the caller
\* at any moment (node lookup) or by a content reply
Cancel == /\ phase = "run" /\ queries >= 0 /\ started /\ (Holders = {} \/ cancelled)
          /\ cancelled' = TRUE /\ phase' = "drain"
          /\ hist' = (IF Holders = {} THEN Append(hist, [ev |-> "cancel", p |-> 0, ans |-> {}, content |-> FALSE]) ELSE hist)
          /\ UNCHANGED <<asked, seen, result, inflight, replyCh, queries, started, qlog, winner, supplied>>
Drain == /\ phase = "drain"
         /\ \/ /\ queries > 0 /\ replyCh # <<>> /\ replyCh' = Tail(replyCh) /\ queries' = queries - 1 /\ phase' = "drain"
            \/ /\ queries = 0 \/ "DrainGivesUp" \in Devs     \* deviation: shutdown stops waiting for a slow query
               /\ phase' = "done" /\ UNCHANGED <<replyCh, queries>>
         /\ UNCHANGED <<asked, seen, result, inflight, started, cancelled, qlog, winner, supplied, hist>>

\* the code waits in select when a query is outstanding and no reply is there: modelled by StartQueries being
\* disabled until the next Consume (started flag)
Next == Seed \/ StartQueries \/ (\E p \in Peers : Reply(p)) \/ Consume \/ Cancel \/ Drain
Spec == Init /\ [][Next]_vars /\ WF_vars(Seed \/ StartQueries \/ Consume \/ Drain) /\ \A p \in Peers : WF_vars(Reply(p))

\* ---- properties ----
AlphaBound == Cardinality(inflight) <= Alpha
NeverSelf  == Self \notin inflight
AskedOnce  == \A i, j \in 1..Len(qlog) : i # j => qlog[i] \cap qlog[j] = {}
Sorted     == \A i \in 1..Len(result) - 1 : result[i] < result[i + 1]
Distinct   == \A i, j \in 1..Len(result) : i # j => result[i] # result[j]
QueryBound == Cardinality(UNION {qlog[i] : i \in 1..Len(qlog)}) <= Cardinality(Peers)
ContentOK  == phase = "done" => (IF supplied = {} THEN winner = 0 ELSE winner \in supplied)
Closest    == (phase = "done" /\ ~cancelled) => \A n \in seen : (\E i \in 1..Len(result) : result[i] = n) \/ (Len(result) = K /\ n > result[K])
\* the call returns only when no query is out any more (a straggler would write to a closed channel / a finished lookup)
Drained    == phase = "done" => queries = 0
Terminates == <>(phase = "done")
\* generation (simulate mode): one JSON behaviour per finished lookup - the environment's choices only
GenDone == phase = "done" => PrintT(<<"CASE", ToJson([peers |-> Cardinality(Peers), seed |-> TableSeed, holders |-> Holders, hist |-> hist,
                                                      asked |-> qlog, result |-> result])>>)
===============================================================================
