SPECIFICATION Spec
CONSTANTS
  Keys = {"a", "b", "c", "d"}
  InRangeK = {"a", "b", "c", "d"}
  Limit = 3
  Offers = {"o1", "o2", "o3"}
  OfferKeys <- OK2
  OfferVer <- OV2
  OutReqs = {}
  QueueCap = 1
  Devs = {}
INVARIANTS NoDoubleReceive
CHECK_DEADLOCK FALSE
