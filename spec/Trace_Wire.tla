----------------------------- MODULE Trace_Wire -----------------------------
(* Property-level judge (monitor mode) for traces of the wire engine (C01).                        *)
(* Every "eval" event is one handling call of the real code on one delivered byte string:           *)
(*   c    the abstract shape of the case (spec/Wire.tla)        mut  seeded mutation applied on top   *)
(*   f    facts read off the bytes actually delivered (Wire!Facts for the recorded input)           *)
(*   out  reply | empty | ok | error | panic | wedge            (slow / noresp / skip: no observation) *)
(*   rdec a reply decodes as the response type it claims and that type answers the request code      *)
(* Conjuncts (all C01):                                                                             *)
(*   noPanic          out # panic                                                                   *)
(*   returns          out # wedge   (the harness's watchdog: blocked in a bare channel / lock        *)
(*                                   operation, twice in the same frame - never mere slowness)      *)
(*   replyWellFormed  out = reply => rdec                                                           *)
(* With Devs # {} the judge additionally says which panics the listed deviations of today's code     *)
(* explain (Wire!PanicsToday on the event's facts): VIOLK holds what is left.  The check then also   *)
(* requires the panic's site signature to match the finding.  DRIFT lists events whose outcome class *)
(* differs from the reference dispatcher's expectation (I level; a note, never a verdict).           *)
EXTENDS Wire

CONSTANT Devs

Trace == ndJsonDeserialize("trace.ndjson")

VARIABLES l, viol, violK, drift, cov
vars == <<l, viol, violK, drift, cov>>

NoObs(e) == e.out \in {"slow", "noresp", "skip"}

Judge(e, D) ==
  [ noPanic         |-> e.out # "panic" \/ (D # {} /\ PanicsToday(e.f, D)),
    returns         |-> e.out # "wedge",
    replyWellFormed |-> e.out = "reply" => e.rdec ]

Failed(r) == {x \in DOMAIN r : ~r[x]}

Drifts(e) == /\ e.mut = "none" /\ e.mode \in {"direct", "e2e"} /\ ~NoObs(e) /\ e.out # "panic"
             /\ LET x == Expect(e.c) IN x # "any" /\ x # e.out

Bump(f, k) == IF k \in DOMAIN f THEN [f EXCEPT ![k] = @ + 1] ELSE f @@ (k :> 1)
Class(e) == e.c.ch \o "|" \o e.mode \o "|" \o e.out

Init == l = 1 /\ viol = {} /\ violK = {} /\ drift = {} /\ cov = <<>>

Next ==
  /\ l <= Len(Trace)
  /\ l' = l + 1
  /\ LET e == Trace[l] IN
     IF e.ev = "eval"
     THEN LET bad == Failed(Judge(e, {})) IN
          /\ viol' = viol \cup {<<l, x>> : x \in bad}
          /\ violK' = IF bad = {} \/ Devs = {} THEN violK \cup {<<l, x>> : x \in bad}
                      ELSE violK \cup {<<l, x>> : x \in Failed(Judge(e, Devs))}
          /\ drift' = IF Drifts(e) /\ Cardinality(drift) < 60 THEN drift \cup {l} ELSE drift
          /\ cov' = Bump(cov, Class(e))
     ELSE UNCHANGED <<viol, violK, drift, cov>>

Spec == Init /\ [][Next]_vars
Done == l = Len(Trace) + 1
Report == Done => /\ PrintT(<<"COV", ToJson(cov)>>) /\ PrintT(<<"VIOLK", ToJson(violK)>>)
                  /\ PrintT(<<"DRIFT", ToJson(drift)>>) /\ PrintT(<<"VIOL", ToJson(viol)>>)
TraceAccepted == TLCGet("stats").diameter = Len(Trace) + 1
=============================================================================
