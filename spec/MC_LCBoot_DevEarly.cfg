SPECIFICATION Spec
CONSTANTS
  Strict = TRUE
  MaxSyncs = 3
  MaxHeight = 2
  Devs = {"StoreBeforeChecks"}
PROPERTIES FailedKeeps
CHECK_DEADLOCK FALSE
