SPECIFICATION Spec
CONSTANTS
  Bits = 7
  Groups = 5
  MaxBits = 32
  Devs = {}
INVARIANT Report
POSTCONDITION TraceAccepted
CHECK_DEADLOCK FALSE
