SPECIFICATION Spec
CONSTANTS
  Devs = {"EmptyTalkReq", "OneByteContent", "EmptyKey", "ShortSummariesKey", "NilGetter", "ZeroLenUpdate"}
  Emit = TRUE
  Full = FALSE
  Part = "seq"
INVARIANTS EmitSeq
CHECK_DEADLOCK FALSE
