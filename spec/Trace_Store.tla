----------------------------- MODULE Trace_Store -----------------------------
(* Property-level judge (monitor mode) for traces recorded from the real                      *)
(* storage/pebble.ContentStorage: sequential histories, clean reopen, buffer recycling,        *)
(* concurrent bursts judged at quiescent points, and crash / reopen experiments.               *)
(*                                                                                           *)
(* The abstract store is a set of records [k, len, tag]: k = XOR distance (32 bytes), len =   *)
(* key + value bytes (what the code counts), tag = fingerprint of the value.  Every event     *)
(* carries the full projected state (key scan, persisted size record, Radius()), so the judge *)
(* never searches: each event is evaluated against the weakest transition relation that still *)
(* implies C04 / C05 / C06 / C17 and the names of the false conjuncts are collected in viol.   *)
(* Conjunct ownership:  C04 intact subset unchanged stable fromPut growth                      *)
(*                      C05 farthest frees sizeRec capacity noerr                              *)
(*                      C06 within monotone justified                                          *)
(*                      C17 openOK openFromPut openSizeRec openSubset openFarthest openPrune   *)
(*                          openRadius (+ intact / sizeRec after a crash-reopen)               *)
(* Devs selects named deviations (DESIGN 3.3): a deviation substitutes the conjuncts it        *)
(* invalidates by conjuncts describing what the defective code does instead.                   *)
EXTENDS Distance, FiniteSets, TLC, Json, SequencesExt

CONSTANT Devs      \* subset of {"RadiusLE"}

Trace == ndJsonDeserialize("trace.ndjson")

VARIABLES l,        \* next trace line
          node, cap,\* of the current trace (set by init events)
          db,       \* set of [k, len, tag] as last observed
          rec,      \* persisted size record as last observed
          radius,   \* Radius() as last observed (32 bytes, big-endian)
          everPut,  \* ghost: every record ever offered to Put in this trace
          bigSeen,  \* ghost: some offered item was larger than 5 % of the capacity
          viol      \* set of <<line, conjunct>>
vars == <<l, node, cap, db, rec, radius, everPut, bigSeen, viol>>

LE == "RadiusLE" \in Devs
MaxRad == MaxSeq(32)
Keys(S) == {x.k : x \in S}
Item(S, k) == CHOOSE x \in S : x.k = k
SumLen(S) == LET RECURSIVE F(_)
                 F(T) == IF T = {} THEN 0 ELSE LET x == CHOOSE y \in T : TRUE IN x.len + F(T \ {x})
             IN F(S)
Farthest(S) == CHOOSE y \in S : \A z \in S : ~BELess(y.k, z.k)
Num(k) == IF LE THEN Rev(k) ELSE k           \* how key bytes are read when compared with the radius
Target(c) == c \div 20                        \* 5 % of the capacity
Failed(r) == {f \in DOMAIN r : ~r[f]}
RecVal(r) == IF r < 0 THEN 0 ELSE r          \* an absent size record counts as 0

\* A pruning pass from S1 to S2: nothing appears, retained values are untouched, what is dropped is
\* at least as far (big-endian XOR distance) as everything kept, and when S1 is over capacity at least
\* 5 % of the capacity (or everything) is freed.
Pruned(S1, S2) == {x \in S1 : x.k \notin Keys(S2)}
PSubset(S1, S2)   == S2 \subseteq S1
PFarthest(S1, S2) == \A x \in Pruned(S1, S2), y \in S2 : ~BELess(x.k, y.k)
PFrees(S1, S2)    == SumLen(S1) > cap => (SumLen(Pruned(S1, S2)) >= Target(cap) \/ S2 = {})

\* Radius after an operation that may have pruned.
Within(S2, r, rprev) ==
   IF LE THEN r = rprev \/ (S2 # {} /\ r = Rev(Farthest(S2).k))
         ELSE \A y \in S2 : ~BELess(r, y.k)
Monotone(r, rprev) == LE \/ ~BELess(rprev, r)

PutOK(e) ==
  LET d    == XorSeq(e.id, node)
      new  == [k |-> d, len |-> e.len, tag |-> e.tag]
      db1  == {x \in db : x.k # d} \cup {new}
      post == ToSet(e.snap)
  IN  [ subset    |-> PSubset(db1, post),
        farthest  |-> PFarthest(db1, post),
        frees     |-> PFrees(db1, post),
        sizeRec   |-> RecVal(e.sizeRec) >= SumLen(post),
        capacity  |-> (~bigSeen /\ e.len <= Target(cap)) => SumLen(post) <= cap,
        within    |-> Within(post, e.radius, radius),
        monotone  |-> Monotone(e.radius, radius),
        justified |-> LE => BELess(Rev(d), radius),      \* replacement conjunct: admission as coded
        \* the usage figure grows by at most what this put brought (a pruning pass only lowers it): anything more is the trace
        \* of an earlier REFUSED put, which "changes nothing observable" (sweep mutant G1/40-C04 counted before the radius check)
        growth    |-> RecVal(e.sizeRec) <= RecVal(rec) + e.len,
        stable    |-> e.changed = 0 ]

PutRefused(e) ==
  LET d == XorSeq(e.id, node) IN
      [ unchanged |-> ToSet(e.snap) = db /\ e.radius = radius /\ e.sizeRec = rec,
        justified |-> ~BELess(Num(d), radius),
        stable    |-> e.changed = 0 ]

PutErr(e) ==  \* an error other than insufficient radius: the statement only demands consistency
      [ subset  |-> PSubset(db \cup {[k |-> XorSeq(e.id, node), len |-> e.len, tag |-> e.tag]}, ToSet(e.snap)),
        sizeRec |-> RecVal(e.sizeRec) >= SumLen(ToSet(e.snap)),
        stable  |-> e.changed = 0 ]

GetEv(e) ==
  LET d == XorSeq(e.id, node) IN
      [ intact |-> CASE e.res = "found"    -> d \in Keys(db) /\ Item(db, d).len = e.len /\ Item(db, d).tag = e.tag
                     [] e.res = "notfound" -> d \notin Keys(db)
                     [] OTHER              -> FALSE,
        stable |-> e.changed = 0 ]

\* NewStorage on an existing database: pre -> post.
OpenRadius(pre, prerec, post, r) ==
   /\ (prerec <= cap - Target(cap)) => r = MaxRad
   /\ (SumLen(post) > cap - Target(cap)) => (post # {} /\ r = Num(Farthest(post).k))
   /\ r = MaxRad \/ (post # {} /\ r = Num(Farthest(post).k))

Reopen(e) ==
  LET post == ToSet(e.snap) IN
      [ openOK      |-> e.res = "ok",
        openSubset  |-> e.res = "ok" => PSubset(db, post),
        openFarthest|-> e.res = "ok" => PFarthest(db, post),
        openPrune   |-> e.res = "ok" => PFrees(db, post),
        openSizeRec |-> e.res = "ok" => RecVal(e.sizeRec) >= SumLen(post),
        openRadius  |-> e.res = "ok" => OpenRadius(db, RecVal(rec), post, e.radius),
        stable      |-> e.changed = 0 ]

Open(e) ==   \* after a simulated crash; pre was scanned before NewStorage ran
  LET pre == ToSet(e.pre)   post == IF e.same THEN ToSet(e.pre) ELSE ToSet(e.snap) IN
      [ openOK      |-> e.res = "ok",
        openFromPut |-> pre \subseteq everPut,
        openSizeRec |-> RecVal(e.preRec) >= SumLen(pre) /\ (e.res = "ok" => RecVal(e.sizeRec) >= SumLen(post)),
        openSubset  |-> e.res = "ok" => PSubset(pre, post),
        openFarthest|-> e.res = "ok" => PFarthest(pre, post),
        openPrune   |-> e.res = "ok" => PFrees(pre, post),
        openRadius  |-> e.res = "ok" => OpenRadius(pre, RecVal(e.preRec), post, e.radius) ]

Quiescent(e) ==
  LET post == ToSet(e.snap)   ep == everPut \cup ToSet(e.issued)
      big == bigSeen \/ \E x \in ToSet(e.issued) : x.len > Target(cap) IN
      [ fromPut  |-> post \subseteq ep,
        sizeRec  |-> RecVal(e.sizeRec) >= SumLen(post),
        capacity |-> ~big => SumLen(post) <= cap,
        within   |-> LE \/ \A y \in post : ~BELess(e.radius, y.k),
        monotone |-> Monotone(e.radius, radius),
        noerr    |-> e.errs = 0 ]

Recheck(e) == [ stable |-> e.changed = 0 ]

\* a put into a store of tens of thousands of tiny items, near its capacity: sums of the bytes held before / after only
Bulk(e) ==
  [ frees    |-> (e.res = "ok" /\ e.pre + e.len > cap) => (e.pre + e.len - e.post >= Target(cap) \/ e.postcount = 0),
    capacity |-> e.post <= cap,
    sizeRec  |-> e.sizeRec >= e.post ]

Init == /\ l = 1 /\ node = ZeroSeq(32) /\ cap = 0 /\ db = {} /\ rec = -1 /\ radius = MaxRad
        /\ everPut = {} /\ bigSeen = FALSE /\ viol = {}

Flag(r) == viol' = viol \cup {<<l, f>> : f \in Failed(r)}

Next ==
  /\ l <= Len(Trace)
  /\ l' = l + 1
  /\ LET e == Trace[l] IN
     CASE e.ev = "init" ->
            /\ node' = e.node /\ cap' = e.cap /\ db' = {} /\ rec' = -1 /\ radius' = MaxRad
            /\ everPut' = {} /\ bigSeen' = FALSE /\ UNCHANGED viol
       [] e.ev = "put" ->
            /\ Flag(CASE e.res = "ok" -> PutOK(e) [] e.res = "radius" -> PutRefused(e) [] OTHER -> PutErr(e))
            /\ db' = ToSet(e.snap) /\ rec' = e.sizeRec /\ radius' = e.radius
            /\ everPut' = everPut \cup {[k |-> XorSeq(e.id, node), len |-> e.len, tag |-> e.tag]}
            /\ bigSeen' = (bigSeen \/ e.len > Target(cap))
            /\ UNCHANGED <<node, cap>>
       [] e.ev = "get" ->
            /\ Flag(GetEv(e))
            /\ UNCHANGED <<node, cap, db, rec, radius, everPut, bigSeen>>
       [] e.ev = "reopen" ->
            /\ Flag(Reopen(e))
            /\ db' = ToSet(e.snap) /\ rec' = e.sizeRec /\ radius' = e.radius
            /\ UNCHANGED <<node, cap, everPut, bigSeen>>
       [] e.ev = "g.step" ->     \* a process of a gated run is about to pass a gate; at the gate before the item is committed the
                                 \* admission rule must hold for the radius current THEN (the check and the insertion are one
                                 \* critical section: a radius lowered by another put's prune in between would be missed)
            /\ Flag([ justified |-> (e.point = "put.commit" /\ e.judge) => BELess(Num(e.d), e.radius) ])
            /\ UNCHANGED <<node, cap, db, rec, radius, everPut, bigSeen>>
       [] e.ev = "bulk" ->
            /\ Flag(Bulk(e))
            /\ UNCHANGED <<node, cap, db, rec, radius, everPut, bigSeen>>
       [] e.ev = "recheck" ->
            /\ Flag(Recheck(e))
            /\ UNCHANGED <<node, cap, db, rec, radius, everPut, bigSeen>>
       [] e.ev = "reinit" ->   \* next experiment on the same history: the ghost of offered items is kept
            /\ db' = {} /\ rec' = -1 /\ radius' = MaxRad
            /\ UNCHANGED <<node, cap, everPut, bigSeen, viol>>
       [] e.ev = "crashrun" ->
            /\ everPut' = everPut \cup ToSet(e.issued)
            /\ UNCHANGED <<node, cap, db, rec, radius, bigSeen, viol>>
       [] e.ev = "open" ->
            /\ Flag(Open(e))
            /\ db' = (IF e.same THEN ToSet(e.pre) ELSE ToSet(e.snap)) /\ rec' = e.sizeRec /\ radius' = e.radius
            /\ bigSeen' = TRUE          \* the history before a crash is not size-restricted
            /\ UNCHANGED <<node, cap, everPut>>
       [] e.ev = "quiescent" ->
            /\ Flag(Quiescent(e))
            /\ db' = ToSet(e.snap) /\ rec' = e.sizeRec /\ radius' = e.radius
            /\ everPut' = everPut \cup ToSet(e.issued)
            /\ bigSeen' = (bigSeen \/ \E x \in ToSet(e.issued) : x.len > Target(cap))
            /\ UNCHANGED <<node, cap>>
       [] OTHER ->   \* schedule bookkeeping events (g.step, g.ret, ...) carry no state
            UNCHANGED <<node, cap, db, rec, radius, everPut, bigSeen, viol>>

Spec == Init /\ [][Next]_vars

Done == l = Len(Trace) + 1
Report == Done => PrintT(<<"VIOL", ToJson(viol)>>)
TraceAccepted == TLCGet("stats").diameter = Len(Trace) + 1
===============================================================================
