------------------------------ MODULE MC_Shisui ------------------------------
EXTENDS Shisui
ValidA == {<<1, "a">>, <<1, "b">>, <<2, "a">>, <<3, "c">>}        \* peer 2 offers an invalid "b", peer 3 an invalid "a"
CoversA == [p \in Peers |-> IF p = 1 THEN {"a", "b", "c"} ELSE IF p = 2 THEN {"a"} ELSE {}]
==============================================================================
