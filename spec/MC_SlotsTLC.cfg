CONSTANTS
  Req = {1, 2, 3, 4, 5}
  Limit = 2
  ReleaseOnce = TRUE
SPECIFICATION Spec
INVARIANTS IndInv WithinLimit AllBackWhenDone
CHECK_DEADLOCK FALSE
