--------------------------- MODULE LightClientOps ---------------------------
(* C12 - constant-level operators shared by the design model (LightClient.tla), the case generator    *)
(* (Gen_LightClient.tla) and the trace judge (Trace_LightClient.tla).                                  *)
(*                                                                                                      *)
(* A store is a record  [fin, finH, opt, optH, cur, nxt, prevMax, curMax]                               *)
(*   fin/opt   slot of the finalized / optimistic header, finH/optH an identity of that header          *)
(*   cur/nxt   identity of the current / next sync committee (NoneC = next committee unknown)           *)
(* An update is a record [att, sig, fin, next, parts, finOK, nextOK, sigFor]                            *)
(*   att, sig  attested slot, signature slot;  fin = finalized slot or -1 (no finality part)            *)
(*   next      identity of the next committee it carries, or NoneC                                      *)
(*   parts     number of participation bits set (0..N)                                                  *)
(*   finOK     the finality branch proves the finalized header under the attested state root            *)
(*   nextOK    the next-committee branch proves `next` under the attested state root                    *)
(*   sigFor    the set of committees C such that the aggregate signature is valid for exactly the       *)
(*             participating keys of C (message = attested header, sync-committee domain). {} = garbage *)
(*                                                                                                      *)
(* I level: VerifyOn / ApplyOn transcribe beacon/light_client.go VerifyGenericUpdate /                  *)
(*          ApplyGenericUpdate, with switchable deviations `Devs` (realistic wrong variants).           *)
(* P level: Nec (necessary conditions of acceptance, one named conjunct each) and ApplySafe (the        *)
(*          apply-safety action properties between two consecutive stores).                             *)
EXTENDS Integers, FiniteSets

CONSTANTS PeriodLen,   \* slots per sync-committee period (8192 = 32 * 256 in the code)
          N,           \* committee size (512)
          Devs         \* enabled deviations (subset of DevNames); {} = the code as written

NoneC == "none"
DevNames == {"NoFutureCheck", "NoPeriodCheck", "NoRelevanceCheck", "NoFinalityProof", "NoCommitteeProof",
             "NoSignatureCheck", "AlwaysCurrentCommittee",
             "ThresholdSlip", "RotateToUpdateNext", "FinNotNewer", "OptNoCompare", "OptNotRaised"}
Dev(d) == d \in Devs

Period(s) == s \div PeriodLen
TwoThirds(p) == p * 3 >= N * 2
FinSlot(u) == IF u.fin = -1 THEN 0 ELSE u.fin
HasFin(u) == u.fin # -1
HasNext(u) == u.next # NoneC
Max(a, b) == IF a > b THEN a ELSE b
Failed(r) == {f \in DOMAIN r : ~r[f]}

\* the committee the code checks the signature against (Store.CurrentSyncCommittee if the signature period is the
\* store period, Store.NextSyncCommittee otherwise)
StoreCom(s, sig) == IF Dev("AlwaysCurrentCommittee") \/ Period(sig) = Period(s.fin) THEN s.cur ELSE s.nxt

\* ------------------------------------------------------------------------------------------------
\* I level
VerifyOn(s, u, now) ==
  LET storeP  == Period(s.fin)
      sigP    == Period(u.sig)
      attP    == Period(u.att)
      hasNext == s.nxt = NoneC /\ HasNext(u) /\ attP = storeP          \* updateHasNextCommittee
      com     == StoreCom(s, u.sig)
  IN  IF u.parts = 0 THEN "participation"
      ELSE IF ~((Dev("NoFutureCheck") \/ now >= u.sig) /\ u.sig > u.att /\ u.att >= FinSlot(u)) THEN "time"
      ELSE IF ~Dev("NoPeriodCheck") /\ ~(IF s.nxt # NoneC THEN sigP \in {storeP, storeP + 1} ELSE sigP = storeP) THEN "period"
      ELSE IF ~Dev("NoRelevanceCheck") /\ u.att <= s.fin /\ ~hasNext THEN "relevance"
      ELSE IF ~Dev("NoFinalityProof") /\ HasFin(u) /\ ~u.finOK THEN "finality"
      ELSE IF ~Dev("NoCommitteeProof") /\ HasNext(u) /\ ~u.nextOK THEN "nextcommittee"
      ELSE IF com = NoneC THEN "panic"                                  \* nil committee dereference (unreachable without a deviation)
      ELSE IF ~Dev("NoSignatureCheck") /\ com \notin u.sigFor THEN "signature"
      ELSE "ok"

Majority(p) == IF Dev("ThresholdSlip") THEN p * 3 + 3 >= N * 2 ELSE p * 3 >= N * 2

\* ApplyGenericUpdate; header identities: the stored header is the update's attested / finalized header
ApplyOn(s, u, attH, finHdr) ==
  LET curMax1 == Max(s.curMax, u.parts)
      thr     == Max(curMax1, s.prevMax) \div 2                        \* safetyThreshold() after the max update
      optUp   == u.parts > thr /\ (Dev("OptNoCompare") \/ u.att > s.opt)
      opt1    == IF optUp THEN u.att ELSE s.opt
      optH1   == IF optUp THEN attH ELSE s.optH
      attP    == Period(u.att)
      finP    == Period(FinSlot(u))
      hasFinNext == s.nxt = NoneC /\ HasNext(u) /\ HasFin(u) /\ finP = attP
      newer   == FinSlot(u) > s.fin
      apply   == Majority(u.parts) /\ (newer \/ hasFinNext)
      rotate  == apply /\ s.nxt # NoneC /\ finP = Period(s.fin) + 1
      setFin  == apply /\ (newer \/ Dev("FinNotNewer"))
      raise   == setFin /\ FinSlot(u) > opt1 /\ ~Dev("OptNotRaised")
  IN [ cur     |-> IF rotate THEN (IF Dev("RotateToUpdateNext") THEN u.next ELSE s.nxt) ELSE s.cur,
       nxt     |-> IF ~apply THEN s.nxt ELSE IF s.nxt = NoneC THEN u.next ELSE IF rotate THEN u.next ELSE s.nxt,
       prevMax |-> IF rotate THEN curMax1 ELSE s.prevMax,
       curMax  |-> IF rotate THEN 0 ELSE curMax1,
       fin     |-> IF setFin THEN FinSlot(u) ELSE s.fin,
       finH    |-> IF setFin THEN finHdr ELSE s.finH,
       opt     |-> IF raise THEN FinSlot(u) ELSE opt1,
       optH    |-> IF raise THEN finHdr ELSE optH1 ]

\* ------------------------------------------------------------------------------------------------
\* P level.  Necessary conditions for an update to pass verification against store s at time `now`.
Nec(s, u, now) ==
  [ participation   |-> u.parts >= 1,
    notFuture       |-> now >= u.sig,
    sigAfterAtt     |-> u.sig > u.att,
    attAfterFin     |-> u.att >= FinSlot(u),
    periodFits      |-> \/ Period(u.sig) = Period(s.fin)
                        \/ (s.nxt # NoneC /\ Period(u.sig) = Period(s.fin) + 1),
    relevant        |-> u.att > s.fin \/ (s.nxt = NoneC /\ HasNext(u)),
    finalityBranch  |-> HasFin(u) => u.finOK,
    committeeBranch |-> HasNext(u) => u.nextOK,
    signature       |-> LET c == IF Period(u.sig) = Period(s.fin) THEN s.cur ELSE s.nxt
                        IN  c # NoneC /\ c \in u.sigFor ]
NecNames == {"participation", "notFuture", "sigAfterAtt", "attAfterFin", "periodFits", "relevant",
             "finalityBranch", "committeeBranch", "signature"}

\* Apply safety between the store before (s) and after (t) applying update u.
ApplySafe(s, t, u) ==
  [ monotoneFin    |-> t.fin >= s.fin,
    monotoneOpt    |-> t.opt >= s.opt,
    optAhead       |-> t.opt >= t.fin,
    needsTwoThirds |-> (t.fin # s.fin \/ t.finH # s.finH \/ t.cur # s.cur \/ t.nxt # s.nxt) => TwoThirds(u.parts),
    rotation       |-> t.cur # s.cur => (s.nxt # NoneC /\ t.cur = s.nxt) ]
ApplyNames == {"monotoneFin", "monotoneOpt", "optAhead", "needsTwoThirds", "rotation"}
=============================================================================
