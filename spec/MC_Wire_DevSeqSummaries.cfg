SPECIFICATION Spec
CONSTANTS
  Devs = {"ShortSummariesKey"}
  Emit = FALSE
  Full = FALSE
  Part = "seq"
INVARIANTS NoPanic
VIEW SeqView
CHECK_DEADLOCK FALSE
