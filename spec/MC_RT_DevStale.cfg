SPECIFICATION Spec
CONSTANTS
  Ids = {"n1","n2"}
  Bk <- BkL
  Buckets = {1}
  IPs = {"l1"}
  Subnet <- SubL
  LAN = {"l1"}
  Seqs = {1}
  BS = 2
  MR = 1
  BIL = 1
  TIL = 2
  MaxFails = 2
  MinBkt = 1
  MaxGen = 2
  MaxChecks = 2
  Ops = {"add","delete","reval","track"}
  Devs = {"StaleByID"}
VIEW view
PROPERTIES RemovalHasCause
CHECK_DEADLOCK FALSE
