---------------------------- MODULE Trace_Gossip ----------------------------
(* Judge for C20 observations of a real node.  g.deliver = an AddEnr / a ping received / a pong *)
(* to our own ping, with payload type, radius and whether the conditions for it to count held    *)
(* (type supported by this network, payload decodable, node in the table); the judge replays     *)
(* them into its own radius cache.  g.gossip = one GossipAndReturnPeers call with the table      *)
(* (log distance to the content id, cached radius as read from the real cache) and the result.   *)
(* "covers" is the in-range helper as the code computes it (F-C06-2 belongs to C06):            *)
(* radius > log distance.  Conjuncts: cacheLatest neverSource onlyKnown onlyCovered atMost8      *)
(* insideWindow count closestFirst fromTable                                                    *)
EXTENDS Integers, Sequences, FiniteSets, TLC, Json, SequencesExt
CONSTANT Devs     \* "AsyncPing" (F-C20-1): two pings of one node are processed in separate goroutines, either may win
Trace == ndJsonDeserialize("trace.ndjson")
Window == 32   NClose == 4   NFar == 4
VARIABLES l, cache, alt, viol
Failed(r) == {f \in DOMAIN r : ~r[f]}
GtSmall(r, n) == (\E i \in 1..30 : r[i] # 0) \/ r[31] * 256 + r[32] > n
Get(c, i) == IF i \in DOMAIN c THEN c[i] ELSE <<>>
GetAlt(a, i) == IF i \in DOMAIN a THEN a[i] ELSE {}
IsRace(e) == "race" \in DOMAIN e /\ e.race
Put(c, i, r) == [j \in DOMAIN c \cup {i} |-> IF j = i THEN r ELSE c[j]]
Applies(e) == IF e.via = "addenr" THEN e.newentry ELSE e.supported /\ e.decodable /\ e.intable
SetOf(s) == {s[i] : i \in 1..Len(s)}

Judge(e) ==
  LET T == e.table   N == 1..Len(e.table)
      Cov(j) == T[j].known /\ GtSmall(T[j].radius, T[j].ld)
      Before(j) == Cardinality({k \in N : T[k].ld < T[j].ld})            \* nodes strictly nearer
      AtOrBefore(j) == Cardinality({k \in N : T[k].ld <= T[j].ld})
      MayBeIn(j) == Before(j) < Window                                     \* possibly among the nearest 32
      SurelyIn(j) == AtOrBefore(j) <= Window                               \* certainly among them
      IsSrc(j) == T[j].i = e.src
      R == {j \in N : T[j].i \in SetOf(e.res)}
      Cmin == {j \in N : SurelyIn(j) /\ Cov(j) /\ ~IsSrc(j)}
      Cmax == {j \in N : MayBeIn(j) /\ Cov(j) /\ ~IsSrc(j)}
      Mn(a, b) == IF a < b THEN a ELSE b
      out == Cmin \ R IN
  [ cacheLatest  |-> \A j \in N : T[j].i >= 0 =>
                        /\ (T[j].known <=> Get(cache, T[j].i) # <<>>)
                        /\ (T[j].known => \/ T[j].radius = Get(cache, T[j].i)
                                          \/ ("AsyncPing" \in Devs /\ T[j].radius \in GetAlt(alt, T[j].i))),
    fromTable    |-> Cardinality(R) = Len(e.res) /\ Cardinality(SetOf(e.res)) = Len(e.res),
    neverSource  |-> e.src \notin SetOf(e.res) \/ e.src < 0,
    onlyKnown    |-> \A j \in R : T[j].known,
    onlyCovered  |-> \A j \in R : Cov(j),
    atMost8      |-> Len(e.res) <= NClose + NFar,
    insideWindow |-> \A j \in R : MayBeIn(j),
    count        |-> Len(e.res) >= Mn(NClose + NFar, Cardinality(Cmin)) /\ Len(e.res) <= Mn(NClose + NFar, Cardinality(Cmax)),
    closestFirst |-> out # {} => Cardinality({r \in R : \A c \in out : T[r].ld <= T[c].ld}) >= Mn(NClose, Cardinality(R)),
    noError      |-> ~e.err ]

Init == l = 1 /\ cache = <<>> /\ alt = <<>> /\ viol = {}
Next == /\ l <= Len(Trace) /\ l' = l + 1
        /\ LET e == Trace[l] IN
           CASE e.ev = "g.init" -> cache' = <<>> /\ alt' = <<>> /\ UNCHANGED viol
             [] e.ev = "g.deliver" ->
                  /\ cache' = (IF Applies(e) THEN Put(cache, e.n, e.radius) ELSE cache)
                  \* radii of pings that raced with the latest one remain possible winners until the next ordinary delivery
                  /\ alt' = (IF ~Applies(e) THEN alt
                             ELSE IF IsRace(e) THEN Put(alt, e.n, GetAlt(alt, e.n) \cup {e.radius}) ELSE Put(alt, e.n, {}))
                  /\ UNCHANGED viol
             [] e.ev = "g.gossip" -> viol' = viol \cup {<<l, f>> : f \in Failed(Judge(e))} /\ UNCHANGED <<cache, alt>>
             [] OTHER -> UNCHANGED <<cache, alt, viol>>
Spec == Init /\ [][Next]_<<l, cache, alt, viol>>
Done == l = Len(Trace) + 1
Report == Done => PrintT(<<"VIOL", ToJson(viol)>>)
TraceAccepted == TLCGet("stats").diameter = Len(Trace) + 1
===============================================================================
