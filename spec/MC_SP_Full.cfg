SPECIFICATION Spec
CONSTANTS
  Devs = {}
  AllKeys = TRUE
  AllSmall = TRUE
  Kinds = {"atn", "cstn", "acct", "code", "vref"}
  Emit = TRUE
INVARIANTS Sound NoPanic StoredFinal HonestAccepted EmitCase
CHECK_DEADLOCK FALSE
