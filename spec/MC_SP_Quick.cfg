SPECIFICATION Spec
CONSTANTS
  Devs = {}
  AllKeys = FALSE
  AllSmall = FALSE
  Kinds = {"atn", "cstn", "acct", "code", "vref"}
  Emit = TRUE
INVARIANTS Sound NoPanic StoredFinal HonestAccepted EmitCase
CHECK_DEADLOCK FALSE
