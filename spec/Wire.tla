-------------------------------- MODULE Wire --------------------------------
(* C01 - no remote input can crash or wedge the node.                                             *)
(*                                                                                                *)
(* The input space of a shisui node as  channel x shape.  A channel is a place where bytes chosen *)
(* by a peer enter the code; a shape is a point of the SSZ / framing layout of what that channel  *)
(* expects (length class, code / selector class, offset class, key class, content class, ...).    *)
(* The module                                                                                     *)
(*   - enumerates the whole shape space (CaseSpace) - TLC prints every case as JSON, the harness  *)
(*     concretises each into bytes (seeded filler, seeded mutations of valid encodings) and runs  *)
(*     the real handlers on it;                                                                   *)
(*   - states the property on outcomes:  Legal(out) == out \in {reply, empty, ok, error}          *)
(*     (the statement's "well-formed reply, empty reply or returned error"; ok = a process* /     *)
(*     validator / store call that returned without error), never panic, never wedge;             *)
(*   - carries a code-shaped reference dispatcher  Handle(facts, D)  (I level): the outcome class  *)
(*     today's code is expected to produce.  It is used for coverage accounting, drift notes and  *)
(*     - with the named deviations D \subseteq DevNames switched on - to say which inputs the      *)
(*     listed findings explain.  It never produces a verdict about the code.                      *)
(*   - a small stateful part (the Seq operators) for sequences of <= 3 inputs from <= 2 senders: what a         *)
(*     handler does depends on what earlier inputs left behind (sender in the table, content or   *)
(*     historical summaries stored); TLC -simulate samples sequences, the exhaustive config       *)
(*     checks the invariant over all of them for the reduced alphabet SeqShapes.                  *)
EXTENDS Naturals, Integers, Sequences, FiniteSets, TLC, Json

DevNames == {"EmptyTalkReq", "OneByteContent", "EmptyKey", "ShortSummariesKey", "NilGetter", "ZeroLenUpdate"}

Nets == {"history", "beacon", "state"}

\* ---- message codes, limits (portalwire/types.go) ----------------------------------------------
PING == 0  PONG == 1  FINDNODES == 2  NODES == 3  FINDCONTENT == 4  CONTENT == 5  OFFER == 6  ACCEPT == 7
ReqCodes   == {PING, FINDNODES, FINDCONTENT, OFFER}
RespCodes  == {PONG, NODES, CONTENT, ACCEPT}
UnkCodes   == {8, 255}
RespOf(c)  == c + 1
KindOfCode(c) == CASE c = PING -> "ping" [] c = PONG -> "pong" [] c = FINDNODES -> "findnodes" [] c = NODES -> "nodes"
                   [] c = FINDCONTENT -> "findcontent" [] c = CONTENT -> "content" [] c = OFFER -> "offer" [] c = ACCEPT -> "accept"
                   [] OTHER -> "unk"
PayloadLimit  == 1100      \* Ping.Payload / Pong.Payload
DistLimit     == 256       \* FindNodes.Distances
KeyLimit      == 2048      \* FindContent.ContentKey, Offer.ContentKeys[i]
KeysLimit     == 64        \* Offer.ContentKeys, Accept bitlist
EnrsLimit     == 32        \* Nodes.Enrs, Enrs.Enrs
EnrLimit      == 2048
RawLimit      == 2048      \* Content.Content
\* fixed parts (bytes after the message code)
FixPing == 14   FixFindNodes == 4   FixFindContent == 4   FixOffer == 4   FixNodes == 5   FixEnrs == 4   FixAccept == 6   FixConnId == 2

\* ---- ping payload types ---------------------------------------------------------------------------
PtClientInfo == 0  PtBasic == 1  PtHistory == 2  PtError == 65535  PtUnknown == 7
PTypes == {PtClientInfo, PtBasic, PtHistory, PtError, PtUnknown}
Supported(net, pt) == CASE net = "history" -> pt \in {PtClientInfo, PtHistory, PtError}
                        [] net = "state"   -> pt \in {PtClientInfo, PtBasic, PtError}
                        [] OTHER           -> pt \in {PtClientInfo, PtBasic, PtError}
\* payload shapes: pn = forced payload length (-1: the natural valid encoding of that type)
PFix(pt) == CASE pt = PtClientInfo -> 40 [] pt = PtBasic -> 32 [] pt = PtHistory -> 34 [] pt = PtError -> 6 [] OTHER -> 0
PayloadShapes(pt) ==
  {[pl |-> "valid", pn |-> -1], [pl |-> "empty", pn |-> 0], [pl |-> "one", pn |-> 1],
   [pl |-> "fixm1", pn |-> IF PFix(pt) > 1 THEN PFix(pt) - 1 ELSE 2], [pl |-> "fixp1", pn |-> PFix(pt) + 1],
   [pl |-> "inneroff", pn |-> -1],            \* valid, inner offset of the payload container shifted
   [pl |-> "lim", pn |-> PayloadLimit], [pl |-> "limp1", pn |-> PayloadLimit + 1]}

\* ---- content keys -----------------------------------------------------------------------------------
KeySels(net) == CASE net = "history" -> {0, 1, 2, 3, 4, 5} [] net = "beacon" -> {16, 17, 18, 19, 20} [] OTHER -> {32, 33, 34}
UnkSel(net)  == CASE net = "history" -> 6 [] net = "beacon" -> 21 [] OTHER -> 35
SummariesSel == 20
\* body length (after the selector) of a well-formed key; state trie keys are variable (offset + hash + packed path):
\* the shortest well-formed one is used
KeyBody(net, sel) ==
  CASE net = "history" -> (IF sel = 3 THEN 8 ELSE IF sel = 4 THEN 33 ELSE IF sel = 5 THEN 33 ELSE 32)
    [] net = "beacon"  -> (IF sel = 16 THEN 32 ELSE IF sel = 17 THEN 16 ELSE 8)
    [] OTHER           -> (IF sel = 32 THEN 37 ELSE IF sel = 33 THEN 69 ELSE IF sel = 34 THEN 64 ELSE 32)
\* key shapes: class, selector (-1: none), total length kn
KeyShapes(net) ==
  {[kc |-> "empty", ksel |-> -1, kn |-> 0]}
  \cup UNION {{[kc |-> "sel",    ksel |-> s, kn |-> 1],
               [kc |-> "short1", ksel |-> s, kn |-> 2],
               [kc |-> "short",  ksel |-> s, kn |-> KeyBody(net, s)],        \* one byte less than well-formed
               [kc |-> "exact",  ksel |-> s, kn |-> 1 + KeyBody(net, s)],
               [kc |-> "long",   ksel |-> s, kn |-> 2 + KeyBody(net, s)]} : s \in KeySels(net) \cup {UnkSel(net)}}
WireKeyShapes(net) ==        \* on the wire the key is additionally bounded by the list limit
  KeyShapes(net) \cup {[kc |-> "lim", ksel |-> CHOOSE s \in KeySels(net) : \A t \in KeySels(net) : s <= t, kn |-> KeyLimit],
                       [kc |-> "limp1", ksel |-> CHOOSE s \in KeySels(net) : \A t \in KeySels(net) : s <= t, kn |-> KeyLimit + 1]}

\* ---- content classes (offered / looked-up item for a key) ------------------------------------------
\*  valid      a genuine item of the key's type from the repository's vectors (filler where none exists)
\*  trunc/ext/offshift/flip   seeded mutations of that item
\*  zeroitem   a list of one zero-length item (one offset pointing at the end)
\*  emptyvar   that item cut down to its fixed part: every variable-size field empty (all offsets at the end)
\*  other      a genuine item of another type of the same network
\*  otherblk   a genuine item of the same type that belongs to another key (another block / period / trie node)
\*  fldbnd/fldfar  the item with its proof position field (slot / block number / path) at a boundary / far out of range
\*  relayout   the genuine item re-encoded in the NEIGHBOURING layout of its type: an empty variable field appended to the outer
\*             container (a pre-Shanghai body sent in the Shanghai encoding with no withdrawals) or, when the last field is
\*             empty, that field dropped: every field the key's header can check still matches, the extra / missing one has
\*             no counterpart in the header
\*  offdecr    a later offset of the fixed part (or of the first inner list) below the one before it - decreasing offsets
\*  pathcut    state network: the genuine item under a key whose trie path is cut to every shorter length (a path that
\*             ends inside an extension or leaf key of the proof)
ContentClasses == {"empty", "one", "two", "fill32", "fillbig", "valid", "trunc", "ext", "offshift", "offdecr", "flip", "emptyvar", "zeroitem", "other", "otherblk", "relayout", "fldbnd", "fldfar", "pathcut"}
LightContent   == {"empty", "valid", "fill32"}

\* ---- the case record ---------------------------------------------------------------------------------
Z == [ch |-> "na", net |-> "na", kind |-> "na", code |-> -1, n |-> -1, off |-> "exact", io |-> 0,
      sub |-> "na", sv |-> -1, pl |-> "na", pn |-> -1, cnt |-> -1, kc |-> "na", ksel |-> -1, kn |-> -1,
      cc |-> "na", ver |-> -1, st |-> "fresh", fu |-> "na"]

\* ---- follow-up answers -----------------------------------------------------------------------------------
\* A well-formed PING (request) or PONG (response) whose enr_seq is above the sequence number of the sender's
\* record in the routing table (st = "seqhigh") makes the node ask that peer for its record (FINDNODES [0]) while
\* it handles the input; the peer's answer to THAT request is a further input (seed C01-2).  fu = its class:
\*  honest  NODES with the peer's own record        none   an empty TALKRESP          bare  the NODES code alone
\*  garbage NODES followed by filler                emptylist  a well-formed NODES without records
\*  wrongcode  a PONG                               badrecord  NODES with another node's record
\*  trunc   the honest answer cut short             silent  no answer before the request times out
FollowUps == {"honest", "none", "bare", "garbage", "emptylist", "wrongcode", "badrecord", "trunc", "silent"}

OffClasses   == {"exact", "m1", "p1", "beyond", "zero"}
InnerOff     == {"m1", "p1", "beyond", "decr", "zero"}
BadOff       == OffClasses \ {"exact"}

\* ---- channel: TALKREQ on a portal sub-protocol (handleTalkRequest) -------------------------------------
ReqRaw(net) ==       \* nothing, a bare code, a code followed by one or two bytes - for every code class
  {[Z EXCEPT !.ch = "req", !.net = net, !.kind = "none"]}
  \cup {[Z EXCEPT !.ch = "req", !.net = net, !.kind = "raw", !.code = c, !.n = k] :
          c \in ReqCodes \cup RespCodes \cup UnkCodes, k \in {0, 1, 2}}
  \cup {[Z EXCEPT !.ch = "req", !.net = net, !.kind = "raw", !.code = c, !.n = 200] : c \in RespCodes \cup UnkCodes}
ReqPing(net) ==
  LET B == [Z EXCEPT !.ch = "req", !.net = net, !.kind = "ping", !.code = PING] IN
  {[B EXCEPT !.n = k, !.sv = PtClientInfo, !.pl = "valid"] : k \in {FixPing - 1, FixPing}}        \* truncated to the fixed part
  \cup UNION {{[B EXCEPT !.sv = pt, !.pl = p.pl, !.pn = p.pn] : p \in PayloadShapes(pt)} : pt \in PTypes}
  \cup {[B EXCEPT !.sv = pt, !.pl = "valid", !.off = o] : pt \in PTypes, o \in BadOff}
  \cup {[B EXCEPT !.sv = PtClientInfo, !.pl = "valid", !.st = "seqhigh", !.fu = f] : f \in FollowUps}
  \* capabilities that name no base extension the node knows (only unknown / non-base types): they stay in the capabilities
  \* cache, and the node's NEXT OWN ping to this peer chooses its payload type from them (sweep mutant G1/02-C01)
  \cup {[B EXCEPT !.sv = PtClientInfo, !.pl = "valid", !.st = s] : s \in {"capsnobase", "capsempty"}}
ReqFindNodes(net) ==
  LET B == [Z EXCEPT !.ch = "req", !.net = net, !.kind = "findnodes", !.code = FINDNODES] IN
  {[B EXCEPT !.n = FixFindNodes - 1, !.cnt = 1, !.sub = "mid"], [B EXCEPT !.n = FixFindNodes + 1, !.cnt = 1, !.sub = "mid"],
   [B EXCEPT !.n = FixFindNodes + 3, !.cnt = 2, !.sub = "mid"]}                                  \* truncated / odd tail
  \cup {[B EXCEPT !.cnt = k, !.sub = d] : k \in {0, 1, 2, DistLimit, DistLimit + 1}, d \in {"zero", "mid", "big", "mix"}}
  \cup {[B EXCEPT !.cnt = 2, !.sub = "mid", !.off = o] : o \in BadOff}
StFor(net, k) == IF net = "beacon" /\ k.ksel = SummariesSel THEN {"nosum", "sum", "sumshort"}
                 ELSE IF k.kc = "exact" THEN {"fresh", "stored"} ELSE {"fresh"}
ReqFindContent(net) ==
  LET B == [Z EXCEPT !.ch = "req", !.net = net, !.kind = "findcontent", !.code = FINDCONTENT] IN
  {[B EXCEPT !.n = FixFindContent - 1, !.kc = "exact", !.ksel = 0, !.kn = 33]}
  \cup UNION {{[B EXCEPT !.kc = k.kc, !.ksel = k.ksel, !.kn = k.kn, !.st = s] : s \in StFor(net, k)} : k \in WireKeyShapes(net)}
  \cup {[B EXCEPT !.kc = "exact", !.ksel = CHOOSE s \in KeySels(net) : TRUE, !.kn = 33, !.off = o] : o \in BadOff}
ReqOffer(net) ==
  LET B  == [Z EXCEPT !.ch = "req", !.net = net, !.kind = "offer", !.code = OFFER]
      s0 == CHOOSE s \in KeySels(net) : \A t \in KeySels(net) : s <= t IN
  {[B EXCEPT !.n = FixOffer - 1, !.cnt = 1, !.kc = "exact", !.ksel = s0, !.ver = 1]}
  \cup UNION {{[B EXCEPT !.cnt = 1, !.kc = k.kc, !.ksel = k.ksel, !.kn = k.kn, !.ver = v, !.st = s] :
          v \in {0, 1}, s \in StFor(net, k)} : k \in WireKeyShapes(net)}
  \* several keys: the shaped key is the last one, the others are well-formed and distinct
  \cup {[B EXCEPT !.cnt = c, !.kc = k.kc, !.ksel = k.ksel, !.kn = k.kn, !.ver = v] :
          c \in {2, 3}, k \in {x \in KeyShapes(net) : x.kc \in {"empty", "sel", "exact"} /\ x.ksel \in {-1, s0}}, v \in {0, 1}}
  \cup {[B EXCEPT !.cnt = c, !.kc = "exact", !.ksel = s0, !.ver = v] : c \in {0, KeysLimit, KeysLimit + 1}, v \in {0, 1}}
  \cup {[B EXCEPT !.cnt = 2, !.kc = "exact", !.ksel = s0, !.ver = 1, !.sub = "dup"]}
  \* offsets: io = 0 the container offset, io = 1, 2 the offsets of the key list
  \cup {[B EXCEPT !.cnt = 2, !.kc = "exact", !.ksel = s0, !.ver = 1, !.off = o, !.io = 0] : o \in BadOff}
  \cup {[B EXCEPT !.cnt = 2, !.kc = "exact", !.ksel = s0, !.ver = 1, !.off = o, !.io = i] : o \in InnerOff, i \in {1, 2}}
ReqSpace == UNION {ReqRaw(net) \cup ReqPing(net) \cup ReqFindNodes(net) \cup ReqFindContent(net) \cup ReqOffer(net) : net \in Nets}

\* ---- channel: TALKREQ on the uTP protocol id (handleUtpTalkRequest -> utp socket) -----------------------
\* header: type|version, extension, conn id, timestamps, window, seq, ack = 20 bytes; extension chain; payload
UtpTypes == {"data", "fin", "state", "reset", "syn", "unk5", "unk15"}
UtpSpace ==
  LET B == [Z EXCEPT !.ch = "utp"] IN
  {[B EXCEPT !.kind = "raw", !.n = k] : k \in {0, 1, 2, 19}}
  \cup {[B EXCEPT !.kind = t, !.sv = v, !.sub = x, !.pn = p, !.st = s] :
          t \in UtpTypes, v \in {1, 0}, x \in {"none", "sack0", "sack3", "sack4", "sack8", "sackbeyond", "sackhdr1", "unkext", "chain"},
          p \in {0, 1, 100}, s \in {"noconn", "awaited"}}

\* ---- channel: TALKRESP to one of our own requests (processPong / Nodes / Content / Offer) ---------------
RespRaw(kind, own) ==
  {[Z EXCEPT !.ch = "resp", !.kind = kind, !.sub = "none"]}                                      \* empty response
  \cup {[Z EXCEPT !.ch = "resp", !.kind = kind, !.sub = "code", !.code = c, !.n = k] :
          c \in (ReqCodes \cup RespCodes \cup UnkCodes), k \in {0, 1, 2}}
RespPong ==
  LET B == [Z EXCEPT !.ch = "resp", !.kind = "pong", !.code = PONG] IN
  UNION {{[B EXCEPT !.net = net, !.n = k, !.sv = PtClientInfo, !.pl = "valid"] : k \in {FixPing - 1, FixPing}}
         \cup UNION {{[B EXCEPT !.net = net, !.sv = pt, !.pl = p.pl, !.pn = p.pn] : p \in PayloadShapes(pt)} : pt \in PTypes}
         \cup {[B EXCEPT !.net = net, !.sv = PtClientInfo, !.pl = "valid", !.off = o] : o \in BadOff}
         \cup {[B EXCEPT !.net = net, !.sv = PtClientInfo, !.pl = "valid", !.st = "seqhigh", !.fu = f] : f \in FollowUps} : net \in Nets}
EnrClasses == {"valid", "wrongdist", "garbage", "empty", "self", "dup", "lowport", "big"}
RespNodes ==
  LET B == [Z EXCEPT !.ch = "resp", !.kind = "nodes", !.code = NODES, !.net = "history"] IN
  {[B EXCEPT !.n = k, !.cnt = 1, !.sub = "valid"] : k \in {0, 1, 4, 5, 6}}
  \cup {[B EXCEPT !.cnt = c, !.sub = e] : c \in {1, 2}, e \in EnrClasses}
  \cup {[B EXCEPT !.cnt = c, !.sub = "valid"] : c \in {0, 8, EnrsLimit, EnrsLimit + 1}}
  \cup {[B EXCEPT !.cnt = 2, !.sub = "valid", !.off = o, !.io = 0] : o \in BadOff}
  \cup {[B EXCEPT !.cnt = 2, !.sub = "valid", !.off = o, !.io = i] : o \in InnerOff, i \in {1, 2}}
RespContent ==
  LET B == [Z EXCEPT !.ch = "resp", !.kind = "content", !.code = CONTENT, !.net = "history"] IN
  {[B EXCEPT !.sub = "nosel", !.n = 0]}                                                          \* the code byte alone
  \cup {[B EXCEPT !.sub = "unksel", !.sv = s, !.n = k] : s \in {3, 255}, k \in {0, 1, 40}}
  \cup {[B EXCEPT !.sub = "connid", !.sv = 0, !.n = k] : k \in {0, 1, 3}}
  \cup {[B EXCEPT !.sub = "connid", !.sv = 0, !.n = 2, !.ver = v] : v \in {0, 1}}             \* well-formed: a uTP dial follows
  \cup {[B EXCEPT !.sub = "raw", !.sv = 1, !.n = k] : k \in {0, 1, 100, RawLimit, RawLimit + 1}}
  \cup {[B EXCEPT !.sub = "enrs", !.sv = 2, !.n = k, !.cnt = 1, !.pl = "valid"] : k \in {0, 1, 3, 4, 5}}
  \cup {[B EXCEPT !.sub = "enrs", !.sv = 2, !.cnt = c, !.pl = e] : c \in {1, 2}, e \in EnrClasses}
  \cup {[B EXCEPT !.sub = "enrs", !.sv = 2, !.cnt = c, !.pl = "valid"] : c \in {0, 8, EnrsLimit, EnrsLimit + 1}}
  \cup {[B EXCEPT !.sub = "enrs", !.sv = 2, !.cnt = 2, !.pl = "valid", !.off = o, !.io = 0] : o \in BadOff}
  \cup {[B EXCEPT !.sub = "enrs", !.sv = 2, !.cnt = 2, !.pl = "valid", !.off = o, !.io = i] : o \in InnerOff, i \in {1, 2}}
\* ACCEPT: connection id (2) + offset (4) + bitlist (version 0) / byte list (version 1); cnt = keys we offered
AcceptLists == {"nodelim", "none", "some", "all", "short", "long", "lim", "limp1", "unkcode"}
RespAccept ==
  LET B == [Z EXCEPT !.ch = "resp", !.kind = "accept", !.code = ACCEPT, !.net = "history"] IN
  {[B EXCEPT !.n = k, !.ver = v, !.cnt = 1, !.pl = "none", !.sub = "transient"] : k \in {0, 1, 2, 5, 6}, v \in {0, 1}}
  \cup {[B EXCEPT !.ver = v, !.cnt = c, !.pl = l, !.sub = r] :
          v \in {0, 1}, c \in {1, 3}, l \in AcceptLists, r \in {"transient", "persist", "result"}}
  \cup {[B EXCEPT !.ver = v, !.cnt = KeysLimit, !.pl = l, !.sub = "transient"] : v \in {0, 1}, l \in {"none", "lim", "limp1"}}
  \cup {[B EXCEPT !.ver = v, !.cnt = 2, !.pl = "none", !.sub = "transient", !.off = o] : v \in {0, 1}, o \in BadOff}
  \cup {[B EXCEPT !.ver = 2, !.cnt = 1, !.pl = "none", !.sub = "transient"]}                   \* peer advertising only an unknown version
RespSpace == UNION {RespRaw(k, 0) : k \in {"pong", "nodes", "content", "accept"}} \cup RespPong \cup RespNodes \cup RespContent \cup RespAccept

\* ---- channel: uTP stream bodies ------------------------------------------------------------------------
\* offer: LEB128-prefixed items for the accepted keys; find-content: the raw bytes (v0) or one prefixed item (v1)
\* vwrap: a five-byte prefix within a few units of 2^32, so that prefix + bytes read wraps in 32-bit arithmetic (seed C01-1)
Framings == {"empty", "exact", "fewer", "more", "vtrunc", "vbeyond", "vwrap", "voverflow", "vnonmin", "zerolen", "trailing", "big"}
StreamSpace ==
  LET B == [Z EXCEPT !.ch = "stream"] IN
  {[B EXCEPT !.kind = "offer", !.net = net, !.cnt = c, !.pl = f, !.cc = x] :
     net \in Nets, c \in {1, 2, 3}, f \in Framings, x \in {"valid", "fill32", "zeroitem"}}
  \cup {[B EXCEPT !.kind = "fc", !.net = "history", !.ver = v, !.pl = f] : v \in {0, 1}, f \in Framings \ {"fewer", "more"}}

\* ---- channels: <content key, content> at a network's validator, content pipeline and storage adapter ----
\*  val   Validator.ValidateContent            pipe  Network.validateContents (what the content loop runs)
\*  put   storage adapter Put                   get   storage adapter Get
ContentFor(k, full) == IF full \/ k.kc = "exact" THEN ContentClasses ELSE LightContent
PutSt(net, ch, k) == IF net = "beacon" /\ k.ksel = SummariesSel /\ ch = "put" THEN {"nosum", "sum", "sumshort"} ELSE {"fresh"}
ContentSpace(full) ==
  UNION {
    UNION {UNION {{[Z EXCEPT !.ch = ch, !.net = net, !.kc = k.kc, !.ksel = k.ksel, !.kn = k.kn, !.cc = x, !.st = s] :
                     x \in ContentFor(k, full), s \in PutSt(net, ch, k)} : k \in KeyShapes(net)} : ch \in {"val", "pipe", "put"}}
    \cup UNION {{[Z EXCEPT !.ch = "get", !.net = net, !.kc = k.kc, !.ksel = k.ksel, !.kn = k.kn, !.st = s] : s \in StFor(net, k)} :
                  k \in KeyShapes(net)} : net \in Nets}

\* ---- channel: looked-up content (our own content lookups answered by a peer) ------------------------------
\* history: Network.GetBlockHeader / GetBlockBody / GetReceipts; beacon: PortalLightApi getters (the light client's
\* source) and beacon.Network's own getters
LookupSpace ==
  LET B == [Z EXCEPT !.ch = "lookup"] IN
  {[B EXCEPT !.net = "history", !.kind = g, !.cc = x] : g \in {"header", "body", "receipts"}, x \in ContentClasses}
  \cup {[B EXCEPT !.net = "beacon", !.kind = g, !.cc = x] :
          g \in {"api.bootstrap", "api.updates", "api.finality", "api.optimistic", "nw.bootstrap", "nw.updates", "nw.finality", "nw.optimistic"},
          x \in {"empty", "one", "fill32", "digest", "digestfill", "valid", "trunc", "flip"}}

AllCases(full) == ReqSpace \cup UtpSpace \cup RespSpace \cup StreamSpace \cup ContentSpace(full) \cup LookupSpace

\* =========================================================================================================
\* Outcomes and the property
Outcomes   == {"reply", "empty", "ok", "error", "panic", "wedge"}
Legal(out) == out \in {"reply", "empty", "ok", "error"}

\* ---- facts: what the dispatcher's decisions depend on.  For a TLC case they follow from the shape; for a     ----
\* ---- recorded event the harness logs them from the bytes it actually delivered (mutated variants included). ----
\*  mlen  length of the delivered message (req / resp)        kmin  shortest content key handed on (-1: none)
\*  ksel  selector of the shaped key (-1 none)                kn    its length
\*  sumlen  length of the stored historical-summaries record of the beacon store before the call (-1: none)
\*  dec   the message body decodes as its SSZ type (req / resp)
\*  zl    the content, read as an SSZ list of variable-size items, holds a zero-length item
NatLen(c) ==          \* natural body length of a shaped message (enough for the decisions below)
  CASE c.kind = "findcontent" -> FixFindContent + c.kn
    [] OTHER -> 1000000
BodyLen(c) == IF c.n >= 0 THEN c.n ELSE NatLen(c)
Decodes(c) ==         \* the SSZ body is well-formed for its type
  /\ \/ c.off = "exact"
     \/ c.io >= 2 /\ c.off \in {"m1", "p1"}      \* a later list offset moved by one only moves an item boundary
  /\ CASE c.kind = "ping"        -> (c.n < 0 \/ c.n >= FixPing) /\ c.pl # "limp1"
       [] c.kind = "pong"        -> (c.n < 0 \/ c.n >= FixPing) /\ c.pl # "limp1"
       [] c.kind = "findnodes"   -> c.n < 0 /\ c.cnt <= DistLimit
       [] c.kind = "findcontent" -> c.n < 0 /\ c.kn <= KeyLimit
       [] c.kind = "offer"       -> c.n < 0 /\ c.cnt <= KeysLimit /\ c.kn <= KeyLimit
       [] OTHER -> TRUE
Facts(c) ==
  [ch |-> c.ch, net |-> c.net, kind |-> c.kind, code |-> c.code,
   mlen |-> CASE c.ch \in {"req", "resp"} /\ c.kind = "none" -> 0
              [] c.ch = "resp" /\ c.sub = "none" -> 0
              [] c.ch \in {"req", "resp"} /\ c.n >= 0 -> 1 + c.n
              [] OTHER -> 1000000,
   kmin |-> CASE c.ch = "req" /\ c.kind \in {"findcontent", "offer"} /\ Decodes(c) /\ c.cnt # 0 -> (IF c.kc = "na" THEN -1 ELSE c.kn)
              [] c.ch \in {"val", "pipe", "put", "get"} -> c.kn
              [] OTHER -> -1,
   ksel |-> IF c.ch = "stream" /\ c.cc = "zeroitem" /\ c.net = "beacon" THEN 17 ELSE c.ksel,   \* the stream's items go under update-range keys
   kn |-> c.kn,
   sumlen |-> CASE c.st = "sum" -> 1000 [] c.st = "sumshort" -> 3 [] OTHER -> -1,
   dec |-> Decodes(c), sub |-> c.sub, fu |-> c.fu, seqhigh |-> c.st = "seqhigh",
   zl |-> c.net = "beacon" /\ ( (c.ksel = 17 /\ c.kc = "exact" /\ c.cc \in {"emptyvar", "zeroitem"})
                              \/ (c.ch = "stream" /\ c.kind = "offer" /\ c.cc = "zeroitem" /\ c.pl = "exact") )]

\* ---- deviations: where today's code panics (listed findings; each is a violation of NoPanic in this model) ----
KeyIndexed(f) ==      \* the channel hands the key to code that reads contentKey[0]
  \/ f.ch = "req" /\ f.kind \in {"findcontent", "offer"} /\ f.net \in {"history", "beacon"}      \* storage Get
  \/ f.ch \in {"val", "pipe", "put"}
  \/ f.ch = "get" /\ f.net \in {"history", "beacon"}
SummariesPanic(f) ==
  /\ f.net = "beacon" /\ f.ksel = SummariesSel /\ f.kn >= 1 /\ f.sumlen >= 0
  /\ \/ f.ch = "get" \/ (f.ch = "req" /\ f.kind \in {"findcontent", "offer"} /\ f.dec) \/ f.ch = "put"
  /\ \/ f.sumlen < 8                                        \* data[:8] on a short stored record
     \/ f.ch # "put" /\ f.kn - 1 < 8                        \* reverseCompare(data[:8], key[1:])
     \/ f.ch = "put" /\ f.kn - 1 > 8                        \* reverseCompare(key[1:], data[:8])
PanicsToday(f, D) ==
  \/ "EmptyTalkReq" \in D /\ f.ch = "req" /\ f.mlen = 0
  \/ "OneByteContent" \in D /\ f.ch = "resp" /\ f.kind = "content" /\ f.code = CONTENT /\ f.mlen = 1
  \/ "EmptyKey" \in D /\ f.kmin = 0 /\ KeyIndexed(f)
  \/ "ShortSummariesKey" \in D /\ SummariesPanic(f)
  \/ "NilGetter" \in D /\ f.ch = "lookup" /\ f.kind \in {"nw.bootstrap", "nw.finality", "nw.optimistic"}
  \* a light client update range with a zero-length item decodes (the item stays nil), passes validation and is serialised by the store
  \/ "ZeroLenUpdate" \in D /\ f.net = "beacon" /\ f.ksel = 17 /\ f.ch \in {"put", "pipe", "stream"} /\ f.zl
  \* regression mutant (seed C01-2, not a deviation of today's code): the result of the nested record request is used unchecked
  \/ "FollowUpDeref" \in D /\ f.kind \in {"ping", "pong"} /\ f.seqhigh /\ f.fu \notin {"na", "honest"}

\* ---- reference dispatcher (I level): expected outcome class; "any" where the model does not commit -------
ExpectReq(c) ==
  CASE c.kind = "none" -> "empty"
    [] c.kind = "raw"  -> "empty"
    [] c.kind \in {"ping", "findnodes"} -> (IF Decodes(c) THEN "reply" ELSE "empty")
    [] c.kind = "findcontent" ->
         IF ~Decodes(c) THEN "empty"
         ELSE IF c.net = "state" THEN "reply"
         ELSE IF c.kc = "empty" THEN "any"
         ELSE IF c.net = "history" THEN (IF c.ksel = 5 THEN "empty" ELSE "reply")
         ELSE IF c.ksel = SummariesSel /\ (c.kc # "exact" \/ c.st = "sumshort") THEN "any"   \* reply or the listed fault today, rejected once guarded
         ELSE (IF c.ksel \in {17, 18, 19} /\ c.kc # "exact" THEN "empty" ELSE "reply")
    [] c.kind = "offer" -> (IF Decodes(c) THEN (IF c.kc = "empty" /\ c.net # "state" THEN "any" ELSE "reply") ELSE "empty")
    [] OTHER -> "any"
ExpectResp(c) ==
  CASE c.sub = "none" -> "error"                                   \* ErrEmptyResp
    [] c.sub = "code" /\ KindOfCode(c.code) # c.kind -> "error"    \* "invalid ... response"
    [] c.sub = "code" /\ c.kind # "content" -> "error"             \* own code, body too short for the fixed part
    [] c.kind \in {"pong", "nodes", "accept"} /\ ~Decodes(c) -> "error"
    [] c.kind = "nodes" /\ c.n = FixNodes -> "ok"                 \* total + offset, an empty list
    [] c.kind \in {"pong", "nodes", "accept"} /\ c.n >= 0 -> "error"
    [] OTHER -> "any"
Expect(c) ==
  CASE c.ch = "req"  -> ExpectReq(c)
    [] c.ch = "resp" -> ExpectResp(c)
    [] c.ch = "utp"  -> "empty"
    [] OTHER -> "any"
Handle(c, D) == IF PanicsToday(Facts(c), D) THEN "panic" ELSE Expect(c)

\* =========================================================================================================
\* Sequences: <= MaxSeq inputs from <= 2 senders.  The world keeps what later inputs can observe.
MaxSeq  == 3
Senders == {1, 2}
\* a reduced alphabet: one representative per behaviour class of every channel, plus every state-changing input
SeqShapes ==
  LET R(net) == [Z EXCEPT !.ch = "req", !.net = net]
      K(net) == CHOOSE s \in KeySels(net) : \A t \in KeySels(net) : s <= t IN
  UNION {
   {[R(net) EXCEPT !.kind = "none"],
    [R(net) EXCEPT !.kind = "raw", !.code = 255, !.n = 1],
    [R(net) EXCEPT !.kind = "ping", !.code = PING, !.sv = PtClientInfo, !.pl = "valid"],
    [R(net) EXCEPT !.kind = "ping", !.code = PING, !.sv = PtClientInfo, !.pl = "one", !.pn = 1],
    [R(net) EXCEPT !.kind = "findnodes", !.code = FINDNODES, !.cnt = 2, !.sub = "mix"],
    [R(net) EXCEPT !.kind = "findcontent", !.code = FINDCONTENT, !.kc = "exact", !.ksel = K(net), !.kn = 1 + KeyBody(net, K(net))],
    [R(net) EXCEPT !.kind = "findcontent", !.code = FINDCONTENT, !.kc = "empty", !.ksel = -1, !.kn = 0],
    [R(net) EXCEPT !.kind = "offer", !.code = OFFER, !.cnt = 1, !.kc = "exact", !.ksel = K(net), !.kn = 1 + KeyBody(net, K(net)), !.ver = 1],
    [R(net) EXCEPT !.kind = "offer", !.code = OFFER, !.cnt = 2, !.kc = "empty", !.ksel = -1, !.kn = 0, !.ver = 1],
    [Z EXCEPT !.ch = "pipe", !.net = net, !.kc = "exact", !.ksel = K(net), !.kn = 1 + KeyBody(net, K(net)), !.cc = "valid"],
    [Z EXCEPT !.ch = "pipe", !.net = net, !.kc = "sel", !.ksel = K(net), !.kn = 1, !.cc = "fill32"],
    [Z EXCEPT !.ch = "put", !.net = net, !.kc = "exact", !.ksel = K(net), !.kn = 1 + KeyBody(net, K(net)), !.cc = "valid"],
    [Z EXCEPT !.ch = "get", !.net = net, !.kc = "exact", !.ksel = K(net), !.kn = 1 + KeyBody(net, K(net))]} : net \in Nets}
  \cup {[Z EXCEPT !.ch = "put", !.net = "beacon", !.kc = k, !.ksel = SummariesSel, !.kn = n, !.cc = x] :
          <<k, n, x>> \in {<<"exact", 9, "valid">>, <<"short1", 2, "one">>, <<"long", 10, "valid">>, <<"sel", 1, "empty">>}}
  \cup {[Z EXCEPT !.ch = c, !.net = "beacon", !.kc = k, !.ksel = SummariesSel, !.kn = n] :
          c \in {"get"}, <<k, n>> \in {<<"exact", 9>>, <<"short1", 2>>, <<"sel", 1>>}}
  \cup {[Z EXCEPT !.ch = "req", !.net = "beacon", !.kind = "findcontent", !.code = FINDCONTENT, !.kc = "short1", !.ksel = SummariesSel, !.kn = 2]}
  \cup {[Z EXCEPT !.ch = "resp", !.kind = "content", !.code = CONTENT, !.net = "history", !.sub = "nosel", !.n = 0],
        [Z EXCEPT !.ch = "resp", !.kind = "pong", !.code = PONG, !.net = "history", !.sv = PtClientInfo, !.pl = "valid"],
        [Z EXCEPT !.ch = "utp", !.kind = "syn", !.sv = 1, !.sub = "none", !.pn = 0, !.st = "noconn"],
        [Z EXCEPT !.ch = "utp", !.kind = "raw", !.n = 1]}

\* the effect of an input on the world: the summaries record of the beacon store (its length class)
SumAfter(sum, c) ==
  IF c.ch = "put" /\ c.net = "beacon" /\ c.ksel = SummariesSel /\ c.kn >= 1
  THEN (IF sum < 0 THEN (c.kn - 1) + (IF c.cc = "valid" THEN 1000 ELSE IF c.cc = "one" THEN 1 ELSE 0)
        ELSE IF sum >= 8 /\ c.kn - 1 <= 8 THEN sum ELSE sum)
  ELSE sum
FactsIn(c, sum) == [Facts(c) EXCEPT !.sumlen = sum]

=============================================================================
