----------------------------- MODULE Trace_LCBoot -----------------------------
(* Property-level judge (monitor mode) for traces of the real ConsensusLightClient.Sync run against a scripted  *)
(* ConsensusAPI (boot mode of the lightclient engine).  One "boot" event per Sync: the facets f of the          *)
(* bootstrap the API handed over (as BUILT by the harness), the projection of the store before and after         *)
(* (fingerprint of the finalized / optimistic header's root, names of the committees), the fingerprint of the    *)
(* bootstrap's beacon header and the name of the committee it carries, the API calls the client made.            *)
(*   accepted     the store changed                                                                              *)
(*   bootSound    accepted => the bootstrap satisfies LightClientBoot's rule (BootOKs) for the event's strictness*)
(*                (hdr: the checkpoint is the root of the light-client header - what today's code compares - or  *)
(*                of the beacon header - the consensus specification's meaning; both count as "checkpoint")      *)
(*   bootStore    accepted => the store is <<header, header, carried committee, no next committee>>              *)
(*   callsOrder   the bootstrap is fetched first and nothing else is fetched unless it was accepted              *)
(*   noPanic                                                                                                     *)
EXTENDS LightClientBoot, Sequences, Json

Trace == ndJsonDeserialize("trace.ndjson")
VARIABLES l, viol
tvars == <<store, phase, syncs, l, viol>>
Failed(r) == {c \in DOMAIN r : ~r[c]}

B(f) == [api |-> f.api, type |-> f.type, hdr |-> IF f.hdr = "other" THEN "other" ELSE "checkpoint", com |-> f.com, age |-> f.age]
Judge(e) ==
  LET accepted == e.post # e.pre IN
  [ bootSound  |-> accepted => BootOKs(B(e.f), e.f.strict),
    bootStore  |-> accepted => e.post = [set |-> TRUE, fin |-> e.hdr, opt |-> e.hdr, cur |-> e.com, next |-> "none"],
    callsOrder |-> /\ Len(e.calls) >= 1 /\ e.calls[1] = "bootstrap"
                   /\ Len(e.calls) > 1 => accepted,
    noPanic    |-> e.res # "panic" ]

TInit == Init /\ l = 1 /\ viol = {}
TNext == /\ l <= Len(Trace) /\ l' = l + 1
         /\ viol' = viol \cup (IF Trace[l].ev = "boot" THEN {<<l, c>> : c \in Failed(Judge(Trace[l]))} ELSE {})
         /\ UNCHANGED <<store, phase, syncs>>
TSpec == TInit /\ [][TNext]_tvars
Done == l = Len(Trace) + 1
Report == Done => PrintT(<<"VIOL", ToJson(viol)>>)
TraceAccepted == TLCGet("stats").diameter = Len(Trace) + 1
===============================================================================
