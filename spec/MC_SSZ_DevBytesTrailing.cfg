SPECIFICATION Spec
CONSTANTS
  OffW = 1
  Devs = {"TrailingFixed"}
  Mode = "bytes"
  MaxLen = 5
  Sym = 7
  TruncAll = 64
INVARIANTS Canonical
CHECK_DEADLOCK FALSE
