--------------------------- MODULE Trace_FindNodes ---------------------------
(* Judge for FINDNODES observations (C11): "fn.responder" = a reply of a real node to a raw      *)
(* discv5 asker, "fn.asker" = what a real node kept from a scripted NODES reply.                 *)
EXTENDS FindNodes, SequencesExt
Trace == ndJsonDeserialize("trace.ndjson")
VARIABLES l, viol
Failed(r) == {f \in DOMAIN r : ~r[f]}
Init == l = 1 /\ viol = {}
Next == /\ l <= Len(Trace) /\ l' = l + 1
        /\ LET e == Trace[l] IN
           CASE e.ev = "fn.responder" -> viol' = viol \cup {<<l, f>> : f \in Failed(ResponderOK(e))}
             [] e.ev = "fn.noreply" -> viol' = (IF e.maxdg <= MaxPacket THEN viol ELSE viol \cup {<<l, "onePacket">>})
             [] e.ev = "fn.asker" -> viol' = viol \cup {<<l, f>> : f \in Failed(AskerOK(e))}
             [] OTHER -> UNCHANGED viol
Spec == Init /\ [][Next]_<<l, viol>>
Done == l = Len(Trace) + 1
Report == Done => PrintT(<<"VIOL", ToJson(viol)>>)
TraceAccepted == TLCGet("stats").diameter = Len(Trace) + 1
===============================================================================
