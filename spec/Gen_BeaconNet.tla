---------------------------- MODULE Gen_BeaconNet ----------------------------
(* Behaviour generation for the beacon network's intake (simulate mode): BeaconNet's actions with a   *)
(* history variable recording the environment's choices (the batches and a restart now and then).     *)
(* The items offered are the acceptable ones and the NEAR MISSES (exactly one facet wrong), so that    *)
(* every rule of the validator is the only thing standing between an item and the store.               *)
EXTENDS BeaconNet, Json
VARIABLES hist, pick   \* pick: the kind and goodness chosen for the next item (two-stage choice: simulation picks uniformly among successors)
gvars == <<boot, upd, fin, opt, hs, open, nops, left, cur, res, acc, rej, nb, hist, pick>>

\* the facets of an item that are wrong
Wrong(i) ==
  (IF ~i.dec THEN {"dec"} ELSE {}) \cup
  (IF ~i.kdec /\ i.kind # "bootstrap" THEN {"kdec"} ELSE {}) \cup
  (IF i.fork # "electra" /\ i.kind \in {"bootstrap", "finality", "optimistic"} THEN {"fork"} ELSE {}) \cup
  (IF i.aux # "ok" THEN {"aux"} ELSE {}) \cup
  (IF i.kind = "update" /\ i.kb # Len(i.tags) THEN {"bind"} ELSE {}) \cup
  (IF i.kind = "finality" /\ i.ka > i.cv THEN {"bind"} ELSE {}) \cup
  (IF i.kind = "optimistic" /\ i.ka # i.cv THEN {"bind"} ELSE {}) \cup
  (IF i.kind = "summaries" /\ i.ka # i.cv THEN {"bind"} ELSE {}) \cup
  (IF i.kind \in {"unknown", "emptykey"} THEN {"kind"} ELSE {})
Offered(i) == Fits(i) /\ Cardinality(Wrong(i)) <= 1 /\ (i.kind \in {"unknown", "emptykey"} => i.kdec /\ i.dec /\ i.fork = "electra")

NoPick == <<"none", TRUE>>
GInit == NInit /\ hist = <<>> /\ pick = NoPick
Std == <<boot, upd, fin, opt, hs, open, nops, left, cur, res, acc, rej, nb>>
GNext == \/ nb < MaxBatches /\ \E n \in 1..MaxBatch : Receive(n) /\ hist' = Append(hist, [op |-> "batch", n |-> n, item |-> NoItem]) /\ UNCHANGED pick
         \/ /\ res = "run" /\ cur = NoItem /\ left > 0 /\ pick = NoPick
            /\ \E k \in Kinds, good \in BOOLEAN, w \in 1..3 : (k \in {"unknown", "emptykey"} => ~good /\ w = 1) /\ (w > 1 => good) /\ pick' = <<k, good>>
            /\ UNCHANGED <<Std, hist>>
         \/ /\ pick # NoPick
            /\ \E i \in ItemsOf(pick[1]) : Offered(i) /\ Verdict(i) = pick[2] /\ Validate(i) /\ hist' = Append(hist, [op |-> "item", n |-> 0, item |-> i])
            /\ pick' = NoPick
         \/ StoreItem /\ UNCHANGED <<hist, pick>>
         \/ Finish /\ UNCHANGED <<hist, pick>>
         \/ /\ res # "run" /\ nb < MaxBatches /\ nb > 0 /\ hist # <<>> /\ hist[Len(hist)].op # "restart"
            /\ fin' = NoRec /\ opt' = NoRec /\ hist' = Append(hist, [op |-> "restart", n |-> 0, item |-> NoItem])
            /\ UNCHANGED <<boot, upd, hs, open, nops, left, cur, res, acc, rej, nb, pick>>
GSpec == GInit /\ [][GNext]_gvars
GenDone == (nb = MaxBatches /\ res # "run") => PrintT(<<"CASE", ToJson(hist)>>)
===============================================================================
