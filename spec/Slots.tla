-------------------------------- MODULE Slots --------------------------------
(* The transfer-slot discipline of C16 in isolation (the permit controller of portalwire and the   *)
(* release-once permits handed to offers), for ANY number of requests: a request takes a slot only  *)
(* when one is free, gives it back at most once, and the controller's counter always equals the     *)
(* number of requests holding a slot.  TypeOK /\ Inv is inductive; it is checked for all reachable  *)
(* AND unreachable states of the bounded instance by Apalache (Init => IndInv, IndInv /\ Next =>    *)
(* IndInv') and proved for arbitrary finite Req with TLAPS (proofs/Slots_proofs.tla).                *)
(* Offer.tla's inHeld / outHeld and oPermit / rPermit are two instances of this discipline; the     *)
(* real controller's acquire / release events are judged by Trace_Permits.                           *)
EXTENDS Integers, FiniteSets

CONSTANTS
  \* @type: Set(Int);
  Req,
  \* @type: Int;
  Limit,
  \* @type: Bool;
  ReleaseOnce   \* TRUE: the code's release-once permit (CompareAndSwap); FALSE: a permit whose every Release call gives a slot back (negative control)

VARIABLES
  \* @type: Int -> Str;
  st,      \* request -> "new" | "held" | "released" | "refused"
  \* @type: Int;
  used     \* the controller's counter

vars == <<st, used>>
Held == {r \in Req : st[r] = "held"}

Init == st = [r \in Req |-> "new"] /\ used = 0
\* TryAcquire: succeeds only below the limit
Take(r) == /\ st[r] = "new"
           /\ IF used < Limit THEN st' = [st EXCEPT ![r] = "held"] /\ used' = used + 1
                              ELSE st' = [st EXCEPT ![r] = "refused"] /\ used' = used
\* Release of a release-once permit: the first call gives the slot back, later calls do nothing
Release(r) == /\ st[r] \in {"held", "released"}
              /\ IF st[r] = "held" \/ ~ReleaseOnce THEN st' = [st EXCEPT ![r] = "released"] /\ used' = used - 1
                                                   ELSE UNCHANGED vars
Next == \E r \in Req : Take(r) \/ Release(r)
Spec == Init /\ [][Next]_vars

TypeOK == st \in [Req -> {"new", "held", "released", "refused"}] /\ used \in Int
Inv == used = Cardinality(Held) /\ used >= 0 /\ used <= Limit
IndInv == TypeOK /\ Inv
\* consequences
WithinLimit == Cardinality(Held) <= Limit
AllBackWhenDone == (\A r \in Req : st[r] \in {"released", "refused", "new"}) => used = 0
===============================================================================
