SPECIFICATION Spec
CONSTANTS
  PeriodLen = 3
  MaxSlot = 6
  Now = 6
  Coms = {"A", "B"}
  Parts = {0, 1, 3, 4, 6}
  N = 6
  Devs = {}
INVARIANTS TypeOK OptAhead NeverRotateToNone
PROPERTIES Sound Monotone OptAheadStep NeedsTwoThirds RotationToStoredNext
VIEW View
CHECK_DEADLOCK FALSE
