SPECIFICATION Spec
CONSTANTS
  Devs = {"EmptyTalkReq"}
  Emit = FALSE
  Full = FALSE
  Part = "all"
INVARIANTS NoPanic
CHECK_DEADLOCK FALSE
