----------------------------- MODULE MC_Framing -----------------------------
(* Exhaustive checks of the framing specification and case generation (C15).                        *)
(*                                                                                                  *)
(* Mode "streams": every byte string of at most MaxLen symbols over the whole alphabet 0..2*Base-1  *)
(*                 (reduced geometry).  Laws: the left-to-right procedure Split decides the          *)
(*                 declarative notion of a framing (Decides, Unique, Agrees), the image of Join is   *)
(*                 exactly the accepted streams with minimal prefixes (Canonical), every rejected    *)
(*                 stream is rejected for a cause that is what the property says it is               *)
(*                 (RejectCauses), and the single-item rules (SingleExact, SingleVsSplit, FirstLaw). *)
(* Mode "lists":   every list of at most MaxItems items with lengths on the prefix boundaries and     *)
(*                 contents that look like prefixes: Split(Join(xs)) = xs (Inverse).                 *)
(* Mode "shapes":  real geometry; streams assembled from a catalogue of chunk shapes (good, padded,   *)
(*                 short by one, prefix only, beyond the integer range, overflowing, truncated) in    *)
(*                 run-length form.  The run-level laws are checked on each and the stream with its   *)
(*                 expected class is printed as a CASE for the Go engine.                            *)
EXTENDS Framing, Json

CONSTANTS Mode, MaxLen, MaxItems, TripleSet

VARIABLE c
Alphabet == 0..(2 * Base - 1)
Rep(b, n) == [i \in 1..n |-> b]
Min(a, b) == IF a < b THEN a ELSE b
SeqsUpTo(S, n) == UNION {[1..k -> S] : k \in 0..n}

\* ---- lists -----------------------------------------------------------------------------------
ItemLens  == {0, 1, Base - 1, Base, Base^2 - 1, Base^2, 2^MaxBits - 1}
ItemFills == {0, Base, 2 * Base - 1}
ItemSpace == {IF n = 0 THEN <<>> ELSE << <<b, n>> >> : n \in ItemLens, b \in ItemFills}

\* ---- chunk shapes ----------------------------------------------------------------------------
F == 2 * Base - 1                       \* the all-ones byte
Chunk(hdr, b, n) == [hdr |-> hdr, b |-> b, n |-> n]
\* (long zero fills are left out: read out of step they are thousands of empty items, which the real code handles but
\*  which costs the recursive reference quadratic time; the Go engine's own generator covers 64-item lists)
FitBig   == IF Groups >= 4 THEN {Base^3 - 1, Base^3} ELSE {}
FitChunks    == {Chunk(Enc(0), 0, 0)} \cup {Chunk(Enc(n), b, n) : n \in {1, Base - 1, Base}, b \in {0, Base, F}}
                   \cup {Chunk(Enc(n), b, n) : n \in {Base^2 - 1, Base^2}, b \in {Base, F}}
                   \cup {Chunk(Enc(n), Base + 1, n) : n \in FitBig}
Less1Chunks  == {Chunk(Enc(n), Base, n - 1) : n \in {1, Base - 1, Base, Base^2} \cup (FitBig \ {Base^3 - 1})}
NoneChunks   == {Chunk(Enc(n), 0, 0) : n \in {1, Base, 2^TopShift - 1}}
PadChunks    == {Chunk(<<Base, 0>>, 0, 0), Chunk(<<Base + 1, 0>>, F, 1), Chunk(<<F, 0>>, F, Base - 1),
                 Chunk(<<Base, Base + 1, 0>>, 5, Base), Chunk(Rep(Base, Groups - 1) \o <<0>>, 0, 0)}
BeyondHdrs   == {Rep(F, Groups - 1) \o <<TopLimit - 1>>, Rep(F, Groups - 1) \o <<Min(TopRep, TopLimit) - 1>>,
                 Rep(Base, Groups - 1) \o <<1>>}
BeyondChunks == {Chunk(h, 7, n) : h \in BeyondHdrs, n \in {0, 3}}
OvfHdrs      == {Rep(Base, Groups - 1) \o <<TopLimit>>, Rep(F, Groups - 1) \o <<Base - 1>>,
                 Rep(Base, Groups) \o <<0>>, Rep(F, Groups) \o <<1>>}
OvfChunks    == {Chunk(h, 0, n) : h \in OvfHdrs, n \in {0, 3}}
TruncChunks  == {Chunk(<<Base>>, 0, 0), Chunk(<<F, F>>, 0, 0), Chunk(Rep(Base, Groups - 1), 0, 0)}
Catalogue    == FitChunks \cup Less1Chunks \cup NoneChunks \cup PadChunks \cup BeyondChunks \cup OvfChunks \cup TruncChunks
SmallCat     == {Chunk(Enc(0), 0, 0), Chunk(Enc(1), Base, 1), Chunk(Enc(2), 0, 1), Chunk(Enc(Base), F, Base),
                 Chunk(Enc(Base), Base, Base - 1), Chunk(<<Base, 0>>, 0, 0), Chunk(<<Base + 1, 0>>, F, 1),
                 Chunk(Rep(Base, Groups - 1) \o <<TopLimit>>, 0, 0), Chunk(Rep(Base, Groups) \o <<0>>, 0, 0),
                 Chunk(<<Base>>, 0, 0), Chunk(Rep(F, Groups - 1) \o <<TopLimit - 1>>, 7, 3)}
MediumCat    == SmallCat \cup {Chunk(Enc(Base - 1), F, Base - 1), Chunk(Enc(Base^2), Base, Base^2), Chunk(Enc(Base^2), Base, Base^2 - 1),
                              Chunk(Enc(2^TopShift - 1), 0, 0), Chunk(<<F, 0>>, F, Base - 1), Chunk(Rep(Base, Groups - 1) \o <<0>>, 0, 0),
                              Chunk(Rep(F, Groups - 1) \o <<Min(TopRep, TopLimit) - 1>>, 7, 0), Chunk(Rep(F, Groups - 1) \o <<Base - 1>>, 0, 3),
                              Chunk(Rep(F, Groups) \o <<1>>, 0, 3), Chunk(<<F, F>>, 0, 0), Chunk(Enc(1), 0, 0)}
TripleCat    == IF TripleSet = "all" THEN Catalogue ELSE IF TripleSet = "medium" THEN MediumCat ELSE SmallCat

RECURSIVE BuildRaw(_)
BuildRaw(chs) == IF chs = <<>> THEN <<>>
                 ELSE AsRuns(Head(chs).hdr) \o << <<Head(chs).b, Head(chs).n>> >> \o BuildRaw(Tail(chs))
Build(chs) == Canon(BuildRaw(chs))

\* ---- case space ------------------------------------------------------------------------------
\* The space is cut into parts (by the first two symbols / the first item / the first chunk); Init offers the
\* parts, the one step picks a case of the part - so TLC's workers share the enumeration.
Parts == CASE Mode = "streams" -> SeqsUpTo(Alphabet, 2)
           [] Mode = "lists"   -> SeqsUpTo(ItemSpace, 1)
           [] Mode = "shapes"  -> SeqsUpTo(Catalogue, 1)
CasesOf(p) ==
  CASE Mode = "streams" -> IF Len(p) < 2 THEN {[kind |-> "stream", s |-> p]}
                           ELSE {[kind |-> "stream", s |-> p \o t] : t \in SeqsUpTo(Alphabet, MaxLen - 2)}
    [] Mode = "lists"   -> IF p = <<>> THEN {[kind |-> "list", xs |-> p]}
                           ELSE {[kind |-> "list", xs |-> p \o t] : t \in SeqsUpTo(ItemSpace, MaxItems - 1)}
    [] Mode = "shapes"  -> IF p = <<>> THEN {[kind |-> "shape", chs |-> p]}
                           ELSE {[kind |-> "shape", chs |-> p \o t] : t \in SeqsUpTo(Catalogue, 1)}
                                \cup (IF p[1] \in TripleCat THEN {[kind |-> "shape", chs |-> p \o t] : t \in [1..2 -> TripleCat]} ELSE {})

Init == c \in [kind : {"part"}, p : Parts]
Next == c.kind = "part" /\ c' \in CasesOf(c.p)
Spec == Init /\ [][Next]_c

\* ---- laws over all streams (plain sequences, reduced geometry) ---------------------------------
IsStream == c.kind = "stream"
S  == c.s
RS == AsRuns(S)
SP == Split(RS)
Ends(sp) == {sp.ext[i].off + sp.ext[i].len : i \in 1..(Len(sp.ext) - 1)}

Decides   == IsStream => (SP.ok <=> Parses(S) # {})
Unique    == IsStream => Cardinality(Parses(S)) <= 1
Agrees    == IsStream => (SP.ok => Parses(S) = {Ends(SP)})
Canonical == IsStream => (SP.ok => (SP.minimal <=> Expand(Join(Items(RS, SP))) = S))
Covers    == IsStream => (SP.ok => \A i \in 1..Len(SP.ext) : Expand(ItemOf(RS, SP.ext[i])) = SubSeq(S, SP.ext[i].off + 1, SP.ext[i].off + SP.ext[i].len))
RejectCauses ==
  IsStream => (~SP.ok =>
     CASE SP.why = "overflow" ->   \* nothing appended to the stream can repair it
            \A b \in Alphabet : Split(AsRuns(Append(S, b))) = [ok |-> FALSE, why |-> "overflow", at |-> SP.at]
       [] SP.why \in {"truncated", "exceeds"} ->   \* a proper prefix of a framing: enough zero bytes complete it
            /\ Split(AsRuns(S \o Rep(0, 2^MaxBits + Groups))).ok
            /\ (SP.why = "truncated" <=> \A i \in (SP.at + 1)..Len(S) : Cont(S[i]))
       [] OTHER -> FALSE)
SingleExact   == IsStream => (Single(RS).cls # "MustReject" <=> IsChunk(S))
SingleVsSplit == IsStream => (Single(RS).cls = "MustAccept" <=> (SP.ok /\ SP.minimal /\ Len(SP.ext) = 1))
FirstLaw      == IsStream => LET f == First(RS) IN
                   /\ f.cls # "MustReject" <=> \E p \in 1..Len(S) : IsChunk(SubSeq(S, 1, p))
                   /\ f.cls # "MustReject" => /\ IsChunk(SubSeq(S, 1, f.rest.off))
                                               /\ f.rest.off + f.rest.len = Len(S)
                                               /\ (SP.ok => f.ext.len = SP.ext[1].len /\ f.ext.off = SP.ext[1].off)

\* ---- laws over lists ----------------------------------------------------------------------------
IsList == c.kind = "list"
Inverse == IsList =>
   LET j == Canon(Join(c.xs))  sp == Split(j) IN
   /\ sp.ok /\ sp.minimal /\ Len(sp.ext) = Len(c.xs)
   /\ \A i \in 1..Len(c.xs) : Canon(ItemOf(j, sp.ext[i])) = Canon(c.xs[i])
   /\ Len(c.xs) = 1 => LET u == Single(j) IN u.cls = "MustAccept" /\ Canon(ItemOf(j, u.ext)) = Canon(c.xs[1])

\* ---- shapes: run-level laws at real geometry, and the generated cases ---------------------------
IsShape == c.kind = "shape"
B   == Build(c.chs)
BSP == Split(B)
ShapeCanonical == IsShape => (BSP.ok => (BSP.minimal <=> Canon(Join(Items(B, BSP))) = B))
ShapeSingle    == IsShape => (Single(B).cls = "MustAccept" <=> (BSP.ok /\ BSP.minimal /\ Len(BSP.ext) = 1))
Emit == IsShape => PrintT(<<"CASE", ToJson([stream |-> B, cls |-> Class(BSP),
                                            why |-> IF BSP.ok THEN "" ELSE BSP.why,
                                            n |-> IF BSP.ok THEN Len(BSP.ext) ELSE -1,
                                            single |-> Single(B).cls, first |-> First(B).cls])>>)
===============================================================================
