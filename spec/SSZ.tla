--------------------------------- MODULE SSZ ---------------------------------
(* Schema-driven reference codec for the SSZ layouts shisui uses on the wire (C14).                 *)
(*                                                                                                  *)
(* A schema is a record:                                                                            *)
(*   [t |-> "uint",   n]          n-byte unsigned integer, kept as its n little-endian bytes         *)
(*   [t |-> "bytesN", n, k]       byte vector of n bytes (k: chunk size of the Go [][]byte, binding  *)
(*                                information only)                                                  *)
(*   [t |-> "bytelist", max]      byte list of at most max bytes                                     *)
(*   [t |-> "bitlist",  max]      bitlist of at most max bits, kept as raw bytes with delimiter bit  *)
(*   [t |-> "fixlist",  max, n]   list of at most max elements of n bytes each                       *)
(*   [t |-> "dynlist",  max, e]   list of at most max variable-size elements of schema e:            *)
(*                                offset table, then the elements                                    *)
(*   [t |-> "nibbles",  max]      state-network path: packed nibbles with a parity flag byte         *)
(*   [t |-> "container", f]       fields f[1..]: fixed fields inline, variable fields as offsets      *)
(*                                into the variable part, in field order                             *)
(* Values mirror the schema: byte strings for the first four and nibbles (one nibble per byte),       *)
(* sequences of byte strings for the lists, a sequence of field values for a container.              *)
(* Byte strings are run-length sequences <<byte, count>> in canonical form (no empty run,            *)
(* neighbours differ), so a 2048-byte key is one element and the real limits can be used as they are. *)
(*                                                                                                  *)
(* OffW is the width of an offset (4; 1 in the exhaustive byte-string configuration).                *)
(* Dec is the strict decoder: the whole scope must be consumed, the first offset equals the size of   *)
(* the fixed part, offsets never decrease and stay inside the scope, an offset table is never empty,   *)
(* limits are enforced.  Devs switches on lenient variants (what real decoders get wrong).            *)
EXTENDS Integers, Sequences, FiniteSets, TLC, SequencesExt

CONSTANTS OffW, Devs

DevNames == {"ZeroTableEmpty",     \* a scope of exactly OffW zero bytes decodes as the empty dynlist (fastssz UnmarshalDynamic)
             "TrailingFixed",      \* a container without variable fields ignores bytes behind its fixed part (ztyp)
             "NoFirstOffsetCheck", \* the first offset of a container may point behind the fixed part (gap)
             "AllowDecreasing",    \* a decreasing offset yields an empty field instead of an error
             "NoLimit",            \* list limits are not enforced when decoding
             "BareListMin"}        \* a bare dynlist shorter than OffW bytes (the empty list!) is refused
ASSUME Devs \subseteq DevNames
Beyond == -1

\* TLC evaluates LET definitions and operator arguments by name (every mention re-evaluates the expression).  Let1 binds
\* a value once, through a singleton set; "\o <<>>" turns a lazily evaluated function into a stored tuple.
Let1(x, F(_)) == CHOOSE r \in {F(y) : y \in {x}} : TRUE

\* ---- run-length byte strings ---------------------------------------------------------------------
\* (TLC evaluates operator arguments and LET definitions by name, so a recursion over a long sequence costs quadratic
\*  time or worse; everything that walks a byte string is therefore a FoldLeft, which TLC runs natively.)
Total(rs) == FoldLeft(LAMBDA acc, r : acc + r[2], 0, rs)

IsCanon(rs) == /\ \A i \in 1..Len(rs) : rs[i][2] >= 1
               /\ \A i \in 1..(Len(rs) - 1) : rs[i][1] # rs[i + 1][1]
Canon(rs) == FoldLeft(LAMBDA acc, r : IF r[2] = 0 THEN acc
                                      ELSE IF acc # <<>> /\ acc[Len(acc)][1] = r[1]
                                           THEN [acc EXCEPT ![Len(acc)] = <<r[1], acc[Len(acc)][2] + r[2]>>]
                                           ELSE Append(acc, r), <<>>, rs)
Flatten(xs) == FoldLeft(LAMBDA acc, x : acc \o x, <<>>, xs)
Cat(a, b) == Canon(a \o b)
CatAll(xs) == Canon(Flatten(xs))
Fill(b, n) == IF n = 0 THEN <<>> ELSE << <<b, n>> >>

\* the n bytes from offset off on (fewer if the string ends)
Slice(rs, off, n) ==
  FoldLeft(LAMBDA acc, r :
             LET lo == IF acc.pos > off THEN acc.pos ELSE off
                 hi == IF acc.pos + r[2] < off + n THEN acc.pos + r[2] ELSE off + n IN
             [pos |-> acc.pos + r[2], out |-> IF hi > lo THEN Append(acc.out, <<r[1], hi - lo>>) ELSE acc.out],
           [pos |-> 0, out |-> <<>>], rs).out
ByteAt(rs, pos) == Slice(rs, pos, 1)[1][1]
Plain(rs) == FoldLeft(LAMBDA acc, r : acc \o [i \in 1..r[2] |-> r[1]], <<>>, rs)
AllZero(rs) == \A i \in 1..Len(rs) : rs[i][1] = 0

\* little-endian integers of w bytes
RECURSIVE LE(_, _)
LE(n, w) == IF w = 0 THEN <<>> ELSE << <<n % 256, 1>> >> \o LE(n \div 256, w - 1)
RECURSIVE ReadLEFrom(_, _, _)
ReadLEFrom(rs, pos, w) ==        \* Beyond if the value does not fit 31 bits
  IF w = 0 THEN 0
  ELSE LET hi == ReadLEFrom(rs, pos + 1, w - 1) IN
       IF hi = Beyond \/ hi >= 2^23 THEN Beyond ELSE ByteAt(rs, pos) + 256 * hi
ReadOff(rs, pos) == ReadLEFrom(rs, pos, OffW)
RECURSIVE LEAt(_, _, _)
LEAt(p, i, w) ==                 \* the same on a plain byte sequence, 1-based index
  IF w = 0 THEN 0
  ELSE LET hi == LEAt(p, i + 1, w - 1) IN IF hi = Beyond \/ hi >= 2^23 THEN Beyond ELSE p[i] + 256 * hi
SetBytes(rs, pos, new) == Canon(Slice(rs, 0, pos) \o new \o Slice(rs, pos + Total(new), Total(rs) - pos - Total(new)))

\* ---- schema constructors ---------------------------------------------------------------------------
U(n)       == [t |-> "uint", n |-> n]
B(n)       == [t |-> "bytesN", n |-> n, k |-> n]
BV(n, k)   == [t |-> "bytesN", n |-> n, k |-> k]
BL(max)    == [t |-> "bytelist", max |-> max]
BIT(max)   == [t |-> "bitlist", max |-> max]
FL(max, n) == [t |-> "fixlist", max |-> max, n |-> n]
DL(max, e) == [t |-> "dynlist", max |-> max, e |-> e]
NIB(max)   == [t |-> "nibbles", max |-> max]
C(f)       == [t |-> "container", f |-> f]

RECURSIVE IsFixed(_)
IsFixed(s) == \/ s.t \in {"uint", "bytesN"}
              \/ s.t = "container" /\ \A i \in 1..Len(s.f) : IsFixed(s.f[i])
RECURSIVE FixedSize(_)
RECURSIVE SumSlots(_, _)
Slot(s) == IF IsFixed(s) THEN FixedSize(s) ELSE OffW
SumSlots(f, i) == IF i > Len(f) THEN 0 ELSE Slot(f[i]) + SumSlots(f, i + 1)
FixedSize(s) == IF s.t = "container" THEN SumSlots(s.f, 1) ELSE s.n     \* for a container: size of its fixed part
SlotPos(f, i) == SumSlots(f, 1) - SumSlots(f, i)                       \* position of field i's slot in the fixed part
VarIdx(f) == SelectSeq([i \in 1..Len(f) |-> i], LAMBDA i : ~IsFixed(f[i]))

\* ---- bit length of the delimiter byte -----------------------------------------------------------------
BitLen(b) == IF b >= 128 THEN 8 ELSE IF b >= 64 THEN 7 ELSE IF b >= 32 THEN 6 ELSE IF b >= 16 THEN 5
             ELSE IF b >= 8 THEN 4 ELSE IF b >= 4 THEN 3 ELSE IF b >= 2 THEN 2 ELSE IF b >= 1 THEN 1 ELSE 0

\* ---- is a value inside the limits of its schema (and well-formed at all) ---------------------------------
RECURSIVE Within(_, _)
Within(s, v) ==
  CASE s.t \in {"uint", "bytesN"} -> Total(v) = s.n
    [] s.t = "bytelist" -> Total(v) <= s.max
    [] s.t = "bitlist"  -> LET n == Total(v) IN
                           n >= 1 /\ ByteAt(v, n - 1) # 0 /\ 8 * (n - 1) + BitLen(ByteAt(v, n - 1)) - 1 <= s.max
    [] s.t = "fixlist"  -> Len(v) <= s.max /\ \A i \in 1..Len(v) : Total(v[i]) = s.n
    [] s.t = "dynlist"  -> Len(v) <= s.max /\ \A i \in 1..Len(v) : Within(s.e, v[i])
    [] s.t = "nibbles"  -> Total(v) <= s.max /\ \A i \in 1..Len(v) : v[i][1] <= 15
    [] s.t = "container" -> Len(v) = Len(s.f) /\ \A i \in 1..Len(s.f) : Within(s.f[i], v[i])

\* ---- encoder (never refuses: limits are the decoder's and the judge's business) -------------------------
RECURSIVE PackNibbles(_)
PackNibbles(ns) ==       \* ns: plain sequence of an even number of nibbles
  IF ns = <<>> THEN <<>> ELSE << <<16 * ns[1] + ns[2], 1>> >> \o PackNibbles(SubSeq(ns, 3, Len(ns)))

\* where consecutive parts start when the first one starts at `first`, and the offset table made of those positions
Starts(parts, first) == FoldLeft(LAMBDA acc, p : [at |-> acc.at + Total(p), out |-> Append(acc.out, acc.at)], [at |-> first, out |-> <<>>], parts).out
OffTable(parts, first) == Let1(Starts(parts, first), LAMBDA st : Flatten([i \in 1..Len(st) |-> LE(st[i], OffW)]))

RECURSIVE Enc(_, _)
Enc(s, v) ==
  CASE s.t \in {"uint", "bytesN", "bytelist", "bitlist"} -> v
    [] s.t = "fixlist" -> CatAll(v)
    [] s.t = "nibbles" -> Let1(Plain(v), LAMBDA ns :
                          IF Len(ns) % 2 = 0 THEN Canon(<< <<0, 1>> >> \o PackNibbles(ns))
                          ELSE Canon(<< <<16 + ns[1], 1>> >> \o PackNibbles(Tail(ns))))
    [] s.t = "dynlist" -> Let1([i \in 1..Len(v) |-> Enc(s.e, v[i])] \o <<>>, LAMBDA parts :
                          Canon(OffTable(parts, OffW * Len(v)) \o Flatten(parts)))
    [] s.t = "container" ->
         Let1([i \in 1..Len(s.f) |-> Enc(s.f[i], v[i])] \o <<>>, LAMBDA parts :
         Let1(VarIdx(s.f), LAMBDA vi :
         Let1([k \in 1..Len(vi) |-> parts[vi[k]]] \o <<>>, LAMBDA vparts :
         Let1(Starts(vparts, FixedSize(s)), LAMBDA st :           \* offset of the k-th variable field
              LET KOf(i) == CHOOSE k \in 1..Len(vi) : vi[k] = i IN
              Canon(Flatten([i \in 1..Len(s.f) |-> IF IsFixed(s.f[i]) THEN parts[i] ELSE LE(st[KOf(i)], OffW)]) \o Flatten(vparts))))))

\* ---- strict decoder ------------------------------------------------------------------------------------------
OK(v)    == [ok |-> TRUE, v |-> v]
Bad(why) == [ok |-> FALSE, why |-> why]
FirstBad(rs) == rs[CHOOSE i \in 1..Len(rs) : ~rs[i].ok /\ \A j \in 1..(i - 1) : rs[j].ok]

RECURSIVE Unpack(_, _, _)
Unpack(rs, pos, n) == IF n = 0 THEN <<>>
                      ELSE LET b == ByteAt(rs, pos) IN << <<b \div 16, 1>>, <<b % 16, 1>> >> \o Unpack(rs, pos + 1, n - 1)

EndOf(raw, i, tot) == IF i < Len(raw) THEN (IF raw[i + 1] < raw[i] THEN raw[i] ELSE raw[i + 1]) ELSE tot
BadOffsets(raw, tot) == \E i \in 1..Len(raw) : \/ raw[i] = Beyond \/ raw[i] > tot
                                               \/ i < Len(raw) /\ raw[i] > raw[i + 1] /\ "AllowDecreasing" \notin Devs
\* the n offsets of a table that occupies the first o0 bytes, as a stored tuple
Table(rs, o0) == Let1(Plain(Slice(rs, 0, o0)), LAMBDA tab : [i \in 1..(o0 \div OffW) |-> LEAt(tab, (i - 1) * OffW + 1, OffW)] \o <<>>)
Collect(el) == IF \E i \in 1..Len(el) : ~el[i].ok THEN FirstBad(el) ELSE OK([i \in 1..Len(el) |-> el[i].v] \o <<>>)

RECURSIVE Dec(_, _)
RECURSIVE DecB(_, _, _)
Dec(s, rs0) == CHOOSE r \in {DecB(s, rs, Total(rs)) : rs \in {rs0}} : TRUE
DecB(s, rs, tot0) ==
  Let1(tot0, LAMBDA tot :
  CASE s.t \in {"uint", "bytesN"} -> IF tot = s.n THEN OK(rs) ELSE Bad("size")
    [] s.t = "bytelist" -> IF tot <= s.max \/ "NoLimit" \in Devs THEN OK(rs) ELSE Bad("limit")
    [] s.t = "bitlist"  -> IF tot = 0 THEN Bad("bitlist")
                           ELSE Let1(ByteAt(rs, tot - 1), LAMBDA last :
                                IF last = 0 THEN Bad("bitlist")
                                ELSE IF 8 * (tot - 1) + BitLen(last) - 1 > s.max /\ "NoLimit" \notin Devs THEN Bad("limit")
                                ELSE OK(rs))
    [] s.t = "fixlist"  -> IF tot % s.n # 0 THEN Bad("size")
                           ELSE IF tot \div s.n > s.max /\ "NoLimit" \notin Devs THEN Bad("limit")
                           ELSE OK([i \in 1..(tot \div s.n) |-> Slice(rs, (i - 1) * s.n, s.n)] \o <<>>)
    [] s.t = "nibbles"  -> IF tot = 0 THEN Bad("size")
                           ELSE Let1(ByteAt(rs, 0), LAMBDA b :
                                IF b \div 16 > 1 \/ (b \div 16 = 0 /\ b % 16 # 0) THEN Bad("nibbles")
                                ELSE Let1(Canon((IF b \div 16 = 1 THEN << <<b % 16, 1>> >> ELSE <<>>) \o Unpack(rs, 1, tot - 1)), LAMBDA ns :
                                     IF Total(ns) > s.max THEN Bad("limit") ELSE OK(ns)))
    [] s.t = "dynlist"  ->
         IF tot = 0 THEN OK(<<>>)
         ELSE IF "ZeroTableEmpty" \in Devs /\ tot = OffW /\ AllZero(rs) THEN OK(<<>>)
         ELSE IF tot < OffW THEN Bad("size")
         ELSE Let1(ReadOff(rs, 0), LAMBDA o0 :
              IF o0 = Beyond \/ o0 = 0 \/ o0 % OffW # 0 \/ o0 > tot THEN Bad("offset")
              ELSE IF o0 \div OffW > s.max /\ "NoLimit" \notin Devs THEN Bad("limit")
              ELSE Let1(Table(rs, o0), LAMBDA raw :
                   IF BadOffsets(raw, tot) THEN Bad("offset")
                   ELSE Let1([i \in 1..Len(raw) |-> Dec(s.e, Slice(rs, raw[i], EndOf(raw, i, tot) - raw[i]))] \o <<>>, Collect)))
    [] s.t = "container" ->
         Let1(FixedSize(s), LAMBDA fix :
         IF tot < fix THEN Bad("size")
         ELSE IF VarIdx(s.f) = <<>> /\ tot # fix /\ "TrailingFixed" \notin Devs THEN Bad("size")
         ELSE Let1(VarIdx(s.f), LAMBDA vi :
              Let1([k \in 1..Len(vi) |-> ReadOff(rs, SlotPos(s.f, vi[k]))] \o <<>>, LAMBDA raw :
              IF \/ BadOffsets(raw, tot)
                 \/ Len(vi) > 0 /\ raw[1] # fix /\ ("NoFirstOffsetCheck" \notin Devs \/ raw[1] < fix)
              THEN Bad("offset")
              ELSE LET KOf(i) == CHOOSE k \in 1..Len(vi) : vi[k] = i IN
                   Let1([i \in 1..Len(s.f) |->
                            IF IsFixed(s.f[i]) THEN Dec(s.f[i], Slice(rs, SlotPos(s.f, i), FixedSize(s.f[i])))
                            ELSE Dec(s.f[i], Slice(rs, raw[KOf(i)], EndOf(raw, KOf(i), tot) - raw[KOf(i)]))] \o <<>>, Collect)))))

\* a bare dynlist as the top-level schema (history EphemeralHeaderPayload): deviation BareListMin
DecTop(s, rs) == IF s.t = "dynlist" /\ "BareListMin" \in Devs /\ Total(rs) < OffW THEN Bad("size") ELSE Dec(s, rs)

\* ---- where the offsets of an encoding sit (for the mutation catalogue) ------------------------------------------
\* sequence of [pos, val, tab (table id), k (index inside the table)]
RECURSIVE Offsets(_, _, _, _)
Offsets(s, v, base, id) ==
  CASE s.t = "dynlist" ->
         Let1(Starts([i \in 1..Len(v) |-> Enc(s.e, v[i])] \o <<>>, OffW * Len(v)), LAMBDA st :
              [i \in 1..Len(v) |-> [pos |-> base + (i - 1) * OffW, val |-> st[i], tab |-> id, k |-> i, n |-> Len(v)]] \o <<>>)
    [] s.t = "container" ->
         Let1(VarIdx(s.f), LAMBDA vi :
         Let1(Starts([k \in 1..Len(vi) |-> Enc(s.f[vi[k]], v[vi[k]])] \o <<>>, FixedSize(s)), LAMBDA st :
              ([k \in 1..Len(vi) |-> [pos |-> base + SlotPos(s.f, vi[k]), val |-> st[k], tab |-> id, k |-> k, n |-> Len(vi)]] \o <<>>)
              \o Flatten([k \in 1..Len(vi) |-> Offsets(s.f[vi[k]], v[vi[k]], base + st[k], id * 10 + k)])))
    [] OTHER -> <<>>
===============================================================================
