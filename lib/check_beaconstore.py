"""BSTORE - the beacon network's content store (beacon/storage.go) as a state machine; an extension of the
specification beyond the listed properties (DESIGN I.10).  Spec: BeaconStore.tla (I level; exhaustive with
small constants, deviation witnesses), Gen_BeaconStore.tla (simulate-mode behaviours), Trace_BeaconStore.tla
(trace validation re-using BeaconStore's actions; every read of the projected state is compared)."""
import json, os, random
import vlib
from vlib import NoVerdict

CONJ = {"bootstrap", "range", "finality", "optimistic", "summaries", "putResult"}


def design(ctx):
    vlib.tlc_design(ctx, "BeaconStore", "MC_BeaconStore.cfg", timeout=900)
    vlib.tlc_design(ctx, "BeaconStore", "MC_BeaconStore_FinNewest.cfg", timeout=900)
    # today's last-write-wins rule for the finality update does not keep the finalized slot monotone (documented behaviour)
    vlib.tlc_design(ctx, "BeaconStore", "MC_BeaconStore_Today.cfg", timeout=300, expect_violation="Action property FinalityMonotone is violated.")
    vlib.tlc_design(ctx, "BeaconStore", "MC_BeaconStore_DevAnyEpoch.cfg", timeout=300, expect_violation="Action property SummariesMonotone is violated.")
    vlib.tlc_design(ctx, "BeaconStore", "MC_BeaconStore_DevPartial.cfg", timeout=300, expect_violation="RangeAllOrNothing")
    # for arbitrary constants: the summaries record only moves to a newer epoch, a put touches one kind of record (TLAPS, 57 obligations)
    vlib.tlaps(ctx, "BeaconStore_proofs")


def generate(ctx):
    n = 300 if ctx.tier == "thorough" else 60
    r = vlib.tlc(ctx, "Gen_BeaconStore", "Gen_BeaconStore.cfg", workers=1, timeout=600,
                 args=["-simulate", "num=%d" % n, "-depth", "15", "-seed", str(ctx.seed)], name="gen-bstore")
    if r.error and "timeout" in r.error:
        raise NoVerdict("generation timed out")
    cs = vlib.printed_json(r, "CASE")
    seen, out = set(), []
    for c in cs:
        d = vlib.digest(c)
        if d not in seen and c:
            seen.add(d)
            out.append(c)
    if not out:
        raise NoVerdict("no behaviours generated\n" + r.out[-2000:])
    random.Random(ctx.seed).shuffle(out)
    return out[: (400 if ctx.tier == "thorough" else 80)]


def run(ctx):
    thorough = ctx.tier == "thorough"
    out = os.path.join(ctx.work, "bstore.ndjson")
    if ctx.replay:
        rp = json.load(open(ctx.replay))
        args = rp["harness_args"]
        args = args[:args.index("--out")] + ["--out", out]
        cases = rp.get("cases") or []
        cin = os.path.join(ctx.work, "cases.ndjson")
        open(cin, "w").write("\n".join(json.dumps(c) for c in cases) + "\n")
        args[args.index("--in") + 1] = cin
    else:
        if not os.environ.get("VERIF_SKIP_DESIGN"):
            design(ctx)
        cases = generate(ctx)
        cin = os.path.join(ctx.work, "cases.ndjson")
        open(cin, "w").write("\n".join(json.dumps(c) for c in cases) + "\n")
        args = ["beaconstore", "--in", cin, "--seed", ctx.seed, "--runs", 120 if thorough else 25, "--ops", 60 if thorough else 40, "--out", out]
    vlib.harness(ctx, args, timeout=3000)
    events = vlib.read_ndjson(out)
    stats = {"runs": 0, "generated_replayed": 0, "puts": 0, "refused": 0, "restarts": 0, "reads": 0, "found": 0,
             "range_found": 0, "summaries_kept_older": 0}
    last_hs = None
    for e in events:
        ev = e["ev"]
        if ev == "init":
            stats["runs"] += 1
            ctx.traces += 1
            last_hs = None
        elif ev == "case":
            stats["generated_replayed"] += 1
        elif ev.startswith("put"):
            stats["puts"] += 1
            ctx.evaluations += 1
            if e["res"] != "ok":
                stats["refused"] += 1
            if ev == "putHS" and e["res"] == "ok":
                if last_hs is not None and e["e"] <= last_hs:
                    stats["summaries_kept_older"] += 1
                else:
                    last_hs = e["e"]
            ctx.distinct.add(vlib.digest([ev, {k: v for k, v in e.items() if k not in ("seq", "t")}]))
        elif ev == "restart":
            stats["restarts"] += 1
        elif ev == "obs":
            n = len(e["boot"]) + len(e["upd"]) + len(e["fin"]) + len(e["opt"]) + len(e["hs"])
            stats["reads"] += n
            ctx.evaluations += n
            stats["found"] += sum(1 for k in ("boot", "fin", "opt", "hs") for r in e[k] if r and r[0] > 0)
            stats["range_found"] += sum(1 for u in e["upd"] if u["r"] and u["r"][0] > 0)
    ctx.cov["reached"] = stats
    viol, r = vlib.judge(ctx, "Trace_BeaconStore", "Trace_BeaconStore.cfg", out, timeout=3000)
    ctx.states += r.distinct
    ctx.transitions += r.generated
    byc = {}
    for l, c in viol:
        byc.setdefault(c, []).append(l)
    for c, lines in byc.items():
        e = events[lines[0] - 1]
        vlib.violation(ctx, "the beacon store departs from BeaconStore.tla: '%s' at %d event(s), first at line %d (run %s, event %s)" % (
            c, len(lines), lines[0], e.get("t"), json.dumps({k: v for k, v in e.items() if k != "upd"})[:300]),
            {"label": "beaconstore", "harness_args": [str(a) for a in args], "seed": ctx.seed, "conjunct": c, "lines": lines[:50],
             "first_event": e, "cases": cases}, tag=c)
    if not ctx.violations and not ctx.replay:
        if (stats["generated_replayed"] == 0 or stats["refused"] == 0 or stats["restarts"] == 0 or stats["range_found"] == 0
                or stats["found"] == 0 or stats["summaries_kept_older"] == 0):
            raise NoVerdict("vacuity guard: %s" % stats)
    ctx.cov["rule"] = ("a run = one operation sequence on the real beacon.Storage (pebble on an in-memory file system); evaluations = puts + single "
                       "reads of the projected state compared with the specification's read operators; distinct = distinct puts (kind, arguments, content)")
    ctx.assumptions += [
        "exhaustive TLC: 2 ids, periods 0..3, slots / epochs 0..2, 2 tags, ranges <= 2, 4 puts, restart at any point",
        "contents are decodable deneb / electra objects built by the harness (not signed); slots and epochs come from a fixed increasing table",
        "not one of the listed properties: BeaconStore.tla states what the code does (e.g. last-write-wins for the finality update)",
    ]
    return "model_checking"
