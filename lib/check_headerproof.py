"""C03 - header proofs: honest proofs verify and nothing else does, in all four eras (DESIGN.md 6).

Spec: HeaderProof.tla (P level: eras, positions, ranges, ExpectAttr; I level: the validator as coded with named
deviations), MC_HeaderProof.tla (exhaustive case space over a small world, E = 4; prints WORLD and CASE JSON),
Trace_HeaderProof.tla (judge of the executions of the real validation.HeaderValidator, real constants).
Engine: harness/engines/headerproof (embeds every TLC case into real 8192-record epochs / historical batches,
seeded random cases, the repository's mainnet vectors)."""
import json, os, re, concurrent.futures
import vlib
from vlib import NoVerdict

OWN = {"complete", "sound", "oorError"}
CONSTS = "  E = 4\n  MergeNum = 6\n  ShanghaiNum = 10\n  CancunNum = 14\n  CapStart = 8\n  GBell = 3228\n  GDeneb = 6444\n"
CONSTS8 = "  E = 8\n  MergeNum = 10\n  ShanghaiNum = 14\n  CancunNum = 18\n  CapStart = 16\n  GBell = 3228\n  GDeneb = 6444\n"   # thorough tier: second world size
# deviation -> invariant of MC_HeaderProof it must violate (non-vacuity of the design-level properties)
DEVS = [("RootsNoBounds", "OutOfRangeIsError"), ("PreNoBounds", "OutOfRangeIsError"), ("PreIndexNoShift", "Exact"),
        ("RootsGIndex", "Exact"), ("DepthShort", "Exact"), ("SummNoCapOffset", "Exact"), ("ExecGSame", "Exact"),
        ("EraOffByOne", "Exact"), ("SkipRootCompare", "Exact"), ("SkipStage1", "Exact")]
SIBS = {"pre": (15, 0), "roots": (14, 11), "capella": (13, 11), "deneb": (13, 12)}   # beacon / execution branch lengths


def kind_of(mutd):
    return re.sub(r"[0-9@]", "", mutd.split(":")[0].split("=")[0])


def known_devs():
    return sorted({f["deviation"] for f in vlib.known_findings("C03") if f.get("status") == "known" and f.get("deviation")})


def account(ctx, module, cfg, r, expect):
    if r.error:
        raise NoVerdict("TLC %s/%s: %s" % (module, cfg, r.error))
    ctx.states += r.distinct
    ctx.transitions += r.generated
    ctx.cov.setdefault("tlc_runs", []).append({"module": module, "cfg": cfg, "distinct": r.distinct, "generated": r.generated,
                                               "depth": r.depth, "violated": r.violated, "wall_s": round(r.wall, 1)})
    if expect is None and r.violated:
        raise NoVerdict("design model %s/%s violates %s - specification and property disagree; fix the model "
                        "(this is not a verdict about the code)\n%s" % (module, cfg, r.violated, r.out[-3000:]))
    if expect is not None and r.violated != expect:
        raise NoVerdict("design model %s/%s: expected witness for %s, got %s" % (module, cfg, expect, r.violated))
    vlib.log("TLC %s %s: %d distinct / %d generated, %.1fs%s" % (module, cfg, r.distinct, r.generated, r.wall,
                                                                (" violated=" + r.violated) if r.violated else ""))


def generate(ctx, full_design, big=False):
    """Design check + case generation (big: the E = 8 world, thorough tier; no deviation configs). The generating run uses the deviations of the currently listed findings
    (= the validator as coded today), so each CASE carries the I-level prediction next to the P-level expectation."""
    M = "MC_HeaderProof"
    devs = known_devs()
    sfx = "8" if big else ""
    gname = "MC_HP_AsCoded%s.cfg" % sfx
    gen_cfg = os.path.join(ctx.work, gname)
    with open(gen_cfg, "w") as f:
        f.write("SPECIFICATION Spec\nCONSTANTS\n" + (CONSTS8 if big else CONSTS) + "  Devs = {%s}\n" % ", ".join('"%s"' % d for d in devs) +
                "INVARIANTS Exact AttrOracleAgrees Emit\nCHECK_DEADLOCK FALSE\n")
    with concurrent.futures.ThreadPoolExecutor(max_workers=6) as ex:
        fgen = ex.submit(vlib.tlc, ctx, M, gname, extra={gname: gen_cfg}, workers=4, timeout=600, name="tlc-gen" + sfx)
        futs = []
        if full_design:
            # the design as intended (every bounds check in place) has the property ...
            futs.append((None, None, "MC_HeaderProof%s.cfg" % sfx, ex.submit(vlib.tlc, ctx, M, "MC_HeaderProof%s.cfg" % sfx, workers=4, timeout=600, name="tlc-design" + sfx)))
            # ... and each named wrong variant violates it (the invariants are not vacuous)
            for d, inv in ([] if big else DEVS):
                futs.append((d, inv, "MC_HP_Dev%s.cfg" % d, ex.submit(vlib.tlc, ctx, M, "MC_HP_Dev%s.cfg" % d, workers=2, timeout=600, name="tlc-dev-" + d)))
        r = fgen.result()
        res = [(d, inv, cfg, f.result()) for d, inv, cfg, f in futs]
    account(ctx, M, "%s (Devs=%s)" % (gname, devs), r, None)
    for d, inv, cfg, rd in res:
        account(ctx, M, cfg, rd, inv)
    worlds, cases = vlib.printed_json(r, "WORLD"), vlib.printed_json(r, "CASE")
    if len(worlds) != 1 or not cases or 2 * len(cases) != r.distinct:
        raise NoVerdict("case generation: %d WORLD / %d CASE lines for %d states" % (len(worlds), len(cases), r.distinct))
    cases.sort(key=lambda c: json.dumps(c, sort_keys=True))
    for i, c in enumerate(cases):
        c["ci"] = i
    return worlds[0], cases


def classify(ctx, events, viol, base_replay):
    findings = [f for f in vlib.known_findings("C03") if f.get("status") == "known" and f.get("signature")]
    x = [l for l, c in viol if c == "xcheck"]
    if x:
        e = events[x[0] - 1]
        raise NoVerdict("harness inconsistency: for %d TLC case(s) the expectation computed in the small world differs from the one "
                        "computed from the concrete attributes (first: line %d cid=%s exp=%s)" % (len(x), x[0], e.get("cid"), e.get("exp")))
    groups = {}
    for l, c in viol:
        if c not in OWN:
            continue
        e = events[l - 1]
        hit = None
        for f in findings:
            s = f["signature"]
            if (c == s["conjunct"] and e["out"] == s["out"] and s["site"] in e.get("site", "") and s["msg"] in e.get("msg", "")
                    and e["era"] == s["era"] and (not s.get("val") or e.get("val") == s["val"])):
                hit = f
                break
        if hit:
            n = ctx.cov.setdefault("known_finding_events", {})
            n[hit["id"]] = n.get(hit["id"], 0) + 1
            vlib.known_hit(ctx, hit["id"], "%s (conjunct %s; e.g. %s block %d slot %s: %s at %s)" % (
                hit["what"], c, e["cid"], e["num"], e["hugev"] or e["slot"], e["msg"][:80], e["site"]))
            continue
        mut = kind_of(e["mutd"])
        groups.setdefault((c, e["era"], e["src"], mut, e["out"]), []).append((l, e))
    for (c, era, src, mut, out), lst in sorted(groups.items()):
        l, e = lst[0]
        rp = dict(base_replay)
        rp.update({"conjunct": c, "only": [x[1]["cid"] for x in lst[:20]], "first_event": {k: e[k] for k in e if k != "abs"}, "abs": e.get("abs")})
        if base_replay.get("cases") is not None:
            want = {x[1]["abs"]["ci"] for x in lst[:20] if x[1].get("abs")}
            rp["cases"] = [k for k in base_replay["cases"] if k["ci"] in want]
        vlib.violation(ctx, "conjunct '%s' false at %d evaluation(s) [era=%s source=%s mutation=%s outcome=%s], first: %s block %d slot %s "
                            "validator=%s commit=%s gen=%s intact=%s -> %s %s %s" % (
                                c, len(lst), era, src, mut, out, e["cid"], e["num"], e["hugev"] or e["slot"], e["val"], json.dumps(e["commit"]),
                                json.dumps(e["gen"]), e["intact"], e["out"], e["msg"][:120], e["site"]), rp, tag=("re-" if ctx.replay else "") + c)


def coverage(ctx, events):
    cov = {"evaluations": 0, "by_source": {}, "honest_accepted": {}, "rejected": {}, "out_of_range": {}, "stage1": {}, "mutations": {},
           "panics": {}, "drift": 0, "validators": {}}
    sib = {}
    for e in events:
        if e["ev"] != "case":
            continue
        cov["evaluations"] += 1
        ctx.distinct.add(e["inh"])
        era, src = e["era"], e["src"]

        def inc(d, k):
            cov[d][k] = cov[d].get(k, 0) + 1
        inc("by_source", src)
        inc("validators", e["val"])
        if e["out"] == "ok":
            inc("honest_accepted", "%s/%s" % (src, era))
        elif e["out"] == "error":
            inc("rejected", era)
        else:
            inc("panics", e["site"].split(".")[-1])
        if era != "pre":
            inc("stage1", "%s/%s" % (era, e["s1"]))
        m = e["mutd"]
        inc("mutations", kind_of(m))
        # which concrete sibling of which proof length was corrupted (TLC cases: "sibB:b7/none", "sibE:e3/recompute")
        if src == "tlc" and m.startswith("sib") and e["abs"]["h"] == e["abs"]["g"]:
            sib.setdefault((e["gen"]["fmt"], "roots" if e["gen"]["fmt"] != "pre" and e["gen"]["idx"] < 758 * 8192 else "x", m[3]), set()).add(
                int(m.split(":")[1].split("/")[0][1:]))
        # out of range, by class
        a, ln = e, e["lens"]
        if era == "pre":
            oor = e["num"] // 8192 >= ln["pre"]
        elif era == "roots":
            oor = e["slot"] < 0 or e["slot"] // 8192 >= ln["roots"]
        else:
            oor = e["slot"] < 0 or e["slot"] < 758 * 8192 or (e["slot"] - 758 * 8192) // 8192 >= ln["summ"]
        if oor:
            inc("out_of_range", "%s/%s/%s" % (era, "huge" if e["slot"] < 0 else "int", e["s1"]))
        if src == "tlc" and e["abs"].get("model"):
            pred = {"ok": "ok", "reject": "error", "error": "error", "panic": "panic"}[e["abs"]["model"]]
            if pred != e["out"]:
                cov["drift"] += 1
    cov["sibling_indices"] = {"%s/%s/%s" % k: sorted(v) for k, v in sorted(sib.items())}
    return cov


def vacuity(ctx, cov, events):
    miss = []
    for era in ("pre", "roots", "capella", "deneb"):
        if not cov["honest_accepted"].get("tlc/" + era):
            miss.append("no honest synthetic proof accepted in era " + era)
        if not cov["honest_accepted"].get("vec/" + era):
            miss.append("no mainnet vector accepted in era " + era)
        if not cov["rejected"].get(era):
            miss.append("nothing rejected in era " + era)
    for era in ("roots", "capella", "deneb"):
        for s1 in ("honest", "forged", "broken"):
            if not cov["stage1"].get("%s/%s" % (era, s1)):
                miss.append("stage-1 class %s never occurred in era %s" % (s1, era))
        if not any(k.startswith(era + "/") and k.endswith("/forged") for k in cov["out_of_range"]):
            miss.append("no self-consistent forgery at an out-of-range slot in era " + era)
        if not any(k.startswith(era + "/huge/") for k in cov["out_of_range"]):
            miss.append("no huge slot in era " + era)
    if not any(k.startswith("pre/") for k in cov["out_of_range"]):
        miss.append("no pre-merge position beyond the epoch accumulator")
    for m in ("none", "sibB", "sibE", "bbr", "lenShort", "lenLong", "bitflip", "otherHeader", "otherSlot", "truncated"):
        if not cov["mutations"].get(m) and not any(k.startswith(m) for k in cov["mutations"]):
            miss.append("mutation class %s never executed" % m)
    want = {("pre", "x", "B"): 15, ("bell", "roots", "B"): 14, ("bell", "roots", "E"): 11, ("bell", "x", "B"): 13, ("bell", "x", "E"): 11,
            ("deneb", "x", "B"): 13, ("deneb", "x", "E"): 12}
    for (f, a, br), n in want.items():
        got = cov["sibling_indices"].get("%s/%s/%s" % (f, a, br), [])
        if got != list(range(n)):
            miss.append("single-sibling corruptions of the %d-sibling %s branch (%s) incomplete: %s" % (n, br, f, got))
    if miss:
        raise NoVerdict("vacuity guard: " + "; ".join(miss))


def judge_selftest(ctx, events, keep):
    """DESIGN 4.8: the judge must reject single-field corruptions of recorded events (run on events of this very run)."""
    def first(pred):
        for e in events:
            if e["ev"] == "case" and e["src"] == "tlc" and pred(e):
                return {k: e[k] for k in keep}
        return None
    ok = first(lambda e: e["exp"] == "ok" and e["out"] == "ok")
    rej = first(lambda e: e["exp"] == "reject" and e["out"] == "error" and e["s1"] == "forged")
    oor = first(lambda e: e["exp"] == "error" and e["out"] == "error" and e["era"] == "capella")
    if not (ok and rej and oor):
        return
    lines = [ok, dict(ok, out="error"), rej, dict(rej, out="ok"), oor, dict(oor, out="panic"), dict(oor, out="ok"),
             dict(ok, intact=False), dict(ok, gen=dict(ok["gen"], same=False)), dict(ok, commit=dict(ok["commit"], idx=ok["commit"]["idx"] + 1)),
             dict(ok, num=ok["num"], exp="reject")]
    jp = os.path.join(ctx.work, "selftest.ndjson")
    with open(jp, "w") as f:
        for e in lines:
            f.write(json.dumps(e) + "\n")
    v, _ = vlib.judge(ctx, "Trace_HeaderProof", "Trace_HeaderProof.cfg", jp, timeout=300, name="judge-selftest")
    got = sorted((l, c) for l, c in v)
    want = sorted([(2, "complete"), (4, "sound"), (6, "oorError"), (7, "oorError"), (7, "sound"), (8, "sound"), (8, "xcheck"), (9, "sound"), (9, "xcheck"),
                   (10, "sound"), (10, "xcheck"), (11, "xcheck")])
    if got != want:
        raise NoVerdict("trace judge self-test: corrupted golden events gave %s, expected %s" % (got, want))
    ctx.cov["judge_selftest"] = "11 golden/corrupted events: %d rejections as expected" % len(want)


def execute(ctx, world, cases, seed, reps, nrand, only, label):
    """engine -> judge -> classification of one run; returns (events, coverage, self-check messages)"""
    cpath, out = os.path.join(ctx.work, "cases-%s.json" % label), os.path.join(ctx.work, "trace-%s.ndjson" % label)
    json.dump({"world": world, "cases": cases}, open(cpath, "w"))
    args = ["headerproof", "--cases", cpath, "--out", out, "--seed", seed, "--reps", reps, "--rand", nrand,
            "--vectors", os.path.join(vlib.REPO, "validation", "testdata")]
    if only:
        args += ["--only", ",".join(only)]
    vlib.harness(ctx, args, timeout=1800)
    events = vlib.read_ndjson(out)
    if not events or events[-1]["ev"] != "end":
        raise NoVerdict("engine did not finish (last event %s)" % (events[-1] if events else None))
    # the judge reads a projection with the same line numbering: only the abstract attributes and the outcome
    keep = ("ev", "num", "slot", "lens", "commit", "gen", "intact", "out", "exp")
    CH = 20000      # judged in chunks (the violation set is part of the judge's state; one huge trace is quadratic), in parallel
    jobs = []
    for k in range(0, len(events), CH):
        jp = os.path.join(ctx.work, "judge-%s-%d.ndjson" % (label, k))
        with open(jp, "w") as f:
            for e in events[k:k + CH]:
                f.write(json.dumps({x: e[x] for x in keep} if e["ev"] == "case" else {"ev": e["ev"]}) + "\n")
        jobs.append((k, jp))
    viol = []
    if not ctx.replay:
        judge_selftest(ctx, events, keep)
    with concurrent.futures.ThreadPoolExecutor(max_workers=6) as ex:
        futs = [(k, ex.submit(vlib.judge, ctx, "Trace_HeaderProof", "Trace_HeaderProof.cfg", jp, timeout=1800, name="judge-%s-%d" % (label, k))) for k, jp in jobs]
        for k, f in futs:
            v, r = f.result()
            viol += [[l + k, c] for l, c in v]
            ctx.states += r.distinct
            ctx.transitions += r.generated
    ctx.traces += sum(1 for e in events if e["ev"] == "world" and e.get("rep", 0) >= 0) + 1
    cov = coverage(ctx, events)
    ctx.evaluations += cov["evaluations"]
    ctx.cov["reached"] = cov
    selfcheck = [s for e in events if e["ev"] == "world" for s in (e.get("selfcheck") or [])]
    classify(ctx, events, viol, {"world": world, "cases": cases, "seed": seed, "reps": reps, "rand": nrand})
    return events, cov, selfcheck


def run(ctx):
    thorough, seed = ctx.tier == "thorough", ctx.seed
    if ctx.replay:
        rp = json.load(open(ctx.replay))
        seed, reps, nrand = rp["seed"], rp["reps"], rp["rand"]
        events, cov, selfcheck = execute(ctx, rp["world"], rp["cases"], seed, reps, nrand, rp.get("only", []), "replay")
        if not ctx.violations and rp.get("only"):
            # not reproduced in isolation: the stored behaviour may depend on what the validator instances saw before - rerun everything
            vlib.log("replay: not reproduced by the selected evaluations alone, re-running the complete behaviour (seed %s)" % seed)
            world, cases = generate(ctx, full_design=False, big=rp["world"]["E"] == 8)
            events, cov, selfcheck = execute(ctx, world, cases, seed, reps, nrand, [], "replay-full")
    else:
        world, cases = generate(ctx, full_design=not os.environ.get("VERIF_SKIP_DESIGN"))   # (the env switch is for mutation experiments only)
        reps, nrand = (50, 250000) if thorough else (2, 4000)
        if thorough:      # a second, larger small world (E = 8: six interior positions per epoch / batch), fewer concretisations
            world8, cases8 = generate(ctx, full_design=not os.environ.get("VERIF_SKIP_DESIGN"), big=True)
            _, cov8, sc8 = execute(ctx, world8, cases8, seed + 7919, 8, 0, [], "run8")
            ctx.cov["reached_E8"] = {k: cov8[k] for k in ("evaluations", "honest_accepted", "rejected", "panics", "drift")}
        events, cov, selfcheck = execute(ctx, world, cases, seed, reps, nrand, [], "run")
        if thorough:
            selfcheck = selfcheck + sc8
    if selfcheck:
        msg = "independent computations disagree (%d): %s" % (len(selfcheck), "; ".join(selfcheck[:3]))
        if not ctx.violations:
            raise NoVerdict("concretiser self-check failed and no property violation explains it: " + msg)
        ctx.notes.append(msg)
    if cov["drift"]:
        ctx.notes.append("drift: %d evaluation(s) where the outcome class differs from the I-level prediction (Devs=%s) - the I level needs "
                         "updating; not an alarm" % (cov["drift"], known_devs()))
    for e in events:
        if e["ev"] == "case" and len(ctx.samples) < 6 and (e["out"], e["era"]) not in {(s["out"], s["era"]) for s in ctx.samples}:
            ctx.samples.append({k: e[k] for k in ("cid", "era", "num", "slot", "hugev", "val", "commit", "gen", "intact", "s1", "mutd", "out", "msg", "site")})
    if not ctx.violations and not ctx.replay:
        vacuity(ctx, cov, events)
        for f in vlib.known_findings("C03"):
            if f.get("status") == "known" and f["id"] not in ctx.known_hits:
                ctx.notes.append("listed finding %s was not observed in this run (repaired? then set its status to fixed)" % f["id"])
    ctx.cov["rule"] = ("evaluation = one call of the real HeaderValidator (ValidateHeaderWithProof on RLP header + proof bytes; the three post-merge stage "
                       "functions for the hash-only mainnet vectors) under recover(); distinct = by (header hash, proof bytes, validator); sources: every "
                       "TLC case of MC_HeaderProof embedded %d time(s) into real epochs/batches with all concrete siblings of each abstract sibling class, "
                       "%d seeded random cases, the repository's mainnet vectors with their mutations" % (reps, nrand))
    ctx.assumptions += [
        "SHA-256 / Keccak are collision resistant (symbolic injective hash terms in the specification)",
        "exhaustive TLC result is for E = 4, 2 epochs / 2 historical roots / 2 summaries, 22 headers; trace validation uses the real constants "
        "(8192, 15537394, 17034870, 19426587, 758*8192, 3228, 6444), stated in the harness and Trace_HeaderProof.tla independently of the code",
        "the repository's mainnet vectors are honest (their block root is the leaf at their slot; repeated roots of missed slots are recognised from the vector's own siblings)",
        "synthetic trusted accumulator entries: epoch roots by the repository's history.Accumulator (cross-checked by the harness merkleization), "
        "HistoricalBatch / block_roots roots by zrnt's hash_tree_root; branches by the harness-side prover and by the repository's BuildProof",
        "a beacon block is modelled by the path from execution_payload.block_hash to the block root with arbitrary siblings (generalized index 3228 / 6444)",
        "the summaries oracle, when used, answers with the trusted list (oracle failures are outside the property)",
    ]
    return "model_checking"
