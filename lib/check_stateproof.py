"""C13 - state content is accepted only with a hash-linked proof down to the state root (DESIGN.md 6).

Spec: StateProof.tla (symbolic Merkle-Patricia tries, code-shaped Walk next to the specification's own NodeAtT,
exhaustive abstract case space, deviation configs), Trace_StateProof.tla (judge of what the real
state.StateValidator.ValidateContent + state.Storage.Put did on the concretised cases and on random tries).
Engine: harness/engines/stateproof.
"""
import concurrent.futures, hashlib, json, os, re, shutil
import vlib
from vlib import NoVerdict

OWN = {"C13": {"sound", "stored", "noPanic"}}

# deviation config -> invariant it must violate (non-vacuity of the model's properties)
DEV_CFGS = [
    ("MC_SP_DevNoRootCheck.cfg", "Sound"), ("MC_SP_DevNoLinkCheck.cfg", "Sound"), ("MC_SP_DevNoPathConsumed.cfg", "Sound"),
    ("MC_SP_DevNoLastHash.cfg", "Sound"), ("MC_SP_DevNoCodeHash.cfg", "Sound"), ("MC_SP_DevNoAcctCodeHash.cfg", "Sound"), ("MC_SP_DevNoAcctCodeHashIfEmpty.cfg", "Sound"),
    ("MC_SP_DevStoreFirst.cfg", "StoredFinal"),
    # what the code does today (listed findings): the model reproduces each as a violation of the property
    ("MC_SP_DevLeafValueAsRef.cfg", "Sound"), ("MC_SP_DevShortPathPanics.cfg", "NoPanic"),
    ("MC_SP_DevEmptyKeyPanics.cfg", "NoPanic"), ("MC_SP_DevEmptyProofPutPanics.cfg", "NoPanic"),
]


def spec_digest(cfg):
    h = hashlib.sha1()
    for f in ("StateProof.tla", cfg):
        h.update(open(os.path.join(vlib.SPEC, f), "rb").read())
    return h.hexdigest()[:12]


def generate(ctx, cfg):
    """Exhaustive TLC run of the case space: checks Sound / NoPanic / StoredFinal / HonestAccepted on the model with no
    deviation and prints every case.  Returns the path of the ndjson case file and the number of cases.
    The quick-tier case file is kept under .work (keyed by the digest of spec + cfg) so that VERIF_SKIP_DESIGN=1
    (mutation experiments, replays) can reuse it."""
    wdir = os.path.join(vlib.VERIF, ".work")
    cache = os.path.join(wdir, "stateproof-cases-%s-%s.ndjson" % (cfg.replace(".cfg", ""), spec_digest(cfg)))
    if os.environ.get("VERIF_SKIP_DESIGN") and os.path.exists(cache):
        vlib.log("using cached TLC cases", cache)
        return cache, sum(1 for _ in open(cache))
    r = vlib.tlc_design(ctx, "StateProof", cfg, timeout=2400)
    pref = '<<"CASE", "'
    n = 0
    keep = cfg == "MC_SP_Quick.cfg"
    path = cache if keep else os.path.join(ctx.work, "cases.ndjson")
    os.makedirs(wdir, exist_ok=True)
    with open(path + ".tmp", "w") as f:
        for ln in r.printed:
            if ln.startswith(pref) and ln.endswith('">>'):
                f.write(ln[len(pref):-3].replace('\\"', '"').replace("\\\\", "\\") + "\n")
                n += 1
    os.replace(path + ".tmp", path)
    if keep:
        for f in os.listdir(wdir):      # older generations of the same case space
            if f.startswith("stateproof-cases-") and os.path.join(wdir, f) != cache:
                os.remove(os.path.join(wdir, f))
    seeds = count_seeds(r)
    if n == 0 or n != r.distinct - seeds:
        # every "case" state prints exactly one line
        raise NoVerdict("TLC printed %d CASE lines for %d case states (%s)" % (n, r.distinct - seeds, cfg))
    ctx.cov["abstract_cases"] = {"seeds (trie, target / account)": seeds, "cases": n}
    r.printed = []
    return path, n


def count_seeds(r):
    m = re.search(r"Finished computing initial states: (\d+) distinct", r.out)
    return int(m.group(1)) if m else 0


def deviations_start(ctx):
    """Every deviation switched on alone must violate the property it is filed under.  The runs are started in the
    background (they are small) and collected by deviations_finish."""
    def one(cv):
        cfg, inv = cv
        return cfg, inv, vlib.tlc(ctx, "StateProof", cfg, timeout=900, workers=2, name="dev-" + cfg.replace(".cfg", ""))
    ex = concurrent.futures.ThreadPoolExecutor(max_workers=max(2, vlib.NCPU // 3))
    return ex, [ex.submit(one, cv) for cv in DEV_CFGS]


def deviations_finish(ctx, handle):
    ex, futs = handle
    res = [f.result() for f in futs]
    ex.shutdown()
    for cfg, inv, r in res:
        if r.error:
            raise NoVerdict("TLC StateProof/%s: %s" % (cfg, r.error))
        ctx.states += r.distinct
        ctx.transitions += r.generated
        ctx.cov.setdefault("tlc_runs", []).append({"module": "StateProof", "cfg": cfg, "distinct": r.distinct, "generated": r.generated,
                                                   "violated": r.violated, "wall_s": round(r.wall, 1)})
        if r.violated != inv:
            raise NoVerdict("design model StateProof/%s: expected a witness against %s, got %s - the property is vacuous for this deviation" % (cfg, inv, r.violated))
    vlib.log("TLC StateProof: %d deviation configs each violate their property" % len(res))


def split_trace(path, outdir, target):
    """Cut the trace at world boundaries into chunks of about `target` lines: [(chunk path, first global line)]"""
    chunks, cur, n, k = [], None, 0, 0
    with open(path) as f:
        for i, ln in enumerate(f, 1):
            if cur is None or (n >= target and ln.startswith('{"U":')):
                if cur:
                    cur.close()
                k += 1
                p = os.path.join(outdir, "chunk%03d.ndjson" % k)
                cur, n = open(p, "w"), 0
                chunks.append((p, i))
            cur.write(ln)
            n += 1
    if cur:
        cur.close()
    return chunks


def printed(r, tag):
    """Like vlib.printed_json, but also finds values that TLC's pretty printer wrapped over several lines
    (<< "TAG",\n   "..." >>), which it does for strings of moderate length without escapes."""
    out = []
    for m in re.finditer(r'<<\s*"%s",\s*"((?:[^"\\]|\\.)*)"\s*>>' % tag, r.out, re.S):
        s = m.group(1).replace('\\"', '"').replace("\\\\", "\\")
        try:
            out.append(json.loads(s))
        except Exception as e:
            raise NoVerdict("cannot parse TLC JSON output %s: %s: %s" % (tag, e, s[:300]))
    return out


def judge_chunks(ctx, chunks, cfg_path):
    """One judge run per chunk (parallel).  Returns (viol under the property as stated, viol left under the listed
    findings' substitutions, drift lines), in global line numbers."""
    def one(c):
        p, first = c
        name = "judge-" + os.path.basename(p).replace(".ndjson", "")
        viol, r = vlib.judge(ctx, "Trace_StateProof", "Trace_StateProof.cfg", p, timeout=3000, extra={"Trace_StateProof.cfg": cfg_path}, name=name)
        drift, vk = printed(r, "DRIFT"), printed(r, "VIOLK")
        if not vk or not drift:
            raise NoVerdict("trace judge printed no VIOLK / DRIFT record\n" + r.out[-2000:])
        shutil.rmtree(os.path.join(ctx.work, name), ignore_errors=True)
        return first, viol, vk[-1], (drift[-1] if drift else []), r
    os.environ.setdefault("JAVA_TOOL_OPTIONS", "-Xmx3g")
    with concurrent.futures.ThreadPoolExecutor(max_workers=max(2, vlib.NCPU - 2)) as ex:
        res = list(ex.map(one, chunks))
    viol, violk, drift = [], [], []
    for first, v, vk, d, r in res:
        ctx.states += r.distinct
        ctx.transitions += r.generated
        viol += [(first + l - 1, c) for l, c in v]
        violk += [(first + l - 1, c) for l, c in vk]
        drift += [first + l - 1 for l in d]
    return sorted(viol), sorted(violk), sorted(drift)


def selftest(ctx, trace, jcfg):
    """The binding tests itself (DESIGN 4.8): three single-field corruptions of recorded events must each be flagged by
    the judge (under the listed findings' substitutions too), the unmodified events must not."""
    world, picks = None, {}
    with open(trace) as f:
        for ln in f:
            if ln.startswith('{"U":'):
                if picks:
                    break
                world = ln
                continue
            e = json.loads(ln)
            a = e["abs"]
            if "rej" not in picks and e["val"] == "err" and e["put"] == "ok" and a.get("snd") is False:
                picks["rej"] = e
            elif "acc" not in picks and a.get("hon") and e["val"] == "ok" and e["put"] == "ok" and e["kind"] != "code":
                picks["acc"] = e
            elif "err" not in picks and e["val"] == "err" and e["put"] == "err":
                picks["err"] = e
            if len(picks) == 3:
                break
    if len(picks) < 3:
        raise NoVerdict("judge self-test: the first world of the trace lacks an accepted, a rejected and a doubly rejected evaluation")
    c1 = dict(picks["rej"], val="ok")                                   # a rejected unsound item reported as accepted
    c2 = dict(picks["acc"], st=dict(picks["acc"]["st"], id=picks["acc"]["proof"][0] if len(picks["acc"]["proof"]) > 1 else 0))  # another node stored
    c3 = dict(picks["err"], val="panic", vsite="state.validateTrieProof", vcls="index out of range")   # a panic at an unlisted site
    c4 = dict(picks["err"], st=dict(picks["err"]["st"], n=1))           # something written although Put failed
    p = os.path.join(ctx.work, "selftest.ndjson")
    with open(p, "w") as f:
        f.write(world)
        for e in (picks["rej"], picks["acc"], picks["err"], c1, c2, c3, c4):
            f.write(json.dumps(e) + "\n")
    _, violk, _ = judge_chunks(ctx, [(p, 1)], jcfg)
    want = [(5, "sound"), (6, "stored"), (7, "noPanic"), (8, "stored")]
    got = [(l, c) for l, c in violk if l >= 5 or c != "noPanic"]       # (lines 2-4 may carry a listed finding's panic)
    if sorted(got) != want:
        raise NoVerdict("judge self-test failed: corrupted events flagged %s, expected %s" % (sorted(got), want))
    ctx.cov["judge_selftest"] = "4 single-field corruptions flagged (sound, stored, noPanic, stored), originals clean"


def lines_of(path, wanted):
    """{global line number: parsed event} for the wanted lines"""
    out, wanted = {}, set(wanted)
    if not wanted:
        return out
    with open(path) as f:
        for i, ln in enumerate(f, 1):
            if i in wanted:
                e = json.loads(ln)
                e.pop("U", None)
                out[i] = e
    return out


def matches(sig, e):
    """Does a violating event fit a finding's signature (KNOWN_FINDINGS.json)?"""
    if sig["call"] == "accept":
        return e["val"] == "ok" and e["put"] == "ok"
    call = sig["call"]
    r, site, cls = (e["val"], e["vsite"], e["vcls"]) if call == "val" else (e["put"], e["psite"], e["pcls"])
    return r == "panic" and site in sig["site"] and cls in sig["cls"]


def run(ctx):
    thorough, seed = ctx.tier == "thorough", ctx.seed
    if ctx.replay:
        rp = json.load(open(ctx.replay))
        thorough = rp.get("tier", ctx.tier) == "thorough"
        seed = rp.get("seed", seed)
    cfg = "MC_SP_Full.cfg" if thorough else "MC_SP_Quick.cfg"
    skip = bool(os.environ.get("VERIF_SKIP_DESIGN")) or bool(ctx.replay)   # (the env switch is for mutation experiments only)
    if skip and not os.environ.get("VERIF_SKIP_DESIGN"):
        os.environ["VERIF_SKIP_DESIGN"] = "1"
    cases, ncases = generate(ctx, cfg)
    devh = None if skip else deviations_start(ctx)
    out = os.path.join(ctx.work, "trace.ndjson")
    args = ["stateproof", "--cases", cases, "--seed", seed, "--reals", 3 if thorough else 1,
            "--random", 150 if thorough else 30, "--rcases", 400 if thorough else 150]
    if ctx.replay and rp.get("worlds"):
        args += ["--worlds", ",".join(str(w) for w in rp["worlds"]), "--dump"]
    _, hout = vlib.harness(ctx, args + ["--out", out], timeout=3000)
    vlib.log(hout.strip().splitlines()[-1] if hout.strip() else "(no harness output)")
    summ = json.load(open(out + ".sum.json"))
    st = summ["stats"]
    ctx.traces = summ["worlds"]
    ctx.evaluations = st["Cases"]
    with open(out + ".digests") as f:
        ctx.distinct = set(x for x in f.read().split("\n") if x)

    # ---- judgement: the property as stated; then, if anything is flagged, with the listed findings' substitutions
    cdir = ctx.sub("chunks")
    nlines = st["Cases"] + summ["worlds"]
    chunks = split_trace(out, cdir, min(40000, max(3000, nlines // max(2, vlib.NCPU - 2) + 1)))
    known = [f for f in vlib.known_findings(ctx.prop) if f.get("status") == "known"]
    devs = sorted({f["deviation"] for f in known if f.get("deviation")})
    jcfg = os.path.join(ctx.work, "Trace_StateProof.cfg")
    with open(jcfg, "w") as f:
        f.write("SPECIFICATION Spec\nCONSTANT Devs = {%s}\nINVARIANT Report\nPOSTCONDITION TraceAccepted\nCHECK_DEADLOCK FALSE\n" %
                ", ".join('"%s"' % d for d in devs))
    if not ctx.replay:
        selftest(ctx, out, jcfg)
    viol0, remaining, drift = judge_chunks(ctx, chunks, jcfg)
    viol0 = [(l, c) for l, c in viol0 if c in OWN[ctx.prop]]
    remaining = [(l, c) for l, c in remaining if c in OWN[ctx.prop]]
    vlib.log("judged %d lines in %d chunks: %d flagged under the property as stated, %d not explained by the listed findings %s, %d drift" % (
        nlines, len(chunks), len(viol0), len(remaining), devs, len(drift)))
    absorbed = sorted(set(viol0) - set(remaining))
    evs = lines_of(out, [l for l, _ in absorbed] + [l for l, _ in remaining] + drift[:5])

    # absorbed events must also fit the signature of a listed finding; each finding is reported once
    per_finding = {}
    for l, c in absorbed:
        e = evs[l]
        hit = [f for f in known if f["signature"]["conjunct"] == c and matches(f["signature"], e)]
        if not hit:
            remaining.append((l, c))
            continue
        for f in hit:
            per_finding.setdefault(f["id"], []).append(l)
    for f in known:
        ls = per_finding.get(f["id"])
        if ls:
            e = evs[ls[0]]
            vlib.known_hit(ctx, f["id"], "%s [%d evaluation(s); first: line %d, %s %s, val=%s %s put=%s %s]" % (
                f["what"], len(ls), ls[0], e["kind"], json.dumps(e["abs"].get("op")), e["val"], e["loc"].split("|")[0], e["put"], e["loc"].split("|")[-1]))
    ctx.cov["known_finding_evaluations"] = {k: len(v) for k, v in per_finding.items()}

    # ---- anything left is a violation
    byc = {}
    for l, c in sorted(remaining):
        byc.setdefault(c, []).append(l)
    for c, ls in byc.items():
        e = evs[ls[0]]
        widx = world_indexes(out, ls[:200])
        if ctx.replay and rp.get("worlds"):
            widx = [rp["worlds"][i] for i in widx if i < len(rp["worlds"])]
        what = "conjunct '%s' false at %d evaluation(s); first at trace line %d: kind=%s case=%s val=%s(%s %s %s) put=%s(%s %s) stored=%s proof=%s path=%s" % (
            c, len(ls), ls[0], e["kind"], json.dumps(e["abs"]), e["val"], e["vsite"], e["vcls"], e["msg"].split("|")[0][:80],
            e["put"], e["psite"], e["pcls"], json.dumps(e["st"]), e["proof"], e["path"])
        vlib.violation(ctx, what, {"label": "stateproof", "tier": "thorough" if thorough else "quick", "seed": seed, "conjunct": c,
                                   "worlds": widx, "lines": ls[:50], "first_event": e, "harness_args": [str(a) for a in args]}, tag=c)

    if devh:
        deviations_finish(ctx, devh)

    # ---- coverage, vacuity guard
    cls = st["Class"]
    agg = {}
    for k, v in cls.items():
        parts = k.split("/")
        op = parts[-1].split("+")[0] if parts[0] == "random" else parts[-1]
        a = agg.setdefault(("random:" if parts[0] == "random" else "tlc:") + op, [0, 0, 0, 0])
        for i in range(4):
            a[i] += v[i]
    ctx.cov["reached"] = {"tlc_cases": ncases, "worlds": summ["worlds"], "evaluations": st["Cases"], "duplicates_skipped": st["Dups"],
                          "accepted": st["Accepted"], "honest_claims": st["HonestTotal"], "honest_accepted": st["HonestOK"],
                          "honest_by_kind": st["HonestByKind"], "accepted_through_embedded_nodes": st["EmbTraversed"],
                          "largest_random_trie_leaves": st["MaxLeaves"], "panics_observed": st["Panics"],
                          "flagged": len(viol0), "absorbed_by_listed_findings": len(absorbed), "drift_lines": len(drift)}
    ctx.cov["by_mutation"] = {k: {"n": v[0], "accepted": v[1], "error": v[2], "panic": v[3]} for k, v in sorted(agg.items())}
    if drift:
        e = evs.get(drift[0], {})
        ctx.notes.append("drift: the code-shaped walk of Trace_StateProof predicts another verdict class than observed at %d evaluation(s) "
                         "(first: line %d, %s, observed val=%s) - I-level model needs updating; not a verdict" % (
                             len(drift), drift[0], json.dumps(e.get("abs")), e.get("val")))
    def sample(l, e):
        return {"line": l, "kind": e["kind"], "case": e["abs"], "header_root": e["bh"], "path": e["path"], "key_hash": e["kh"] or e["kc"], "proof": e["proof"],
                "account_proof": e["aproof"], "val": e["val"], "put": e["put"], "panic_site": e["vsite"] or e["psite"], "stored": e["st"]}
    for ls in per_finding.values():
        ctx.samples.append(sample(ls[0], evs[ls[0]]))
    ctx.samples += [sample(l, e) for l, e in ordinary_samples(out)]
    if not ctx.violations and not ctx.replay:
        hb = st["HonestByKind"]
        missing = [k for k in ("atn", "cstn", "code") if hb.get(k, [0, 0])[1] == 0]
        need_ops = ["tlc:honest", "tlc:drop", "tlc:dup", "tlc:swap", "tlc:repl", "tlc:append", "tlc:prepend", "tlc:trunc", "tlc:extend", "tlc:flip",
                    "tlc:keyhash", "tlc:header", "tlc:account", "tlc:code", "tlc:vref-through", "tlc:craftedroot", "random:honest", "random:bytes",
                    "random:embedded-target"]
        absent = [o for o in need_ops if agg.get(o, [0])[0] == 0]
        if missing or absent or st["EmbTraversed"] == 0 or st["Cases"] - st["Accepted"] < 1000 or st["MaxLeaves"] < 100:
            raise NoVerdict("vacuity guard: honest claims never accepted for %s; mutation classes never executed %s; coverage %s" % (
                missing, absent, ctx.cov["reached"]))
    ctx.cov["rule"] = ("evaluation = one content item (key + offer value) handed to the real StateValidator.ValidateContent and then to state.Storage.Put "
                       "over a pebble store, with a read-back; all are non-trivial (every item is a mutated or honest Merkle proof against a controlled "
                       "header source); distinct by the bytes of (content key, content value) per world; worlds = tries built by the harness")
    ctx.assumptions += [
        "Keccak-256 is collision resistant: hash equality is identified with equality of the byte strings the harness built (node ids)",
        "exhaustive TLC space: nibble alphabet {0,1}, 1..3 keys of 3 nibbles, one mutation (or one consistent pair) per case; "
        "quick tier uses the key sets containing 000 and 4 small-value subsets, thorough all 92 key sets and all subsets",
        "the judge reads the trie structure from the harness's own builder (cross-checked against go-ethereum's StackTrie roots), never from the code under test",
        "accepted = ValidateContent and Storage.Put both return nil (state/network.go validateContents); Put is also driven on rejected items",
    ]
    return "model_checking"


def ordinary_samples(path):
    """an accepted honest claim, an accepted honest bytecode item and a rejected mutation from the trace"""
    want = {"honest": lambda e: e["abs"].get("hon") and e["val"] == "ok" and e["put"] == "ok" and e["kind"] != "code",
            "code": lambda e: e["abs"].get("hon") and e["val"] == "ok" and e["put"] == "ok" and e["kind"] == "code",
            "rejected": lambda e: e["val"] == "err" and e["abs"].get("op") in ("repl", "swap", "flip")}
    out = []
    with open(path) as f:
        for i, ln in enumerate(f, 1):
            if not want:
                break
            if ln.startswith('{"U":'):
                continue
            e = json.loads(ln)
            for k in list(want):
                if want[k](e):
                    out.append((i, e))
                    del want[k]
                    break
    return out


def world_indexes(path, lines):
    """job indexes (0-based order of the world events) of the worlds that contain the given trace lines"""
    want, out, w = set(lines), [], -1
    with open(path) as f:
        for i, ln in enumerate(f, 1):
            if ln.startswith('{"U":'):
                w += 1
            if i in want and w not in out:
                out.append(w)
    return out
