"""C12 - the beacon light client only advances on verified, sufficiently signed updates (DESIGN.md 6).

Spec: LightClientOps.tla (I level VerifyOn/ApplyOn = transcription of VerifyGenericUpdate/ApplyGenericUpdate; P level Nec /
ApplySafe), LightClient.tla (exhaustive design model + 12 deviation witnesses), Gen_LightClient.tla (TLC -simulate emits
update sequences), Trace_LightClient.tla (judge of traces of the real beacon.ConsensusLightClient)."""
import json, os, time, concurrent.futures as cf
import vlib
from vlib import NoVerdict

NEC = {"participation", "notFuture", "sigAfterAtt", "attAfterFin", "periodFits", "relevant", "finalityBranch", "committeeBranch", "signature"}
APPLY = {"monotoneFin", "monotoneOpt", "optAhead", "needsTwoThirds", "rotation"}
OWN = NEC | APPLY | {"verifyPure"}
INTEGRITY = {"chain", "notApplied"}

DEVIATIONS = [   # cfg, property that must be violated in the model with that deviation switched on
    ("MC_LC_DevFuture.cfg", "Action property Sound is violated."),
    ("MC_LC_DevPeriod.cfg", "Action property Sound is violated."),
    ("MC_LC_DevRelevance.cfg", "Action property Sound is violated."),
    ("MC_LC_DevFinProof.cfg", "Action property Sound is violated."),
    ("MC_LC_DevComProof.cfg", "Action property Sound is violated."),
    ("MC_LC_DevSig.cfg", "Action property Sound is violated."),
    ("MC_LC_DevCurCom.cfg", "Action property Sound is violated."),
    ("MC_LC_DevThreshold.cfg", "Action property NeedsTwoThirds is violated."),
    ("MC_LC_DevRotate.cfg", "Action property RotationToStoredNext is violated."),
    ("MC_LC_DevFinBack.cfg", "Action property Monotone is violated."),
    ("MC_LC_DevOptBack.cfg", "Action property Monotone is violated."),
    ("MC_LC_DevOptBehind.cfg", "OptAhead"),
]

# what the traces must have exercised before "no violation" means anything (Trace_LightClient!Flags)
NEED = ["accFull", "accFinality", "accOptimistic", "accNextPeriod", "accSupplyOnly", "finAdvance", "optAdvance", "adoptNext", "rotate",
        "rotateVisible", "heldAt341", "movedAt342", "blindBelow", "olderFinHeld", "olderAttHeld", "optRaised", "blindApplied",
        "oneParticipation", "oneNotFuture", "oneSigAfterAtt", "oneAttAfterFin", "onePeriodFits", "oneRelevant", "oneFinalityBranch",
        "oneCommitteeBranch", "oneSignature", "oneSignatureOtherCommittee", "oneSignatureNextPeriod"]


def design(ctx):
    thorough = ctx.tier == "thorough"
    vlib.tlc_design(ctx, "LightClient", "MC_LC.cfg", timeout=600)
    if thorough:
        vlib.tlc_design(ctx, "LightClient", "MC_LC_3Com.cfg", timeout=1200)
        vlib.tlc_design(ctx, "LightClient", "MC_LC_Period3.cfg", timeout=2400)
    # non-vacuity of every property: each deviation violates the property it is filed under (run four at a time)
    with cf.ThreadPoolExecutor(max_workers=4) as ex:
        futs = [ex.submit(vlib.tlc_design, ctx, "LightClient", cfg, 300, want, max(2, vlib.NCPU // 4)) for cfg, want in DEVIATIONS]
        for f in futs:
            f.result()


def generate(ctx, procs, per_proc, cfgs):
    """TLC -simulate on Gen_LightClient: `procs` single-worker runs (deterministic per seed) of `per_proc` sequences each,
    cycling through the generator configs `cfgs`."""
    def one(i):
        r = vlib.tlc(ctx, "Gen_LightClient", cfgs[i % len(cfgs)], workers=1, timeout=1800, name="gen-%d" % i,
                     args=["-simulate", "num=%d" % per_proc, "-depth", "120", "-seed", str(ctx.seed * 1000 + i)])
        if r.error or r.violated:
            raise NoVerdict("case generation (Gen_LightClient, seed %d) failed: %s\n%s" % (ctx.seed * 1000 + i, r.error or r.violated, r.out[-3000:]))
        return vlib.printed_json(r, "CASE"), r.generated
    cases, gen = [], 0
    with cf.ThreadPoolExecutor(max_workers=min(procs, vlib.NCPU)) as ex:
        for cs, g in ex.map(one, range(procs)):
            cases += cs
            gen += g
    ctx.cov["generated_by_tlc"] = {"sequences": len(cases), "updates": sum(len(c["steps"]) for c in cases), "simulator_states": gen}
    if len(cases) < procs * per_proc // 2:
        raise NoVerdict("case generation produced only %d of %d sequences" % (len(cases), procs * per_proc))
    return cases


def rel(a, b):
    return "<" if a < b else "=" if a == b else ">"


def pclass(p):
    return "0" if p == 0 else "<=half" if p <= 256 else "<341" if p < 341 else "341" if p == 341 else "342" if p == 342 else ">342"


def abstract_class(e):
    """Abstract transition class of one executed step (for distinct_nontrivial)."""
    u, s, t = e["u"], e["pre"], e["post"]
    per = lambda x: x // 8192
    sp = per(s["fin"])
    clamp = lambda d: max(-1, min(2, d))
    return [u["kind"], u["defect"], e["vclass"], e["mode"], rel(u["att"], s["fin"]), clamp(per(u["sig"]) - sp),
            "none" if u["fin"] < 0 else rel(u["fin"], s["fin"]), None if u["fin"] < 0 else clamp(per(u["fin"]) - sp), s["nxt"] != "none",
            "none" if u["next"] == "none" else ("same" if u["next"] == s["nxt"] else "diff"), pclass(u["parts"]),
            t["fin"] != s["fin"], t["opt"] != s["opt"], t["cur"] != s["cur"], t["nxt"] != s["nxt"]]


def selftest(ctx, events):
    """Self-test of the binding (DESIGN 4.8): single-field corruptions of recorded events must be flagged by the judge with
    exactly the expected conjunct.  Each corruption is a two-line trace: an init event carrying the step's pre-store, then the
    corrupted step."""
    steps = [e for e in events if e["ev"] == "step"]
    lines, expect = [], []

    def add(e, conj):
        lines.append({"ev": "init", "t": e["t"], "store": e["pre"]})
        lines.append(e)
        expect.append((len(lines), conj))

    for c in sorted(NEC - {"participation"}):      # a rejected single-fault update reported as accepted
        e = next((x for x in steps if x["src"] == "tlc" and x["cls"] == c and x["vclass"] != "ok" and not x["applied"]), None)
        if e:
            add(dict(e, verdict="ok", vclass="ok"), c)
    e = next((x for x in steps if x["applied"] and x["post"]["fin"] > x["mid"]["fin"]), None)
    if e:
        add(dict(e, post=dict(e["post"], fin=e["mid"]["fin"] - 1)), "monotoneFin")
        add(dict(e, post=dict(e["post"], opt=e["post"]["fin"] - 1)), "optAhead")
    e = next((x for x in steps if x["applied"] and x["post"]["opt"] > x["mid"]["opt"]), None)
    if e:
        add(dict(e, post=dict(e["post"], opt=e["mid"]["opt"] - 1)), "monotoneOpt")
    e = next((x for x in steps if x["applied"] and x["u"]["parts"] == 341 and x["post"]["nxt"] == "none"), None)
    if e:
        add(dict(e, post=dict(e["post"], nxt="B")), "needsTwoThirds")
    e = next((x for x in steps if x["applied"] and x["post"]["cur"] != x["mid"]["cur"]), None)
    if e:
        other = next(n for n in ("A", "B", "C") if n not in (e["mid"]["nxt"], e["mid"]["cur"]))
        add(dict(e, post=dict(e["post"], cur=other)), "rotation")
    e = next((x for x in steps if not x["applied"]), None)
    if e:
        add(dict(e, mid=dict(e["mid"], curMax=e["mid"]["curMax"] + 1), post=dict(e["post"], curMax=e["post"]["curMax"] + 1)), "verifyPure")
    if len(expect) < 12:
        raise NoVerdict("self-test of the judge: only %d of 14 corruptions could be built from the recorded trace" % len(expect))
    path = os.path.join(ctx.work, "selftest.ndjson")
    with open(path, "w") as f:
        for x in lines:
            f.write(json.dumps(x) + "\n")
    viol, _ = vlib.judge(ctx, "Trace_LightClient", "Trace_LightClient.cfg", path, timeout=600, name="judge-selftest")
    got = {(l, c) for l, c in viol}
    missed = [x for x in expect if x not in got]
    if missed:
        raise NoVerdict("self-test of the judge failed: corruptions not flagged: %s (flagged: %s)" % (missed, sorted(got)))
    ctx.cov["judge_selftest"] = {"corruptions": len(expect), "all_flagged": True}


def only_case(cases, seq_id):
    """The replay keeps the one abstract case the sequence was concretised from (positions are kept: the id seeds the concretiser)."""
    if not seq_id.startswith("c"):
        return []
    i = int(seq_id[1:].split(".")[0])
    return [c if k == i else None for k, c in enumerate(cases[:i + 1])]


def replay_args(args, seq_id):
    base = [str(a) for a in args]
    if "--only" in base:
        i = base.index("--only")
        base = base[:i] + base[i + 2:]
    return base + ["--only", seq_id]


def run(ctx):
    thorough, seed = ctx.tier == "thorough", ctx.seed
    if not ctx.replay and not os.environ.get("VERIF_SKIP_DESIGN"):   # (the env switch is for mutation experiments only)
        design(ctx)
    out = os.path.join(ctx.work, "lightclient.ndjson")
    cases_path = os.path.join(ctx.work, "cases.json")
    if ctx.replay:
        rp = json.load(open(ctx.replay))
        cases = rp["cases"]
        args = list(rp["harness_args"])
    else:
        tg = time.time()
        cases = generate(ctx, 16 if thorough else 8, 40 if thorough else 8, ["Gen_LC.cfg", "Gen_LC_P3.cfg"] if thorough else ["Gen_LC.cfg"])
        vlib.log("generation: %d sequences in %.1fs" % (len(cases), time.time() - tg))
        args = ["lightclient", "--conc", 4 if thorough else 3, "--rnd", 2600 if thorough else 110, "--rndlen", 16, "--seed", seed]
    json.dump(cases, open(cases_path, "w"))
    full = [str(a) for a in args] + ["--cases", cases_path, "--out", out]
    vlib.build_harness(ctx)
    t1 = time.time()
    vlib.harness(ctx, full, timeout=3000)
    events = vlib.read_ndjson(out)
    vlib.log("generated %d sequences by TLC; harness executed %d events in %.1fs" % (len(cases), len(events), time.time() - t1))
    steps = [e for e in events if e["ev"] == "step"]
    ctx.traces += sum(1 for e in events if e["ev"] == "init")
    ctx.evaluations += len(steps)
    for e in steps:
        ctx.distinct.add(vlib.digest(abstract_class(e)))
    for want in (lambda e: e["verdict"] == "ok" and e["post"]["cur"] != e["mid"]["cur"], lambda e: e["u"]["defect"] == "sigBad" and e["src"] == "tlc",
                 lambda e: e["verdict"] == "ok" and e["u"]["kind"] == "optimistic", lambda e: e["u"]["defect"] == "finBad", lambda e: e["mode"] == "blind" and e["post"] != e["mid"]):
        for e in steps:
            if want(e):
                ctx.samples.append({k: e[k] for k in ("t", "i", "src", "cls", "u", "now", "mode", "verdict", "pre", "post")})
                break

    viol, r = vlib.judge(ctx, "Trace_LightClient", "Trace_LightClient.cfg", out, timeout=3000, name="judge")
    ctx.states += r.distinct
    ctx.transitions += r.generated
    vlib.log("judge: %d events in %.1fs, %d flagged" % (r.distinct - 1, r.wall, len(viol)))
    cov = (vlib.printed_json(r, "COV") or [{}])[-1]
    drift = (vlib.printed_json(r, "DRIFT") or [[]])[-1]
    vc = {}
    for e in steps:
        vc[e["vclass"]] = vc.get(e["vclass"], 0) + 1
    ctx.cov["reached"] = cov
    ctx.cov["verdict_classes"] = vc
    ctx.cov["by_source"] = {s: sum(1 for e in steps if e["src"] == s) for s in ("tlc", "rnd")}
    ctx.cov["defect_variants"] = sorted({e["u"]["variant"].split("(")[0] for e in steps if e["u"]["variant"]})

    broken = [(l, c) for l, c in viol if c in INTEGRITY]
    if broken:
        raise NoVerdict("harness integrity: %s at trace line %d (store projection not continuous between events)" % (broken[0][1], broken[0][0]))
    byc = {}
    for l, c in viol:
        if c in OWN:
            byc.setdefault(c, []).append(l)
    for c, lines in sorted(byc.items()):
        e = events[lines[0] - 1]
        what = ("accepted update violates necessary condition '%s'" % c) if c in NEC else ("store change violates '%s'" % c)
        vlib.violation(ctx, "%s at %d event(s); first at line %d: sequence %s step %d, update %s, now=%d, verdict=%s, store before %s, after %s" % (
            what, len(lines), lines[0], e["t"], e["i"], json.dumps(e["u"]), e["now"], e["verdict"], json.dumps(e["mid"]), json.dumps(e["post"])),
            {"label": "lightclient", "harness_args": replay_args(args, e["t"]),
             "cases": only_case(cases, e["t"]), "seed": seed, "conjunct": c, "lines": lines[:50], "first_event": e}, tag=c)

    if drift:
        kinds = {}
        for l, k in drift:
            kinds.setdefault(k, []).append(l)
        ctx.notes.append("drift: the code's step differs from the I-level transcription (LightClientOps VerifyOn/ApplyOn)%s: %s"
                         % ("" if ctx.violations else " but stays inside the property", {k: len(v) for k, v in kinds.items()}))
        ctx.cov["drift"] = {k: v[:10] for k, v in kinds.items()}
    if cov.get("panics"):
        p = next(e for e in steps if e["vclass"] == "panic" or e["apanic"])
        ctx.notes.append("%d update(s) made Verify/Apply panic (not a C12 verdict; first: sequence %s step %d: %s %s)" % (cov["panics"], p["t"], p["i"], p["verdict"], p["apanic"]))

    if not ctx.violations and not ctx.replay:
        selftest(ctx, events)
        missing = [k for k in NEED if not cov.get(k)]
        if missing:
            raise NoVerdict("vacuity guard: the executed updates never exercised %s (coverage %s)" % (missing, cov))
        if cov.get("honestRejected", 0) * 4 > sum(cov[k] for k in ("accFull", "accFinality", "accOptimistic")):
            raise NoVerdict("vacuity guard: too many updates that satisfy every stated condition were rejected (%s)" % cov)

    ctx.cov["rule"] = ("evaluation = one update concretised into real SSZ objects (3 synthetic 512-key BLS committees, consistent finality / next-committee "
                       "Merkle branches, real aggregate signatures) and passed to the real Verify{,Finality,Optimistic}Update and, if accepted or in blind mode, "
                       "Apply*Update of beacon.ConsensusLightClient; distinct_nontrivial = distinct abstract transition classes (wire kind, defect variant, "
                       "verdict class, order/period relations of the slots to the store, participation class, which store components changed)")
    ctx.assumptions += [
        "exhaustive TLC models use period length 2-3 slots, <= 7 slots, 2-3 committees, committee size 6; trace validation uses the real constants (8192, 512)",
        "collision resistance of SHA-256 and uniqueness of BLS signatures: 'the signature is valid for committee C' is decided by comparing with the signature "
        "recomputed from C's secret keys; branch validity by the harness's own SHA-256 fold at generalized indices 105 / 55 (Altair..Deneb state layout)",
        "header / committee identity in traces is a 31-bit tag of the hash tree root; the wall clock is set through Config.Chain.GenesisTime with 3 s / 9 s slack",
        "only the soundness direction is judged; rejection of an update that satisfies every stated condition is reported as coverage (honestRejected), not as a violation",
    ]
    return "model_checking"
