"""LCBOOT - how the beacon light client gets (and resets) its store: ConsensusLightClient.bootstrap and the part of
Sync around it; an extension of the specification beyond the listed properties (DESIGN I.10; C12's statement starts from
a bootstrapped store).  Spec: LightClientBoot.tla (exhaustive, strict and lax, three deviations); the real Sync runs
against a scripted ConsensusAPI whose bootstrap carries the specification's facets concretised over the synthetic
committees; Trace_LCBoot.tla judges every Sync (bootSound, bootStore, callsOrder, noPanic)."""
import json, os
import vlib
from vlib import NoVerdict


def design(ctx):
    vlib.tlc_design(ctx, "LightClientBoot", "MC_LCBoot_Strict.cfg", timeout=300)
    vlib.tlc_design(ctx, "LightClientBoot", "MC_LCBoot_Lax.cfg", timeout=300)
    vlib.tlc_design(ctx, "LightClientBoot", "MC_LCBoot_DevCom.cfg", timeout=300, expect_violation="Bound")
    vlib.tlc_design(ctx, "LightClientBoot", "MC_LCBoot_DevHdr.cfg", timeout=300, expect_violation="Bound")
    vlib.tlc_design(ctx, "LightClientBoot", "MC_LCBoot_DevEarly.cfg", timeout=300, expect_violation="Action property FailedKeeps is violated.")


def run(ctx):
    out = os.path.join(ctx.work, "lcboot.ndjson")
    if ctx.replay:
        args = json.load(open(ctx.replay))["harness_args"]
        args = args[:args.index("--out")] + ["--out", out]
    else:
        if not os.environ.get("VERIF_SKIP_DESIGN"):
            design(ctx)
        args = ["lightclient", "--boot", 400 if ctx.tier == "thorough" else 60, "--seed", ctx.seed, "--out", out]
    vlib.harness(ctx, args, timeout=1500)
    events = vlib.read_ndjson(out)
    st = {"syncs": 0, "accepted": 0, "accepted_over_existing_store": 0, "refused_with_store": 0, "valid_today_refused": 0, "by_facet": {}}
    for e in events:
        if e["ev"] != "boot":
            continue
        st["syncs"] += 1
        ctx.evaluations += 1
        f = e["f"]
        acc = e["post"] != e["pre"]
        bad = [k for k, v in (("api", f["api"] != "ok"), ("type", f["type"] != "current"), ("hdr:" + f["hdr"], f["hdr"] != "lcroot"),
                              ("com", f["com"] != "proven"), ("old+strict", f["age"] == "old" and f["strict"]))
               if v]
        k = "+".join(bad) or ("old+lax" if f["age"] == "old" else "valid")
        s = st["by_facet"].setdefault(k, [0, 0])
        s[0] += 1
        s[1] += acc
        if acc:
            st["accepted"] += 1
            if e["pre"]["set"]:
                st["accepted_over_existing_store"] += 1
        elif e["pre"]["set"]:
            st["refused_with_store"] += 1
        if not bad and not acc:
            st["valid_today_refused"] += 1
        ctx.distinct.add(vlib.digest([f, e["pre"]["set"], acc, e["calls"]]))
    ctx.traces += len({e["t"] for e in events})
    ctx.cov["reached"] = st
    viol, r = vlib.judge(ctx, "Trace_LCBoot", "Trace_LCBoot.cfg", out, timeout=900)
    ctx.states += r.distinct
    ctx.transitions += r.generated
    byc = {}
    for l, c in viol:
        byc.setdefault(c, []).append(l)
    for c, lines in byc.items():
        e = events[lines[0] - 1]
        vlib.violation(ctx, "the light client's bootstrap departs from LightClientBoot.tla: '%s' at %d Sync call(s), first at line %d: %s" % (
            c, len(lines), lines[0], json.dumps(e)[:400]),
            {"label": "lcboot", "harness_args": [str(a) for a in args], "seed": ctx.seed, "conjunct": c, "lines": lines[:50], "first_event": e}, tag=c)
    if not ctx.violations and not ctx.replay:
        need = {"valid", "old+lax", "api", "type", "hdr:other", "hdr:beaconroot", "com", "old+strict"}
        if not need <= set(st["by_facet"]) or st["accepted"] == 0 or st["accepted_over_existing_store"] == 0 or st["refused_with_store"] == 0:
            raise NoVerdict("vacuity guard: %s" % st)
    ctx.cov["rule"] = "evaluation = one call of the real ConsensusLightClient.Sync against the scripted API; distinct = distinct (facets, store existed, accepted, API calls)"
    ctx.assumptions += [
        "the scripted API fails everything after the bootstrap, so Sync ends there (the update steps are C12's)",
        "committee proof at depth 5 / index 22 over the first five of the six branch nodes, as the code verifies it (pre-Electra state layout)",
        "not one of the listed properties; soundness direction only - today's code accepts a checkpoint that is the root of the light-client header, "
        "a code comparing the beacon header's root (the consensus specification's meaning) is accepted too",
    ]
    return "model_checking"
