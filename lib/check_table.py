"""C07 C18 - routing table (DESIGN.md 6). Spec: RoutingTable.tla (I level, three exhaustive slices + deviation
witnesses), Trace_Table.tla (judge of traces of the real portalwire table)."""
import json, os, re
import vlib
from vlib import NoVerdict

OWN = {
    "C07": {"sizes", "unique", "noSelf", "rightBucket", "ipBucket", "ipTable", "known", "noPanic"},
    "C18": {"noEviction", "fullKeeps", "removalCause", "succession", "recordVersion", "endpointClearsLive", "creditKept", "creditSpent", "creditExhausted",
            "staleIgnored", "newcomerQueued"},
}


def design(ctx):
    M = "MC_RoutingTable"
    thorough = ctx.tier == "thorough"
    vlib.tlc_design(ctx, M, "MC_RT_Member.cfg", timeout=1200)
    vlib.tlc_design(ctx, M, "MC_RT_Live.cfg", timeout=1800)
    vlib.tlc_design(ctx, M, "MC_RT_Stale.cfg", timeout=600)       # liveness checks that outlive their entry (incarnations 0..2)
    if thorough:
        vlib.tlc_design(ctx, M, "MC_RT_LiveGen2.cfg", timeout=3000)
        vlib.tlc_design(ctx, M, "MC_RT_Live4.cfg", timeout=3000)
        vlib.tlc_design(ctx, M, "MC_RT_Rec.cfg", timeout=3000)
    else:
        vlib.tlc_design(ctx, M, "MC_RT_RecSmall.cfg", timeout=1200)
    if ctx.prop == "C18":
        # the action properties are not vacuous: each deviation filed under C18 violates its property in the model
        vlib.tlc_design(ctx, M, "MC_RT_DevEvict.cfg", timeout=300, expect_violation="Action property NoEvictionByNewcomer is violated.")
        vlib.tlc_design(ctx, M, "MC_RT_DevSeq.cfg", timeout=300, expect_violation="Action property RecordVersioning is violated.")
        vlib.tlc_design(ctx, M, "MC_RT_DevLive.cfg", timeout=300, expect_violation="Action property EndpointClearsLive is violated.")
        vlib.tlc_design(ctx, M, "MC_RT_DevStale.cfg", timeout=300, expect_violation="Action property RemovalHasCause is violated.")


def coverage(ctx, events):
    """What the recorded operations actually exercised (vacuity guard + evidence)."""
    c = {k: 0 for k in ("ops", "full_bucket_adds", "replacement_pushes", "replacement_overflows", "removals", "successions",
                        "record_changes", "endpoint_changes", "reval_dead_credit_left", "reval_dead_removed", "track_removed",
                        "max_entries", "max_replacements", "snapshots", "buckets_used", "ip_limited_nets", "stale_results", "stale_results_new_entry")}
    tab = {}
    used = set()
    for e in events:
        if e["ev"] == "init":
            tab = {}
            ctx.traces += 1
            continue
        if e["ev"] not in ("op", "snap"):
            continue
        pre = {b: (list(v[0]), list(v[1])) for b, v in tab.items()}
        for ch in e["ch"]:
            tab[ch["b"]] = (ch["e"], ch["r"])
            if ch["e"]:
                used.add(ch["b"])
            c["max_entries"] = max(c["max_entries"], len(ch["e"]))
            c["max_replacements"] = max(c["max_replacements"], len(ch["r"]))
        ctx.evaluations += 1
        if e["ev"] == "snap":
            c["snapshots"] += 1
            if e["ch"]:
                ctx.distinct.add(vlib.digest(e["ch"]))
            continue
        c["ops"] += 1
        o = e["op"]
        if e["ch"]:
            ctx.distinct.add(vlib.digest([o["name"], o["id"], o["seq"], o["ip"], o["port"], o["alive"], o["ok"], e["ch"]]))
        for ch in e["ch"]:
            b = ch["b"]
            pe, pr = pre.get(b, ([], []))
            pids, qids = [n["id"] for n in pe], [n["id"] for n in ch["e"]]
            rem = set(pids) - set(qids)
            if rem:
                c["removals"] += 1
                if pr:
                    c["successions"] += 1
                if o["name"] == "reval":
                    c["reval_dead_removed"] += 1
                if o["name"] == "track":
                    c["track_removed"] += 1
            if len(pe) >= 16 and o["name"] in ("addFound", "addInbound"):
                c["full_bucket_adds"] += 1
                if len(ch["r"]) > len(pr) or [n["id"] for n in ch["r"]] != [n["id"] for n in pr]:
                    c["replacement_pushes"] += 1
                    if len(pr) >= 10:
                        c["replacement_overflows"] += 1
            for n in ch["e"]:
                for m in pe:
                    if m["id"] == n["id"]:
                        if (m["ip"], m["port"], m["seq"]) != (n["ip"], n["port"], n["seq"]):
                            c["record_changes"] += 1
                        if (m["ip"], m["port"]) != (n["ip"], n["port"]):
                            c["endpoint_changes"] += 1
        if o["name"] == "reval" and o["isentry"] and not o["alive"] and o["credit"] // 3 > 0:
            c["reval_dead_credit_left"] += 1
        if o["name"] == "revalstale":
            c["stale_results"] += 1
            if o["isentry"] and not o["alive"]:
                c["stale_results_new_entry"] += 1
    c["buckets_used"] = len(used)
    return c


def run(ctx):
    p, thorough, seed = ctx.prop, ctx.tier == "thorough", ctx.seed
    if not ctx.replay and not os.environ.get('VERIF_SKIP_DESIGN'):   # (the env switch is for mutation experiments only)
        design(ctx)
    runs = []
    if ctx.replay:
        rp = json.load(open(ctx.replay))
        plan = [(rp["label"], rp["harness_args"])]
    else:
        plan = [("serial", ["table", "--mode", "serial", "--traces", 200 if thorough else 40, "--ops", 400 if thorough else 300, "--seed", seed])]
        if p == "C07":
            plan.append(("conc", ["table", "--mode", "conc", "--traces", 50 if thorough else 8, "--ops", 800, "--seed", seed]))
            plan.append(("race", ["table", "--mode", "race", "--traces", 12 if thorough else 3, "--seed", seed]))
    for label, args in plan:
        out = os.path.join(ctx.work, label + ".ndjson")
        args = [a for a in args]
        if "--out" in args:
            args = args[:args.index("--out")]
        full = args + ["--out", out]
        try:
            vlib.harness(ctx, full, timeout=3000)
        except NoVerdict as e:
            sig = vlib.crash_signature(str(e))
            if sig and any("portalwire" in f for f in sig["frames"]) and p == "C07":
                vlib.violation(ctx, "table operation crashed the process: %s at %s" % (sig["panic"], sig["frames"][:3]),
                               {"label": label, "harness_args": [str(a) for a in full], "seed": ctx.seed, "crash": sig}, tag="panic")
                continue
            raise
        events = vlib.read_ndjson(out)
        cov = coverage(ctx, events)
        ctx.cov["reached_" + label] = cov
        for e in events:
            if e["ev"] == "op" and e["ch"] and len(ctx.samples) < 5:
                ctx.samples.append({"run": label, "op": e["op"], "changed_buckets": [c["b"] for c in e["ch"]],
                                    "entries_after": [len(c["e"]) for c in e["ch"]], "replacements_after": [len(c["r"]) for c in e["ch"]]})
        viol, r = vlib.judge(ctx, "Trace_Table", "Trace_Table.cfg", out, timeout=3000, name="judge-" + label)
        ctx.states += r.distinct
        ctx.transitions += r.generated
        dr = vlib.printed_json(r, "DRIFT")
        if dr and dr[-1] and p == "C18":
            ctx.notes.append("drift (%s run): %d liveness-credit update(s) differ from the pinned arithmetic (+1 on success, div 3 on failure); "
                             "the statement leaves the rate open, no verdict" % (label, len(dr[-1])))
        nl = [l for l, c in viol if c == "lists"]
        if nl and p == "C07":   # bookkeeping the statement does not mention: reported, never a verdict
            ctx.notes.append("drift (%s run): %d snapshot(s) where an entry is in no revalidation list or a replacement is in one (internal bookkeeping, no verdict)" % (label, len(nl)))
        mine = [(l, c) for l, c in viol if c in OWN[p]]
        byc = {}
        for l, c in mine:
            byc.setdefault(c, []).append(l)
        for c, lines in byc.items():
            e = events[lines[0] - 1]
            vlib.violation(ctx, "conjunct '%s' false at %d event(s) of the %s run, first at line %d (trace %s, op=%s)" % (
                c, len(lines), label, lines[0], e.get("t"), json.dumps(e.get("op"))[:300]),
                {"label": label, "harness_args": [str(a) for a in full], "seed": ctx.seed, "conjunct": c, "lines": lines[:50],
                 "first_event": e}, tag=c)
    if not ctx.violations and not ctx.replay:
        cov = ctx.cov["reached_serial"]
        need = ["full_bucket_adds", "replacement_overflows", "successions", "record_changes", "endpoint_changes",
                "reval_dead_credit_left", "reval_dead_removed", "track_removed", "stale_results_new_entry"]
        missing = [k for k in need if cov[k] == 0]
        if missing or cov["max_entries"] < 16 or cov["max_replacements"] < 10 or cov["buckets_used"] < 5:
            raise NoVerdict("vacuity guard: the recorded operations never exercised %s (coverage %s)" % (missing, cov))
    ctx.cov["rule"] = ("events = table operations applied to the real Table (serial: handleAddNode / deleteNode / handleResponse / handleTrackRequest / loadSeedNodes "
                       "under the table mutex; concurrent: through the running loop) each followed by a snapshot; non-trivial = the operation changed at least one bucket; "
                       "distinct by (operation, arguments, resulting buckets)")
    ctx.assumptions += [
        "exhaustive TLC slices use bucket size 2, 1 replacement, per-bucket/table IP limits 1/2, <=5 ids; trace validation uses the real constants",
        "node identity in traces is a harness-assigned index per enode.ID; log distance is computed by go-ethereum's enode.LogDist (trusted), bucket index by the specification",
        "concurrent runs are judged on snapshots taken under the table mutex (state invariants only)",
    ]
    return "model_checking"
