"""Shared helpers for /verif/bin/vcheck: TLC runner/parser, harness build, evidence, known findings.

stdlib only.  Exit codes (DESIGN.md 2.3): 0 held / 1 violation / 2 no verdict.
"""
import json, os, re, shutil, subprocess, sys, tempfile, time, hashlib

VERIF = os.path.dirname(os.path.dirname(os.path.abspath(__file__)))
SPEC = os.path.join(VERIF, "spec")
HARNESS = os.path.join(VERIF, "harness")
REPO = os.environ.get("VERIF_REPO", "/repo")
EVID = os.environ.get("VERIF_EVIDENCE_DIR") or os.path.join(VERIF, "evidence")   # override: experiments on seeded trees only
REPLAYS = os.path.join(VERIF, "replays")
KNOWN = os.path.join(VERIF, "KNOWN_FINDINGS.json")
NCPU = os.cpu_count() or 4


class NoVerdict(Exception):
    """The check could not reach a verdict (exit 2) - never a violation."""


def goenv():
    env = dict(os.environ)
    env["GOFLAGS"] = "-mod=mod"
    env["GOPROXY"] = "off"
    # the cached go1.24.2 toolchain is selected by GOTOOLCHAIN=auto; GOSUMDB=off / GOTOOLCHAIN=local break that
    env.pop("GOSUMDB", None)
    env.pop("GOTOOLCHAIN", None)
    env.setdefault("GOMAXPROCS", str(NCPU))
    return env


def log(*a):
    print("[vcheck]", *a, file=sys.stderr, flush=True)


def sh(cmd, timeout=600, cwd=None, env=None, stdin=None):
    """Run cmd (list), return (rc, stdout+stderr). rc=-9 on timeout."""
    try:
        p = subprocess.run(cmd, cwd=cwd, env=env, stdout=subprocess.PIPE, stderr=subprocess.STDOUT,
                           timeout=timeout, input=stdin)
        return p.returncode, p.stdout.decode("utf-8", "replace")
    except subprocess.TimeoutExpired as e:
        out = (e.stdout or b"").decode("utf-8", "replace")
        return -9, out + "\n[timeout after %ss]" % timeout


class Ctx:
    def __init__(self, prop, tier, seed, replay=None):
        self.prop, self.tier, self.seed, self.replay = prop, tier, seed, replay
        self.t0 = time.time()
        self.work = tempfile.mkdtemp(prefix="vcheck-%s-" % prop)
        self.cov = {}           # evidence coverage accumulators
        self.assumptions = []
        self.notes = []
        self.violations = []    # list of dict(what=..., replay=path)
        self.known_hits = {}    # finding id -> description
        self.samples = []
        self.states = 0
        self.transitions = 0
        self.traces = 0
        self.evaluations = 0
        self.distinct = set()

    def cleanup(self):
        shutil.rmtree(self.work, ignore_errors=True)

    def sub(self, name):
        d = os.path.join(self.work, name)
        os.makedirs(d, exist_ok=True)
        return d


_built = {}


def build_harness(ctx):
    """(Re)build vharness from /verif/harness against /repo's working tree with -tags verif."""
    if "bin" in _built:
        return _built["bin"]
    gm = os.path.join(HARNESS, "go.mod")
    txt = open(gm).read()
    want = "replace github.com/zen-eth/shisui => %s\n" % REPO
    cur = re.search(r"replace github\.com/zen-eth/shisui => \S+\n", txt)
    if cur and cur.group(0) != want:      # VERIF_REPO points at a snapshot of the repository (background runs)
        open(gm, "w").write(txt.replace(cur.group(0), want))
    shutil.copyfile(os.path.join(REPO, "go.sum"), os.path.join(HARNESS, "go.sum"))
    extra = os.path.join(HARNESS, "go.sum.extra")
    if os.path.exists(extra):
        with open(os.path.join(HARNESS, "go.sum"), "a") as f:
            f.write(open(extra).read())
    out = os.path.join(VERIF, ".work", "bin")
    os.makedirs(out, exist_ok=True)
    binp = os.path.join(out, "vharness-%d" % os.getpid())
    t = time.time()
    rc, o = sh(["go", "build", "-tags", "verif", "-o", binp, "./cmd/vharness"], timeout=900, cwd=HARNESS, env=goenv())
    if rc != 0:
        raise NoVerdict("harness build failed (does /repo still compile with -tags verif?):\n" + o[-4000:])
    log("harness built in %.1fs" % (time.time() - t))
    _built["bin"] = binp
    return binp


def drop_harness():
    b = _built.get("bin")
    if b and os.path.exists(b):
        os.remove(b)


def harness(ctx, args, timeout=900, env_extra=None, ok_rcs=(0,)):
    binp = build_harness(ctx)
    env = goenv()
    if env_extra:
        env.update(env_extra)
    rc, out = sh([binp] + [str(a) for a in args], timeout=timeout, env=env, cwd=ctx.work)
    if rc not in ok_rcs:
        raise NoVerdict("vharness %s failed rc=%s:\n%s" % (" ".join(map(str, args[:3])), rc, out[-6000:]))
    return rc, out


def crash_signature(out):
    """A Go panic / fatal error that killed the harness process: which shisui frames are on the stack?"""
    m = re.search(r"^(panic: .*|fatal error: .*)$", out, re.M)
    if not m:
        return None
    frames = re.findall(r"^(github\.com/zen-eth/shisui/[^\s(]+(?:\([^)]*\))?[^\s]*)\(", out, re.M)
    frames += re.findall(r"^\s+(/repo/[^\s:]+):\d+", out, re.M)
    return {"panic": m.group(1)[:300], "frames": frames[:6]}


# ---------------------------------------------------------------------------------------------
# TLC

class TLCResult:
    def __init__(self):
        self.rc = None
        self.out = ""
        self.generated = 0
        self.distinct = 0
        self.depth = 0
        self.violated = None        # name of violated invariant / property, or "deadlock"
        self.error = None           # other TLC error text
        self.printed = []           # raw strings printed by PrintT lines that start with a quote-tagged tuple
        self.coverage = {}          # action name -> (distinct, total)
        self.wall = 0.0

    def ok(self):
        return self.violated is None and self.error is None and self.rc == 0


_RE_STATES = re.compile(r"(\d+) states generated, (\d+) distinct states found")
_RE_DEPTH = re.compile(r"The depth of the complete state graph search is (\d+)")
_RE_INV = re.compile(r"Error: Invariant (\S+) is violated")
_RE_PROP = re.compile(r"Error: (?:Action|Temporal) propert(?:y|ies) (\S+)? ?(?:is|were) violated")
_RE_COV = re.compile(r"^<(\w+) line \d+, col \d+ to line \d+, col \d+ of module (\w+)>: (\d+):(\d+)", re.M)
_RE_SIM = re.compile(r"Progress: (\d+) states checked, (\d+) traces generated")


def tlc(ctx, module, cfg, files=(), extra=None, workers=None, timeout=600, args=(), dfs=False, name=None):
    """Run TLC on spec/<module>.tla with spec/<cfg> in a scratch copy. `files`: extra spec files to copy
    (all of spec/*.tla are always copied). `extra`: {filename: source path} data files for the run dir."""
    d = ctx.sub(name or ("tlc-" + cfg.replace(".cfg", "") + "-%d" % int(time.time() * 1000 % 1000000)))
    for f in os.listdir(SPEC):
        if f.endswith(".tla") or f.endswith(".cfg"):
            shutil.copyfile(os.path.join(SPEC, f), os.path.join(d, f))
    for k, v in (extra or {}).items():
        if os.path.abspath(v) != os.path.abspath(os.path.join(d, k)):
            shutil.copyfile(v, os.path.join(d, k))
    env = dict(os.environ)
    jopts = "-Xss256m"
    if dfs:
        jopts += " -Dtlc2.tool.queue.IStateQueue=StateDeque"
    env["JAVA_TOOL_OPTIONS"] = (env.get("JAVA_TOOL_OPTIONS", "") + " " + jopts).strip()
    cmd = ["tlc", "-workers", str(workers or NCPU), "-metadir", os.path.join(d, "meta"), "-config", cfg,
           "-noGenerateSpecTE"] + list(args) + [module + ".tla"]
    t = time.time()
    rc, out = sh(cmd, timeout=timeout, cwd=d, env=env)
    r = TLCResult()
    r.rc, r.out, r.wall = rc, out, time.time() - t
    m = None
    for m in _RE_STATES.finditer(out):
        pass
    if m:
        r.generated, r.distinct = int(m.group(1)), int(m.group(2))
    else:
        for m in _RE_SIM.finditer(out):
            pass
        if m:
            r.generated = int(m.group(1))
    m = _RE_DEPTH.search(out)
    if m:
        r.depth = int(m.group(1))
    m = _RE_INV.search(out)
    if m:
        r.violated = m.group(1)
    elif "is violated" in out or "were violated" in out or "was violated" in out:
        mm = re.search(r"Error: (.*violated.*)", out)
        r.violated = mm.group(1) if mm else "property"
    elif "Deadlock reached" in out:
        r.violated = "deadlock"
    if rc == -9:
        r.error = "timeout"
    elif r.violated is None and rc != 0:
        mm = re.search(r"Error: (.*)", out)
        r.error = (mm.group(1) if mm else "rc=%d" % rc) + "\n" + out[-3000:]
    for m in _RE_COV.finditer(out):
        r.coverage[m.group(1)] = (int(m.group(3)), int(m.group(4)))
    r.printed = [ln for ln in out.splitlines() if ln.startswith("<<\"")]
    shutil.rmtree(os.path.join(d, "meta"), ignore_errors=True)
    shutil.rmtree(os.path.join(d, "states"), ignore_errors=True)
    return r


def tlc_design(ctx, module, cfg, timeout=600, expect_violation=None, workers=None, args=()):
    """Exhaustive design check. Returns the TLCResult; raises NoVerdict on tool errors/timeouts.
    A violated property on the *specification* is a lead, not a verdict (DESIGN 1): callers decide."""
    r = tlc(ctx, module, cfg, timeout=timeout, workers=workers, args=args)
    if r.error:
        raise NoVerdict("TLC %s/%s: %s" % (module, cfg, r.error))
    ctx.states += r.distinct
    ctx.transitions += r.generated
    ctx.cov.setdefault("tlc_runs", []).append({"module": module, "cfg": cfg, "distinct": r.distinct,
                                               "generated": r.generated, "depth": r.depth,
                                               "violated": r.violated, "wall_s": round(r.wall, 1)})
    if expect_violation is None and r.violated:
        raise NoVerdict("design model %s/%s violates %s - specification and property disagree; "
                        "fix the model (this is not a verdict about the code)\n%s" % (module, cfg, r.violated, r.out[-3000:]))
    if expect_violation is not None and r.violated != expect_violation:
        raise NoVerdict("design model %s/%s: expected witness for %s, got %s" % (module, cfg, expect_violation, r.violated))
    log("TLC %s %s: %d distinct / %d generated, depth %d, %.1fs%s" % (module, cfg, r.distinct, r.generated, r.depth, r.wall,
                                                                      (" violated=" + r.violated) if r.violated else ""))
    return r


def apalache(ctx, module, cfg, init, inv, length, expect_error=False, timeout=600):
    """Bounded symbolic check with Apalache (used for inductive invariants: --init=<any state satisfying the invariant>,
    --length=1). Raises NoVerdict when the outcome is not the expected one (a design-level result, never a verdict about code)."""
    d = ctx.sub("apalache-%s-%s-%d" % (cfg.replace(".cfg", ""), init, int(time.time() * 1000 % 1000000)))
    for sub in ("", "apalache"):      # spec/apalache/: modules that EXTEND Apalache's own standard module (SANY / TLC cannot parse them)
        for f in os.listdir(os.path.join(SPEC, sub)):
            if f.endswith(".tla") or f.endswith(".cfg"):
                shutil.copyfile(os.path.join(SPEC, sub, f), os.path.join(d, f))
    t = time.time()
    rc, out = sh(["apalache-mc", "check", "--config=" + cfg, "--init=" + init, "--inv=" + inv, "--length=%d" % length,
                  "--out-dir=" + os.path.join(d, "out"), module + ".tla"], timeout=timeout, cwd=d)
    wall = time.time() - t
    ok = "The outcome is: NoError" in out
    err = "The outcome is: Error" in out
    shutil.rmtree(os.path.join(d, "out"), ignore_errors=True)
    if not ok and not err:
        raise NoVerdict("apalache %s/%s: no outcome (rc=%s)\n%s" % (module, cfg, rc, out[-3000:]))
    ctx.cov.setdefault("apalache_runs", []).append({"module": module, "cfg": cfg, "init": init, "inv": inv, "length": length,
                                                    "outcome": "NoError" if ok else "Error", "wall_s": round(wall, 1)})
    if ok == expect_error:
        raise NoVerdict("apalache %s/%s init=%s inv=%s: expected %s, got %s - the design model is wrong (not a verdict about the code)\n%s" % (
            module, cfg, init, inv, "a counterexample" if expect_error else "NoError", "NoError" if ok else "Error", out[-2500:]))
    log("Apalache %s %s init=%s inv=%s length=%d: %s, %.1fs" % (module, cfg, init, inv, length, "NoError" if ok else "Error (expected)", wall))


def tlaps(ctx, proof_module, timeout=900):
    """Check a TLAPS proof (spec/proofs/<proof_module>.tla, which EXTENDS a module of spec/). Every obligation must be proved."""
    d = ctx.sub("tlaps-%s-%d" % (proof_module, int(time.time() * 1000 % 1000000)))
    for f in os.listdir(SPEC):
        if f.endswith(".tla"):
            shutil.copyfile(os.path.join(SPEC, f), os.path.join(d, f))
    shutil.copyfile(os.path.join(SPEC, "proofs", proof_module + ".tla"), os.path.join(d, proof_module + ".tla"))
    t = time.time()
    rc, out = sh(["tlapm", "--threads", str(NCPU), "-I", "/opt/veriftools/tlapm/lib/tlapm/stdlib", proof_module + ".tla"], timeout=timeout, cwd=d)
    wall = time.time() - t
    m = re.search(r"All (\d+) obligations? proved", out)
    shutil.rmtree(os.path.join(d, ".tlacache"), ignore_errors=True)
    if rc != 0 or not m:
        raise NoVerdict("tlapm %s: proof not complete (rc=%s) - a design-level result, not a verdict about the code\n%s" % (proof_module, rc, out[-3000:]))
    ctx.cov.setdefault("tlaps_runs", []).append({"module": proof_module, "obligations_proved": int(m.group(1)), "wall_s": round(wall, 1)})
    log("TLAPS %s: all %s obligations proved, %.1fs" % (proof_module, m.group(1), wall))


def printed_json(r, tag):
    """Values printed from the spec as PrintT(<<"TAG", ToJson(x)>>) -> list of python values."""
    out = []
    pref = '<<"%s", "' % tag
    for ln in r.printed:
        if ln.startswith(pref) and ln.endswith('">>'):
            s = ln[len(pref):-3]
            s = s.replace('\\"', '"').replace("\\\\", "\\")
            try:
                out.append(json.loads(s))
            except Exception as e:
                raise NoVerdict("cannot parse TLC JSON output: %s: %s" % (e, s[:300]))
    return out


def judge(ctx, module, cfg, trace_path, timeout=900, dfs=False, extra=None, name=None):
    """Validate a recorded ndjson trace file with a monitor-mode trace spec.
    The spec reads "trace.ndjson", must print <<"VIOL", ToJson(viol)>> when done and satisfy the
    TraceAccepted postcondition (every line consumed). Returns (list of viol records, TLCResult)."""
    ex = {"trace.ndjson": trace_path}
    ex.update(extra or {})
    r = tlc(ctx, module, cfg, extra=ex, workers=1, timeout=timeout, dfs=dfs, name=name)
    if r.error or r.violated:
        raise NoVerdict("trace judge %s/%s failed: %s\n%s" % (module, cfg, r.error or r.violated, r.out[-5000:]))
    v = printed_json(r, "VIOL")
    if not v:
        raise NoVerdict("trace judge %s/%s printed no VIOL record (trace not fully consumed?)\n%s" % (module, cfg, r.out[-3000:]))
    return v[-1], r


# ---------------------------------------------------------------------------------------------
# known findings, verdicts, evidence

def known_findings(prop=None):
    if not os.path.exists(KNOWN):
        return []
    fs = json.load(open(KNOWN))["findings"]
    return [f for f in fs if prop is None or f["property"] == prop]


def save_replay(ctx, tag, obj_or_path):
    os.makedirs(REPLAYS, exist_ok=True)
    p = os.path.join(REPLAYS, "%s-%s-seed%d-%s.json" % (ctx.prop, ctx.tier, ctx.seed, tag))
    if isinstance(obj_or_path, str) and os.path.exists(obj_or_path):
        shutil.copyfile(obj_or_path, p)
    else:
        json.dump(obj_or_path, open(p, "w"), indent=1)
    return p


def violation(ctx, what, replay_obj, tag="v"):
    """Record a violation (real-code behaviour rejected by the property-level specification)."""
    n = len(ctx.violations)
    p = save_replay(ctx, "%s%d" % (tag, n), replay_obj)
    ctx.violations.append({"what": what, "replay": p})


def known_hit(ctx, fid, what):
    ctx.known_hits.setdefault(fid, what)


def _compact(x):
    """int arrays (ids, radii) are written as hex strings in samples, for readability"""
    if isinstance(x, list) and len(x) >= 8 and all(isinstance(i, int) and 0 <= i < 256 for i in x):
        return "0x" + bytes(x).hex()
    if isinstance(x, list):
        return [_compact(i) for i in x]
    if isinstance(x, dict):
        return {k: _compact(v) for k, v in x.items()}
    return x


def write_evidence(ctx, level="model_checking", extra_cov=None):
    os.makedirs(EVID, exist_ok=True)
    cov = dict(ctx.cov)
    cov.update({
        "states": int(ctx.states),
        "transitions": int(ctx.transitions),
        "traces_validated_against_impl": int(ctx.traces),
        "evaluations": int(ctx.evaluations),
        "distinct_nontrivial": len(ctx.distinct),
        "samples": _compact(ctx.samples[:6]) if ctx.samples else ["(none)"],
        "known_findings_observed": sorted(ctx.known_hits),
        "notes": ctx.notes,
    })
    cov.update(extra_cov or {})
    ev = {
        "property_id": ctx.prop, "tier": ctx.tier, "seed": int(ctx.seed), "level": level,
        "coverage": cov, "assumptions": ctx.assumptions,
        "wall_s": round(time.time() - ctx.t0, 2), "violations": len(ctx.violations),
    }
    p = os.path.join(EVID, ctx.prop + ".json")
    with open(p + ".tmp", "w") as f:
        json.dump(ev, f, indent=1, default=str)
    os.replace(p + ".tmp", p)
    return p


def finish(ctx, level="model_checking"):
    write_evidence(ctx, level)
    for fid, what in sorted(ctx.known_hits.items()):
        print("KNOWN-FINDING: property=%s %s %s" % (ctx.prop, fid, what), flush=True)
    for n in ctx.notes:
        print("NOTE:", n, flush=True)
    if ctx.violations:
        for v in ctx.violations[:20]:
            print("VIOLATION property=%s replay=%s" % (ctx.prop, v["replay"]), flush=True)
            print("  what: %s" % v["what"], flush=True)
        return 1
    print("OK property=%s tier=%s seed=%d states=%d traces=%d evaluations=%d distinct=%d wall=%.1fs" % (
        ctx.prop, ctx.tier, ctx.seed, ctx.states, ctx.traces, ctx.evaluations, len(ctx.distinct), time.time() - ctx.t0), flush=True)
    return 0


def read_ndjson(path):
    out = []
    with open(path) as f:
        for ln in f:
            ln = ln.strip()
            if ln:
                out.append(json.loads(ln))
    return out


def digest(obj):
    return hashlib.sha1(json.dumps(obj, sort_keys=True).encode()).hexdigest()[:16]
