"""C04 C05 C06 C17 - content store family (DESIGN.md 6).  Spec: ContentStore.tla (I level, exhaustive),
Trace_Store.tla (P level judge of traces recorded from the real storage/pebble code)."""
import json, os
import vlib
from vlib import NoVerdict

OWN = {
    "C04": {"intact", "subset", "unchanged", "stable", "fromPut", "growth"},
    "C05": {"farthest", "frees", "sizeRec", "capacity", "noerr"},
    "C06": {"within", "monotone", "justified", "inrange", "inrangeApi"},
    "C17": {"openOK", "openFromPut", "openSizeRec", "openSubset", "openFarthest", "openPrune", "openRadius"},
}
# after a crash-reopen the follow-up gets / puts also belong to C17 ("followed by reopen and further operations")
OWN_CRASH_EXTRA = {"intact", "sizeRec", "subset"}

DEV_CFG = {"RadiusLE": "Trace_Store_LE.cfg"}


def design(ctx):
    """Exhaustive I-level runs: the design has the property with no deviation, and every deviation filed
    under this property really breaks it in the model (non-vacuity of the invariants)."""
    p, thorough = ctx.prop, ctx.tier == "thorough"
    M = "MC_ContentStore"
    vlib.tlc_design(ctx, M, "MC_Store_Seq.cfg", timeout=900)
    if thorough or p == "C17":
        vlib.tlc_design(ctx, M, "MC_Store_SeqBig.cfg", timeout=1800)
    if p == "C05":
        vlib.tlc_design(ctx, M, "MC_Store_Conc.cfg", timeout=900)
        vlib.tlc_design(ctx, M, "MC_Store_NoLock.cfg", timeout=900, expect_violation="SizeRecOK")
        if thorough:
            vlib.tlc_design(ctx, M, "MC_Store_NoLockMem.cfg", timeout=1800, expect_violation="SizeMemOK")
    if p in ("C05", "C17"):
        # the usage accounting in isolation with item sizes over ALL naturals (StoreAcct.tla): inductive invariant checked
        # symbolically by Apalache from an arbitrary state, negative control = the split batch of seeds C17-1 / C17-3
        vlib.apalache(ctx, "MC_StoreAcct", "MC_StoreAcct.cfg", "Init", "IndInv", 0)
        vlib.apalache(ctx, "MC_StoreAcct", "MC_StoreAcct.cfg", "IndInit", "IndInv", 1)
        vlib.apalache(ctx, "MC_StoreAcct", "MC_StoreAcct_DevSplit.cfg", "IndInit", "IndInv", 1, expect_error=True)
    if p == "C06":
        vlib.tlc_design(ctx, M, "MC_Store_LE.cfg", timeout=600, expect_violation="RetainedWithinRadius")
        if thorough:
            vlib.tlc_design(ctx, M, "MC_Store_NoLockRad.cfg", timeout=1800, expect_violation="RetainedWithinRadius")
    if p == "C17":
        vlib.tlc_design(ctx, M, "MC_Store_SizeKey.cfg", timeout=600, expect_violation="Action property OpenRadiusRule is violated.")
        vlib.tlc_design(ctx, M, "MC_Store_SplitBatch.cfg", timeout=600, expect_violation="CrashConsistent")


def gated_cases(ctx):
    """Counterexamples of the lock-free design (deviation NoPutLock), turned into schedules for the real code."""
    cases = []
    cfgs = ["MC_Store_NoLock.cfg", "MC_Store_NoLockRad.cfg"]
    if ctx.tier == "thorough":
        cfgs.append("MC_Store_NoLockMem.cfg")
    for cfg in cfgs:
        d = ctx.sub("cex-" + cfg[:-4])
        cex = os.path.join(d, "cex.json")
        r = vlib.tlc(ctx, "MC_ContentStore", cfg, workers=vlib.NCPU, timeout=1800, args=["-dumpTrace", "json", cex], name="cex-" + cfg[:-4])
        if not r.violated or not os.path.exists(cex):
            raise NoVerdict("no counterexample from %s (%s)" % (cfg, r.error or r.violated))
        ctx.states += r.distinct
        ctx.transitions += r.generated
        states = [s[1] for s in json.load(open(cex))["counterexample"]["state"]]
        procs = sorted(states[0]["pc"].keys())
        plans = {p: [] for p in procs}
        sched = []
        for a, b in zip(states, states[1:]):
            for i, p in enumerate(procs):
                if a["pc"][p] != b["pc"][p]:
                    if a["pc"][p] == "idle":     # PutBegin is not a gate: it only fixes the arguments
                        plans[p].append({"hi": b["arg"][p]["d"]["hi"], "lo": b["arg"][p]["d"]["lo"], "size": b["arg"][p]["s"]})
                    else:
                        sched.append(i)
        cap = 3
        case = {"prefill": [{"hi": 0, "lo": 0, "size": 20 - cap, "fill": True}], "procs": [plans[p] for p in procs],
                "schedule": sched, "from": cfg, "violates": r.violated}
        cases.append(case)
        # the same race with the roles of the processes swapped, and repeated puts appended
        cases.append({"prefill": case["prefill"], "procs": list(reversed(case["procs"])),
                      "schedule": [len(procs) - 1 - i for i in sched], "from": cfg + " (mirrored)", "violates": r.violated})
    return cases


def harness_traces(ctx):
    """Run the real code; returns list of (label, trace path, harness args)."""
    p, thorough, seed = ctx.prop, ctx.tier == "thorough", ctx.seed
    runs = []

    def go(label, args):
        out = os.path.join(ctx.work, label + ".ndjson")
        full = ["store"] + args + ["--seed", seed, "--out", out]
        vlib.harness(ctx, full, timeout=3000)
        runs.append((label, out, full))

    if ctx.replay:
        rp = json.load(open(ctx.replay))
        out = os.path.join(ctx.work, "replay.ndjson")
        args = rp["harness_args"]
        args = args[:args.index("--out") + 1] + [out]
        if rp.get("cases"):
            cin = os.path.join(ctx.work, "cases.ndjson")
            with open(cin, "w") as f:
                for c in rp["cases"]:
                    f.write(json.dumps(c) + "\n")
            args[args.index("--in") + 1] = cin
        ctx.seed = rp.get("seed", ctx.seed)
        vlib.harness(ctx, args, timeout=3000)
        return [(rp["label"], out, args)]

    if p in ("C04", "C05", "C06"):
        go("seq", ["--mode", "seq", "--traces", 60 if thorough else 14, "--ops", 220 if thorough else 150])
        if thorough:
            go("seqdisk", ["--mode", "seq", "--traces", 10, "--ops", 150, "--disk"])
    if p == "C04":
        go("recycle", ["--mode", "recycle", "--traces", 12 if thorough else 3, "--traffic", 40 if thorough else 20])
        go("conc", ["--mode", "conc", "--traces", 20 if thorough else 6])
    if p in ("C05", "C06"):
        go("conc", ["--mode", "conc", "--traces", 120 if thorough else 24, "--goroutines", 100 if thorough else 32])
    if p == "C06":
        # one lock moved (the radius check before the put lock): built-in schedules with palindromic distances, judged at the commit gate
        go("gatedpal", ["--mode", "gated", "--in", "builtin"])
    if p == "C05":
        cases = gated_cases(ctx)
        cin = os.path.join(ctx.work, "cases.ndjson")
        with open(cin, "w") as f:
            for c in cases:
                f.write(json.dumps(c) + "\n")
        out = os.path.join(ctx.work, "gated.ndjson")
        full = ["store", "--mode", "gated", "--in", cin, "--seed", seed, "--out", out]
        vlib.harness(ctx, full, timeout=900)
        runs.append(("gated", out, full))
        ctx.cov["gated_cases"] = cases
    if p == "C17":
        go("crash", ["--mode", "crash", "--traces", 12 if thorough else 3, "--ops", 70, "--stride", 1 if thorough else 5])
        go("torn", ["--mode", "torn", "--traces", 12 if thorough else 3, "--ops", 30, "--window", 2500 if thorough else 700])
        go("seq", ["--mode", "seq", "--traces", 30 if thorough else 8, "--ops", 150])
    return runs


def account(ctx, label, events):
    """Coverage accounting: distinct non-trivial events actually reached in the code."""
    prev = None
    for e in events:
        ev = e.get("ev")
        if ev in ("put", "reopen", "open", "quiescent"):
            snapkeys = tuple(tuple(i["k"]) for i in e.get("snap", []))
            nontrivial = (ev != "put") or e["res"] != "ok" or snapkeys != prev
            if nontrivial:
                ctx.distinct.add(vlib.digest([ev, e.get("res"), e.get("id"), e.get("len"), e.get("tag"), len(snapkeys), e.get("sizeRec"), e.get("k"), e.get("keep")]))
            prev = snapkeys
            ctx.evaluations += 1
        elif ev == "get":
            ctx.evaluations += 1
            if e["res"] == "found":
                ctx.distinct.add(vlib.digest(["get", e["id"], e["tag"]]))
        elif ev in ("recheck",):
            ctx.evaluations += 1
            ctx.distinct.add(vlib.digest(["recheck", e["handed"]]))
        elif ev == "init":
            ctx.traces += 1
            prev = None


def classify(ctx, label, path, args, events):
    p = ctx.prop
    own = set(OWN[p])
    if p == "C17" and label in ("crash", "torn"):
        own |= OWN_CRASH_EXTRA
    v0, r0 = vlib.judge(ctx, "Trace_Store", "Trace_Store.cfg", path, timeout=3000, name="judge-" + label)
    ctx.states += r0.distinct
    ctx.transitions += r0.generated
    mine0 = [(l, c) for l, c in v0 if c in own]
    if not mine0:
        return
    remaining = set(map(tuple, mine0))
    for f in vlib.known_findings(p):
        if f.get("status") != "known" or "deviation" not in f:
            continue
        cfg = DEV_CFG.get(f["deviation"])
        if not cfg:
            continue
        v1, r1 = vlib.judge(ctx, "Trace_Store", cfg, path, timeout=3000, name="judge-%s-%s" % (label, f["deviation"]))
        mine1 = set((l, c) for l, c in v1 if c in own)
        absorbed = set(x for x in remaining if x not in mine1 and x[1] in set(f["conjuncts"]))
        if absorbed:
            vlib.known_hit(ctx, f["id"], "%s [%d events in %s traces, conjuncts %s]" % (
                f["what"], len(absorbed), label, ",".join(sorted(set(c for _, c in absorbed)))))
        remaining = (remaining - absorbed) | (mine1 - set(map(tuple, mine0)))
    if remaining:
        byc = {}
        for l, c in sorted(remaining):
            byc.setdefault(c, []).append(l)
        for c, lines in byc.items():
            l = lines[0]
            e = events[l - 1]
            # cut the trace the event belongs to, for the reader; the replay re-executes the harness run
            cases = ctx.cov.get("gated_cases") if label == "gated" else None
            vlib.violation(ctx, "conjunct '%s' false at %d event(s) of the %s run, first at line %d (trace %s, ev=%s res=%s)" % (
                c, len(lines), label, l, e.get("t"), e.get("ev"), e.get("res")),
                {"label": label, "harness_args": [str(a) for a in args], "seed": ctx.seed, "conjunct": c, "lines": lines[:50],
                 "first_event": {k: v for k, v in e.items() if k not in ("snap", "pre", "issued")}, "cases": cases}, tag=c)


def run(ctx):
    if ctx.prop == "C06":
        import check_inrange
    if not ctx.replay and not os.environ.get('VERIF_SKIP_DESIGN'):   # (the env switch is for mutation experiments only)
        design(ctx)
    for label, path, args in harness_traces(ctx):
        events = vlib.read_ndjson(path)
        account(ctx, label, events)
        if len(ctx.samples) < 6:
            for e in events:
                if e.get("ev") in ("put", "open", "quiescent", "recheck") and len(ctx.samples) < 6:
                    s = {k: v for k, v in e.items() if k not in ("snap", "pre", "issued")}
                    s["snap_items"] = len(e.get("snap", []))
                    s["run"] = label
                    ctx.samples.append(s)
                    break
        classify(ctx, label, path, args, events)
    if ctx.prop == "C06":
        check_inrange.run(ctx)
    ctx.cov["rule"] = ("events = operations executed on the real store (put/get/reopen/crash-open/quiescent point); an event is non-trivial when it "
                       "changed the key set, was refused, hit an existing item, or followed a crash; distinct = distinct by "
                       "(kind, result, id, length, value tag, #items, size record)")
    ctx.assumptions += [
        "TLC exhaustive results hold for B=3, Cap=3, Target=1, <=2 processes, <=7 puts; transfer to real constants by parametricity",
        "pebble MemFS crash model: a crash keeps all synced data and either all or none of the unsynced writes at the chosen file-system operation",
        "ids equal to the node id are outside the domain (property text)",
        "value identity is compared through a 31-bit SHA-256 fingerprint plus length",
    ]
    return "model_checking"
