"""C01 - no remote input can crash or wedge the node (DESIGN.md 6).

Spec:   Wire.tla (input space channel x shape, the three legal outcomes, the code-shaped reference dispatcher with the named
        deviations of today's code), MC_Wire.tla (exhaustive enumeration of the shape space -> CASE lines; sequence model of
        <= 3 inputs from <= 2 senders -> exhaustive check + -simulate SEQ lines), Trace_Wire.tla (monitor-mode judge:
        noPanic / returns / replyWellFormed).
Engine: harness/engines/wire - a fully configured node (history with hybrid store, beacon, state; validators over the
        production ValidationOracle behind in-process RPC), handlers called through the verif wrappers under recover() with a
        watchdog, and deliveries by raw discv5 peers over the in-memory switch; every handling call runs in a child process.
"""
import collections, concurrent.futures, hashlib, json, os, random, re, shutil
import vlib
from vlib import NoVerdict

OWN = {"noPanic", "returns", "replyWellFormed"}
DEV_CFGS = [("MC_Wire_DevEmptyTalkReq.cfg", "NoPanic"), ("MC_Wire_DevOneByteContent.cfg", "NoPanic"), ("MC_Wire_DevEmptyKey.cfg", "NoPanic"),
            ("MC_Wire_DevShortSummariesKey.cfg", "NoPanic"), ("MC_Wire_DevNilGetter.cfg", "NoPanic"), ("MC_Wire_DevZeroLenUpdate.cfg", "NoPanic"), ("MC_Wire_DevSeqSummaries.cfg", "NoPanic"),
            ("MC_Wire_DevFollowUp.cfg", "NoPanic")]
SLIM = ("ev", "mode", "out", "rdec", "mut", "c", "f")
CASE_KEYS = ("ch", "net", "kind", "code", "n", "off", "io", "sub", "sv", "pl", "pn", "cnt", "kc", "ksel", "kn", "cc", "ver", "st")


def spec_digest(*files):
    h = hashlib.sha1()
    for f in files:
        h.update(open(os.path.join(vlib.SPEC, f), "rb").read())
    return h.hexdigest()[:12]


def unq(s):
    return s.replace('\\"', '"').replace("\\\\", "\\")


def generate_cases(ctx, cfg):
    """Exhaustive TLC run over the shape space: TypeOK / NoPanic / ReplyOnlyToRequests on the reference dispatcher without
    deviations, every case printed. The quick-tier case file is cached under .work for VERIF_SKIP_DESIGN (mutation runs, replays)."""
    wdir = os.path.join(vlib.VERIF, ".work")
    os.makedirs(wdir, exist_ok=True)
    cache = os.path.join(wdir, "wire-cases-%s-%s.ndjson" % (cfg.replace(".cfg", ""), spec_digest("Wire.tla", "MC_Wire.tla", cfg)))
    if os.environ.get("VERIF_SKIP_DESIGN") and os.path.exists(cache):
        vlib.log("using cached TLC cases", cache)
        return cache, sum(1 for _ in open(cache))
    r = vlib.tlc_design(ctx, "MC_Wire", cfg, timeout=900)
    pref = '<<"CASE", "'
    n = 0
    lines = sorted(unq(ln[len(pref):-3]) for ln in r.printed if ln.startswith(pref) and ln.endswith('">>'))   # canonical order: case index = line
    with open(cache + ".tmp", "w") as f:
        for ln in lines:
            f.write(ln + "\n")
            n += 1
    if n == 0 or n != r.distinct:
        raise NoVerdict("TLC printed %d CASE lines for %d case states (%s)" % (n, r.distinct, cfg))
    os.replace(cache + ".tmp", cache)
    for f in os.listdir(wdir):
        if re.fullmatch(r"wire-cases-%s-[0-9a-f]{12}\.ndjson" % re.escape(cfg.replace(".cfg", "")), f) and os.path.join(wdir, f) != cache:
            os.remove(os.path.join(wdir, f))
    r.printed = []
    return cache, n


def generate_seqs(ctx, nseq, seed):
    """Sequences of 3 inputs from 2 senders: TLC -simulate prints the candidate sequences it meets; a seeded sample is taken,
    the ones in which the model (deviations of today's code on) makes an outcome depend on an earlier input first."""
    wdir = os.path.join(vlib.VERIF, ".work")
    cache = os.path.join(wdir, "wire-seqs-%s-%d-%d.ndjson" % (spec_digest("Wire.tla", "MC_Wire.tla", "Gen_Wire_Seq.cfg"), seed, nseq))
    if os.environ.get("VERIF_SKIP_DESIGN") and os.path.exists(cache):
        return cache, sum(1 for _ in open(cache))
    r = vlib.tlc(ctx, "MC_Wire", "Gen_Wire_Seq.cfg", workers=4, timeout=600, args=["-simulate", "num=%d" % max(60, nseq // 2), "-depth", "4", "-seed", str(seed)], name="gen-seq")
    if r.error or r.violated:
        raise NoVerdict("sequence generation failed: %s\n%s" % (r.error or r.violated, r.out[-2000:]))
    pref = '<<"SEQ", "'
    seqs = sorted({unq(ln[len(pref):-3]) for ln in r.printed if ln.startswith(pref) and ln.endswith('">>')})
    if len(seqs) < 20:
        raise NoVerdict("sequence generation printed only %d sequences" % len(seqs))
    dg = spec_digest("Wire.tla", "MC_Wire.tla", "Gen_Wire_Seq.cfg")
    for f in os.listdir(wdir):                     # older generations of the sequence files
        if f.startswith("wire-seqs-") and not f.startswith("wire-seqs-" + dg):
            os.remove(os.path.join(wdir, f))
    rnd = random.Random(seed)
    rnd.shuffle(seqs)
    dep, rest = [], []
    for s in seqs:
        q = json.loads(s)
        (dep if any(st["sumlen"] >= 0 and st["in"]["net"] == "beacon" and st["in"]["ksel"] == 20 for st in q) else rest).append(s)
    pick = dep[:max(10, nseq // 5)]
    pick += rest[:nseq - len(pick)]
    with open(cache + ".tmp", "w") as f:
        for s in pick:
            f.write(s + "\n")
    os.replace(cache + ".tmp", cache)
    ctx.cov.setdefault("tlc_runs", []).append({"module": "MC_Wire", "cfg": "Gen_Wire_Seq.cfg (-simulate)", "generated": r.generated,
                                               "sequences_printed": len(seqs), "sequences_used": len(pick), "order_dependent": len(dep[:max(10, nseq // 5)]),
                                               "wall_s": round(r.wall, 1)})
    ctx.transitions += r.generated
    r.printed = []
    return cache, len(pick)


def design_start(ctx):
    """Sequence model checked exhaustively without deviations; every deviation alone must violate NoPanic (non-vacuity)."""
    cfgs = [("MC_Wire_Seq.cfg", None)] + DEV_CFGS

    def one(cv):
        cfg, inv = cv
        return cfg, inv, vlib.tlc(ctx, "MC_Wire", cfg, timeout=900, workers=4 if cfg == "MC_Wire_Seq.cfg" else 2, name="mc-" + cfg.replace(".cfg", ""))
    ex = concurrent.futures.ThreadPoolExecutor(max_workers=4)
    return ex, [ex.submit(one, cv) for cv in cfgs]


def design_finish(ctx, handle):
    ex, futs = handle
    res = [f.result() for f in futs]
    ex.shutdown()
    for cfg, inv, r in res:
        if r.error:
            raise NoVerdict("TLC MC_Wire/%s: %s" % (cfg, r.error))
        ctx.states += r.distinct
        ctx.transitions += r.generated
        ctx.cov.setdefault("tlc_runs", []).append({"module": "MC_Wire", "cfg": cfg, "distinct": r.distinct, "generated": r.generated,
                                                   "violated": r.violated, "wall_s": round(r.wall, 1)})
        if r.violated != inv:
            if inv is None:
                raise NoVerdict("design model MC_Wire/%s violates %s - specification and property disagree (not a verdict about the code)\n%s" % (cfg, r.violated, r.out[-2000:]))
            raise NoVerdict("design model MC_Wire/%s: expected a witness against %s, got %s - the property is vacuous for this deviation" % (cfg, inv, r.violated))
    vlib.log("TLC MC_Wire: sequence model clean (%d states); %d deviation configs each violate NoPanic" % (res[0][2].distinct, len(res) - 1))


def printed(r, tag):
    out = []
    for m in re.finditer(r'<<\s*"%s",\s*"((?:[^"\\]|\\.)*)"\s*>>' % tag, r.out, re.S):
        try:
            out.append(json.loads(unq(m.group(1))))
        except Exception as e:
            raise NoVerdict("cannot parse TLC JSON output %s: %s: %s" % (tag, e, m.group(1)[:300]))
    return out


def slim(e):
    s = {k: e.get(k) for k in SLIM}
    s["c"] = {k: e["c"].get(k, -1 if k in ("code", "n", "io", "sv", "pn", "cnt", "ksel", "kn", "ver") else "na") for k in CASE_KEYS}
    return s


def judge_events(ctx, events, devs, label):
    """Trace_Wire over the eval events in parallel chunks. Returns (viol, violK, drift) as sets of (event index, conjunct) / indexes, COV."""
    chunk = max(400, min(3000, len(events) // max(2, vlib.NCPU - 4) + 1))
    parts = [events[i:i + chunk] for i in range(0, len(events), chunk)] or [[]]
    cfgp = os.path.join(ctx.work, "Trace_Wire-%s.cfg" % label)
    with open(cfgp, "w") as f:
        f.write("SPECIFICATION Spec\nCONSTANT Devs = {%s}\nINVARIANT Report\nPOSTCONDITION TraceAccepted\nCHECK_DEADLOCK FALSE\n" % ", ".join('"%s"' % d for d in devs))
    paths = []
    for n, part in enumerate(parts):
        p = os.path.join(ctx.work, "%s-judge-%d.ndjson" % (label, n))
        with open(p, "w") as f:
            for e in part:
                f.write(json.dumps(slim(e)) + "\n")
        paths.append(p)

    def one(n):
        name = "judge-%s-%d" % (label, n)
        v, r = vlib.judge(ctx, "Trace_Wire", "Trace_Wire.cfg", paths[n], timeout=1800, extra={"Trace_Wire.cfg": cfgp}, name=name)
        vk, dr, cov = printed(r, "VIOLK"), printed(r, "DRIFT"), printed(r, "COV")
        if not vk or not dr or not cov:
            raise NoVerdict("trace judge printed no VIOLK / DRIFT / COV record\n" + r.out[-2000:])
        shutil.rmtree(os.path.join(ctx.work, name), ignore_errors=True)
        return v, vk[-1], dr[-1], cov[-1] or {}, r
    with concurrent.futures.ThreadPoolExecutor(max_workers=max(2, vlib.NCPU - 2)) as ex:
        res = list(ex.map(one, range(len(parts))))
    viol, violk, drift, cov = set(), set(), [], collections.Counter()
    for n, (v, vk, dr, cv, r) in enumerate(res):
        ctx.states += r.distinct
        ctx.transitions += r.generated
        base = n * chunk - 1
        viol |= {(base + l, c) for l, c in v}
        violk |= {(base + l, c) for l, c in vk}
        drift += [base + l for l in dr]
        for k, x in cv.items():
            cov[k] += x
        if sum(cv.values()) != len(parts[n]):
            raise NoVerdict("trace judge consumed %d of %d events" % (sum(cv.values()), len(parts[n])))
    return viol, violk, sorted(drift), cov


def selftest(ctx, events, devs):
    """DESIGN 4.8: golden events pass, single-field corruptions are flagged - also under the listed findings' substitutions."""
    g = next((e for e in events if e["out"] == "reply" and e["rdec"] and e["mut"] == "none" and e["mode"] == "direct"), None)
    q = next((e for e in events if e["out"] == "error" and e["c"]["ch"] == "val" and e["f"]["kmin"] > 0), None)
    if g is None or q is None:
        raise NoVerdict("judge self-test: the trace lacks a well-formed reply and a validator rejection")
    def mod(e, **kw):
        e = json.loads(json.dumps(e))
        e.update(kw)
        return e
    lines = [g, q, mod(g, out="panic"), mod(g, rdec=False), mod(q, out="wedge"), mod(q, out="panic"), mod(g, out="slow")]
    want = {(2, "noPanic"), (3, "replyWellFormed"), (4, "returns"), (5, "noPanic")}
    _, violk, _, _ = judge_events(ctx, lines, devs, "selftest")
    if violk != want:
        raise NoVerdict("judge self-test failed: corrupted events flagged %s, expected %s" % (sorted(violk), sorted(want)))
    ctx.cov["judge_selftest"] = "4 single-field corruptions flagged (noPanic x2, replyWellFormed, returns) under the listed findings' substitutions, originals and a no-observation event clean"


def entry_class(e):
    """entry channel class of an event: the channel, refined by network for the content channels"""
    c = e["c"]
    return c["ch"]


def sig_matches(f, e):
    s = f["signature"]
    if s["conjunct"] != "noPanic" or e["out"] != "panic":
        return False
    if not (entry_class(e) in s["entry"] and e.get("site") in s["site"] and e.get("cls") in s["cls"]):
        return False
    for k, v in (s.get("facts") or {}).items():        # simple constraints on the recorded facts: <fact>_eq / _ge / _in
        name, op = k.rsplit("_", 1)
        x = e["f"].get(name)
        if (op == "eq" and x != v) or (op == "ge" and not (x is not None and x >= v)) or (op == "in" and x not in v):
            return False
    return True


def run(ctx):
    thorough, seed = ctx.tier == "thorough", ctx.seed
    rp = None
    if ctx.replay:
        rp = json.load(open(ctx.replay))
        thorough = rp.get("tier", ctx.tier) == "thorough"
        seed = rp.get("seed", seed)
        os.environ.setdefault("VERIF_SKIP_DESIGN", "1")
    skip = bool(os.environ.get("VERIF_SKIP_DESIGN"))
    cfg = "MC_Wire_Full.cfg" if thorough else "MC_Wire.cfg"
    handle = None if skip else design_start(ctx)
    bex = concurrent.futures.ThreadPoolExecutor(max_workers=1)
    bfut = bex.submit(vlib.build_harness, ctx)          # the harness builds while TLC enumerates
    cases, ncases = generate_cases(ctx, cfg)
    seqs, nseqs = generate_seqs(ctx, 3000 if thorough else 120, seed)
    out = os.path.join(ctx.work, "trace.ndjson")
    args = ["wire", "--cases", cases, "--seqs", seqs, "--seed", seed, "--fills", 36 if thorough else 3, "--e2e", 6 if thorough else 1,
            "--e2e-streams", 200 if thorough else 12, "--workers", max(4, vlib.NCPU - 4), "--repo", vlib.REPO]
    if rp:
        args += ["--only", ",".join(rp["only"])]
        if rp.get("fills"):
            args[args.index("--fills") + 1] = rp["fills"]
    bfut.result()
    bex.shutdown()
    t0 = __import__("time").time()
    _, hout = vlib.harness(ctx, args + ["--out", out], timeout=3000)
    vlib.log("harness ran %.1fs" % (__import__("time").time() - t0))
    vlib.log(hout.strip().splitlines()[-1] if hout.strip() else "(no harness output)")
    summ = json.load(open(out + ".sum.json"))
    allev = vlib.read_ndjson(out)
    events = [e for e in allev if e.get("ev") == "eval"]
    probes = [e for e in allev if e.get("ev") == "probe"]
    ctx.evaluations = len(events)
    ctx.traces = summ["seq_jobs"] + 1
    ctx.distinct = {e["dig"] for e in events if e["out"] not in ("slow", "noresp", "skip")}

    # ---- judgement: the property as stated; then with the listed findings' substitutions
    known = [f for f in vlib.known_findings(ctx.prop) if f.get("status") == "known"]
    devs = sorted({f["deviation"] for f in known if f.get("deviation")})
    if not ctx.replay:
        selftest(ctx, events, devs)
    t0 = __import__("time").time()
    viol0, remaining, drift, cov = judge_events(ctx, events, devs, "main")
    vlib.log("judge ran %.1fs" % (__import__("time").time() - t0))
    viol0 = {(l, c) for l, c in viol0 if c in OWN}
    remaining = {(l, c) for l, c in remaining if c in OWN}
    absorbed = sorted(viol0 - remaining)
    remaining = sorted(remaining)
    vlib.log("judged %d events: %d flagged under the property as stated, %d not explained by the listed deviations %s, %d drift" % (
        len(events), len(viol0), len(remaining), devs, len(drift)))

    # absorbed events must also carry the site signature of a listed finding whose deviation explains them
    per_finding = collections.defaultdict(list)
    for l, c in absorbed:
        e = events[l]
        hit = [f for f in known if sig_matches(f, e)]
        if not hit:
            remaining.append((l, c))
            continue
        for f in hit:
            per_finding[f["id"]].append(l)
    for f in known:
        ls = per_finding.get(f["id"])
        if ls:
            e = events[ls[0]]
            sites = collections.Counter((events[l]["c"]["ch"] + ("/" + events[l]["c"]["net"] if events[l]["c"]["net"] != "na" else ""), events[l]["site"]) for l in ls)
            killed = sum(1 for l in ls if events[l].get("crash"))
            vlib.known_hit(ctx, f["id"], "%s [%d handling call(s), %d of them killed the process; sites %s; first: %s case %d/%d input %s -> %s at %s]" % (
                f["what"], len(ls), killed, "; ".join("%s %s x%d" % (k[0], k[1], v) for k, v in sorted(sites.items())[:8]),
                e["mode"], e["i"], e["fill"], e["in"][:40] or "(empty)", e["cls"], e["site"]))
    ctx.cov["known_finding_evaluations"] = {k: len(v) for k, v in per_finding.items()}

    # ---- anything left is a violation: one per (conjunct, entry class, site, class)
    groups = collections.defaultdict(list)
    for l, c in sorted(remaining):
        e = events[l]
        groups[(c, entry_class(e), e.get("site", ""), e.get("cls", ""))].append(l)
    for (c, ent, site, cls), ls in sorted(groups.items()):
        e = events[ls[0]]
        what = "conjunct '%s' false at %d handling call(s) [entry %s, site %s, %s]; first: mode=%s case=%d/%d shape=%s mut=%s input(%s bytes)=%s out=%s %s %s" % (
            c, len(ls), ent, site or "-", cls or "-", e["mode"], e["i"], e["fill"], json.dumps({k: v for k, v in e["c"].items() if v not in ("na", -1) and k not in ("exp", "today")}),
            e["mut"], e["len"], e["in"][:80], e["out"], e.get("rwhy", ""), (e.get("msg") or e.get("err") or "")[:120])
        if e.get("crash"):
            what += " [the process died" + ("" if e.get("guarded") else "; the fault was on a goroutine created by %s, the case named is the call in progress at that moment" % (e.get("created") or "?")) + "]"
        only = sorted({"%d/%d/%s" % (events[l]["i"], events[l]["fill"], events[l]["mode"]) for l in ls[:20]})
        vlib.violation(ctx, what, {"label": "wire", "tier": "thorough" if thorough else "quick", "seed": seed, "conjunct": c, "only": only,
                                   "fills": max(events[l]["fill"] for l in ls[:20]) + 1, "first_event": {k: v for k, v in e.items() if k != "stack"},
                                   "stack": e.get("stack", "")[:3000]}, tag=c)

    if handle:
        design_finish(ctx, handle)

    # ---- coverage accounting, notes, vacuity guard
    by = collections.Counter()
    shapes = set()
    for e in events:
        by[(e["c"]["ch"], e["mode"], e["out"])] += 1
        if e["mode"] != "seq":
            shapes.add(e["i"])
    dead = [p for p in probes if not p["alive"]]
    ctx.cov["reached"] = {"tlc_cases": ncases, "cases_executed": len(shapes), "sequences": summ["seq_jobs"], "handling_calls": len(events),
                          "child_process_crashes_observed": summ["child_crashes"], "liveness_probes": len(probes), "probes_unanswered": len(dead),
                          "panics": sum(1 for e in events if e["out"] == "panic"), "wedges": sum(1 for e in events if e["out"] == "wedge"),
                          "no_observation": sum(1 for e in events if e["out"] in ("slow", "noresp", "skip")),
                          "replies": sum(1 for e in events if e["out"] == "reply"), "replies_malformed": sum(1 for e in events if e["out"] == "reply" and not e["rdec"]),
                          "mutated_concretisations": sum(1 for e in events if e["mut"] not in ("none", "unknown")),
                          "flagged": len(viol0), "absorbed_by_listed_findings": len(absorbed), "drift_events": len(drift)}
    ctx.cov["by_channel"] = {"%s|%s|%s" % k: v for k, v in sorted(by.items())}
    ctx.cov["judge_classes"] = dict(sorted(cov.items()))
    if drift:
        d = collections.Counter((events[l]["c"]["ch"], events[l]["c"]["kind"], Expect_of(events[l]), events[l]["out"]) for l in drift)
        ctx.notes.append("drift: at %d handling call(s) the outcome class differs from the reference dispatcher of Wire.tla (I level; update the model - not a verdict): %s" % (
            len(drift), "; ".join("%s/%s expected %s got %s x%d" % (k[0], k[1], k[2], k[3], v) for k, v in d.most_common(6))))
    slow = [e for e in events if e["out"] == "slow"]
    if slow:
        ctx.notes.append("%d call(s) were not back within the watchdog but not blocked in a bare channel / lock operation (no observation): first %s %s" % (
            len(slow), slow[0]["c"]["ch"], slow[0].get("err", "")))
    if dead:
        ctx.notes.append("%d liveness probe(s) over the switch went unanswered although the process lived (no observation)" % len(dead))

    def sample(e):
        return {"mode": e["mode"], "case": "%d/%d" % (e["i"], e["fill"]), "shape": {k: v for k, v in e["c"].items() if v not in ("na", -1) and k not in ("exp", "today")},
                "mut": e["mut"], "input": e["in"][:100], "len": e["len"], "out": e["out"], "reply": e.get("reply", "")[:60], "site": e.get("site", ""), "cls": e.get("cls", "")}
    for ls in per_finding.values():
        ctx.samples.append(sample(events[ls[0]]))
    for pred in (lambda e: e["out"] == "reply" and e["c"]["kind"] == "offer", lambda e: e["out"] == "ok" and e["c"]["ch"] == "pipe",
                 lambda e: e["out"] == "error" and e["c"]["ch"] == "resp", lambda e: e["mode"] == "e2e" and e["out"] == "reply"):
        s = next((e for e in events if pred(e)), None)
        if s:
            ctx.samples.append(sample(s))

    if not ctx.violations and not ctx.replay:
        need = [("req", "direct", "reply"), ("req", "direct", "empty"), ("req", "e2e", "reply"), ("resp", "direct", "error"), ("resp", "direct", "ok"),
                ("val", "direct", "ok"), ("val", "direct", "error"), ("pipe", "direct", "ok"), ("put", "direct", "ok"), ("get", "direct", "ok"),
                ("stream", "direct", "ok"), ("stream", "direct", "error"), ("lookup", "net", "ok"), ("utp", "net", "empty")]
        absent = [k for k in need if by.get(k, 0) == 0]
        honest = collections.Counter(e["c"]["net"] for e in events if e["c"]["ch"] in ("val", "pipe") and e["out"] == "ok" and e["c"]["cc"] == "valid")
        nets_missing = [n for n in ("history", "beacon", "state") if honest.get(n, 0) == 0]
        if absent or nets_missing or len(shapes) < 0.98 * ncases or summ["seq_jobs"] < 20:
            raise NoVerdict("vacuity guard: outcome classes never observed %s; networks whose genuine items were never accepted %s; %d of %d cases executed; %d sequences" % (
                absent, nets_missing, len(shapes), ncases, summ["seq_jobs"]))
        ctx.cov["honest_items_accepted"] = dict(honest)
    ctx.cov["rule"] = ("evaluation = one handling call of the real code on one delivered byte string (handler / process* / validator / store adapter / getter), "
                       "distinct by (channel, bytes); cases = TLC-enumerated shapes, each concretised `fills` times (seeded filler, genuine vectors, seeded mutations)")
    ctx.assumptions += [
        "byte-level coverage inside one shape is seeded sampling (filler bytes, genuine vectors of the repository, one mutation per further fill); the shape space itself is enumerated exhaustively by TLC",
        "wedge = not back after the watchdog AND blocked in a bare channel / lock operation, twice in the same frame 10 s apart; slowness, the code's own 15 s / 60 s uTP timeouts and unanswered datagrams are no observation",
        "end-to-end deliveries observe process death and the reply; a panic that the code's own worker pool recovers (history content loop, ants) is only visible in the direct calls",
        "the uTP stack (zen-eth/utp-go) is driven only through TALKREQ deliveries over the switch",
    ]
    return "model_checking"


def Expect_of(e):
    return e["c"].get("exp", "?")
