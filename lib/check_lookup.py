"""C10 - iterative lookup / content lookup (DESIGN.md 6). Spec: Lookup.tla (I level, exhaustive incl. liveness,
deviation witnesses, simulate-mode generation), Trace_Lookup.tla (judge of the real lookup's query log)."""
import json, os
import vlib
from vlib import NoVerdict

CONJ = {"askedOnce", "neverSelf", "knownPeer", "alpha", "askedSeen", "terminates", "sorted", "distinct", "atMost16",
        "resultSeen", "closest", "contentOK"}
# "drained" (no query still running when the lookup returns) is computed by the judge but not part of the statement:
# a lookup that returns without waiting for cancelled queries would be a legitimate implementation.


def design(ctx):
    thorough = ctx.tier == "thorough"
    vlib.tlc_design(ctx, "Lookup", "MC_Lookup_Node.cfg", timeout=900)
    vlib.tlc_design(ctx, "Lookup", "MC_Lookup_Content.cfg", timeout=900)
    if thorough:
        vlib.tlc_design(ctx, "Lookup", "MC_Lookup_Node5.cfg", timeout=3000)
    for cfg, inv in (("MC_Lookup_DevAskTwice.cfg", "AskedOnce"), ("MC_Lookup_DevSelf.cfg", "NeverSelf"),
                     ("MC_Lookup_DevAlpha.cfg", "AlphaBound"), ("MC_Lookup_DevSeen.cfg", "Distinct"),
                     ("MC_Lookup_DevDrain.cfg", "Temporal property Terminates was violated."), ("MC_Lookup_DevGivesUp.cfg", "Drained")):
        vlib.tlc_design(ctx, "Lookup", cfg, timeout=300, expect_violation=inv)


def generate(ctx):
    """Behaviours from the specification (simulate mode): answers per peer, completion order, cancel point."""
    cases = []
    n = 400 if ctx.tier == "thorough" else 60
    for cfg in ("Gen_Lookup_Node.cfg", "Gen_Lookup_Content.cfg"):
        r = vlib.tlc(ctx, "Lookup", cfg, workers=1, timeout=600,
                     args=["-simulate", "num=%d" % n, "-depth", "80", "-seed", str(ctx.seed)], name="gen-" + cfg[:-4])
        if r.error and "timeout" in r.error:
            raise NoVerdict("generation timed out")
        cs = vlib.printed_json(r, "CASE")
        if not cs:
            raise NoVerdict("no behaviours generated from %s\n%s" % (cfg, r.out[-2000:]))
        seen = set()
        for c in cs:
            d = vlib.digest(c["hist"])
            if d not in seen and c["hist"]:
                seen.add(d)
                cases.append(c)
    return cases


def run(ctx):
    thorough, seed = ctx.tier == "thorough", ctx.seed
    out = os.path.join(ctx.work, "lookup.ndjson")
    if ctx.replay:
        rp = json.load(open(ctx.replay))
        args = rp["harness_args"]
        args = args[:args.index("--out")] + ["--out", out]
        if rp.get("cases") is not None:
            cin = os.path.join(ctx.work, "cases.ndjson")
            open(cin, "w").write("\n".join(json.dumps(c) for c in rp["cases"]) + "\n")
            args[args.index("--in") + 1] = cin
        cases = rp.get("cases")
    else:
        if not os.environ.get("VERIF_SKIP_DESIGN"):
            design(ctx)
        cases = generate(ctx)
        cin = os.path.join(ctx.work, "cases.ndjson")
        open(cin, "w").write("\n".join(json.dumps(c) for c in cases) + "\n")
        args = ["lookup", "--in", cin, "--seed", seed, "--small", 600 if thorough else 120, "--big", 40 if thorough else 8,
                "--content", 300 if thorough else 60, "--out", out]
    try:
        vlib.harness(ctx, args, timeout=3000)
    except NoVerdict as e:
        sig = vlib.crash_signature(str(e))
        if sig and any("portalwire" in f and "verif_export" not in f for f in sig["frames"][:2]):
            vlib.violation(ctx, "the lookup crashed the process: %s at %s" % (sig["panic"], sig["frames"][:3]),
                           {"label": "lookup", "harness_args": [str(a) for a in args], "seed": ctx.seed, "crash": sig, "cases": cases}, tag="panic")
            ctx.cov["rule"] = "process crash inside lookup code"
            ctx.evaluations, ctx.distinct = 1, {"crash", "crash2"}
            return "model_checking"
        raise
    events = vlib.read_ndjson(out)
    # coverage accounting
    stats = {"scenarios": 0, "generated_replayed": 0, "queries": 0, "max_inflight": 0, "cancelled": 0, "content_found": 0,
             "content_notfound": 0, "results16": 0, "max_peers": 0, "empty_table": 0, "bursts": 0}
    running = set()
    cur = None
    for e in events:
        ev = e["ev"]
        if ev == "lk.case":
            stats["generated_replayed"] += 1
        elif ev == "lk.init":
            stats["scenarios"] += 1
            ctx.traces += 1
            running = set()
            cur = e
            stats["max_peers"] = max(stats["max_peers"], e["npeers"])
            if not e["seed"]:
                stats["empty_table"] += 1
        elif ev == "q.start":
            stats["queries"] += 1
            running.add(e["p"])
            stats["max_inflight"] = max(stats["max_inflight"], len(running))
            ctx.evaluations += 1
        elif ev == "q.end":
            running.discard(e["p"])
        elif ev == "lk.cancel":
            stats["cancelled"] += 1
        elif ev == "lk.done":
            ctx.evaluations += 1
            stats["bursts"] += e.get("bursts", 0)
            if e["kind"] == "content":
                stats["content_found" if e["found"] else "content_notfound"] += 1
            elif len(e["res"]) == 16:
                stats["results16"] += 1
            if cur is not None:
                ctx.distinct.add(vlib.digest([cur["npeers"], cur["seed"], cur["akind"], e["res"], e["found"], e["cancelled"]]))
                if len(ctx.samples) < 5 and cur["npeers"] <= 8:
                    ctx.samples.append({"peers": cur["npeers"], "table_seed": cur["seed"], "answer_kinds": cur["akind"],
                                        "result": e["res"], "kind": e["kind"], "found": e["found"], "cancelled": e["cancelled"]})
    ctx.cov["reached"] = stats
    viol, r = vlib.judge(ctx, "Trace_Lookup", "Trace_Lookup.cfg", out, timeout=3000)
    ctx.states += r.distinct
    ctx.transitions += r.generated
    byc = {}
    for l, c in viol:
        if c in CONJ:
            byc.setdefault(c, []).append(l)
        else:
            ctx.notes.append("drift: conjunct %s false at line %d (not part of the property)" % (c, l)) if len(ctx.notes) < 5 else None
    for c, lines in byc.items():
        e = events[lines[0] - 1]
        vlib.violation(ctx, "conjunct '%s' false at %d event(s), first at line %d (scenario %s, event %s)" % (
            c, len(lines), lines[0], e.get("t"), json.dumps({k: v for k, v in e.items() if k != "rank"})[:300]),
            {"label": "lookup", "harness_args": [str(a) for a in args], "seed": ctx.seed, "conjunct": c, "lines": lines[:50],
             "first_event": e, "cases": cases}, tag=c)
    if not ctx.violations and not ctx.replay:
        if (stats["max_inflight"] < 3 or stats["cancelled"] == 0 or stats["content_found"] == 0 or stats["content_notfound"] == 0
                or stats["results16"] == 0 or stats["generated_replayed"] == 0 or stats["empty_table"] == 0 or stats["bursts"] < 10):
            raise NoVerdict("vacuity guard: scenarios did not reach 3 concurrent queries / cancellation / both content outcomes / a full result / generated behaviours / 10 simultaneous completions: %s" % stats)
    ctx.cov["rule"] = ("a scenario = one real lookup over a harness-owned peer graph (answers per peer, table seed, completion order, cancel point); "
                       "evaluations = queries issued by the real code + lookup results judged; distinct = distinct (graph shape, answer kinds, result)")
    ctx.assumptions += [
        "exhaustive TLC: 4-5 peers, alpha 2-3, result size 3, every answer subset and completion order, liveness under weak fairness",
        "the harness measures concurrency only after no new query has started for 1.5 ms (so a fourth simultaneous query cannot hide)",
        "answers contain no nil entries (production query functions never return them)",
        "several replies waiting in the reply channel at once are provoked, not observed: the first released peer answers with 150 000 repeats of its own record "
        "(merging them keeps the lookup goroutine busy) while the other outstanding queries complete 0.3 ms later, with the table loop stopped as at shutdown "
        "(otherwise trackRequest spaces the replies); TLC-generated behaviours say which replies go together",
        "XOR-distance ranks come from go-ethereum's enode.DistCmp",
    ]
    return "model_checking"
