"""BNET - the beacon sub-network's intake of offered content (beacon.Network.validateContents over the real
BeaconValidator and the real beacon.Storage) as a state machine; an extension of the specification beyond the
listed properties (DESIGN I.10).  Spec: BeaconNet.tla (I level, re-uses BeaconStore.tla's actions; exhaustive with
small constants, six deviation witnesses), Gen_BeaconNet.tla (simulate-mode behaviours: acceptable items and near
misses), Trace_BeaconNet.tla (trace validation re-using BeaconNet's actions; verdicts, store calls, batch results
and every read of the projected state are compared)."""
import json, os, random
import vlib
from vlib import NoVerdict

DEVS = [("DevCount", "Action property ReadYourWrite is violated."), ("DevFinAbove", "Action property ReadYourWrite is violated."),
        ("DevOptLoose", "Action property AcceptedBound is violated."), ("DevNoProof", "Action property AcceptedBound is violated."),
        ("DevAnyFork", "Action property AcceptedBound is violated."), ("DevContinue", "OkMeansAll")]


def design(ctx):
    vlib.tlc_design(ctx, "BeaconNet", "MC_BeaconNet.cfg" if ctx.tier == "thorough" else "MC_BeaconNet_Quick.cfg", timeout=1500)
    for name, expect in DEVS:
        vlib.tlc_design(ctx, "BeaconNet", "MC_BeaconNet_%s.cfg" % name, timeout=300, expect_violation=expect)
    # for arbitrary constants: what is accepted satisfies the binding rules; after a refusal nothing reaches the store (TLAPS, 124 obligations)
    vlib.tlaps(ctx, "BeaconNet_proofs")


def generate(ctx):
    r = vlib.tlc(ctx, "Gen_BeaconNet", "Gen_BeaconNet.cfg", workers=1, timeout=600,
                 args=["-simulate", "num=%d" % (40 if ctx.tier == "thorough" else 10), "-depth", "60", "-seed", str(ctx.seed)], name="gen-bnet")
    if r.error and "timeout" in r.error:
        raise NoVerdict("generation timed out")
    cs = vlib.printed_json(r, "CASE")
    seen, out = set(), []
    for c in cs:
        d = vlib.digest(c)
        if d not in seen and c:
            seen.add(d)
            out.append(c)
    if not out:
        raise NoVerdict("no behaviours generated\n" + r.out[-2000:])
    random.Random(ctx.seed).shuffle(out)
    return out[: (600 if ctx.tier == "thorough" else 120)]


def run(ctx):
    thorough = ctx.tier == "thorough"
    out = os.path.join(ctx.work, "bnet.ndjson")
    if ctx.replay:
        rp = json.load(open(ctx.replay))
        args = rp["harness_args"]
        args = args[:args.index("--out")] + ["--out", out]
        cases = rp.get("cases") or []
        cin = os.path.join(ctx.work, "cases.ndjson")
        open(cin, "w").write("\n".join(json.dumps(c) for c in cases) + "\n")
        args[args.index("--in") + 1] = cin
    else:
        if not os.environ.get("VERIF_SKIP_DESIGN"):
            design(ctx)
        cases = generate(ctx)
        cin = os.path.join(ctx.work, "cases.ndjson")
        open(cin, "w").write("\n".join(json.dumps(c) for c in cases) + "\n")
        args = ["beaconstore", "--mode", "net", "--in", cin, "--seed", ctx.seed, "--runs", 150 if thorough else 30, "--ops", 40 if thorough else 25, "--out", out]
    vlib.harness(ctx, args, timeout=3000)
    events = vlib.read_ndjson(out)
    st = {"runs": 0, "generated_replayed": 0, "batches": 0, "batches_ok": 0, "validated": 0, "restarts": 0, "reads": 0,
          "refused_after_stored": 0, "accepted": {}, "refused_by": {}}
    stored_in_batch = 0
    for e in events:
        ev = e["ev"]
        if ev == "init":
            st["runs"] += 1
            ctx.traces += 1
        elif ev == "case":
            st["generated_replayed"] += 1
        elif ev == "batch":
            st["batches"] += 1
            stored_in_batch = 0
        elif ev == "validate":
            st["validated"] += 1
            ctx.evaluations += 1
            i = e["item"]
            if e["verdict"] == "ok":
                st["accepted"][i["kind"]] = st["accepted"].get(i["kind"], 0) + 1
            else:
                why = [f for f, bad in (("kdec", not i["kdec"]), ("dec", not i["dec"]), ("fork", i["fork"] != "electra"), ("aux:" + i["aux"], i["aux"] != "ok")) if bad]
                k = i["kind"] + ":" + ("+".join(why) or "bind/other")
                st["refused_by"][k] = st["refused_by"].get(k, 0) + 1
                if stored_in_batch:
                    st["refused_after_stored"] += 1
            ctx.distinct.add(vlib.digest([i["kind"], i["kdec"], i["dec"], i["fork"], i["aux"], i["ka"], i["kb"], i["cv"], len(i["tags"]), e["verdict"]]))
        elif ev == "put":
            stored_in_batch += 1
        elif ev == "done":
            if e["res"] == "ok":
                st["batches_ok"] += 1
        elif ev == "restart":
            st["restarts"] += 1
        elif ev == "obs":
            n = len(e["boot"]) + len(e["upd"]) + len(e["fin"]) + len(e["opt"]) + len(e["hs"])
            st["reads"] += n
            ctx.evaluations += n
        elif ev == "api":
            st["api_answers"] = st.get("api_answers", 0) + sum(1 for k in ("boot", "fin", "opt") for r in e[k] if r != [0]) + sum(1 for u in e["upd"] if u["api"] != [0])
    ctx.cov["reached"] = st
    viol, r = vlib.judge(ctx, "Trace_BeaconNet", "Trace_BeaconNet.cfg", out, timeout=3000)
    ctx.states += r.distinct
    ctx.transitions += r.generated
    byc = {}
    for l, c in viol:
        byc.setdefault(c, []).append(l)
    for c, lines in byc.items():
        e = events[lines[0] - 1]
        vlib.violation(ctx, "the beacon network's intake departs from BeaconNet.tla: '%s' at %d event(s), first at line %d (run %s, event %s)" % (
            c, len(lines), lines[0], e.get("t"), json.dumps({k: v for k, v in e.items() if k != "upd"})[:400]),
            {"label": "beaconnet", "harness_args": [str(a) for a in args], "seed": ctx.seed, "conjunct": c, "lines": lines[:50],
             "first_event": e, "cases": cases}, tag=c)
    if not ctx.violations and not ctx.replay:
        need = {"update", "bootstrap", "optimistic", "summaries"}
        refused_kinds = {k.split(":")[0] for k in st["refused_by"]}
        if (st["generated_replayed"] == 0 or not need <= set(st["accepted"]) or st["batches_ok"] == 0 or st["restarts"] == 0 or st.get("api_answers", 0) == 0
                or st["refused_after_stored"] == 0 or not {"update", "bootstrap", "finality", "optimistic", "summaries", "unknown", "emptykey"} <= refused_kinds):
            raise NoVerdict("vacuity guard: %s" % st)
    ctx.cov["rule"] = ("a run = one sequence of batches handed to the real beacon.Network.validateContents; evaluations = verdicts + single reads of the "
                       "projected state compared with the specification's read operators; distinct = distinct (item facets, verdict)")
    ctx.assumptions += [
        "exhaustive TLC: 1 id, periods 0..2, slots / epochs 0..1, 1-2 tags, ranges <= 2, 2 batches of <= 2 items, restart at any point",
        "items are decodable deneb / electra objects built by the harness (not signed); the oracle is the harness's (a fixed root per item, or a failure)",
        "not one of the listed properties: BeaconNet.tla states what the code does; a finality update that meets every rule may still be refused "
        "(today's code refuses all of them, see DESIGN I.10)",
    ]
    return "model_checking"
