"""INTAKE - the three sub-networks' intake loops (history / beacon / state Network.validateContents) against one
specification with the differences between them named (Intake.tla); an extension of the specification beyond the listed
properties (DESIGN I.10).  Exhaustive TLC per network + two witnesses that OkMeansHeld does NOT hold for history and
state (documented behaviour) + two deviations; the real loops run with scripted verdicts / store answers behind
pass-through wrappers and every call they make is replayed through Intake's actions (Trace_Intake.tla)."""
import json, os
import vlib
from vlib import NoVerdict

NETS = ["history", "beacon", "state"]


def design(ctx):
    for n in NETS:
        vlib.tlc_design(ctx, "Intake", "MC_Intake_%s.cfg" % n, timeout=300)
    # after a good batch the node need not hold every item: history drops the store's answer, the state adapter swallows it
    vlib.tlc_design(ctx, "Intake", "MC_Intake_HeldHistory.cfg", timeout=300, expect_violation="OkMeansHeld")
    vlib.tlc_design(ctx, "Intake", "MC_Intake_HeldState.cfg", timeout=300, expect_violation="OkMeansHeld")
    vlib.tlc_design(ctx, "Intake", "MC_Intake_DevContinue.cfg", timeout=300, expect_violation="RefusalIsError")
    vlib.tlc_design(ctx, "Intake", "MC_Intake_DevEarlyPut.cfg", timeout=300, expect_violation="StoredOnlyValidated")


def split(events, net):
    keep, out = False, []
    for e in events:
        if e["ev"] == "init":
            keep = e["net"] == net
        if keep:
            out.append(e)
    return out


def run(ctx):
    thorough = ctx.tier == "thorough"
    out = os.path.join(ctx.work, "intake.ndjson")
    if ctx.replay:
        args = json.load(open(ctx.replay))["harness_args"]
        args = args[:args.index("--out")] + ["--out", out]
    else:
        if not os.environ.get("VERIF_SKIP_DESIGN"):
            design(ctx)
        args = ["intake", "--seed", ctx.seed, "--runs", 150 if thorough else 30, "--batches", 20 if thorough else 12, "--out", out]
    vlib.harness(ctx, args, timeout=1500)
    events = vlib.read_ndjson(out)
    st = {n: {"batches": 0, "ok": 0, "err": 0, "store_refused": 0, "skipped_stored": 0, "ok_not_held": 0} for n in NETS}
    for n in NETS:
        evs = split(events, n)
        items = None
        for e in evs:
            s = st[n]
            if e["ev"] == "init":
                ctx.traces += 1
            elif e["ev"] == "batch":
                s["batches"] += 1
                items = e["items"]
                ctx.distinct.add(vlib.digest([n, [(i["valid"], i["fits"]) for i in items]]))
            elif e["ev"] == "look" and e["found"]:
                s["skipped_stored"] += 1
            elif e["ev"] == "put":
                ctx.evaluations += 1
                if e["inner"] == "err":
                    s["store_refused"] += 1
            elif e["ev"] == "validate":
                ctx.evaluations += 1
            elif e["ev"] == "done":
                s[e["res"]] += 1
                if e["res"] == "ok" and any(i["key"] not in e["held"] for i in items):
                    s["ok_not_held"] += 1
        p = os.path.join(ctx.work, "intake-%s.ndjson" % n)
        open(p, "w").write("\n".join(json.dumps(e) for e in evs) + "\n")
        viol, r = vlib.judge(ctx, "Trace_Intake", "Trace_Intake_%s.cfg" % n, p, timeout=900, name="judge-" + n)
        ctx.states += r.distinct
        ctx.transitions += r.generated
        byc = {}
        for l, c in viol:
            byc.setdefault(c, []).append(l)
        for c, lines in byc.items():
            e = evs[lines[0] - 1]
            vlib.violation(ctx, "the %s network's intake loop departs from Intake.tla: '%s' at %d event(s), first at line %d of its trace (run %s, event %s)" % (
                n, c, len(lines), lines[0], e.get("t"), json.dumps(e)[:300]),
                {"label": "intake", "harness_args": [str(a) for a in args], "seed": ctx.seed, "net": n, "conjunct": c, "lines": lines[:50], "first_event": e}, tag=n + "-" + c)
    ctx.cov["reached"] = st
    if not ctx.violations and not ctx.replay:
        # the binding discriminates: the history network's trace (it asks the store first) is not a behaviour of the beacon network's specification
        viol, _ = vlib.judge(ctx, "Trace_Intake", "Trace_Intake_beacon.cfg", os.path.join(ctx.work, "intake-history.ndjson"), timeout=900, name="judge-crossed")
        if not viol:
            raise NoVerdict("self-test: the history network's trace was accepted under Net = beacon")
        for n in NETS:
            s = st[n]
            if s["ok"] == 0 or s["err"] == 0 or s["store_refused"] == 0:
                raise NoVerdict("vacuity guard: %s %s" % (n, s))
        if st["history"]["skipped_stored"] == 0:
            raise NoVerdict("vacuity guard: %s" % st)
    ctx.cov["rule"] = "a run = one sequence of batches handed to one network's real validateContents; evaluations = validator and store calls replayed; distinct = distinct (network, verdict / store-answer pattern of a batch)"
    ctx.assumptions += [
        "exhaustive TLC: 2 keys, 2 batches of <= 2 items per network",
        "verdicts and store answers are scripted by the harness (the validators are C02 / C13 / BNET's business); the state network runs its real state.Storage adapter over the scripted store",
        "not one of the listed properties: Intake.tla states what the three loops do, including that a batch can be reported good (and gossiped) although the store refused an item (history, state)",
    ]
    return "model_checking"
