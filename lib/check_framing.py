"""C15 - content stream framing (DESIGN.md 6).  Spec: Framing.tla (declarative framing + left-to-right Split with
named deviations), MC_Framing.tla (exhaustive laws at reduced geometry, shape cases at real geometry),
Trace_Framing.tla (judge of what the real portalwire helpers did, real geometry)."""
import json, os, threading
import vlib
from vlib import NoVerdict

OWN = {"rejects", "accepts", "sameSplit", "singleExact", "roundTrip", "noPanic"}
MACHINERY = {"wellFormed", "skipped"}
M = "MC_Framing"


def retry(f, *a, **k):
    """A TLC process killed from outside (rc 143: someone's `pkill tlc2.TLC` on a shared machine) is run once more."""
    try:
        return f(*a, **k)
    except NoVerdict as e:
        if "rc=143" not in str(e) and "rc=137" not in str(e):
            raise
        vlib.log("TLC was killed from outside, running it again")
        return f(*a, **k)


def design(ctx):
    thorough = ctx.tier == "thorough"
    # the left-to-right procedure decides the declarative notion of a framing, on every stream of the reduced alphabet
    retry(vlib.tlc_design, ctx, M, "MC_Framing_Streams6.cfg" if thorough else "MC_Framing_Streams5.cfg", timeout=1500)
    retry(vlib.tlc_design, ctx, M, "MC_Framing_Lists.cfg", timeout=600)
    # every deviation breaks a law in the model (the laws are not vacuous)
    retry(vlib.tlc_design, ctx, M, "MC_Framing_DevWide.cfg", timeout=300, expect_violation="Decides")
    retry(vlib.tlc_design, ctx, M, "MC_Framing_DevNoExceeds.cfg", timeout=300, expect_violation="Decides")
    retry(vlib.tlc_design, ctx, M, "MC_Framing_DevSingleTrailing.cfg", timeout=300, expect_violation="SingleExact")
    retry(vlib.tlc_design, ctx, M, "MC_Framing_DevNarrow.cfg", timeout=300, expect_violation="Inverse")


def generate(ctx):
    """Real-geometry cases from TLC: streams assembled from the chunk-shape catalogue, with the expected class."""
    cfg = "MC_Framing_GenMedium.cfg" if ctx.tier == "thorough" else "MC_Framing_Gen.cfg"
    r = retry(vlib.tlc_design, ctx, M, cfg, timeout=900)
    cases = vlib.printed_json(r, "CASE")
    if len(cases) < 1000:
        raise NoVerdict("TLC generated only %d framing cases" % len(cases))
    cases.sort(key=lambda c: json.dumps(c["stream"]))
    p = os.path.join(ctx.work, "cases.ndjson")
    with open(p, "w") as f:
        for c in cases:
            f.write(json.dumps(c) + "\n")
    by = {}
    for c in cases:
        k = "%s/%s" % (c["cls"], c["why"] or "-")
        by[k] = by.get(k, 0) + 1
    ctx.cov["generated_cases"] = {"config": cfg, "count": len(cases), "by_class": by}
    return p, {json.dumps(c["stream"]): c for c in cases}


def judge_parallel(ctx, trace_path, parts, module="Trace_Framing", cfg="Trace_Framing.cfg", tag=""):
    """The events are independent: deal the trace out to `parts` files (round robin, so that expensive neighbours are
    spread) and judge them side by side. Returns (violations as (global line, conjunct), observations by global line)."""
    lines = [ln for ln in open(trace_path) if ln.strip()]
    n = len(lines)
    parts = max(1, min(parts, (n + 199) // 200))
    res, errs = [None] * parts, []

    def work(i):
        try:
            idx = list(range(i, n, parts))            # 0-based global indices of this part, in order
            p = os.path.join(ctx.work, "trace-%spart%d.ndjson" % (tag, i))
            with open(p, "w") as f:
                f.writelines(lines[g] for g in idx)
            viol, r = retry(vlib.judge, ctx, module, cfg, p, timeout=3000, name="judge-%s%d-%d" % (tag, os.getpid(), i) + os.path.basename(trace_path))
            obs = vlib.printed_json(r, "OBS")
            res[i] = (idx, viol, obs, r)
        except Exception as e:     # NoVerdict or anything else: reported by the caller's thread
            errs.append(e)

    ths = [threading.Thread(target=work, args=(i,)) for i in range(parts)]
    for t in ths:
        t.start()
    for t in ths:
        t.join()
    if errs:
        raise errs[0] if isinstance(errs[0], NoVerdict) else NoVerdict("trace judge failed: %r" % (errs[0],))
    viol, obs = [], {}
    for idx, v, o, r in res:
        ctx.states += r.distinct
        ctx.transitions += r.generated
        viol += [(idx[l - 1] + 1, c) for l, c in v]
        for x in o:
            obs[idx[x["l"] - 1] + 1] = x
    if len(obs) != n:
        raise NoVerdict("trace judge reported %d observations for %d events" % (len(obs), n))
    return viol, obs


def self_test(ctx, events):
    """The binding is itself tested: single-field corruptions of recorded events must be flagged by the judge."""
    def pick(pred):
        for e in events:
            if pred(e):
                return json.loads(json.dumps(e))
        raise NoVerdict("self-test: no suitable event recorded")
    golden = [pick(lambda e: e["ev"] == "split" and e["ok"] and len(e["items"]) >= 2 and e["items"][0]),
              pick(lambda e: e["ev"] == "split" and not e["ok"] and e["in"]),
              pick(lambda e: e["ev"] == "single" and e["ok"] and e["content"]),
              pick(lambda e: e["ev"] == "single" and not e["ok"] and "mismatch" in e["err"]),
              pick(lambda e: e["ev"] == "join" and len(e["items"]) >= 2 and e["items"][1]),
              pick(lambda e: e["ev"] == "first" and e["ok"] and e["rest"])]
    bad = json.loads(json.dumps(golden))
    bad[0]["items"][0][0][0] ^= 1                      # a content byte changed
    bad[1]["ok"] = True                                # a stream without framing reported accepted
    bad[2]["ok"], bad[2]["content"] = False, []        # an honest single-item stream reported rejected
    bad[3]["ok"] = True                                # trailing bytes reported accepted
    bad[4]["back"] = bad[4]["back"][:-1]               # the round trip lost an item
    bad[5]["rest"] = []                                # the remainder dropped
    expect = {(7, "sameSplit"), (8, "rejects"), (9, "accepts"), (10, "singleExact"), (11, "roundTrip"), (12, "sameSplit")}
    p = os.path.join(ctx.work, "selftest.ndjson")
    with open(p, "w") as f:
        for e in golden + bad:
            f.write(json.dumps(e) + "\n")
    viol, r = vlib.judge(ctx, "Trace_Framing", "Trace_Framing.cfg", p, timeout=600, name="judge-selftest")
    got = {(l, c) for l, c in viol}
    if got != expect:
        raise NoVerdict("self-test of the trace judge: expected %s, got %s" % (sorted(expect), sorted(got)))
    ctx.cov["judge_self_test"] = "6 golden events accepted, 6 single-field corruptions each flagged with the intended conjunct"


def blob_len(rs):
    return sum(n for _, n in rs)


def run(ctx):
    thorough = ctx.tier == "thorough"
    expected = {}
    if ctx.replay:
        rp = json.load(open(ctx.replay))
        cases = os.path.join(ctx.work, "cases.ndjson")
        with open(cases, "w") as f:
            f.write(json.dumps(rp["case"]) + "\n")
        args = ["framing", "--cases", cases, "--gen", 0, "--seed", rp.get("seed", ctx.seed)]
    else:
        if not os.environ.get("VERIF_SKIP_DESIGN"):      # (the switch is for mutation experiments only)
            design(ctx)
        cases, expected = generate(ctx)
        args = ["framing", "--cases", cases, "--seed", ctx.seed, "--random", 12000 if thorough else 1500]
        if thorough:
            args.append("--thorough")
    out = os.path.join(ctx.work, "trace.ndjson")
    vlib.harness(ctx, args + ["--out", out], timeout=1800)
    events = vlib.read_ndjson(out)
    if not events:
        raise NoVerdict("the framing engine recorded nothing")
    ctx.traces += 1
    viol, obs = judge_parallel(ctx, out, 1 if ctx.replay else 8)

    # ---- classification -------------------------------------------------------------------------
    mach = [(l, c) for l, c in viol if c in MACHINERY]
    if mach:
        raise NoVerdict("the judge could not read %d event(s) (first: line %d %s, event %s)" % (
            len(mach), mach[0][0], mach[0][1], json.dumps(events[mach[0][0] - 1])[:400]))
    byc = {}
    for l, c in viol:
        if c in OWN:
            byc.setdefault((c, events[l - 1]["ev"]), []).append(l)
    names = {"split": "decodeContents", "first": "decodeSingleContent", "single": "decodeUtpContent (version 1)",
             "join": "encodeContents + decodeContents", "join1": "encodeUtpContent/decodeUtpContent + encode/decodeSingleContent"}
    for (c, ev), ls in sorted(byc.items()):
        e, o = events[ls[0] - 1], obs[ls[0]]
        if ev in ("join", "join1"):
            case = {"kind": "list", "items": e["items"] if ev == "join" else [e["item"]]}
            size = "%d item(s)" % len(case["items"])
        else:
            case = {"stream": e["in"]}
            size = "%d byte stream, expectation %s%s" % (blob_len(e["in"]), o["c"], ("/" + o["w"]) if o.get("w") else "")
        what = "conjunct '%s' false for %s at %d event(s); first: line %d (source %s, %s), code returned ok=%s err=%r%s" % (
            c, names[ev], len(ls), ls[0], e.get("src"), size, e["ok"], e.get("err", ""),
            (" PANIC " + e["panic"][:200]) if e.get("panic") else "")
        vlib.violation(ctx, what, {"case": case, "seed": ctx.seed, "conjunct": c, "op": ev, "lines": ls[:50], "first_event": e if len(json.dumps(e)) < 20000 else "(large)"}, tag=c)

    # ---- coverage ---------------------------------------------------------------------------------
    reached, drift, sigs = {}, {}, set()
    maxitems, maxlen = 0, 0
    for i, e in enumerate(events, 1):
        o = obs[i]
        ctx.evaluations += 1
        k = "%s:%s%s:%s" % (o["k"], o["c"], ("/" + o["w"]) if o.get("w") else "", "accepted" if o["ok"] else "refused")
        reached[k] = reached.get(k, 0) + 1
        for d in o.get("d", []):
            drift[o["k"] + ":" + d] = drift.get(o["k"] + ":" + d, 0) + 1
        inp = e.get("in", e.get("items", e.get("item")))
        if inp:
            ctx.distinct.add(vlib.digest([e["ev"], inp]))
        sigs.add((o["k"], o["c"], o.get("w"), min(o.get("n", 0), 4), e.get("src")))
        if e["ev"] == "join":
            maxitems = max(maxitems, len(e["items"]))
            maxlen = max([maxlen] + [blob_len(x) for x in e["items"]])
        if e["ev"] == "split" and e.get("src") == "tlc" and expected:
            x = expected.get(json.dumps(e["in"]))
            if x is None or x["cls"] != o["c"] or (x["why"] or "") != (o.get("w") or ""):
                raise NoVerdict("generated case and judge disagree about the class of stream %s: %s vs %s" % (json.dumps(e["in"])[:200], x, o))
    ctx.cov["reached"] = dict(sorted(reached.items()))
    ctx.cov["distinct_abstract_signatures"] = len(sigs)
    ctx.cov["max_items_joined"], ctx.cov["max_item_bytes_joined"] = maxitems, maxlen
    for k, n in sorted(drift.items()):
        ctx.notes.append("drift (allowed by the property, not an alarm): %s at %d event(s)" % (k, n))
    for e in events:
        if len(ctx.samples) < 6 and e["ev"] in ("split", "single") and e.get("src") in ("tlc", "mut") and 2 < len(e["in"]) <= 8 and (len(ctx.samples) % 2 == 0) == e["ok"]:
            ctx.samples.append({"call": names[e["ev"]], "stream_hex": "".join(("%02x" % b) * n for b, n in e["in"]), "accepted": e["ok"], "err": e["err"],
                                "items": [blob_len(x) for x in e.get("items", [])] if e["ev"] == "split" else blob_len(e.get("content", []))})

    if not ctx.violations and not ctx.replay:
        need = ["split:MustAccept:accepted", "split:MustReject/truncated:refused", "split:MustReject/exceeds:refused",
                "split:MustReject/overflow:refused", "first:MustAccept:accepted", "first:MustReject/exceeds:refused",
                "single:MustAccept:accepted", "single:MustReject/trailing:refused", "single:MustReject/overflow:refused",
                "single:MustReject/truncated:refused", "join:List:accepted", "join1:List:accepted"]
        missing = [k for k in need if reached.get(k, 0) < 10]
        if missing or maxitems < 64 or maxlen < (1 << 21):
            raise NoVerdict("vacuity guard: classes never (or hardly) exercised on the code: %s (max items %d, max item %d bytes)" % (missing, maxitems, maxlen))
        self_test(ctx, events)
    ctx.cov["rule"] = ("evaluation = one call of a real helper (decodeContents, decodeSingleContent, decodeUtpContent v1, encodeContents+decodeContents, "
                       "encodeUtpContent+decodeUtpContent) with its complete input and output logged; non-trivial = non-empty input; distinct by (call, input bytes)")
    ctx.assumptions += [
        "exhaustive laws are checked at reduced geometry (3 prefix bytes x 2 bits, 5-bit limit, all streams of <= %d symbols over 8 symbols, all lists of <= 3 boundary-length items); "
        "the judge uses the same operators at the real geometry (5 x 7 bits, 32-bit limit)" % (6 if thorough else 5),
        "inside one chunk-shape class the concrete bytes are a fixed fill per shape plus seeded samples - not every byte string",
        "prefix values >= 2^31 are represented as 'beyond any stream length' (TLC integers are 32-bit); streams handed to the code are < 2^23 bytes",
        "padded (non-minimal) prefixes are class Free: the property is silent, the code may accept or reject them",
        "inputs are handed to the code as slices with capacity = length",
    ]
    return "model_checking"
