"""C14 - wire messages round-trip and decode canonically within their limits (DESIGN.md 6).
Spec: SSZ.tla (schema-driven reference codec, strict decoder, named lenient deviations), SSZSchemas.tla (the real
layouts and limits), MC_SSZ.tla (exhaustive laws at reduced limits; boundary values + mutation catalogue at the real
limits), Trace_SSZ.tla (judge of what the real encoders / decoders did)."""
import json, os
import vlib
from vlib import NoVerdict
from check_framing import judge_parallel, retry

OWN = {"roundTrip", "overLimit", "canonical", "limits", "noPanic", "vectorRoundTrip"}
MACHINERY = {"wellFormed"}
M = "MC_SSZ"
MUTATIONS = ["off+1", "off-1", "off+w", "off-w", "off=0", "off>end", "swap", "trail0", "trailW", "trailF", "trunc"]
# the limits named in the statement: schema -> (field index or None for a bare schema, what)
STATEMENT_LIMITS = {"Offer": "64 keys / 2048-byte keys", "Nodes": "32 ENRs / 2048-byte ENRs", "Enrs": "32 ENRs", "FindNodes": "256 distances",
                    "Ping": "1100-byte payload", "Pong": "1100-byte payload", "ConnectionId": "2-byte connection id", "FindContent": "2048-byte key",
                    "Accept": "64 bits / 2-byte connection id", "AcceptV1": "64 codes / 2-byte connection id", "Content": "2048-byte content"}


def design(ctx):
    thorough = ctx.tier == "thorough"
    retry(vlib.tlc_design, ctx, M, "MC_SSZ_Values.cfg", timeout=1500)                   # RoundTrip, OverLimit, Mutants (canonical under the whole catalogue)
    retry(vlib.tlc_design, ctx, M, "MC_SSZ_Bytes6.cfg" if thorough else "MC_SSZ_Bytes5.cfg", timeout=1500)   # Dec b = v => Enc v = b, on every byte string
    # every lenient deviation breaks a law in the model (the deviations of the listed findings in both tiers)
    devs = [("DevZeroTable", "MutantsLaw"), ("DevTrailingFixed", "MutantsLaw"), ("DevNoLimit", "OverLimit"), ("DevBareListMin", "RoundTrip")]
    if thorough:
        devs += [("DevNoFirstOffset", "MutantsLaw"), ("DevDecreasing", "MutantsLaw"), ("DevBytesZeroTable", "Canonical"), ("DevBytesTrailing", "Canonical")]
    for cfg, inv in devs:
        retry(vlib.tlc_design, ctx, M, "MC_SSZ_%s.cfg" % cfg, timeout=600, expect_violation=inv)


def generate(ctx):
    r = retry(vlib.tlc_design, ctx, M, "MC_SSZ_Gen.cfg", timeout=1500)
    cases = vlib.printed_json(r, "CASE")
    sch = vlib.printed_json(r, "SCHEMAS")
    if len(cases) < 300 or not sch:
        raise NoVerdict("TLC generated only %d SSZ cases" % len(cases))
    cases.sort(key=lambda c: (c["name"], c["j"]))
    cp, sp = os.path.join(ctx.work, "cases.ndjson"), os.path.join(ctx.work, "schemas.json")
    with open(cp, "w") as f:
        for c in cases:
            c["muts"].sort(key=lambda m: (m["m"], json.dumps(m["b"])))
            f.write(json.dumps(c) + "\n")
    json.dump(sch[-1], open(sp, "w"))
    ctx.cov["generated_cases"] = {"schemas": len(sch[-1]), "values": len(cases), "values_within_limits": sum(1 for c in cases if c["within"]),
                                  "mutants": sum(len(c["muts"]) for c in cases), "mutants_the_reference_accepts": sum(1 for c in cases for m in c["muts"] if m["ok"])}
    return cp, sp, cases, sch[-1]


def explain(ctx, events, lines, deviation):
    """Re-judge the given events with the reference decoder deviating as `deviation`: which of them does it reproduce exactly?"""
    cfg = "Trace_SSZ_%s.cfg" % deviation
    if not os.path.exists(os.path.join(vlib.SPEC, cfg)):
        raise NoVerdict("no judge configuration for deviation %s" % deviation)
    p = os.path.join(ctx.work, "expl-%s.ndjson" % deviation)
    with open(p, "w") as f:
        for l in lines:
            f.write(json.dumps(events[l - 1]) + "\n")
    _, obs = judge_parallel(ctx, p, 8, "Trace_SSZ", cfg, tag="x" + deviation)
    return {l for i, l in enumerate(lines, 1) if obs[i].get("x")}


def self_test(ctx, events):
    def pick(pred):
        for e in events:
            if pred(e):
                return json.loads(json.dumps(e))
        raise NoVerdict("self-test: no suitable event recorded")
    golden = [pick(lambda e: e["ev"] == "val" and e["name"] == "Offer" and e["decok"] and len(e["v"][0]) >= 2),
              pick(lambda e: e["ev"] == "val" and e["name"] == "Ping" and not e["encok"]),
              pick(lambda e: e["ev"] == "bytes" and e["name"] == "Nodes" and e["decok"] and e["reenc"] == e["in"] and len(e["v"][1]) >= 1),
              pick(lambda e: e["ev"] == "bytes" and e["name"] == "Accept" and not e["decok"] and e["m"] == "overlimit")]
    bad = json.loads(json.dumps(golden))
    bad[0]["back"][0] = bad[0]["back"][0][:-1]           # the round trip lost a key
    bad[1]["encok"], bad[1]["decok"] = True, True        # an over-limit payload reported as surviving
    bad[2]["reenc"] = bad[2]["reenc"] + [[0, 1]] if bad[2]["reenc"][-1][0] != 0 else bad[2]["reenc"] + [[1, 1]]   # re-encoding differs
    bad[3]["decok"], bad[3]["v"], bad[3]["reok"], bad[3]["reenc"] = True, [[[1, 2]], [[255, 8], [3, 1]]], True, bad[3]["in"]   # 65 bits accepted
    expect = {(5, "roundTrip"), (6, "overLimit"), (7, "canonical"), (8, "limits")}
    p = os.path.join(ctx.work, "selftest.ndjson")
    with open(p, "w") as f:
        for e in golden + bad:
            f.write(json.dumps(e) + "\n")
    viol, _ = retry(vlib.judge, ctx, "Trace_SSZ", "Trace_SSZ.cfg", p, timeout=600, name="judge-selftest")
    got = {(l, c) for l, c in viol}
    if got != expect:
        raise NoVerdict("self-test of the trace judge: expected %s, got %s" % (sorted(expect), sorted(got)))
    ctx.cov["judge_self_test"] = "4 golden events accepted, 4 single-field corruptions each flagged with the intended conjunct"


def blob_len(rs):
    return sum(n for _, n in rs)


def hexs(rs, cap=48):
    s = "".join(("%02x" % b) * n for b, n in rs[:cap] if n <= 64)
    return s if len(rs) <= cap and all(n <= 64 for _, n in rs) else "(%d bytes, runs %s...)" % (blob_len(rs), json.dumps(rs[:6]))


def run(ctx):
    thorough = ctx.tier == "thorough"
    cases, gen = [], {}
    if ctx.replay:
        rp = json.load(open(ctx.replay))
        cp, sp = os.path.join(ctx.work, "cases.ndjson"), os.path.join(ctx.work, "schemas.json")
        json.dump(rp["schemas"], open(sp, "w"))
        with open(cp, "w") as f:
            f.write(json.dumps(rp["case"]) + "\n")
        args = ["ssz", "--cases", cp, "--schemas", sp, "--seed", rp.get("seed", ctx.seed), "--random", 0]
        schemas = rp["schemas"]
    else:
        if not os.environ.get("VERIF_SKIP_DESIGN"):      # (the switch is for mutation experiments only)
            design(ctx)
        cp, sp, cases, schemas = generate(ctx)
        args = ["ssz", "--cases", cp, "--schemas", sp, "--seed", ctx.seed, "--random", 400 if thorough else 40, "--repo", vlib.REPO]
    out = os.path.join(ctx.work, "trace.ndjson")
    import time
    t0 = time.time()
    vlib.harness(ctx, args + ["--out", out], timeout=1800)
    vlib.log("engine ran in %.1fs" % (time.time() - t0))
    events = vlib.read_ndjson(out)
    if not events:
        raise NoVerdict("the ssz engine recorded nothing")
    ctx.traces += 1
    t0 = time.time()
    viol, obs = judge_parallel(ctx, out, 1 if ctx.replay else 16, "Trace_SSZ", "Trace_SSZ.cfg")
    vlib.log("judged %d events in %.1fs" % (len(events), time.time() - t0))

    # ---- classification ----------------------------------------------------------------------------
    mach = [(l, c) for l, c in viol if c in MACHINERY]
    if mach:
        raise NoVerdict("the judge could not read %d event(s) (first: line %d %s, event %s)" % (
            len(mach), mach[0][0], mach[0][1], json.dumps(events[mach[0][0] - 1])[:400]))
    mine = sorted({(l, c) for l, c in viol if c in OWN})
    absorbed = {}
    if mine:
        for f in vlib.known_findings("C14"):
            if f.get("status") != "known" or not f.get("deviation"):
                continue
            cand = sorted({l for l, c in mine if c in f["conjuncts"] and (l, c) not in absorbed})
            if not cand:
                continue
            for l in explain(ctx, events, cand, f["deviation"]):
                for c in f["conjuncts"]:
                    if (l, c) in set(mine):
                        absorbed[(l, c)] = f["id"]
        byf = {}
        for (l, c), fid in absorbed.items():
            byf.setdefault(fid, []).append(l)
        for fid, ls in sorted(byf.items()):
            names = sorted({events[l - 1]["name"] for l in ls})
            f = [x for x in vlib.known_findings("C14") if x["id"] == fid][0]
            vlib.known_hit(ctx, fid, "%s - observed at %d event(s) on %s" % (f["what"], len(set(ls)), ", ".join(names)))
            ctx.cov.setdefault("known_finding_events", {})[fid] = {"events": len(set(ls)), "types": names}
    byc = {}
    for l, c in mine:
        if (l, c) not in absorbed:
            byc.setdefault((c, events[l - 1]["name"]), []).append(l)
    for (c, name), ls in sorted(byc.items()):
        e = events[ls[0] - 1]
        if e["ev"] == "vec":
            case = {"name": "Ping", "bytes": []}          # (vectors are replayed by running the check again: they live in the repository)
            what = "repository vector (%s, %d bytes): decode ok=%s, re-encode ok=%s equal=%s, err=%r" % (e["m"], e["in"]["len"], e["decok"], e["reok"], e["re"] == e["in"], e["err"])
        elif e["ev"] == "val":
            case = {"name": name, "j": e["j"], "v": e["v"], "within": obs[ls[0]]["within"], "enc": [], "muts": []}
            for cs in cases:
                if cs["name"] == name and cs["j"] == e["j"]:
                    case = dict(cs, muts=[])
            what = "value #%d (%s the limits): encode ok=%s, decode ok=%s, err=%r" % (e["j"], "within" if obs[ls[0]]["within"] else "beyond", e["encok"], e["decok"], e["err"])
        else:
            case = {"name": name, "bytes": e["in"]}
            what = "input %s (%s), decode ok=%s, re-encoded %s, err=%r" % (hexs(e["in"]), e["m"], e["decok"], hexs(e["reenc"]) if e["reok"] else "failed", e["err"])
        if e.get("panic"):
            what += " PANIC " + e["panic"][:200]
        vlib.violation(ctx, "conjunct '%s' false for %s at %d event(s); first: line %d: %s" % (c, name, len(ls), ls[0], what),
                       {"case": case, "schemas": {k: schemas[k] for k in (name, "Ping") if k in schemas}, "seed": ctx.seed, "conjunct": c, "lines": ls[:50],
                        "first_event": e if len(json.dumps(e)) < 20000 else "(large)"}, tag=c + "-" + name)

    # ---- coverage ------------------------------------------------------------------------------------
    per, muts, drift = {}, {}, {}
    for i, e in enumerate(events, 1):
        o = obs[i]
        if e["ev"] == "skip":
            per.setdefault(e["name"], {}).setdefault("values_not_representable_in_go", 0)
            per[e["name"]]["values_not_representable_in_go"] += 1
            continue
        ctx.evaluations += 1
        p = per.setdefault(e["name"], {})
        if e["ev"] == "vec":
            k = "vectors_roundtripped" if e["m"] == "vector" and e["decok"] else "damaged_vectors_accepted" if e["decok"] else "damaged_vectors_refused"
            ctx.distinct.add(vlib.digest(["vec", e["name"], e["m"], e["in"]]))
        elif e["ev"] == "val":
            k = "values_within_roundtripped" if (o["within"] and o["ok"]) else "values_within_lost" if o["within"] else \
                "values_beyond_refused" if not o["ok"] else "values_beyond_survived"
            ctx.distinct.add(vlib.digest(["val", e["name"], e["v"]]))
        else:
            k = "bytes_accepted" if e["decok"] else "bytes_refused"
            if e["m"] == "overlimit":
                k = "overlimit_encodings_accepted" if e["decok"] else "overlimit_encodings_refused"
            muts.setdefault(e["m"], [0, 0])[0 if e["decok"] else 1] += 1
            if e["ev"] == "bytes" and e["in"]:
                ctx.distinct.add(vlib.digest(["bytes", e["name"], e["in"]]))
        p[k] = p.get(k, 0) + 1
        for d in o.get("d", []):
            drift.setdefault(d, {}).setdefault(e["name"], 0)
            drift[d][e["name"]] += 1
    ctx.cov["reached_per_type"] = dict(sorted(per.items()))
    ctx.cov["mutations_accepted_refused"] = dict(sorted(muts.items()))
    for d, names in sorted(drift.items()):
        ctx.notes.append("drift (not an alarm): %s at %d event(s) on %s" % (d, sum(names.values()), ", ".join(sorted(names))))
    if not ctx.replay:
        # generator and judge must agree about what the strict reference does with every generated input
        exp = {}
        for c in cases:
            exp[(c["name"], json.dumps(c["enc"]))] = c["within"]
            for m in c["muts"]:
                exp[(c["name"], json.dumps(m["b"]))] = m["ok"]
        for i, e in enumerate(events, 1):
            if e["ev"] == "bytes" and e["m"] != "rand":
                x = exp.get((e["name"], json.dumps(e["in"])))
                if x is None or x != obs[i]["within"]:
                    raise NoVerdict("generated case and judge disagree about input %s of %s (%s): %s vs %s" % (hexs(e["in"]), e["name"], e["m"], x, obs[i]["within"]))
    for e in events:
        if len(ctx.samples) < 6 and e["ev"] == "bytes" and e["name"] in ("Offer", "Nodes", "Accept") and e["m"] in ("off+1", "swap", "trailW", "overlimit", "trunc") and blob_len(e["in"]) < 60 \
                and not any(s["mutation"] == e["m"] for s in ctx.samples):
            ctx.samples.append({"type": e["name"], "mutation": e["m"], "input_hex": hexs(e["in"]), "decoded": e["decok"], "err": e["err"],
                                "reencoded_equal": e["decok"] and e["reenc"] == e["in"]})

    if not ctx.violations and not ctx.replay:
        missing = []
        for name in schemas:
            p = per.get(name, {})
            if not p.get("values_within_roundtripped") or not p.get("bytes_refused") or not (p.get("bytes_accepted") or p.get("overlimit_encodings_accepted")):
                missing.append(name)
        for name in STATEMENT_LIMITS:
            p = per.get(name, {})
            if not (p.get("values_beyond_refused") and p.get("overlimit_encodings_refused")):
                missing.append(name + " (over its limit)")
        vecs = [n for n in per if n.startswith("Vec:") and per[n].get("vectors_roundtripped")]
        if len(vecs) < 6:
            missing.append("repository vectors (only %s)" % vecs)
        nomut = [m for m in MUTATIONS if sum(muts.get(m, [0, 0])) < 20]
        if missing or nomut:
            raise NoVerdict("vacuity guard: never exercised on the code: types %s, mutations %s" % (missing, nomut))
        self_test(ctx, events)
    ctx.cov["rule"] = ("evaluation = one real MarshalSSZ/UnmarshalSSZ (or ztyp Serialize/Deserialize) experiment on a real type with its complete input and outcome logged: "
                       "val = value -> bytes -> value, bytes = bytes -> value -> bytes; non-trivial = non-empty input; distinct by (kind, type, input)")
    ctx.assumptions += [
        "exhaustive laws (RoundTrip, OverLimit, Mutants, Canonical) are about the reference codec at reduced limits (lists <= 2(+1), elements <= 2(+1) bytes over {0,1}; "
        "byte strings of <= %d symbols over 7 symbols with 1-byte offsets); the judge uses the same operators with the real limits and 4-byte offsets" % (6 if thorough else 5),
        "the verdict conjuncts are implementation-relative (round trip, re-encoding equality, schema limits of the decoded value); the reference decoder generates and classifies "
        "the inputs and absorbs listed findings through its named deviations",
        "values are one-field-at-a-time boundary variations of a base value (empty / one / limit / limit+1); lists above 2048 elements and byte lists above 16 MiB only far below their limit",
        "the CONTENT union selector and the message-code byte are parsed by hand in portal_protocol.go and belong to C01/C08; the three union bodies are checked as types",
        "abstract values that the Go type cannot hold (a 33-byte value for a [32]byte field) are skipped",
    ]
    return "model_checking"
