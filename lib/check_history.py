"""C02 - history content is accepted only when bound to its key and the trusted roots (DESIGN.md 6).

Spec:   HistoryRules.tla (views; P level Bound, I level Outcome with named deviations),
        HistoryValidation.tla (symbolic block universe, exhaustive case space, CASE generation),
        Trace_History.tla (monitor-mode judge: sound / stored / returned / noPanic).
Engine: harness/engines/history (real HistoryValidator with a stub oracle and with the production ValidationOracle
        over in-process RPC; Network.validateContents and the three getters over a recording store).
"""
import json, os, collections
from concurrent.futures import ThreadPoolExecutor
import vlib
from vlib import NoVerdict

M = "MC_HistoryValidation"
OWN = {"sound", "stored", "returned", "noPanic"}
# deviation of the coded procedure (HistoryRules!DevNames) -> listed finding
DEV2FINDING = {"StripWd": "F-C02-1", "TrustSource": "F-C02-2", "NilWdPanic": "F-C02-3", "NumKeyPrefix": "F-C02-4", "NonCanon": "F-C02-5",
               "SlotIndexPanic": "F-C02-6", "StripEmptyWd": "F-C02-7"}
# stable panic signature of F-C02-3: innermost shisui frame + runtime error class
PANIC_SIG = {"NilWdPanic": ("history.validateBlockBody", "nil pointer dereference"),
             "SlotIndexPanic": ("validation.HeaderValidator.validateMergeToCapellaHeader", "index out of range")}
DEVIATION_CFGS = [  # (cfg, property the model must violate with that deviation on)
    ("MC_HV_DevStrip.cfg", "Soundness"), ("MC_HV_DevTrust.cfg", "Soundness"), ("MC_HV_DevNil.cfg", "NoPanic"),
    ("MC_HV_DevNumKey.cfg", "Soundness"), ("MC_HV_DevNonCanon.cfg", "Soundness"), ("MC_HV_DevSlot.cfg", "NoPanic"),
    ("MC_HV_DevNoKey.cfg", "Soundness"), ("MC_HV_DevUncle.cfg", "Soundness"), ("MC_HV_DevTx.cfg", "Soundness"),
    ("MC_HV_DevProof.cfg", "Soundness"), ("MC_HV_DevHashKey.cfg", "Soundness"), ("MC_HV_DevStripEmpty.cfg", "Soundness"),
]
SLIM = ("ev", "layer", "k", "c", "s", "out", "stored", "returned", "ib")


def design(ctx):
    thorough = ctx.tier == "thorough"
    vlib.tlc_design(ctx, M, "MC_HV5.cfg" if thorough else "MC_HV.cfg", timeout=600)      # sound procedure: Soundness, NoPanic, Completeness
    vlib.tlc_design(ctx, M, "MC_HV_Today.cfg", timeout=600)                              # the code as it is still accepts everything genuine
    for cfg, prop in DEVIATION_CFGS:                                                     # non-vacuity: every deviation breaks the property in the model
        vlib.tlc_design(ctx, M, cfg, timeout=300, expect_violation=prop)


def generate(ctx):
    """Exhaustive enumeration of the abstract case space by TLC; every case printed as JSON."""
    thorough = ctx.tier == "thorough"
    n = 5 if thorough else 3
    r = vlib.tlc(ctx, M, "Gen_HV5.cfg" if thorough else "Gen_HV.cfg", workers=1, timeout=900, name="gen")
    if r.error or r.violated:
        raise NoVerdict("case generation failed: %s\n%s" % (r.error or r.violated, r.out[-3000:]))
    cases = vlib.printed_json(r, "CASE")
    if len(cases) * 2 != r.distinct or not cases:
        raise NoVerdict("case generation: %d cases printed but %d states explored" % (len(cases), r.distinct))
    for i, c in enumerate(cases):
        c["i"], c["n"] = i, n
    ctx.states += r.distinct
    ctx.transitions += r.generated
    ctx.cov.setdefault("tlc_runs", []).append({"module": M, "cfg": "Gen_HV", "distinct": r.distinct, "generated": r.generated,
                                               "cases": len(cases), "wall_s": round(r.wall, 1)})
    vlib.log("generated %d abstract cases (N=%d blocks) in %.1fs" % (len(cases), n, r.wall))
    return cases


def judge_chunks(ctx, events, label):
    """Judge the eval events with Trace_History (chunks in parallel); returns (violations with global index, COV counter)."""
    chunk = 60000
    parts = [events[i:i + chunk] for i in range(0, len(events), chunk)] or [[]]
    paths = []
    for n, part in enumerate(parts):
        p = os.path.join(ctx.work, "%s-judge-%d.ndjson" % (label, n))
        with open(p, "w") as f:
            for e in part:
                f.write(json.dumps({k: e[k] for k in SLIM}) + "\n")
        paths.append(p)

    def one(n):
        return vlib.judge(ctx, "Trace_History", "Trace_History.cfg", paths[n], timeout=3000, name="judge-%s-%d" % (label, n))

    with ThreadPoolExecutor(max_workers=min(4, len(parts))) as ex:
        res = list(ex.map(one, range(len(parts))))
    viol, cov = [], collections.Counter()
    for n, (v, r) in enumerate(res):
        ctx.states += r.distinct
        ctx.transitions += r.generated
        ctx.traces += 1
        recs = vlib.printed_json(r, "V")
        if len(recs) != v[0]:
            raise NoVerdict("trace judge reported %d records but printed %d" % (v[0], len(recs)))
        for l, conj, why in recs:
            viol.append((n * chunk + l - 1, conj, why))
        cs = vlib.printed_json(r, "COV")
        if not cs:
            raise NoVerdict("trace judge printed no COV record")
        for k, c in (cs[-1] or {}).items():
            cov[k] += c
        if sum((cs[-1] or {}).values()) != len(parts[n]):
            raise NoVerdict("trace judge consumed %d of %d events" % (sum(cs[-1].values()), len(parts[n])))
    return viol, cov


def judge_selftest(ctx, events):
    """DESIGN 4.8: the binding is itself tested - a golden event passes, single-field corruptions of it must be flagged."""
    g = next((e for e in events if e["pristine"] and e["layer"] == "stub" and e["k"]["t"] == "body" and e["out"] == "accept"), None)
    if g is None:
        return
    def mod(**kw):
        e = json.loads(json.dumps({k: g[k] for k in SLIM}))
        for path, v in kw.items():
            d = e
            ks = path.split("__")
            for k in ks[:-1]:
                d = d[k]
            d[ks[-1]] = v
        return e
    lines = [mod(), mod(c__tx=99999), mod(out="panic"), mod(out="reject", stored=True, c__un=99999), mod(k__known=False), mod(c__canon=False),
             mod(returned=True, k__wd=99999)]
    want = [set(), {"sound"}, {"noPanic"}, {"stored"}, {"sound"}, {"sound"}, {"sound", "returned"}]
    p = os.path.join(ctx.work, "selftest.ndjson")
    with open(p, "w") as f:
        for e in lines:
            f.write(json.dumps(e) + "\n")
    v, r = vlib.judge(ctx, "Trace_History", "Trace_History.cfg", p, timeout=300, name="judge-selftest")
    got = [set() for _ in lines]
    for l, conj, why in vlib.printed_json(r, "V"):
        if conj != "drift":
            got[l - 1].add(conj)
            if l != 6 and any(len(d) > 0 for d in why):     # (corruption 6, a non-canonical encoding, is what finding F-C02-5 is)
                raise NoVerdict("judge self-test: corruption %d explained by a listed deviation %s" % (l, why))
    if got != want:
        raise NoVerdict("judge self-test failed: flagged %s, expected %s" % (got, want))
    ctx.cov["judge_selftest"] = "golden event accepted, %d single-field corruptions flagged" % (len(lines) - 1)


def short(e):
    return {"layer": e["layer"], "case": e["i"], "variant": e["var"], "blocks": e["blk"], "key": e["key"], "content_len": e["clen"],
            "content_head": e["chead"], "source": e["mode"], "out": e["out"], "err": e["err"], "site": e["site"],
            "k": e["k"], "c": e["c"], "s": e["s"], "stored": e["stored"], "returned": e["returned"]}


def run(ctx):
    thorough, seed = ctx.tier == "thorough", ctx.seed
    known = {f["id"]: f for f in vlib.known_findings("C02")}
    if ctx.replay:
        rp = json.load(open(ctx.replay))
        cases, args = rp["cases"], [str(a) for a in rp["harness_args"]]
        if "--repo" in args:                              # the tree under test is always the current one
            del args[args.index("--repo"):args.index("--repo") + 2]
    else:
        if not os.environ.get("VERIF_SKIP_DESIGN"):      # (the env switch is for mutation experiments only)
            design(ctx)
        cases = generate(ctx)
        args = ["history", "--seed", seed, "--rounds", 6 if thorough else 1, "--mut", 300 if thorough else 30,
                "--layers", "stub,rpc,net"] + (["--collide"] if thorough else [])
    cpath = os.path.join(ctx.work, "cases.ndjson")
    with open(cpath, "w") as f:
        for c in cases:
            f.write(json.dumps(c) + "\n")
    out = os.path.join(ctx.work, "history.ndjson")
    full = [str(a) for a in args] + ["--repo", vlib.REPO, "--cases", cpath, "--out", out]
    vlib.harness(ctx, full, timeout=3000)
    raw = vlib.read_ndjson(out)
    events = [e for e in raw if e["ev"] == "eval"]
    if not events:
        raise NoVerdict("the harness evaluated nothing")
    ctx.evaluations += len(events)
    for e in events:
        ctx.distinct.add(vlib.digest([e["layer"], e["key"], e["clen"], e["ctag"], e["s"]["ans"], e["s"]["hid"] if e["s"]["ans"] else 0]))
    viol, cov = judge_chunks(ctx, events, "history")
    if not ctx.replay:
        judge_selftest(ctx, events)

    # ---- classification --------------------------------------------------------------------------------
    drift, drift_eg = collections.Counter(), {}
    groups = {}      # (conjunct, explanation) -> [event index]
    for idx, conj, why in viol:
        e = events[idx]
        if conj == "drift":
            drift[(e["layer"], e["k"]["t"], why[0][0], e["out"])] += 1
            drift_eg.setdefault((e["layer"], e["k"]["t"], why[0][0], e["out"]), e["err"][:80])
            continue
        if conj not in OWN:
            continue
        expl = sorted(sorted(d) for d in why)
        devs = tuple(expl[0]) if expl else None
        ok = devs is not None and len(devs) > 0
        if ok:
            for d in devs:
                fid = DEV2FINDING.get(d)
                if fid is None or known.get(fid, {}).get("status") != "known":
                    ok = False          # explained only by something that is not (or no longer) a listed finding
            if conj == "noPanic":
                pd = [d for d in devs if d in PANIC_SIG]
                if not pd or not all(PANIC_SIG[d][0] in e["site"] and PANIC_SIG[d][1] in e["err"] for d in pd):
                    ok = False          # another panic than the listed one
        groups.setdefault((conj, devs if ok else None), []).append(idx)
    hits = collections.defaultdict(collections.Counter)
    firsts = {}      # finding -> (number of deviations in the explanation, sample event): prefer an event the finding explains alone
    for (conj, devs), idxs in sorted(groups.items(), key=lambda kv: str(kv[0])):
        if devs is not None:
            for d in devs:
                fid = DEV2FINDING[d]
                for i in idxs:
                    hits[fid][(events[i]["layer"], conj)] += 1
                best = min(idxs, key=lambda i: (events[i]["i"] < 0, events[i]["var"] != "", events[i]["layer"] != "stub", i))   # prefer a plain TLC-generated case
                rank = (len(devs), events[best]["i"] < 0, events[best]["var"] != "")
                if fid not in firsts or rank < firsts[fid][0]:
                    firsts[fid] = (rank, events[best])
            continue
        e = events[idxs[0]]
        absc = [c for c in cases if c["i"] in {events[i]["i"] for i in idxs[:40]}]
        where = collections.Counter((events[i]["layer"], events[i]["k"]["t"]) for i in idxs)
        vlib.violation(ctx, "conjunct '%s' false at %d evaluation(s) of the real code not explained by any listed finding (%s); first: layer=%s key=%s "
                            "variant=%s blocks=%s out=%s err=%s site=%s key-view=%s content-view=%s source-view=%s" % (
                                conj, len(idxs), ", ".join("%s/%s x%d" % (l, t, n) for (l, t), n in sorted(where.items())),
                                e["layer"], e["key"], e["var"], e["blk"], e["out"], e["err"][:120], e["site"],
                                json.dumps(e["k"]), json.dumps(e["c"]), json.dumps(e["s"])),
                       {"label": "history", "harness_args": [str(a) for a in args], "seed": seed, "conjunct": conj, "cases": absc,
                        "events": [short(events[i]) for i in idxs[:10]]}, tag=conj)
    for fid, cnt in sorted(hits.items()):
        e = firsts[fid][1]
        layers = sorted({l for l, _ in cnt})
        vlib.known_hit(ctx, fid, "%s [%d evaluations; layers %s; e.g. key=%s variant=%s blocks=%s -> %s %s]" % (
            known[fid]["what"], sum(cnt.values()), ",".join(layers), e["key"][:24] + "...", e["var"] or "-", e["blk"], e["out"], e["err"][:60]))
        ctx.cov.setdefault("known_finding_events", {})[fid] = {"%s/%s" % k: v for k, v in sorted(cnt.items())}
    if os.environ.get("VERIF_WRITE_WITNESS") and not ctx.replay:      # one-off: refresh replays/known/<finding>.json (never at normal run time)
        os.makedirs(os.path.join(vlib.REPLAYS, "known"), exist_ok=True)
        for fid in hits:
            e = firsts[fid][1]
            wargs = [str(a) for a in args]
            if e["i"] >= 0:
                wargs[wargs.index("--mut") + 1] = "0"
            json.dump({"label": "history", "finding": fid, "harness_args": wargs, "seed": seed, "cases": [c for c in cases if c["i"] == e["i"]],
                       "events": [short(e)]}, open(os.path.join(vlib.REPLAYS, "known", fid + ".json"), "w"), indent=1)
    agg = {}
    for (layer, t, pred, obs), n in sorted(drift.items()):
        a = agg.setdefault((pred, obs), [0, set(), drift_eg[(layer, t, pred, obs)]])
        a[0] += n
        a[1].add("%s/%s" % (layer, t))
    for (pred, obs), (n, where, eg) in sorted(agg.items()):
        ctx.notes.append("drift (the I-level model HistoryRules!Outcome with DevsToday predicts another outcome; no conjunct fails, no verdict): "
                         "%d x predicted=%s observed=%s at %s (e.g. %s)" % (n, pred, obs, ",".join(sorted(where)), eg or "-"))
    ctx.cov["drift_events"] = sum(drift.values())

    # ---- coverage accounting and vacuity guard ---------------------------------------------------------
    bycls = collections.Counter()
    mism = 0
    for k, n in cov.items():
        layer, t, b, o, ib = k.split("|")
        bycls[(layer, t, b, o)] += n
        if ib in "TF" and ib != b:
            mism += n
    pristine = collections.Counter()
    pristine_bad = []
    variants = collections.Counter()
    modes = collections.Counter()
    for e in events:
        if e["pristine"]:
            if e["out"] == "accept":
                pristine[(e["layer"], e["k"]["t"], e["era"])] += 1
            elif e["layer"] == "get" and e["k"]["t"] == "rcpt" and e["clen"] == 0:
                pristine[("get", "rcpt-empty-not-returned", e["era"])] += 1     # GetReceipts cannot return the empty list (DecodeReceipts): not C02
            else:
                pristine_bad.append(e)
        for v in (e["var"] or "none").split(","):
            variants[v.split("+")[0]] += 1
        if e["layer"] == "stub":
            modes[(e["k"]["t"], e["mode"], e["out"])] += 1
    ctx.cov["reached"] = {"%s|%s|bound=%s|%s" % k: v for k, v in sorted(bycls.items())}
    ctx.cov["genuine_accepted"] = {"%s|%s|%s" % k: v for k, v in sorted(pristine.items())}
    ctx.cov["mutation_variants"] = dict(sorted(variants.items()))
    ctx.cov["source_modes_stub"] = {"%s|%s|%s" % k: v for k, v in sorted(modes.items())}
    ctx.cov["concretisation_mismatch"] = mism
    blocks = [b for e in raw if e["ev"] == "init" for b in e["blocks"]]
    ctx.cov["blocks"] = [{"name": b["name"], "era": b["era"], "proven": b["proven"], "complete": b["complete"], "wd": b["wd"]} for b in blocks]
    for e in events:
        if len(ctx.samples) >= 6:
            break
        if e["i"] >= 0 and (e["out"] != "reject" or e["pristine"]) and e["layer"] in ("stub", "get") and \
                not any(s["out"] == e["out"] and s["k"]["t"] == e["k"]["t"] for s in ctx.samples):
            ctx.samples.append(short(e))
    if not ctx.replay and not ctx.violations:
        if pristine_bad:
            e = pristine_bad[0]
            raise NoVerdict("vacuity guard: %d genuine (key, content) pairs were rejected by the code, e.g. layer=%s key=%s blocks=%s err=%s - "
                            "no verdict about soundness while the validator refuses genuine content" % (len(pristine_bad), e["layer"], e["key"], e["blk"], e["err"]))
        need = []
        for layer, types in (("stub", ("hash", "num", "body", "rcpt")), ("rpc", ("body", "rcpt")), ("net", ("hash", "num", "body", "rcpt")),
                             ("net2", ("hash", "num", "body", "rcpt")), ("get", ("hash", "body", "rcpt"))):
            for t in types:
                if bycls[(layer, t, "T", "accept")] == 0:
                    need.append("%s/%s: nothing bound was accepted" % (layer, t))
                if sum(v for (l2, t2, b, o), v in bycls.items() if l2 == layer and t2 == t and b == "F") < 50:
                    need.append("%s/%s: fewer than 50 unbound pairs evaluated" % (layer, t))
        for era in ("premerge", "bellatrix", "capella", "deneb"):
            if pristine[("stub", "hash", era)] == 0 or pristine[("stub", "num", era)] == 0:
                need.append("no genuine %s header accepted" % era)
            if pristine[("stub", "body", era)] == 0 or pristine[("stub", "rcpt", era)] == 0:
                need.append("no genuine %s body / receipts accepted" % era)
        for v in ("content:bit", "content:byte", "content:trunc", "content:ext", "tx:bit", "un:add", "wd:bit", "rc:bit", "proof:bit", "key:bit",
                  "key:overlong", "noncanon:zero-offset", "proof:slotbeyond", "crossfield:tx-rc", "crossfield:tx-un", "crossfield:tx-wd", "junk:rand"):
            if variants[v] == 0:
                need.append("mutation class %s never produced" % v)
        if thorough:
            for v in ("collide:rc-prefix2", "collide:rc-suffix2", "collide:tx-prefix2", "collide:tx-suffix2", "collide:un-prefix2", "collide:un-suffix2"):
                if variants[v] == 0:
                    need.append("collision class %s never produced" % v)
        for t in ("body", "rcpt"):
            for m in ("honest", "lie", "err"):
                if sum(v for (t2, m2, o), v in modes.items() if t2 == t and m2 == m) == 0:
                    need.append("source mode %s never used for %s keys" % (m, t))
        if bycls[("stub", "unk", "F", "reject")] == 0:
            need.append("no key of unknown type evaluated")
        if mism * 20 > sum(cov.values()):
            need.append("concretisation disagrees with the abstract cases at %d of %d evaluations" % (mism, sum(cov.values())))
        if need:
            raise NoVerdict("vacuity guard: " + "; ".join(need))
    ctx.cov["rule"] = ("evaluation = one call of the real code (ValidateContent with the stub oracle / with validation.ValidationOracle over in-process RPC; "
                       "Network.validateContents with one- and two-item offers and GetBlockHeader/GetBlockBody/GetReceipts over a recording store) on one concrete "
                       "(key, content, header source); "
                       "all are non-trivial; distinct by (layer, key bytes, content length + tag, source answer)")
    ctx.assumptions += [
        "Keccak-256 / SHA-256 collision resistance: equal 32-byte roots and hashes are treated as equal contents (symbolic identities in the specification)",
        "go-ethereum's RLP codec, transaction / receipt / withdrawal decoding and DeriveSha / CalcUncleHash are trusted: the harness derives the content views with them "
        "(and with its own strict SSZ reader), never with shisui code",
        "a header proof counts as genuine iff it is byte-identical to the proof of the repository's mainnet vector for exactly that header (proof soundness itself is C03)",
        "the historical summaries served to the validator are the repository's genuine snapshot (the beacon-side source is trusted, as in the property)",
        "bellatrix-era header vectors are re-serialised from the superseded field order of types/history/testdata/header_with_proof.yaml into the current container "
        "(cross-checked against validation/testdata/block_proofs_bellatrix)",
        "exhaustive TLC universe: %d symbolic blocks + one forged header; %d concretisation(s) per abstract case" % (5 if thorough else 3, 6 if thorough else 1),
    ]
    return "model_checking"

