"""C06 second half: the in-range helper used by offer filtering, the store RPC and gossip (filled in with the net engine)."""


def run(ctx):
    return
