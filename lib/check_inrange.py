"""C06 second half: the in-range helper used by offer filtering, the store RPC and gossip (Trace_InRange.tla)."""
import vlib
import check_net


def run(ctx):
    n = 60000 if ctx.tier == "thorough" else 12000
    known = check_net.known_for("C06", {"InRangeLogDist": "Trace_InRange_LogDist.cfg"})
    events = check_net.run_and_judge(ctx, "inrange", None, "Trace_InRange", extra_args=["--n", n], own={"inrange", "advertised"}, known=known)
    t = f = 0
    for e in events:
        if e.get("ev") == "inrange":
            ctx.evaluations += 1
            t += e["res"]
            f += not e["res"]
            if ctx.evaluations % 50 == 0:
                ctx.distinct.add(vlib.digest([e["node"], e["radius"], e["id"]]))
    ctx.cov["inrange_true"], ctx.cov["inrange_false"] = t, f
    adv = {}
    for e in events:
        if e.get("ev") == "advert":
            ctx.evaluations += 1
            adv[e["via"]] = adv.get(e["via"], 0) + 1
    ctx.cov["advertised_radius_observations"] = adv
    if not ctx.violations and (sum(adv.values()) < 40 or "ping" not in adv):
        raise vlib.NoVerdict("vacuity guard: the node's advertised radius was hardly observed: %s" % adv)
    if (t == 0 or f == 0) and not ctx.violations:
        raise vlib.NoVerdict("vacuity guard: in-range triples all gave the same answer")
