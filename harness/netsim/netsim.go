// Package netsim is an in-memory packet switch implementing discover.UDPConn, with per-datagram logging and
// fault injection, plus factories for real PortalProtocol nodes and raw discv5 peers attached to it.
package netsim

import (
	"context"
	"crypto/ecdsa"
	"errors"
	"net"
	"net/netip"
	"sync"
	"time"

	cp "github.com/cockroachdb/pebble"
	"github.com/cockroachdb/pebble/vfs"
	"github.com/ethereum/go-ethereum/crypto"
	"github.com/ethereum/go-ethereum/p2p/discover"
	"github.com/ethereum/go-ethereum/p2p/enode"
	"github.com/ethereum/go-ethereum/p2p/enr"
	cache "github.com/go-pkgz/expirable-cache/v3"
	"github.com/holiman/uint256"
	"github.com/zen-eth/shisui/portalwire"
	"github.com/zen-eth/shisui/storage"
	"github.com/zen-eth/shisui/storage/pebble"
)

type Datagram struct {
	N        int
	From, To netip.AddrPort
	Size     int
}

// Fault decides the fate of the n-th datagram on the switch.
type Fault func(d Datagram, data []byte) (drop, dup bool, delay time.Duration)

type Switch struct {
	mu    sync.Mutex
	conns map[netip.AddrPort]*Conn
	log   []Datagram
	n     int
	fault Fault
}

func NewSwitch() *Switch { return &Switch{conns: map[netip.AddrPort]*Conn{}} }

func (s *Switch) SetFault(f Fault) { s.mu.Lock(); s.fault = f; s.mu.Unlock() }

// Mark returns the current position of the datagram log.
func (s *Switch) Mark() int { s.mu.Lock(); defer s.mu.Unlock(); return len(s.log) }

// Since returns the datagrams logged since mark.
func (s *Switch) Since(mark int) []Datagram {
	s.mu.Lock()
	defer s.mu.Unlock()
	return append([]Datagram(nil), s.log[mark:]...)
}

type pkt struct {
	from netip.AddrPort
	data []byte
}

type Conn struct {
	s      *Switch
	addr   netip.AddrPort
	ch     chan pkt
	closed chan struct{}
	once   sync.Once
}

func (s *Switch) Listen(a netip.AddrPort) *Conn {
	c := &Conn{s: s, addr: a, ch: make(chan pkt, 8192), closed: make(chan struct{})}
	s.mu.Lock()
	s.conns[a] = c
	s.mu.Unlock()
	return c
}

// Detach makes the address silent (datagrams to it vanish) without closing the listener.
func (s *Switch) Detach(a netip.AddrPort) { s.mu.Lock(); delete(s.conns, a); s.mu.Unlock() }

func (c *Conn) ReadFromUDPAddrPort(b []byte) (int, netip.AddrPort, error) {
	select {
	case p := <-c.ch:
		n := copy(b, p.data)
		return n, p.from, nil
	case <-c.closed:
		return 0, netip.AddrPort{}, errors.New("closed")
	}
}

func (c *Conn) WriteToUDPAddrPort(b []byte, a netip.AddrPort) (int, error) {
	s := c.s
	s.mu.Lock()
	d := s.conns[a]
	s.n++
	dg := Datagram{s.n, c.addr, a, len(b)}
	s.log = append(s.log, dg)
	f := s.fault
	s.mu.Unlock()
	if d == nil {
		return len(b), nil
	}
	drop, dup, delay := false, false, time.Duration(0)
	if f != nil {
		drop, dup, delay = f(dg, b)
	}
	if drop {
		return len(b), nil
	}
	cpy := append([]byte(nil), b...)
	deliver := func() {
		select {
		case d.ch <- pkt{c.addr, cpy}:
		default:
		}
		if dup {
			select {
			case d.ch <- pkt{c.addr, append([]byte(nil), cpy...)}:
			default:
			}
		}
	}
	if delay > 0 {
		time.AfterFunc(delay, deliver)
	} else {
		deliver()
	}
	return len(b), nil
}
func (c *Conn) Close() error        { c.once.Do(func() { close(c.closed) }); return nil }
func (c *Conn) LocalAddr() net.Addr { return net.UDPAddrFromAddrPort(c.addr) }

// ---- storage ---------------------------------------------------------------------------------------

type quiet struct{}

func (quiet) Infof(string, ...interface{})  {}
func (quiet) Errorf(string, ...interface{}) {}
func (quiet) Fatalf(string, ...interface{}) {}

var sharedCache = cp.NewCache(16 << 20)

// NewMemStore is the real pebble-backed ContentStorage on an in-memory file system.
func NewMemStore(node enode.ID, capMB uint64) (storage.ContentStorage, error) {
	db, err := cp.Open("db", &cp.Options{FS: vfs.NewMem(), Cache: sharedCache, MemTableSize: 4 << 20, Logger: quiet{}})
	if err != nil {
		return nil, err
	}
	return pebble.NewStorage(storage.PortalStorageConfig{StorageCapacityMB: capMB, NetworkName: "netsim", NodeId: node}, db)
}

// RadiusStore wraps a store and lets the harness choose the advertised radius.
type RadiusStore struct {
	storage.ContentStorage
	mu sync.Mutex
	R  *uint256.Int
}

func (r *RadiusStore) Radius() *uint256.Int {
	r.mu.Lock()
	defer r.mu.Unlock()
	if r.R != nil {
		return r.R
	}
	return r.ContentStorage.Radius()
}
func (r *RadiusStore) SetRadius(x *uint256.Int) { r.mu.Lock(); r.R = x; r.mu.Unlock() }

// ---- nodes -----------------------------------------------------------------------------------------

type NodeOpts struct {
	IP          string
	Port        uint16
	Versions    []uint8 // nil = the code's default set; empty slice = no "pv" entry at all
	NoPV        bool
	RawPV       []byte // a malformed pv entry (raw RLP value)
	Protocol    portalwire.ProtocolId
	MaxUtp      int
	QueueCap    int
	Store       storage.ContentStorage // nil = real pebble store on MemFS
	Key         *ecdsa.PrivateKey
	Boot        []*enode.Node
	VersionsTTL time.Duration
	NoStart     bool // the caller starts the protocol itself (e.g. through a sub-network's Start)
}

type Node struct {
	P     *portalwire.PortalProtocol
	API   *portalwire.PortalProtocolAPI
	Store storage.ContentStorage
	Queue chan *portalwire.ContentElement
	D5    *discover.UDPv5
	Conn  *Conn
	Addr  netip.AddrPort
	Key   *ecdsa.PrivateKey
	LN    *enode.LocalNode
}

type rawEntry struct {
	k string
	v []byte
}

func (r rawEntry) ENRKey() string { return r.k }

func NewNode(s *Switch, o NodeOpts) (*Node, error) {
	if len(o.Protocol) == 0 {
		o.Protocol = portalwire.History
	}
	if o.QueueCap == 0 {
		o.QueueCap = 50
	}
	ap := netip.AddrPortFrom(netip.MustParseAddr(o.IP), o.Port)
	conn := s.Listen(ap)
	key := o.Key
	if key == nil {
		key, _ = crypto.GenerateKey()
	}
	conf := portalwire.DefaultPortalProtocolConfig()
	conf.BootstrapNodes = o.Boot
	conf.MaxUtpConnSize = o.MaxUtp
	if o.VersionsTTL > 0 {
		conf.VersionsCacheTTL = o.VersionsTTL
	}
	db, err := enode.OpenDB("")
	if err != nil {
		return nil, err
	}
	ln := enode.NewLocalNode(db, key)
	ln.SetStaticIP(net.ParseIP(o.IP))
	ln.SetFallbackUDP(int(o.Port))
	ln.Set(portalwire.Tag)
	switch {
	case o.NoPV:
	case o.RawPV != nil:
		ln.Set(enr.WithEntry("pv", o.RawPV))
	case o.Versions == nil:
		ln.Set(portalwire.Versions)
	default:
		ln.Set(enr.WithEntry("pv", o.Versions))
	}
	d5, err := discover.ListenV5(conn, ln, discover.Config{PrivateKey: key, Bootnodes: o.Boot})
	if err != nil {
		return nil, err
	}
	utp := portalwire.NewZenEthUtp(context.Background(), conf, d5, conn)
	q := make(chan *portalwire.ContentElement, o.QueueCap)
	vc := cache.NewCache[*enode.Node, uint8]().WithMaxKeys(conf.VersionsCacheSize).WithTTL(conf.VersionsCacheTTL)
	st := o.Store
	if st == nil {
		st, err = NewMemStore(ln.ID(), 100)
		if err != nil {
			return nil, err
		}
	}
	p, err := portalwire.NewPortalProtocol(conf, o.Protocol, key, conn, ln, d5, utp, st, q, vc, portalwire.WithDisableTableInitCheckOption(true))
	if err != nil {
		return nil, err
	}
	if !o.NoStart {
		if err := p.Start(); err != nil {
			return nil, err
		}
	}
	return &Node{P: p, API: portalwire.NewPortalAPI(p), Store: st, Queue: q, D5: d5, Conn: conn, Addr: ap, Key: key, LN: ln}, nil
}

func (n *Node) Stop() {
	n.P.Stop()
	n.D5.Close()
}

// RawPeer is a bare discv5 endpoint: it can send TALKREQ with arbitrary bytes and answer with scripted bytes.
type RawPeer struct {
	D5   *discover.UDPv5
	LN   *enode.LocalNode
	Key  *ecdsa.PrivateKey
	Addr netip.AddrPort
}

func NewRawPeer(s *Switch, ip string, port uint16, key *ecdsa.PrivateKey) (*RawPeer, error) {
	ap := netip.AddrPortFrom(netip.MustParseAddr(ip), port)
	conn := s.Listen(ap)
	if key == nil {
		key, _ = crypto.GenerateKey()
	}
	db, err := enode.OpenDB("")
	if err != nil {
		return nil, err
	}
	ln := enode.NewLocalNode(db, key)
	ln.SetStaticIP(net.ParseIP(ip))
	ln.SetFallbackUDP(int(port))
	d5, err := discover.ListenV5(conn, ln, discover.Config{PrivateKey: key})
	if err != nil {
		return nil, err
	}
	return &RawPeer{D5: d5, LN: ln, Key: key, Addr: ap}, nil
}

// NewRawPeerNoIP: a discv5 endpoint whose record carries no ip / udp entries (a node that does not know its own
// address yet); peers reach it through the source address of its packets only.
func NewRawPeerNoIP(s *Switch, ip string, port uint16, key *ecdsa.PrivateKey) (*RawPeer, error) {
	ap := netip.AddrPortFrom(netip.MustParseAddr(ip), port)
	conn := s.Listen(ap)
	if key == nil {
		key, _ = crypto.GenerateKey()
	}
	db, err := enode.OpenDB("")
	if err != nil {
		return nil, err
	}
	ln := enode.NewLocalNode(db, key)
	d5, err := discover.ListenV5(conn, ln, discover.Config{PrivateKey: key})
	if err != nil {
		return nil, err
	}
	return &RawPeer{D5: d5, LN: ln, Key: key, Addr: ap}, nil
}

func (r *RawPeer) Self() *enode.Node { return r.LN.Node() }
func (r *RawPeer) Close()            { r.D5.Close() }
