module verifharness

go 1.24.2

require (
	github.com/OffchainLabs/go-bitfield v0.0.0-20250408211841-ad7364de91a5
	github.com/cockroachdb/pebble v1.1.5
	github.com/ethereum/go-ethereum v1.15.8
	github.com/go-pkgz/expirable-cache/v3 v3.0.0
	github.com/holiman/uint256 v1.3.2
	github.com/protolambda/bls12-381-util v0.1.0
	github.com/protolambda/zrnt v0.34.1
	github.com/protolambda/ztyp v0.2.2
	github.com/zen-eth/shisui v0.0.0
	github.com/zen-eth/utp-go v0.0.0-20250517113239-5d962dd66394
	golang.org/x/crypto v0.36.0
	gopkg.in/yaml.v3 v3.0.1
	pgregory.net/rapid v1.3.0
)

require (
	github.com/DataDog/zstd v1.5.6 // indirect
	github.com/VictoriaMetrics/fastcache v1.12.4 // indirect
	github.com/beorn7/perks v1.0.1 // indirect
	github.com/bits-and-blooms/bitset v1.20.0 // indirect
	github.com/cespare/xxhash/v2 v2.3.0 // indirect
	github.com/cockroachdb/errors v1.11.3 // indirect
	github.com/cockroachdb/fifo v0.0.0-20240816210425-c5d0cb0b6fc0 // indirect
	github.com/cockroachdb/logtags v0.0.0-20230118201751-21c54148d20b // indirect
	github.com/cockroachdb/redact v1.1.5 // indirect
	github.com/cockroachdb/tokenbucket v0.0.0-20230807174530-cc333fc44b06 // indirect
	github.com/consensys/bavard v0.1.27 // indirect
	github.com/consensys/gnark-crypto v0.16.0 // indirect
	github.com/crate-crypto/go-eth-kzg v1.3.0 // indirect
	github.com/crate-crypto/go-ipa v0.0.0-20240724233137-53bbb0ceb27a // indirect
	github.com/deckarep/golang-set/v2 v2.6.0 // indirect
	github.com/emicklei/dot v1.6.3 // indirect
	github.com/ethereum/go-verkle v0.2.2 // indirect
	github.com/ferranbt/fastssz v0.1.4 // indirect
	github.com/getsentry/sentry-go v0.29.1 // indirect
	github.com/gofrs/flock v0.8.1 // indirect
	github.com/gogo/protobuf v1.3.2 // indirect
	github.com/golang/snappy v1.0.0 // indirect
	github.com/google/btree v1.1.3 // indirect
	github.com/gorilla/websocket v1.5.0 // indirect
	github.com/huin/goupnp v1.3.0 // indirect
	github.com/jackpal/go-nat-pmp v1.0.2 // indirect
	github.com/kilic/bls12-381 v0.1.0 // indirect
	github.com/klauspost/cpuid/v2 v2.2.9 // indirect
	github.com/kr/pretty v0.3.1 // indirect
	github.com/kr/text v0.2.0 // indirect
	github.com/mattn/go-runewidth v0.0.15 // indirect
	github.com/minio/sha256-simd v1.0.1 // indirect
	github.com/mitchellh/mapstructure v1.5.0 // indirect
	github.com/mmcloughlin/addchain v0.4.0 // indirect
	github.com/munnerz/goautoneg v0.0.0-20191010083416-a7dc8b61c822 // indirect
	github.com/olekukonko/tablewriter v0.0.5 // indirect
	github.com/panjf2000/ants/v2 v2.11.3 // indirect
	github.com/panjf2000/gnet/v2 v2.8.0 // indirect
	github.com/pion/dtls/v2 v2.2.12 // indirect
	github.com/pion/logging v0.2.2 // indirect
	github.com/pion/stun/v2 v2.0.0 // indirect
	github.com/pion/transport/v2 v2.2.4 // indirect
	github.com/pion/transport/v3 v3.0.1 // indirect
	github.com/pkg/errors v0.9.1 // indirect
	github.com/prometheus/client_golang v1.20.5 // indirect
	github.com/prometheus/client_model v0.6.1 // indirect
	github.com/prometheus/common v0.60.1 // indirect
	github.com/prometheus/procfs v0.15.1 // indirect
	github.com/rivo/uniseg v0.2.0 // indirect
	github.com/rogpeppe/go-internal v1.13.1 // indirect
	github.com/shirou/gopsutil v3.21.4-0.20210419000835-c7a38de76ee5+incompatible // indirect
	github.com/syndtr/goleveldb v1.0.1-0.20210819022825-2ae1ddf74ef7 // indirect
	github.com/tetratelabs/wabin v0.0.0-20230304001439-f6f874872834 // indirect
	github.com/tklauser/go-sysconf v0.3.14 // indirect
	github.com/tklauser/numcpus v0.9.0 // indirect
	github.com/valyala/fastrand v1.1.0 // indirect
	go.uber.org/multierr v1.11.0 // indirect
	go.uber.org/zap v1.27.0 // indirect
	golang.org/x/exp v0.0.0-20250408133849-7e4ce0ab07d0 // indirect
	golang.org/x/net v0.38.0 // indirect
	golang.org/x/sync v0.14.0 // indirect
	golang.org/x/sys v0.33.0 // indirect
	golang.org/x/text v0.25.0 // indirect
	google.golang.org/protobuf v1.35.2 // indirect
	gopkg.in/natefinch/lumberjack.v2 v2.2.1 // indirect
	gopkg.in/yaml.v2 v2.4.0 // indirect
	rsc.io/tmplfunc v0.0.3 // indirect
)

replace github.com/zen-eth/shisui => /repo

replace github.com/protolambda/zrnt v0.34.1 => github.com/optimism-java/zrnt v0.32.4-0.20250528142456-bc543d07ddb2

replace github.com/ethereum/go-ethereum => github.com/optimism-java/shisui v1.14.6-0.20250516133529-e5d979e5825f
