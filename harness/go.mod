module verifharness

go 1.24.2

require (
	github.com/cockroachdb/pebble v1.1.5
	github.com/holiman/uint256 v1.3.2
	github.com/protolambda/bls12-381-util v0.1.0
	github.com/protolambda/zrnt v0.34.1
	github.com/zen-eth/shisui v0.0.0
	pgregory.net/rapid v1.3.0
)

require (
	github.com/DataDog/zstd v1.5.6 // indirect
	github.com/beorn7/perks v1.0.1 // indirect
	github.com/cespare/xxhash/v2 v2.3.0 // indirect
	github.com/cockroachdb/errors v1.11.3 // indirect
	github.com/cockroachdb/fifo v0.0.0-20240816210425-c5d0cb0b6fc0 // indirect
	github.com/cockroachdb/logtags v0.0.0-20230118201751-21c54148d20b // indirect
	github.com/cockroachdb/redact v1.1.5 // indirect
	github.com/cockroachdb/tokenbucket v0.0.0-20230807174530-cc333fc44b06 // indirect
	github.com/ethereum/go-ethereum v1.15.8 // indirect
	github.com/getsentry/sentry-go v0.29.1 // indirect
	github.com/gogo/protobuf v1.3.2 // indirect
	github.com/golang/snappy v1.0.0 // indirect
	github.com/kilic/bls12-381 v0.1.0 // indirect
	github.com/klauspost/cpuid/v2 v2.2.9 // indirect
	github.com/kr/pretty v0.3.1 // indirect
	github.com/kr/text v0.2.0 // indirect
	github.com/minio/sha256-simd v1.0.1 // indirect
	github.com/munnerz/goautoneg v0.0.0-20191010083416-a7dc8b61c822 // indirect
	github.com/pkg/errors v0.9.1 // indirect
	github.com/prometheus/client_golang v1.20.5 // indirect
	github.com/prometheus/client_model v0.6.1 // indirect
	github.com/prometheus/common v0.60.1 // indirect
	github.com/prometheus/procfs v0.15.1 // indirect
	github.com/protolambda/ztyp v0.2.2 // indirect
	github.com/rogpeppe/go-internal v1.13.1 // indirect
	github.com/syndtr/goleveldb v1.0.1-0.20210819022825-2ae1ddf74ef7 // indirect
	golang.org/x/crypto v0.36.0 // indirect
	golang.org/x/exp v0.0.0-20250408133849-7e4ce0ab07d0 // indirect
	golang.org/x/sys v0.33.0 // indirect
	golang.org/x/text v0.25.0 // indirect
	google.golang.org/protobuf v1.35.2 // indirect
	gopkg.in/yaml.v3 v3.0.1 // indirect
)

replace github.com/zen-eth/shisui => /repo

replace github.com/protolambda/zrnt v0.34.1 => github.com/optimism-java/zrnt v0.32.4-0.20250528142456-bc543d07ddb2

replace github.com/ethereum/go-ethereum => github.com/optimism-java/shisui v1.14.6-0.20250516133529-e5d979e5825f
