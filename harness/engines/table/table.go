// Package table drives the real portalwire routing table (C07, C18) through the verif export and records
// one event per operation with the buckets that changed, for the Trace_Table judge.
package table

import (
	"flag"
	"fmt"
	"math/rand"
	"net"
	"net/netip"
	"runtime/debug"
	"sync"
	"sync/atomic"
	"time"

	"github.com/ethereum/go-ethereum/common/mclock"
	"github.com/ethereum/go-ethereum/p2p/enode"
	"github.com/ethereum/go-ethereum/p2p/enr"
	"github.com/ethereum/go-ethereum/p2p/netutil"
	"github.com/zen-eth/shisui/portalwire"

	"verifharness/common"
	"verifharness/tracelog"
)

func init() { common.Register("table", Main) }

// ---- node pool --------------------------------------------------------------------------------------

type peer struct {
	idx int // small integer identity used in traces (0 = the local node)
	id  enode.ID
	ld  int // log distance to the local node
}

type world struct {
	self   *enode.Node
	peers  []*peer
	byID   map[enode.ID]*peer
	ips    []netip.Addr
	ipIdx  map[netip.Addr]int
	netIdx map[string]int
}

func mkNode(id enode.ID, ip netip.Addr, port int, seq uint64) *enode.Node {
	var r enr.Record
	r.Set(enr.IP(net.IP(ip.AsSlice())))
	r.Set(enr.UDP(port))
	r.SetSeq(seq)
	return enode.SignNull(&r, id)
}

// idAt returns an id whose log distance to self is exactly ld (1..256), varied by salt.
func idAt(rng *rand.Rand, self enode.ID, ld int) enode.ID {
	var d enode.ID
	rng.Read(d[:])
	// clear bits above position ld-1, set bit ld-1
	top := 256 - ld // number of leading zero bits
	for i := 0; i < top/8; i++ {
		d[i] = 0
	}
	if top < 256 {
		b := top / 8
		d[b] &= 0xff >> uint(top%8)
		d[b] |= 0x80 >> uint(top%8)
	}
	var id enode.ID
	for i := range id {
		id[i] = self[i] ^ d[i]
	}
	return id
}

func mkWorld(rng *rand.Rand) *world {
	w := &world{byID: map[enode.ID]*peer{}, ipIdx: map[netip.Addr]int{}, netIdx: map[string]int{}}
	var selfID enode.ID
	rng.Read(selfID[:])
	w.self = mkNode(selfID, netip.MustParseAddr("127.0.0.1"), 30303, 1)
	// addresses: four public /24s (few hosts each), LAN, and a handful of scattered public ones
	for _, pfx := range []string{"23.1.1.", "23.1.2.", "45.2.3.", "99.0.0."} {
		for h := 1; h <= 6; h++ {
			w.ips = append(w.ips, netip.MustParseAddr(fmt.Sprintf("%s%d", pfx, h)))
		}
	}
	for h := 1; h <= 12; h++ {
		w.ips = append(w.ips, netip.MustParseAddr(fmt.Sprintf("10.0.%d.%d", h%3, h)))
	}
	for h := 1; h <= 16; h++ {
		w.ips = append(w.ips, netip.MustParseAddr(fmt.Sprintf("%d.%d.7.9", 60+h, h)))
	}
	for i, ip := range w.ips {
		w.ipIdx[ip] = i
	}
	// ids: one crowded distance class, a medium one, and the far end including the bucket-0 boundary
	plan := []struct{ ld, n int }{{256, 30}, {255, 8}, {250, 4}, {245, 3}, {241, 2}, {240, 2}, {239, 2}, {200, 1}, {17, 1}, {1, 1}}
	w.peers = append(w.peers, &peer{0, selfID, 0})
	w.byID[selfID] = w.peers[0]
	for _, p := range plan {
		for i := 0; i < p.n; i++ {
			id := idAt(rng, selfID, p.ld)
			if _, dup := w.byID[id]; dup {
				continue
			}
			pe := &peer{len(w.peers), id, enode.LogDist(selfID, id)}
			w.peers = append(w.peers, pe)
			w.byID[id] = pe
		}
	}
	return w
}

func (w *world) netOf(ip netip.Addr) int {
	if netutil.AddrIsLAN(ip) {
		return -1
	}
	b := ip.As4()
	k := fmt.Sprintf("%d.%d.%d", b[0], b[1], b[2])
	if _, ok := w.netIdx[k]; !ok {
		w.netIdx[k] = len(w.netIdx)
	}
	return w.netIdx[k]
}

type jnode struct {
	ID   int    `json:"id"`
	LD   int    `json:"ld"`
	Net  int    `json:"net"`
	IP   int    `json:"ip"`
	Port int    `json:"port"`
	Seq  int    `json:"seq"`
	Chk  int    `json:"chk"`
	Live bool   `json:"live"`
	List string `json:"list"`
}
type jbucket struct {
	B int     `json:"b"`
	E []jnode `json:"e"`
	R []jnode `json:"r"`
}

func (w *world) conv(n portalwire.VerifNode) jnode {
	idx, ld := -1, -1
	if p, ok := w.byID[n.ID]; ok {
		idx = p.idx
	}
	ld = enode.LogDist(w.self.ID(), n.ID)
	ipi, ok := w.ipIdx[n.IP]
	if !ok {
		ipi = -1
	}
	return jnode{idx, ld, w.netOf(n.IP), ipi, n.UDP, int(n.Seq), int(n.Checks), n.Live, n.List}
}

func (w *world) snapshot(vt *portalwire.VerifTable) []jbucket {
	s := vt.Snapshot()
	out := make([]jbucket, len(s))
	for i, b := range s {
		out[i] = jbucket{B: i, E: []jnode{}, R: []jnode{}}
		for _, n := range b.Entries {
			out[i].E = append(out[i].E, w.conv(n))
		}
		for _, n := range b.Replacements {
			out[i].R = append(out[i].R, w.conv(n))
		}
	}
	return out
}

func sameBucket(a, b jbucket) bool {
	if len(a.E) != len(b.E) || len(a.R) != len(b.R) {
		return false
	}
	for i := range a.E {
		if a.E[i] != b.E[i] {
			return false
		}
	}
	for i := range a.R {
		if a.R[i] != b.R[i] {
			return false
		}
	}
	return true
}

func diff(prev, cur []jbucket) []jbucket {
	ch := []jbucket{}
	for i := range cur {
		if prev == nil || !sameBucket(prev[i], cur[i]) {
			ch = append(ch, cur[i])
		}
	}
	return ch
}

// ---- transport --------------------------------------------------------------------------------------

type fakeNet struct {
	self   *enode.Node
	mu     sync.Mutex
	answer func(n *enode.Node) (alive bool, rec *enode.Node)
	pings  atomic.Int64
}

func (t *fakeNet) Self() *enode.Node { return t.self }
func (t *fakeNet) RequestENR(n *enode.Node) (*enode.Node, error) {
	t.mu.Lock()
	f := t.answer
	t.mu.Unlock()
	if f != nil {
		if _, rec := f(n); rec != nil {
			return rec, nil
		}
	}
	return n, nil
}
func (t *fakeNet) Ping(n *enode.Node) (uint64, error) {
	t.pings.Add(1)
	t.mu.Lock()
	f := t.answer
	t.mu.Unlock()
	if f == nil {
		return n.Seq(), nil
	}
	alive, rec := f(n)
	if !alive {
		return 0, fmt.Errorf("timeout")
	}
	if rec != nil {
		return rec.Seq(), nil
	}
	return n.Seq(), nil
}
func (t *fakeNet) LookupRandom() []*enode.Node { return nil }
func (t *fakeNet) LookupSelf() []*enode.Node   { return nil }

// ---- serial driver ----------------------------------------------------------------------------------

func (w *world) randRecord(rng *rand.Rand, p *peer, crowd bool) *enode.Node {
	var ip netip.Addr
	switch k := rng.Intn(10); {
	case crowd && k < 6:
		ip = w.ips[rng.Intn(12)] // the first two public /24s: collisions against the per-bucket and table limits
	case k < 8:
		ip = w.ips[rng.Intn(24)]
	case k < 9:
		ip = w.ips[24+rng.Intn(12)] // LAN
	default:
		ip = w.ips[36+rng.Intn(16)]
	}
	port := []int{30303, 30304, 9000}[rng.Intn(3)]
	return mkNode(p.id, ip, port, uint64(1+rng.Intn(3)))
}

func runSerial(w *tracelog.Writer, seed int64, traces, ops int) error {
	for t := 0; t < traces; t++ {
		rng := common.Rng(seed*999331 + int64(t))
		wd := mkWorld(rng)
		fn := &fakeNet{self: wd.self}
		vt, err := portalwire.VerifNewTable(fn, &mclock.Simulated{}, false, nil)
		if err != nil {
			return err
		}
		w.Emit(map[string]any{"ev": "init", "t": t, "npeers": len(wd.peers)})
		var prev []jbucket
		crowd := t%2 == 0
		lanOnly := t%5 == 3 // no IP limits in the way: buckets fill completely, replacement lists overflow
		// bursts: the same entry is reported fruitless / alive several times in a row (failure counter, credit)
		burstKind, burstLeft := "", 0
		var burstID enode.ID
		// aftermath of a burst of fruitless queries: the same record is seen again, then answers a query
		var burstRec *enode.Node
		aftermath := 0
		// a liveness check that outlives its entry (seed C18-3): begun on an entry, the entry then leaves (deletion or five
		// fruitless queries) and, mostly, the id comes back as a new entry before the result is delivered
		var stale *portalwire.VerifRevalHandle
		var staleRec *enode.Node
		stalePhase := 0 // 1 remove, 2 re-add, 3 deliver
		// a laid-out prefix in every eighth trace: one public /24 (O) is brought to the table-wide limit of 10 (two nodes in each of
		// five buckets), an endpoint change of one of them into another crowded /24 is refused by the bucket limit, and an eleventh
		// node of O is offered to a sixth bucket - the refused change must leave both the bucket's and the table's counts as they
		// were (sweep mutant G1/65-C07 restored the bucket's only)
		var script []*enode.Node
		var scriptInbound []bool
		if t%8 == 5 && !lanOnly {
			used := map[int]bool{}
			pick := func(ld int) *peer {
				for _, p := range wd.peers[1:] {
					if p.ld == ld && !used[p.idx] {
						used[p.idx] = true
						return p
					}
				}
				return nil
			}
			h := 0
			var first *peer
			for _, ld := range []int{256, 255, 250, 241, 240} {
				for k := 0; k < 2; k++ {
					if p := pick(ld); p != nil {
						if first == nil {
							first = p
						}
						script = append(script, mkNode(p.id, wd.ips[h%6], 30303+h, 1))
						scriptInbound = append(scriptInbound, false)
						h++
					}
				}
			}
			for k := 0; k < 2; k++ {
				if p := pick(256); p != nil {
					script = append(script, mkNode(p.id, wd.ips[6+k], 30303, 1))
					scriptInbound = append(scriptInbound, false)
				}
			}
			if first != nil {
				script = append(script, mkNode(first.id, wd.ips[8], 30303, 2)) // the refused endpoint change
				scriptInbound = append(scriptInbound, true)
			}
			if p := pick(245); p != nil { // a sixth bucket, with no node of O yet
				script = append(script, mkNode(p.id, wd.ips[3], 31000, 1)) // the eleventh of O
				scriptInbound = append(scriptInbound, false)
			}
		}
		// a second laid-out prefix (traces 6, 14, ...): one bucket is filled (16 entries, one of them of the public /24 O) and its
		// replacement list too (10: the oldest of O - O is now at the bucket's limit of two -, two of another /24 P - also at the
		// limit -, seven scattered ones); a third node of P is refused by the limit while the list is full; then two more nodes of
		// O are offered: both must be refused (seed C07-3 released the oldest replacement's address before the refusal and kept
		// the node, so the bucket ended with three nodes of O; it showed only in some concurrent schedules before)
		if t%8 == 6 && !lanOnly {
			used := map[int]bool{}
			add := func(ip int) {
				for _, p := range wd.peers[1:] {
					if p.ld == 256 && !used[p.idx] {
						used[p.idx] = true
						script = append(script, mkNode(p.id, wd.ips[ip], 30400+len(script), 1))
						scriptInbound = append(scriptInbound, false)
						return
					}
				}
			}
			for ip := 24; ip <= 35; ip++ { // twelve LAN entries
				add(ip)
			}
			for _, ip := range []int{36, 37, 38, 1} { // three scattered public ones and the entry of O
				add(ip)
			}
			for _, ip := range []int{0, 6, 7, 39, 40, 41, 42, 43, 44, 45} { // the replacement list, oldest first
				add(ip)
			}
			for _, ip := range []int{8, 2, 3} { // refused for P; then two more of O
				add(ip)
			}
		}
		for step := 0; step < ops; step++ {
			op := map[string]any{"name": "", "id": -1, "inbound": false, "seq": 0, "net": -2, "ip": -1, "port": 0, "alive": false, "credit": 0,
				"ok": false, "fails": 0, "nb": 0, "found": []int{}, "newrec": false, "isentry": false, "ld": 0}
			panicked := ""
			func() {
				defer func() {
					if r := recover(); r != nil {
						panicked = fmt.Sprintf("%v\n%s", r, debug.Stack())
					}
				}()
				pe := wd.peers[rng.Intn(len(wd.peers))] // includes the local node itself (index 0)
				if rng.Intn(4) > 0 {
					pe = wd.peers[1+rng.Intn(30)] // the crowded class
				}
				rec := wd.randRecord(rng, pe, crowd)
				if lanOnly {
					rec = mkNode(pe.id, wd.ips[24+rng.Intn(12)], rec.UDP(), rec.Seq())
				}
				setRec := func(r *enode.Node) {
					op["id"], op["seq"], op["net"], op["ip"], op["port"], op["ld"] = wd.byID[r.ID()].idx, int(r.Seq()), wd.netOf(r.IPAddr()), wd.ipIdx[r.IPAddr()], r.UDP(), wd.byID[r.ID()].ld
				}
				snap := vt.Snapshot()
				bucketOf := func(id enode.ID) portalwire.VerifBucket {
					ld := enode.LogDist(wd.self.ID(), id)
					bi := 0
					if ld > 240 {
						bi = ld - 240
					}
					return snap[bi]
				}
				isEntry := func(id enode.ID) bool {
					for _, e := range bucketOf(id).Entries {
						if e.ID == id {
							return true
						}
					}
					return false
				}
				k := rng.Intn(100)
				if step < len(script) {
					rec = script[step]
					k = 0
					if scriptInbound[step] {
						k = 40
					}
				} else if stalePhase == 0 && burstLeft == 0 && aftermath == 0 && rng.Intn(30) == 0 {
					var ents []portalwire.VerifNode
					for _, b := range snap {
						ents = append(ents, b.Entries...)
					}
					if len(ents) > 0 {
						e := ents[rng.Intn(len(ents))]
						staleRec = mkNode(e.ID, e.IP, e.UDP, e.Seq)
						if stale = vt.RevalBegin(e.ID); stale != nil {
							stalePhase = 1
						}
					}
				}
				if stalePhase > 0 {
					k = 200 + stalePhase
				}
				if aftermath > 0 && burstLeft == 0 && burstRec != nil && stalePhase == 0 {
					if aftermath == 2 {
						k = 0 // addFound
					} else {
						k = 90 // track
					}
					rec = burstRec
				}
				if burstLeft > 0 {
					burstLeft--
					if burstKind == "track" {
						k = 90
					} else {
						k = 70
					}
				} else if step >= len(script) && rng.Intn(25) == 0 {
					var ents []portalwire.VerifNode
					for _, b := range snap {
						ents = append(ents, b.Entries...)
					}
					if len(ents) > 0 {
						burstID = ents[rng.Intn(len(ents))].ID
						burstKind, burstLeft = []string{"track", "reval"}[rng.Intn(2)], 4+rng.Intn(4)
					}
				}
				inBurst := burstLeft > 0
				switch {
				case k == 201: // the checked entry leaves
					op["name"] = "delete"
					setRec(staleRec)
					vt.Delete(staleRec)
					stalePhase = 2
					if rng.Intn(5) == 0 {
						stalePhase = 3 // not re-added: the plain "removed while being checked" case
					}
				case k == 202: // the id comes back (same or new endpoint) as a new entry
					r := staleRec
					if rng.Intn(2) == 0 {
						r = wd.randRecord(rng, wd.byID[staleRec.ID()], crowd)
						if lanOnly {
							r = mkNode(staleRec.ID(), wd.ips[24+rng.Intn(12)], r.UDP(), r.Seq())
						}
					}
					inb := rng.Intn(2) == 0
					op["name"], op["inbound"] = map[bool]string{true: "addInbound", false: "addFound"}[inb], inb
					setRec(r)
					op["nb"], op["isentry"] = len(bucketOf(r.ID()).Entries), isEntry(r.ID())
					vt.Add(r, inb, !inb && rng.Intn(2) == 0)
					stalePhase = 3
				case k == 203: // the old check's result arrives
					alive := rng.Intn(3) == 0
					op["name"], op["alive"], op["id"], op["ld"] = "revalstale", alive, wd.byID[staleRec.ID()].idx, wd.byID[staleRec.ID()].ld
					op["isentry"] = isEntry(staleRec.ID())
					op["credit"] = int(vt.RevalFinish(stale, alive, nil))
					stale, stalePhase = nil, 0
				case k < 38:
					op["name"] = "addFound"
					setRec(rec)
					op["nb"], op["isentry"] = len(bucketOf(rec.ID()).Entries), isEntry(rec.ID())
					vt.Add(rec, false, rng.Intn(3) == 0)
				case k < 56:
					op["name"], op["inbound"] = "addInbound", true
					setRec(rec)
					op["nb"], op["isentry"] = len(bucketOf(rec.ID()).Entries), isEntry(rec.ID())
					vt.Add(rec, true, false)
				case k < 62:
					op["name"] = "delete"
					setRec(rec)
					vt.Delete(rec)
				case k < 86:
					// liveness result for a current entry (mostly) or for something that is not in the table
					var target enode.ID = pe.id
					var ents []portalwire.VerifNode
					for _, b := range snap {
						ents = append(ents, b.Entries...)
					}
					if len(ents) > 0 && rng.Intn(8) > 0 {
						target = ents[rng.Intn(len(ents))].ID
					}
					alive := rng.Intn(5) < 3
					if inBurst && burstKind == "reval" {
						target, alive = burstID, burstLeft > 1 || rng.Intn(2) == 0 // several live answers, then maybe a dead one
					}
					var nr *enode.Node
					if alive && rng.Intn(3) == 0 {
						nr = wd.randRecord(rng, wd.byID[target], crowd)
						if lanOnly {
							nr = mkNode(target, wd.ips[24+rng.Intn(12)], nr.UDP(), nr.Seq())
						}
						op["newrec"] = true
						setRec(nr)
					}
					op["name"], op["alive"], op["id"], op["ld"] = "reval", alive, wd.byID[target].idx, wd.byID[target].ld
					found, credit := vt.RevalResult(target, alive, nr)
					op["credit"], op["isentry"] = int(credit), found
				case k < 97:
					ok := rng.Intn(3) == 0
					op["name"], op["ok"] = "track", ok
					// the node whose query is reported: an entry mostly; its stored record (the lookup hands the table's own record back)
					var target *enode.Node = rec
					var ents []portalwire.VerifNode
					for _, b := range snap {
						ents = append(ents, b.Entries...)
					}
					if len(ents) > 0 && rng.Intn(6) > 0 {
						e := ents[rng.Intn(len(ents))]
						target = mkNode(e.ID, e.IP, e.UDP, e.Seq)
					}
					if inBurst && burstKind == "track" {
						for _, e := range ents {
							if e.ID == burstID {
								target = mkNode(e.ID, e.IP, e.UDP, e.Seq)
								ok = rng.Intn(12) == 0
								op["ok"] = ok
								burstRec = target
								if burstLeft == 1 && rng.Intn(2) == 0 {
									aftermath = 3
								}
							}
						}
					} else if aftermath == 1 && burstRec != nil {
						target, ok = burstRec, true
						op["ok"] = ok
					}
					setRec(target)
					op["nb"], op["isentry"] = len(bucketOf(target.ID()).Entries), isEntry(target.ID())
					var found []*enode.Node
					fl := []int{}
					if ok {
						for i := 0; i < 1+rng.Intn(3); i++ {
							fp := wd.peers[rng.Intn(len(wd.peers))]
							fr := wd.randRecord(rng, fp, crowd)
							if lanOnly {
								fr = mkNode(fp.id, wd.ips[24+rng.Intn(12)], fr.UDP(), fr.Seq())
							}
							found = append(found, fr)
							fl = append(fl, fp.idx)
						}
					}
					op["found"] = fl
					vt.Track(target, ok, found)
					op["fails"] = vt.FindFails(target)
				default:
					op["name"] = "seeds"
					vt.LoadSeeds()
				}
			}()
			if aftermath > 0 && burstLeft == 0 {
				aftermath--
			}
			cur := wd.snapshot(vt)
			w.Emit(map[string]any{"ev": "op", "t": t, "op": op, "ch": diff(prev, cur), "panic": panicked})
			prev = cur
			if panicked != "" {
				break
			}
		}
		vt.Close(false)
	}
	return nil
}

// ---- concurrent driver: the table's own loop is running ----------------------------------------------

func runConc(w *tracelog.Writer, seed int64, traces, ops int) error {
	for t := 0; t < traces; t++ {
		rng := common.Rng(seed*7727 + int64(t))
		wd := mkWorld(rng)
		fn := &fakeNet{self: wd.self}
		clock := &mclock.Simulated{}
		var amu sync.Mutex
		arng := common.Rng(seed + int64(t))
		fn.answer = func(n *enode.Node) (bool, *enode.Node) {
			amu.Lock()
			defer amu.Unlock()
			switch arng.Intn(4) {
			case 0:
				return false, nil
			case 1:
				p := wd.byID[n.ID()]
				if p == nil {
					return true, nil
				}
				return true, mkNode(n.ID(), wd.ips[arng.Intn(len(wd.ips))], n.UDP(), n.Seq()+1)
			}
			return true, nil
		}
		vt, err := portalwire.VerifNewTable(fn, clock, true, nil)
		if err != nil {
			return err
		}
		w.Emit(map[string]any{"ev": "init", "t": t, "npeers": len(wd.peers)})
		var wg, clockWg sync.WaitGroup
		stop := make(chan struct{})
		// clock driver: revalidation timers fire
		clockWg.Add(1)
		go func() {
			defer clockWg.Done()
			for {
				select {
				case <-stop:
					return
				default:
					clock.Run(500 * time.Millisecond)
					time.Sleep(200 * time.Microsecond)
				}
			}
		}()
		var snapMu sync.Mutex
		var prev []jbucket
		emit := func() {
			snapMu.Lock()
			defer snapMu.Unlock()
			cur := wd.snapshot(vt)
			w.Emit(map[string]any{"ev": "snap", "t": t, "ch": diff(prev, cur), "panic": ""})
			prev = cur
		}
		workers := 8
		for g := 0; g < workers; g++ {
			wg.Add(1)
			grng := common.Rng(seed*31 + int64(t)*17 + int64(g))
			go func() {
				defer wg.Done()
				for i := 0; i < ops/workers; i++ {
					pe := wd.peers[1+grng.Intn(len(wd.peers)-1)]
					if grng.Intn(3) > 0 {
						pe = wd.peers[1+grng.Intn(30)]
					}
					rec := wd.randRecord(grng, pe, t%2 == 0)
					switch k := grng.Intn(100); {
					case k < 40:
						vt.AddFoundLoop(rec)
					case k < 60:
						vt.AddInboundLoop(rec)
					case k < 70:
						vt.Delete(rec)
					case k < 95:
						var found []*enode.Node
						ok := grng.Intn(2) == 0
						if ok {
							fp := wd.peers[1+grng.Intn(len(wd.peers)-1)]
							found = append(found, wd.randRecord(grng, fp, true))
						}
						vt.TrackLoop(rec, ok, found)
					default:
						vt.RefreshLoop()
					}
					if i%4 == 0 {
						emit()
					}
				}
			}()
		}
		wgDone := make(chan struct{})
		go func() { wg.Wait(); close(wgDone) }()
		deadline := time.After(90 * time.Second)
	wait:
		for {
			select {
			case <-deadline:
				return fmt.Errorf("concurrent table run did not finish (blocked goroutines)")
			case <-time.After(2 * time.Millisecond):
				emit()
			case <-wgDone:
				break wait
			}
		}
		// keep the clock going until the revalidation process has had its say
		for i := 0; i < 200 && fn.pings.Load() < 60; i++ {
			time.Sleep(time.Millisecond)
			if i%10 == 0 {
				emit()
			}
		}
		close(stop)
		clockWg.Wait()
		emit()
		w.Emit(map[string]any{"ev": "concdone", "t": t, "pings": int(fn.pings.Load())})
		vt.Close(true)
	}
	return nil
}

// ---- forced interleaving: an entry is deleted (API DeleteEnr path) while its liveness answer waits for the table lock ----

func runRace(w *tracelog.Writer, seed int64, traces int) error {
	for t := 0; t < traces; t++ {
		rng := common.Rng(seed*4241 + int64(t))
		wd := mkWorld(rng)
		fn := &fakeNet{self: wd.self}
		clock := &mclock.Simulated{}
		variant := t % 3 // 0: live answer, 1: dead answer with credit left, 2: dead answer, no credit
		var phase atomic.Int32
		fn.answer = func(n *enode.Node) (bool, *enode.Node) {
			if variant == 0 || phase.Load() == 0 {
				return true, nil
			}
			return false, nil
		}
		vt, err := portalwire.VerifNewTable(fn, clock, true, nil)
		if err != nil {
			return err
		}
		w.Emit(map[string]any{"ev": "init", "t": t, "npeers": len(wd.peers)})
		recs := map[enode.ID]*enode.Node{}
		for i := 1; i <= 6; i++ {
			r := mkNode(wd.peers[i].id, wd.ips[24+i], 30303, 1)
			recs[r.ID()] = r
			vt.AddFoundLoop(r)
		}
		var prev []jbucket
		emit := func() {
			cur := wd.snapshot(vt)
			w.Emit(map[string]any{"ev": "snap", "t": t, "ch": diff(prev, cur), "panic": ""})
			prev = cur
		}
		emit()
		tick := func(n int) {
			for i := 0; i < n; i++ {
				clock.Run(500 * time.Millisecond)
				time.Sleep(300 * time.Microsecond)
			}
		}
		if variant == 1 { // build up credit first
			tick(300)
		}
		phase.Store(1)
		var fired atomic.Int32
		portalwire.VerifTableGate = func(point string, id enode.ID) {
			if point == "handleResponse.beforeLock" && fired.CompareAndSwap(0, 1) {
				w.Emit(map[string]any{"ev": "race", "t": t, "point": point, "id": wd.byID[id].idx, "variant": variant})
				vt.Delete(recs[id]) // what portal_*DeleteEnr does, on another goroutine, at this very moment
			}
		}
		tick(200)
		portalwire.VerifTableGate = nil
		emit()
		w.Emit(map[string]any{"ev": "racedone", "t": t, "fired": int(fired.Load())})
		vt.Close(true)
	}
	return nil
}

// ---- entry point ------------------------------------------------------------------------------------

func Main(args []string) error {
	fs := flag.NewFlagSet("table", flag.ContinueOnError)
	mode := fs.String("mode", "serial", "serial|conc")
	out := fs.String("out", "trace.ndjson", "trace output")
	seed := fs.Int64("seed", 1, "seed")
	traces := fs.Int("traces", 10, "number of traces")
	ops := fs.Int("ops", 300, "operations per trace")
	if err := fs.Parse(args); err != nil {
		return err
	}
	w, err := tracelog.Create(*out)
	if err != nil {
		return err
	}
	defer w.Close()
	switch *mode {
	case "serial":
		return runSerial(w, *seed, *traces, *ops)
	case "conc":
		return runConc(w, *seed, *traces, *ops)
	case "race":
		return runRace(w, *seed, *traces)
	}
	return fmt.Errorf("unknown mode %q", *mode)
}
