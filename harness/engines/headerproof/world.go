package headerproof

import (
	"bytes"
	"crypto/sha256"
	"encoding/binary"
	"fmt"
	"math/big"
	"math/rand"
	"sort"

	gcommon "github.com/ethereum/go-ethereum/common"
	"github.com/ethereum/go-ethereum/core/types"
	"github.com/ethereum/go-ethereum/rlp"
	"github.com/holiman/uint256"
	"github.com/protolambda/zrnt/eth2/beacon/capella"
	zcommon "github.com/protolambda/zrnt/eth2/beacon/common"
	"github.com/protolambda/zrnt/eth2/beacon/phase0"
	"github.com/protolambda/zrnt/eth2/configs"
	"github.com/protolambda/ztyp/tree"
	"github.com/zen-eth/shisui/history"
)

// The harness's own statement of the mainnet parameters (HeaderProof.tla instantiated in Trace_HeaderProof.tla uses the
// same values). They are deliberately NOT imported from the code under test.
const (
	E           = 8192
	MergeNum    = 15_537_394
	ShanghaiNum = 17_034_870
	CancunNum   = 19_426_587
	DenebTop    = 22_500_000 // synthetic "last" block number of the open-ended post-Deneb era
	NEpReal     = 1897
	NRootsReal  = 758
	CapStart    = NRootsReal * E
	GBell       = 3228
	GDeneb      = 6444
)

type h32 = [32]byte

func hash2(a, b h32) h32 {
	var buf [64]byte
	copy(buf[:32], a[:])
	copy(buf[32:], b[:])
	return sha256.Sum256(buf[:])
}

// mtree is the harness-side SSZ Merkle prover over a power-of-two vector of chunks.
type mtree struct{ levels [][]h32 }

func newTree(leaves []h32) *mtree {
	t := &mtree{levels: [][]h32{leaves}}
	cur := leaves
	for len(cur) > 1 {
		nxt := make([]h32, len(cur)/2)
		for i := range nxt {
			nxt[i] = hash2(cur[2*i], cur[2*i+1])
		}
		t.levels = append(t.levels, nxt)
		cur = nxt
	}
	return t
}
func (t *mtree) root() h32 { return t.levels[len(t.levels)-1][0] }
func (t *mtree) branch(i int) []h32 { // siblings bottom-up
	var br []h32
	for l := 0; l < len(t.levels)-1; l++ {
		br = append(br, t.levels[l][i^1])
		i >>= 1
	}
	return br
}

// fold is the reference verifier loop (generalized index g, as many levels as the branch has).
func fold(leaf h32, br []h32, g uint64) h32 {
	for i := range br {
		if (g>>uint(i))&1 == 1 {
			leaf = hash2(br[i], leaf)
		} else {
			leaf = hash2(leaf, br[i])
		}
	}
	return leaf
}

func log2(n uint64) int {
	d := 0
	for n > 1 {
		n >>= 1
		d++
	}
	return d
}

func eraOf(num uint64) string {
	switch {
	case num < MergeNum:
		return "pre"
	case num < ShanghaiNum:
		return "roots"
	case num < CancunNum:
		return "capella"
	}
	return "deneb"
}
func fmtOf(era string) string {
	switch era {
	case "pre":
		return "pre"
	case "roots", "capella":
		return "bell"
	}
	return "deneb"
}
func execG(f string) uint64 {
	if f == "deneb" {
		return GDeneb
	}
	return GBell
}

// ---- small world (printed by TLC) -------------------------------------------------------------------------------------

type smallHdr struct {
	ID  string `json:"id"`
	Num int    `json:"num"`
	Fmt string `json:"fmt"`
	Idx int    `json:"idx"`
}
type smallWorld struct {
	E, MergeNum, ShanghaiNum, CancunNum, CapStart, NEp, NRoots, NSumm int
	Hdrs                                                              []smallHdr `json:"hdrs"`
}
type smallCase struct {
	Ci    int    `json:"ci"` // index assigned by the check (stable across replays)
	H     string `json:"h"`
	G     string `json:"g"`
	Slot  int    `json:"slot"`
	Mut   string `json:"mut"`
	Mi    int    `json:"mi"`
	Fix   string `json:"fix"`
	Short bool   `json:"short"`
	Exp   string `json:"exp"`
	S1    string `json:"s1"`
	Model string `json:"model"`
}

// ---- concrete world ------------------------------------------------------------------------------------------------------

type hdr struct {
	id   string
	num  uint64
	fmt  string // pre | bell | deneb | none: how / whether the hash is committed in the trusted accumulators
	idx  uint64 // record position (= num) or slot
	h    *types.Header
	rlp  []byte
	hash h32
	// committed post-merge headers: the rest of their beacon block
	exec []h32
	bbr  h32
	dups []uint64 // further slots carrying the same beacon block root (the following slot was missed)
}

type proof struct {
	bb   []h32
	bbr  h32
	ex   []h32
	slot uint64
	post bool
}

func (p proof) clone() proof {
	q := p
	q.bb = append([]h32(nil), p.bb...)
	q.ex = append([]h32(nil), p.ex...)
	return q
}

func (p proof) bytes() []byte {
	var b []byte
	for _, c := range p.bb {
		b = append(b, c[:]...)
	}
	if p.post {
		b = append(b, p.bbr[:]...)
		for _, c := range p.ex {
			b = append(b, c[:]...)
		}
		var s [8]byte
		binary.LittleEndian.PutUint64(s[:], p.slot)
		b = append(b, s[:]...)
	}
	return b
}

type batch struct {
	leaves    []h32
	t         *mtree
	stateRoot h32 // hash tree root of the state_roots vector (roots era only)
}

type world struct {
	rng       *rand.Rand
	nSumm     int
	hdrs      map[string]*hdr
	order     []string
	preRepo   [][]byte // epoch roots built by the repository's Accumulator (random for epochs not built)
	preOwn    [][]byte // the same with the built epochs merkleized by the harness
	epochs    map[uint64]*epochData
	roots     []zcommon.Root
	summ      []capella.HistoricalSummary
	rootsB    map[uint64]*batch
	summB     map[uint64]*batch
	selfcheck []string // disagreements between independent computations (reported, never silently ignored)
	honest    map[string]proof
	honestDup map[string]map[uint64]proof // honest proofs at the duplicate positions
	honestAlt map[string]proof            // pre-merge: the proof built by the repository's BuildProof
}

type epochData struct {
	idx     uint64
	records [][]byte
	t       *mtree // over 16384 chunks
	chunks  []h32
	hdrAt   map[uint64]*hdr
}

func rnd32(r *rand.Rand) h32 { var x h32; r.Read(x[:]); return x }

func mkHeader(r *rand.Rand, num uint64, tag string) *types.Header {
	h := &types.Header{
		ParentHash:  gcommon.Hash(rnd32(r)),
		UncleHash:   types.EmptyUncleHash,
		Coinbase:    gcommon.BytesToAddress(func() []byte { x := rnd32(r); return x[:20] }()),
		Root:        gcommon.Hash(rnd32(r)),
		TxHash:      types.EmptyTxsHash,
		ReceiptHash: types.EmptyReceiptsHash,
		Difficulty:  big.NewInt(0),
		Number:      new(big.Int).SetUint64(num),
		GasLimit:    30_000_000,
		GasUsed:     uint64(r.Intn(30_000_000)),
		Time:        1_438_269_988 + num*13,
		Extra:       []byte(tag),
		MixDigest:   gcommon.Hash(rnd32(r)),
	}
	if num < MergeNum {
		h.Difficulty = big.NewInt(int64(1 + r.Intn(1<<40)))
		binary.BigEndian.PutUint64(h.Nonce[:], r.Uint64())
	}
	if num >= 12_965_000 {
		h.BaseFee = big.NewInt(int64(7 + r.Intn(1<<30)))
	}
	if num >= ShanghaiNum {
		w := gcommon.Hash(rnd32(r))
		h.WithdrawalsHash = &w
	}
	if num >= CancunNum {
		z, x := uint64(r.Intn(786432)), uint64(r.Intn(1<<20))
		h.BlobGasUsed, h.ExcessBlobGas = &z, &x
		p := gcommon.Hash(rnd32(r))
		h.ParentBeaconRoot = &p
	}
	return h
}

func (w *world) addHdr(id string, num uint64, f string, idx uint64) *hdr {
	h := mkHeader(w.rng, num, id)
	enc, err := rlp.EncodeToBytes(h)
	if err != nil {
		panic(err)
	}
	x := &hdr{id: id, num: num, fmt: f, idx: idx, h: h, rlp: enc, hash: h32(h.Hash())}
	w.hdrs[id] = x
	w.order = append(w.order, id)
	return x
}

// embedding of the small world into the real one -----------------------------------------------------------------------

type embed struct {
	sw   *smallWorld
	rec  []uint64 // small in-epoch index -> real in-epoch index
	num  map[int]uint64
	huge []uint64
}

func sortedDistinct(r *rand.Rand, n int, lo, hi uint64) []uint64 { // n distinct values in [lo,hi), ascending
	seen := map[uint64]bool{}
	var out []uint64
	for len(out) < n {
		v := lo + uint64(r.Int63n(int64(hi-lo)))
		if !seen[v] {
			seen[v] = true
			out = append(out, v)
		}
	}
	sort.Slice(out, func(i, j int) bool { return out[i] < out[j] })
	return out
}

func embedIdx(b, nSmall, nReal int) uint64 {
	switch {
	case b == 0:
		return 0
	case b >= nSmall-1:
		return uint64(nReal - 1 + (b - (nSmall - 1))) // last -> last, past -> past
	}
	return uint64(b * (nReal - 1) / (nSmall - 1))
}

func newEmbed(r *rand.Rand, sw *smallWorld, nSumm int) *embed {
	e := &embed{sw: sw, num: map[int]uint64{}}
	lastRec := uint64((MergeNum - 1) % E) // the last pre-merge epoch is partial: interior records must exist in it
	mids := sortedDistinct(r, sw.E-2, 1, lastRec)
	e.rec = append([]uint64{0}, mids...)
	e.rec = append(e.rec, E-1)
	// block numbers: era boundaries map to era boundaries, interior numbers to increasing interior numbers
	maxNum := 0
	for _, h := range sw.Hdrs {
		if h.Num > maxNum {
			maxNum = h.Num
		}
	}
	for n := 0; n < sw.MergeNum; n++ {
		if n == sw.MergeNum-1 {
			e.num[n] = MergeNum - 1
		} else {
			e.num[n] = embedIdx(n/sw.E, sw.NEp, NEpReal)*E + e.rec[n%sw.E]
		}
	}
	era := func(lo, hi int, rlo, rhi uint64) {
		if hi-lo > 2 {
			in := sortedDistinct(r, hi-lo-2, rlo+1, rhi-1)
			for i, v := range in {
				e.num[lo+1+i] = v
			}
		}
		e.num[lo], e.num[hi-1] = rlo, rhi-1
	}
	era(sw.MergeNum, sw.ShanghaiNum, MergeNum, ShanghaiNum)
	era(sw.ShanghaiNum, sw.CancunNum, ShanghaiNum, CancunNum)
	era(sw.CancunNum, maxNum+1, CancunNum, DenebTop)
	e.huge = []uint64{1 << 40, 1 << 63, ^uint64(0), 1 << 31, 1<<32 + 5, ^uint64(0) - E, 1<<51 + 3}
	return e
}

// slot maps a small-world slot to a real one; nSumm is the real number of summaries.
func (e *embed) slot(s int, nSumm int, variant int) uint64 {
	sw := e.sw
	if s < 0 {
		return e.huge[variant%len(e.huge)]
	}
	if s < sw.CapStart {
		return embedIdx(s/sw.E, sw.NRoots, NRootsReal)*E + e.rec[s%sw.E]
	}
	return CapStart + embedIdx((s-sw.CapStart)/sw.E, sw.NSumm, nSumm)*E + e.rec[s%sw.E]
}

// ---- building -------------------------------------------------------------------------------------------------------------

func newWorld(seed int64, sw *smallWorld, extra int) (*world, *embed) {
	r := rand.New(rand.NewSource(seed))
	w := &world{rng: r, hdrs: map[string]*hdr{}, epochs: map[uint64]*epochData{}, rootsB: map[uint64]*batch{}, summB: map[uint64]*batch{},
		honest: map[string]proof{}, honestAlt: map[string]proof{}, honestDup: map[string]map[uint64]proof{}}
	w.nSumm = 3 + r.Intn(6)
	em := newEmbed(r, sw, w.nSumm)
	for _, sh := range sw.Hdrs {
		num := em.num[sh.Num]
		switch sh.Fmt {
		case "pre":
			w.addHdr(sh.ID, num, "pre", num)
		case "none":
			w.addHdr(sh.ID, num, "none", 0)
		default:
			w.addHdr(sh.ID, num, sh.Fmt, em.slot(sh.Idx, w.nSumm, 0))
		}
	}
	{ // epoch 1 is always built, contiguous with epoch 0
		n := uint64(E + r.Intn(E))
		w.addHdr("e1", n, "pre", n)
	}
	// extra committed headers at seeded random interior positions (random driver)
	usedPre, usedSlot := map[uint64]bool{}, map[uint64]bool{}
	for _, h := range w.hdrs {
		if h.fmt == "pre" {
			usedPre[h.idx] = true
		} else if h.fmt != "none" {
			usedSlot[h.idx] = true
		}
	}
	if extra > 0 {
		ep := uint64(1 + r.Intn(NEpReal-2))
		rb := uint64(1 + r.Intn(NRootsReal-2))
		sb := uint64(0)
		if w.nSumm > 2 {
			sb = uint64(1 + r.Intn(w.nSumm-2))
		}
		for i := 0; i < extra; i++ {
			var n uint64
			switch i % 3 {
			case 0:
				n = ep*E + uint64(r.Intn(E))
			case 1:
				n = uint64(r.Intn(E))
			default:
				n = (NEpReal-1)*E + uint64(r.Intn(MergeNum-(NEpReal-1)*E))
			}
			if !usedPre[n] {
				usedPre[n] = true
				w.addHdr(fmt.Sprintf("ep%d", i), n, "pre", n)
			}
			s := []uint64{rb, 0, NRootsReal - 1}[i%3]*E + uint64(r.Intn(E))
			if !usedSlot[s] {
				usedSlot[s] = true
				x := w.addHdr(fmt.Sprintf("er%d", i), MergeNum+uint64(r.Intn(ShanghaiNum-MergeNum)), "bell", s)
				if i%2 == 0 && s%E != E-1 && !usedSlot[s+1] { // the next slot was missed: block_roots repeats the root
					usedSlot[s+1] = true
					x.dups = append(x.dups, s+1)
				}
			}
			s = CapStart + []uint64{sb, 0, uint64(w.nSumm - 1)}[i%3]*E + uint64(r.Intn(E))
			if !usedSlot[s] {
				usedSlot[s] = true
				var x *hdr
				if i%2 == 0 {
					x = w.addHdr(fmt.Sprintf("ec%d", i), ShanghaiNum+uint64(r.Intn(CancunNum-ShanghaiNum)), "bell", s)
				} else {
					x = w.addHdr(fmt.Sprintf("ed%d", i), CancunNum+uint64(r.Intn(DenebTop-CancunNum)), "deneb", s)
				}
				if i%4 < 2 && s%E != E-1 && !usedSlot[s+1] {
					usedSlot[s+1] = true
					x.dups = append(x.dups, s+1)
				}
			}
		}
	}
	w.buildPre()
	w.buildPost()
	return w, em
}

func (w *world) buildPre() {
	w.preRepo = make([][]byte, NEpReal)
	w.preOwn = make([][]byte, NEpReal)
	for i := range w.preRepo {
		x := rnd32(w.rng)
		w.preRepo[i] = append([]byte(nil), x[:]...)
		w.preOwn[i] = append([]byte(nil), x[:]...)
	}
	for _, id := range w.order {
		h := w.hdrs[id]
		if h.fmt != "pre" {
			continue
		}
		ei := h.idx / E
		ed := w.epochs[ei]
		if ed == nil {
			ed = &epochData{idx: ei, hdrAt: map[uint64]*hdr{}}
			w.epochs[ei] = ed
		}
		ed.hdrAt[h.idx] = h
	}
	var eis []uint64
	for ei := range w.epochs {
		eis = append(eis, ei)
	}
	sort.Slice(eis, func(i, j int) bool { return eis[i] < eis[j] })
	var sizeChunk h32
	binary.LittleEndian.PutUint64(sizeChunk[:], E)
	// consecutive epochs go through ONE history.Accumulator (its roll-over path in Update), the last one is closed by Finish
	repoRoot := map[uint64][]byte{}
	for i := 0; i < len(eis); {
		j := i
		for j+1 < len(eis) && eis[j+1] == eis[j]+1 {
			j++
		}
		acc := history.NewAccumulator() // the repository's own accumulator builds the trusted epoch roots
		for _, ei := range eis[i : j+1] {
			ed := w.epochs[ei]
			td := uint256.NewInt(0) // (history.Accumulator restarts the total difficulty in every epoch; mirrored, irrelevant to the proof)
			ed.chunks = make([]h32, 2*E)
			hi := uint64((ei + 1) * E)
			if hi > MergeNum {
				hi = MergeNum
			}
			for n := ei * E; n < hi; n++ {
				var hh *types.Header
				if x := ed.hdrAt[n]; x != nil {
					hh = x.h
				} else {
					hh = &types.Header{Number: new(big.Int).SetUint64(n), Difficulty: big.NewInt(int64(1 + w.rng.Intn(1<<30))), Extra: []byte("filler")}
				}
				if err := acc.Update(*hh); err != nil {
					panic(err)
				}
				td = new(uint256.Int).Add(td, uint256.MustFromBig(hh.Difficulty))
				tdb, _ := td.MarshalSSZ()
				hash := hh.Hash()
				rec := append(append([]byte(nil), hash[:]...), tdb...)
				ed.records = append(ed.records, rec)
				k := n - ei*E
				copy(ed.chunks[2*k][:], rec[:32])
				copy(ed.chunks[2*k+1][:], rec[32:])
			}
			for len(ed.records) < E {
				ed.records = append(ed.records, make([]byte, 64))
			}
		}
		m, err := acc.Finish()
		if err != nil {
			panic(err)
		}
		if len(m.HistoricalEpochs) != j+1-i {
			w.selfcheck = append(w.selfcheck, fmt.Sprintf("history.Accumulator produced %d roots for %d epochs", len(m.HistoricalEpochs), j+1-i))
		}
		for k, ei := range eis[i : j+1] {
			if k < len(m.HistoricalEpochs) {
				repoRoot[ei] = m.HistoricalEpochs[k]
			}
		}
		i = j + 1
	}
	for _, ei := range eis {
		ed := w.epochs[ei]
		chunks := ed.chunks
		if r, ok := repoRoot[ei]; ok {
			w.preRepo[ei] = r
		}
		ed.t = newTree(chunks)
		own := hash2(ed.t.root(), sizeChunk)
		w.preOwn[ei] = own[:]
		if !bytes.Equal(w.preRepo[ei], own[:]) {
			w.selfcheck = append(w.selfcheck, fmt.Sprintf("epoch %d: root built by history.Accumulator differs from the harness merkleization", ei))
		}
		// honest proofs: harness prover, and the repository's BuildProof
		for n, x := range ed.hdrAt {
			i := int(n - ei*E)
			br := append(ed.t.branch(2*i), sizeChunk)
			w.honest[x.id] = proof{bb: br}
			ap, err := history.BuildProof(*x.h, history.EpochAccumulator{HeaderRecords: ed.records})
			if err != nil {
				w.selfcheck = append(w.selfcheck, fmt.Sprintf("BuildProof(%d): %v", n, err))
				continue
			}
			var alt proof
			for _, c := range ap {
				var k h32
				copy(k[:], c)
				alt.bb = append(alt.bb, k)
			}
			w.honestAlt[x.id] = alt
			if !bytes.Equal(alt.bytes(), w.honest[x.id].bytes()) {
				w.selfcheck = append(w.selfcheck, fmt.Sprintf("BuildProof(%d) differs from the harness prover", n))
			}
		}
	}
}

func (w *world) buildPost() {
	hFn := tree.GetHashFn()
	w.roots = make([]zcommon.Root, NRootsReal)
	for i := range w.roots {
		w.roots[i] = zcommon.Root(rnd32(w.rng))
	}
	w.summ = make([]capella.HistoricalSummary, w.nSumm)
	for i := range w.summ {
		w.summ[i] = capella.HistoricalSummary{BlockSummaryRoot: zcommon.Root(rnd32(w.rng)), StateSummaryRoot: zcommon.Root(rnd32(w.rng))}
	}
	getBatch := func(slot uint64) *batch {
		m, bi := w.rootsB, slot/E
		if slot >= CapStart {
			m, bi = w.summB, (slot-CapStart)/E
		}
		b := m[bi]
		if b == nil {
			b = &batch{leaves: make([]h32, E)}
			for i := range b.leaves {
				b.leaves[i] = rnd32(w.rng)
			}
			m[bi] = b
		}
		return b
	}
	for _, id := range w.order {
		h := w.hdrs[id]
		if h.fmt != "bell" && h.fmt != "deneb" {
			continue
		}
		h.exec = make([]h32, log2(execG(h.fmt)))
		for i := range h.exec {
			h.exec[i] = rnd32(w.rng)
		}
		h.bbr = fold(h.hash, h.exec, execG(h.fmt)) // the beacon block is opaque apart from the path to block_hash
		getBatch(h.idx).leaves[h.idx%E] = h.bbr
		for _, s := range h.dups {
			getBatch(s).leaves[s%E] = h.bbr
		}
	}
	toRoots := func(x []h32) phase0.HistoricalBatchRoots {
		out := make(phase0.HistoricalBatchRoots, len(x))
		for i := range x {
			out[i] = zcommon.Root(x[i])
		}
		return out
	}
	for bi, b := range w.rootsB {
		b.t = newTree(b.leaves)
		st := make([]h32, E)
		for i := range st {
			st[i] = rnd32(w.rng)
		}
		b.stateRoot = newTree(st).root()
		// the trusted entry is computed by zrnt's SSZ (hash_tree_root(HistoricalBatch)), the branch by the harness prover
		hb := phase0.HistoricalBatch{BlockRoots: toRoots(b.leaves), StateRoots: toRoots(st)}
		w.roots[bi] = hb.HashTreeRoot(configs.Mainnet, hFn)
		if h32(w.roots[bi]) != hash2(b.t.root(), b.stateRoot) {
			w.selfcheck = append(w.selfcheck, fmt.Sprintf("historical batch %d: zrnt hash tree root differs from the harness merkleization", bi))
		}
	}
	for bi, b := range w.summB {
		b.t = newTree(b.leaves)
		w.summ[bi].BlockSummaryRoot = toRoots(b.leaves).HashTreeRoot(configs.Mainnet, hFn)
		if h32(w.summ[bi].BlockSummaryRoot) != b.t.root() {
			w.selfcheck = append(w.selfcheck, fmt.Sprintf("summary %d: zrnt hash tree root differs from the harness merkleization", bi))
		}
	}
	for _, id := range w.order {
		h := w.hdrs[id]
		if h.fmt != "bell" && h.fmt != "deneb" {
			continue
		}
		at := func(s uint64) proof {
			b := getBatch(s)
			br := b.t.branch(int(s % E))
			if s < CapStart {
				br = append(br, b.stateRoot)
			}
			return proof{bb: br, bbr: h.bbr, ex: append([]h32(nil), h.exec...), slot: s, post: true}
		}
		w.honest[h.id] = at(h.idx)
		for _, s := range h.dups {
			if w.honestDup[h.id] == nil {
				w.honestDup[h.id] = map[uint64]proof{}
			}
			w.honestDup[h.id][s] = at(s)
		}
	}
}

func (w *world) committed() []*hdr {
	var out []*hdr
	for _, id := range w.order {
		if w.hdrs[id].fmt != "none" {
			out = append(out, w.hdrs[id])
		}
	}
	return out
}
