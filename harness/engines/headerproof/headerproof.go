// Package headerproof drives the real validation.HeaderValidator (C03): TLC-generated abstract cases embedded into
// real 8192-record epochs / historical batches, seeded random cases, and the repository's mainnet vectors. Every
// evaluation runs under recover() and is logged with the abstract attributes the Trace_HeaderProof judge needs.
package headerproof

import (
	"bytes"
	"encoding/binary"
	"encoding/hex"
	"encoding/json"
	"errors"
	"flag"
	"fmt"
	"hash/fnv"
	"math/rand"
	"os"
	"path/filepath"
	"regexp"
	"runtime/debug"
	"sort"
	"strconv"
	"strings"

	"github.com/ethereum/go-ethereum/core/types"
	"github.com/protolambda/zrnt/eth2/beacon/capella"
	"github.com/protolambda/zrnt/eth2/configs"
	"github.com/protolambda/ztyp/codec"
	shistory "github.com/zen-eth/shisui/types/history"
	"github.com/zen-eth/shisui/validation"

	"verifharness/common"
	"verifharness/tracelog"
)

func init() { common.Register("headerproof", Main) }

// ---- calling the real code ----------------------------------------------------------------------------------------------

var reFrame = regexp.MustCompile(`(?m)^github\.com/zen-eth/shisui/([^\s(]+(?:\(\*?[A-Za-z0-9_]+\))?[^\s(]*)\(`)

func guarded(f func() error) (out, msg, site string) {
	defer func() {
		if r := recover(); r != nil {
			out, msg = "panic", fmt.Sprint(r)
			st := string(debug.Stack())
			if i := strings.Index(st, "panic("); i >= 0 {
				st = st[i:]
			}
			if m := reFrame.FindStringSubmatch(st); m != nil {
				site = m[1]
			} else {
				site = "?"
			}
		}
	}()
	if err := f(); err != nil {
		return "error", err.Error(), ""
	}
	return "ok", "", ""
}

type stubOracle struct{ summ []capella.HistoricalSummary }

func (o *stubOracle) GetHistoricalSummaries(epoch uint64) (capella.HistoricalSummaries, error) {
	return capella.HistoricalSummaries(o.summ), nil
}
func (o *stubOracle) GetBlockHeaderByHash(hash []byte) (*types.Header, error) {
	return nil, errors.New("not available")
}
func (o *stubOracle) GetFinalizedStateRoot() ([]byte, error) { return nil, errors.New("not available") }

type vset struct {
	v    map[string]validation.HeaderValidator
	lens map[string]map[string]int
}

func newVset(w *world) *vset {
	s := &vset{v: map[string]validation.HeaderValidator{}, lens: map[string]map[string]int{}}
	mk := func(name string, pre [][]byte, cache []capella.HistoricalSummary, o validation.Oracle) {
		s.v[name] = validation.VerifNewHeaderValidator(pre, w.roots, cache, o)
		s.lens[name] = map[string]int{"pre": len(pre), "roots": len(w.roots), "summ": len(w.summ)}
	}
	mk("full", w.preRepo, w.summ, nil)
	mk("short", w.preRepo[:NEpReal-1], w.summ, nil)                          // epoch accumulator one entry short
	mk("own", w.preOwn, w.summ, nil)                                         // epoch roots merkleized by the harness
	mk("oracle", w.preRepo, nil, &stubOracle{summ: w.summ})                  // summaries fetched through the oracle
	mk("grow", w.preRepo, w.summ[:len(w.summ)-1], &stubOracle{summ: w.summ}) // cached prefix, oracle knows one more
	return s
}

// ---- events ----------------------------------------------------------------------------------------------------------------

type driver struct {
	tw    *tracelog.Writer
	only  map[string]bool
	seed  int64
	nEval int
}

func slotAttr(pb []byte) (int64, string) {
	if len(pb) >= 8 && len(pb)%32 == 8 {
		s := binary.LittleEndian.Uint64(pb[len(pb)-8:])
		if s >= 1<<31 {
			return -1, strconv.FormatUint(s, 10)
		}
		return int64(s), ""
	}
	return 0, ""
}

func stage1(h *hdr, pb []byte) string {
	era := eraOf(h.num)
	if era == "pre" {
		return "na"
	}
	bd := map[string]int{"roots": 14, "capella": 13, "deneb": 13}[era]
	ed := log2(execG(fmtOf(era)))
	if len(pb) != (bd+1+ed)*32+8 {
		return "na"
	}
	var bbr h32
	copy(bbr[:], pb[bd*32:])
	ex := make([]h32, ed)
	for i := range ex {
		copy(ex[i][:], pb[(bd+1+i)*32:])
	}
	if fold(h.hash, ex, execG(fmtOf(era))) != bbr {
		return "broken"
	}
	if h.fmt == fmtOf(era) && bbr == h.bbr {
		same := true
		for i := range ex {
			same = same && ex[i] == h.exec[i]
		}
		if same {
			return "honest"
		}
	}
	return "forged"
}

type evalIn struct {
	cid, src, vname, mutd, exp string
	h, g                       *hdr
	pb, honest                 []byte
	abs                        any
	w                          *world
}

func (d *driver) want(cid string) bool { return len(d.only) == 0 || d.only[cid] }

func (d *driver) eval(vs *vset, in evalIn) {
	if !d.want(in.cid) {
		return
	}
	v := vs.v[in.vname]
	out, msg, site := guarded(func() error {
		return v.ValidateHeaderWithProof(&shistory.BlockHeaderWithProof{Header: in.h.rlp, Proof: in.pb})
	})
	slot, hugev := slotAttr(in.pb)
	// a block root repeated at the following (missed) slot is committed at both positions
	cidx, gidx, intact := in.h.idx, in.g.idx, bytes.Equal(in.pb, in.honest)
	for _, s := range in.h.dups {
		if slot >= 0 && uint64(slot) == s && eraOf(in.h.num) != "pre" {
			cidx = s
		}
	}
	if !intact && in.w != nil {
		for s, p := range in.w.honestDup[in.g.id] {
			if bytes.Equal(in.pb, p.bytes()) {
				gidx, intact = s, true
			}
		}
	}
	ev := map[string]any{
		"ev": "case", "cid": in.cid, "src": in.src, "entry": "public", "val": in.vname,
		"num": in.h.num, "slot": slot, "hugev": hugev, "lens": vs.lens[in.vname],
		"commit": map[string]any{"fmt": in.h.fmt, "idx": cidx},
		"gen":    map[string]any{"fmt": in.g.fmt, "idx": gidx, "same": in.h.id == in.g.id},
		"intact": intact, "s1": stage1(in.h, in.pb), "plen": len(in.pb),
		"mutd": in.mutd, "exp": in.exp, "abs": in.abs, "out": out, "msg": msg, "site": site,
		"era": eraOf(in.h.num), "h": in.h.id, "g": in.g.id, "inh": inDigest(in.h.hash[:], in.pb, in.vname),
	}
	d.tw.Emit(ev)
	d.nEval++
}

func inDigest(parts ...any) string { // digest of the concrete input (distinct-case accounting)
	f := fnv.New64a()
	for _, p := range parts {
		switch x := p.(type) {
		case []byte:
			f.Write(x)
		case string:
			f.Write([]byte(x))
		}
		f.Write([]byte{0xff})
	}
	return strconv.FormatUint(f.Sum64(), 16)
}

func caseRng(seed int64, cid string) *rand.Rand {
	f := fnv.New64a()
	f.Write([]byte(cid))
	return rand.New(rand.NewSource(seed ^ int64(f.Sum64())))
}

func corrupt(r *rand.Rand, c h32, style int) h32 {
	switch style % 3 {
	case 0:
		return rnd32(r)
	case 1:
		c[r.Intn(32)] ^= 1 << uint(r.Intn(8))
		return c
	}
	var z h32
	if c == z {
		z[31] = 1
	}
	return z
}

// ---- TLC cases -----------------------------------------------------------------------------------------------------------

func (d *driver) runSmall(rep int, w *world, em *embed, vs *vset, small map[string]smallHdr, ci int, c smallCase) {
	h, g := w.hdrs[c.H], w.hdrs[c.G]
	base := w.honest[g.id]
	honest := base.bytes()
	type variant struct {
		sub string
		p   proof
		vn  string
		hb  []byte
	}
	var vars []variant
	r := caseRng(d.seed, fmt.Sprintf("tlc:%d:%d", rep, ci))
	style := ci + rep
	switch c.Mut {
	case "none":
		vars = append(vars, variant{sub: "0", p: base.clone()})
	case "sibB":
		sg := small[g.id]
		ds := log2(uint64(em.sw.E))
		if sg.Fmt == "pre" {
			ds += 2
		} else if sg.Idx < em.sw.CapStart {
			ds++
		}
		D := len(base.bb)
		for k := 0; k < D; k++ {
			if 1+k*ds/D == c.Mi { // every concrete sibling of the abstract sibling class
				p := base.clone()
				p.bb[k] = corrupt(r, p.bb[k], style+k)
				vars = append(vars, variant{sub: fmt.Sprintf("b%d", k), p: p})
			}
		}
	case "sibE":
		p := base.clone()
		p.ex[c.Mi-1] = corrupt(r, p.ex[c.Mi-1], style)
		vars = append(vars, variant{sub: fmt.Sprintf("e%d", c.Mi-1), p: p})
	case "bbr":
		p := base.clone()
		p.bbr = corrupt(r, p.bbr, style)
		vars = append(vars, variant{sub: "r", p: p})
	case "lenShort":
		p := base.clone()
		p.bb = p.bb[:len(p.bb)-1]
		vars = append(vars, variant{sub: "s", p: p})
	case "lenLong":
		p := base.clone()
		p.bb = append(p.bb, rnd32(r))
		vars = append(vars, variant{sub: "l", p: p})
	default:
		panic("unknown mutation " + c.Mut)
	}
	era := eraOf(h.num)
	vn := "full"
	if c.Short {
		vn = "short"
	} else if era == "capella" || era == "deneb" {
		vn = []string{"full", "oracle", "grow"}[(ci+rep)%3]
	}
	for i := range vars {
		p := &vars[i].p
		if p.post {
			p.slot = em.slot(c.Slot, w.nSumm, ci+rep+i)
			if c.Fix == "recompute" { // self-consistent stage 1 for the presented header
				p.bbr = fold(h.hash, p.ex, execG(fmtOf(era)))
			}
		}
		vars[i].vn, vars[i].hb = vn, honest
	}
	if c.Exp == "ok" && c.Mut == "none" && c.Fix == "none" {
		// completeness also for the independently built accumulator / proof
		vars = append(vars, variant{sub: "own", p: base.clone(), vn: "own", hb: honest})
		if alt, ok := w.honestAlt[g.id]; ok {
			vars = append(vars, variant{sub: "repoproof", p: alt.clone(), vn: "full", hb: alt.bytes()})
		}
	}
	for _, v := range vars {
		d.eval(vs, evalIn{cid: fmt.Sprintf("tlc:%d:%d:%s", rep, ci, v.sub), src: "tlc", vname: v.vn, mutd: c.Mut + ":" + v.sub + "/" + c.Fix,
			exp: c.Exp, h: h, g: g, pb: v.p.bytes(), honest: v.hb, abs: c})
	}
}

// honestPass presents every committed header with its untouched honest proof to every validator instance: once before the
// generated cases (anything a validator remembers about accepted proofs exists before the forgeries arrive) and once
// after them (nothing a rejected or crashing proof left behind may break an honest one).
func (d *driver) honestPass(tag string, rep int, w *world, vs *vset) {
	var names []string
	for n := range vs.v {
		names = append(names, n)
	}
	sort.Strings(names)
	for _, h := range w.committed() {
		hb := w.honest[h.id].bytes()
		for _, vn := range names {
			d.eval(vs, evalIn{cid: fmt.Sprintf("%s:%d:%s:%s", tag, rep, h.id, vn), src: "hon", vname: vn, mutd: "honest", h: h, g: h, pb: hb, honest: hb, w: w})
		}
		if alt, ok := w.honestAlt[h.id]; ok {
			d.eval(vs, evalIn{cid: fmt.Sprintf("%s:%d:%s:repoproof", tag, rep, h.id), src: "hon", vname: "full", mutd: "honest", h: h, g: h, pb: alt.bytes(), honest: alt.bytes(), w: w})
		}
	}
}

// ---- seeded random cases -------------------------------------------------------------------------------------------------

func (d *driver) runRandom(w *world, vs *vset, n int) {
	com := w.committed()
	var all []*hdr
	for _, id := range w.order {
		all = append(all, w.hdrs[id])
	}
	randSlot := func(r *rand.Rand, cur uint64) uint64 {
		switch r.Intn(12) {
		case 0:
			return cur + 1
		case 1:
			return cur - 1
		case 2:
			return cur + E
		case 3:
			return cur - E
		case 4:
			return uint64(r.Int63n(NRootsReal * E))
		case 5:
			return CapStart + uint64(r.Int63n(int64(w.nSumm)*E))
		case 6:
			return CapStart + uint64(w.nSumm)*E + uint64(r.Intn(3*E)) // just past the summaries
		case 7:
			return NRootsReal*E + uint64(r.Intn(E)) // just past the historical roots
		case 8:
			return r.Uint64()
		case 9:
			return uint64(1) << uint(r.Intn(64))
		case 10:
			return ^uint64(0) - uint64(r.Intn(2*E))
		}
		return com[r.Intn(len(com))].idx // the slot of some other committed block
	}
	for i := 0; i < n; i++ {
		cid := fmt.Sprintf("rnd:%d", i)
		if !d.want(cid) {
			continue
		}
		r := caseRng(d.seed, cid)
		g := com[r.Intn(len(com))]
		h := g
		p := w.honest[g.id].clone()
		honest := p.bytes()
		var pb []byte
		mutd := "honest"
		sc := r.Intn(20)
		switch {
		case sc < 3:
			if len(g.dups) > 0 && r.Intn(2) == 0 { // the same block root at the following, missed slot: honest there too
				if r.Intn(2) == 0 {
					p = w.honestDup[g.id][g.dups[0]].clone()
					mutd = "honest@dup"
				} else {
					p.slot = g.dups[0]
					mutd = "slot->dup"
				}
			}
		case sc < 8: // one bit anywhere in the proof bytes (siblings, beacon block root, slot)
			pb = append([]byte(nil), honest...)
			k := r.Intn(len(pb) * 8)
			pb[k/8] ^= 1 << uint(k%8)
			mutd = fmt.Sprintf("bitflip@%d", k)
		case sc < 11: // one sibling replaced, stage 1 optionally repaired
			if p.post && r.Intn(2) == 0 {
				k := r.Intn(len(p.ex))
				p.ex[k] = corrupt(r, p.ex[k], r.Intn(3))
				mutd = fmt.Sprintf("sibE%d", k)
				if r.Intn(2) == 0 {
					p.bbr = fold(h.hash, p.ex, execG(fmtOf(eraOf(h.num))))
					mutd += "+recompute"
				}
			} else {
				k := r.Intn(len(p.bb))
				p.bb[k] = corrupt(r, p.bb[k], r.Intn(3))
				mutd = fmt.Sprintf("sibB%d", k)
			}
		case sc < 14: // another header (any era, committed or not), stage 1 optionally repaired
			for h == g {
				h = all[r.Intn(len(all))]
			}
			mutd = "otherHeader"
			if p.post && r.Intn(3) > 0 {
				p.bbr = fold(h.hash, p.ex, execG(fmtOf(eraOf(h.num))))
				mutd += "+recompute"
			}
		case sc < 18: // another slot, optionally together with a forged stage 1 for another header of the same era
			if p.post {
				if r.Intn(2) == 0 {
					var same []*hdr
					for _, x := range all {
						if x != g && eraOf(x.num) == eraOf(g.num) {
							same = append(same, x)
						}
					}
					h = same[r.Intn(len(same))]
					p.bbr = fold(h.hash, p.ex, execG(fmtOf(eraOf(h.num))))
					mutd = "otherHeader+recompute+"
				} else {
					mutd = ""
				}
				p.slot = randSlot(r, p.slot)
				mutd += "otherSlot"
			} else {
				for h == g || eraOf(h.num) != "pre" {
					h = all[r.Intn(len(all))]
				}
				mutd = "otherNumber"
			}
		default: // wrong length
			pb = append([]byte(nil), honest...)
			if r.Intn(2) == 0 {
				pb = pb[:r.Intn(len(pb))]
				mutd = "truncated"
			} else {
				ext := make([]byte, 1+r.Intn(64))
				r.Read(ext)
				pb = append(pb, ext...)
				mutd = "extended"
			}
		}
		if pb == nil {
			pb = p.bytes()
		}
		vn := "full"
		if e := eraOf(h.num); e == "capella" || e == "deneb" {
			vn = []string{"full", "oracle", "grow"}[r.Intn(3)]
		} else if e == "pre" && r.Intn(6) == 0 {
			vn = "short"
		}
		d.eval(vs, evalIn{cid: cid, src: "rnd", vname: vn, mutd: mutd, exp: "", h: h, g: g, pb: pb, honest: honest, w: w})
	}
}

// ---- the repository's mainnet vectors ----------------------------------------------------------------------------------

type vec struct {
	name, era string
	num       uint64
	hash      h32
	p         proof
}

var reYaml = regexp.MustCompile(`"?(0x[0-9a-fA-F]*)"?`)

func parseVec(path, era string) (*vec, error) {
	raw, err := os.ReadFile(path)
	if err != nil {
		return nil, err
	}
	v := &vec{name: filepath.Base(path), era: era}
	m := regexp.MustCompile(`-(\d+)\.yaml$`).FindStringSubmatch(path)
	if m == nil {
		return nil, fmt.Errorf("no block number in %s", path)
	}
	v.num, _ = strconv.ParseUint(m[1], 10, 64)
	v.p.post = true
	section := ""
	get := func(s string) (h32, error) {
		mm := reYaml.FindStringSubmatch(s)
		var x h32
		if mm == nil {
			return x, fmt.Errorf("no hex in %q", s)
		}
		b, err := hex.DecodeString(mm[1][2:])
		if err != nil || len(b) != 32 {
			return x, fmt.Errorf("bad chunk %q", s)
		}
		copy(x[:], b)
		return x, nil
	}
	for _, ln := range strings.Split(string(raw), "\n") {
		t := strings.TrimSpace(ln)
		if t == "" || strings.HasPrefix(t, "#") {
			continue
		}
		if strings.HasPrefix(t, "-") {
			x, err := get(t)
			if err != nil {
				return nil, err
			}
			switch section {
			case "execution_block_proof":
				v.p.ex = append(v.p.ex, x)
			case "beacon_block_proof":
				v.p.bb = append(v.p.bb, x)
			default:
				return nil, fmt.Errorf("list item outside a known list in %s", path)
			}
			continue
		}
		kv := strings.SplitN(t, ":", 2)
		if len(kv) != 2 {
			return nil, fmt.Errorf("cannot parse %q in %s", t, path)
		}
		section = strings.TrimSpace(kv[0])
		val := strings.TrimSpace(kv[1])
		switch section {
		case "execution_block_header":
			if v.hash, err = get(val); err != nil {
				return nil, err
			}
		case "beacon_block_root":
			if v.p.bbr, err = get(val); err != nil {
				return nil, err
			}
		case "slot":
			if v.p.slot, err = strconv.ParseUint(val, 10, 64); err != nil {
				return nil, err
			}
		}
	}
	return v, nil
}

// repeatedAt: is the proof's beacon block root, with the very same siblings, also the leaf at slot s2 of the same batch?
// True iff at every level where the two paths differ the running node equals its sibling (both children identical).
func repeatedAt(p proof, s2 uint64) bool {
	if p.slot/E != s2/E {
		return false
	}
	node := p.bbr
	for i := 0; i < 13; i++ {
		b1, b2 := (p.slot>>uint(i))&1, (s2>>uint(i))&1
		if b1 != b2 && node != p.bb[i] {
			return false
		}
		if b1 == 1 {
			node = hash2(p.bb[i], node)
		} else {
			node = hash2(node, p.bb[i])
		}
	}
	return true
}

func toBytes(x []h32) [][]byte {
	out := make([][]byte, len(x))
	for i := range x {
		out[i] = append([]byte(nil), x[i][:]...)
	}
	return out
}

func (d *driver) runVectors(dir string) error {
	raw, err := os.ReadFile(filepath.Join(dir, "beacon_data", "historical_summaries_at_slot_11476992.ssz"))
	if err != nil {
		return err
	}
	summaries := new(capella.HistoricalSummaries)
	if err := summaries.Deserialize(configs.Mainnet, codec.NewDecodingReader(bytes.NewReader(raw), uint64(len(raw)))); err != nil {
		return err
	}
	val := validation.NewHeaderValidatorWithHistorySummaries([]capella.HistoricalSummary(*summaries)) // production constructor, embedded accumulators
	lens := map[string]int{"pre": len(validation.DefaultPreMergeAccumulator().HistoricalEpochs),
		"roots": len(validation.DefaultHistoricalRootsAccumulator().HistoricalRoots), "summ": len(*summaries)}

	if lens["pre"] != NEpReal || lens["roots"] != NRootsReal {
		d.tw.Emit(map[string]any{"ev": "world", "rep": -1, "selfcheck": []string{fmt.Sprintf("embedded mainnet accumulators have %d epoch roots / %d historical roots, expected %d / %d", lens["pre"], lens["roots"], NEpReal, NRootsReal)}})
	}
	// pre-merge vectors: full header + proof through the public entry point
	raw, err = os.ReadFile(filepath.Join(dir, "header_with_proofs.json"))
	if err != nil {
		return err
	}
	var hm map[string]map[string]string
	if err := json.Unmarshal(raw, &hm); err != nil {
		return err
	}
	type pv struct {
		name   string
		num    uint64
		hp     *shistory.BlockHeaderWithProof
		chunks int
	}
	var pvs []pv
	var names []string
	for k := range hm {
		names = append(names, k)
	}
	sort.Strings(names)
	for _, k := range names {
		b, err := hex.DecodeString(strings.TrimPrefix(hm[k]["value"], "0x"))
		if err != nil {
			return err
		}
		hp, err := shistory.DecodeBlockHeaderWithProof(b)
		if err != nil {
			return err
		}
		hd, err := shistory.DecodeBlockHeader(hp.Header)
		if err != nil {
			return err
		}
		pvs = append(pvs, pv{k, hd.Number.Uint64(), hp, len(hp.Proof) / 32})
	}
	emit := func(cid, entry string, num uint64, slot int64, commit, gen map[string]any, intact bool, s1, mutd, out, msg, site string) {
		d.tw.Emit(map[string]any{"ev": "case", "cid": cid, "src": "vec", "entry": entry, "val": "mainnet", "num": num, "slot": slot, "hugev": "",
			"lens": lens, "commit": commit, "gen": gen, "intact": intact, "s1": s1, "mutd": mutd, "exp": "", "abs": nil,
			"out": out, "msg": msg, "site": site, "era": eraOf(num), "h": "", "g": "", "plen": 0, "inh": inDigest(cid)})
		d.nEval++
	}
	for i, v := range pvs {
		type pm struct {
			mutd  string
			proof []byte
			owner int
		}
		muts := []pm{{"none", v.hp.Proof, i}}
		r := caseRng(d.seed, "vec:pre:"+v.name)
		for k := 0; k < v.chunks; k++ {
			pb := append([]byte(nil), v.hp.Proof...)
			var c h32
			copy(c[:], pb[k*32:])
			c = corrupt(r, c, k)
			copy(pb[k*32:], c[:])
			muts = append(muts, pm{fmt.Sprintf("sibB%d", k), pb, i})
		}
		muts = append(muts, pm{"otherProof", pvs[(i+1)%len(pvs)].hp.Proof, (i + 1) % len(pvs)})
		muts = append(muts, pm{"lenShort", v.hp.Proof[:len(v.hp.Proof)-32], i})
		muts = append(muts, pm{"lenLong", append(append([]byte(nil), v.hp.Proof...), make([]byte, 32)...), i})
		for _, m := range muts {
			cid := fmt.Sprintf("vec:pre:%s:%s", v.name, m.mutd)
			if !d.want(cid) {
				continue
			}
			out, msg, site := guarded(func() error {
				return val.ValidateHeaderWithProof(&shistory.BlockHeaderWithProof{Header: v.hp.Header, Proof: m.proof})
			})
			own := pvs[m.owner]
			emit(cid, "public", v.num, 0, map[string]any{"fmt": "pre", "idx": v.num},
				map[string]any{"fmt": "pre", "idx": own.num, "same": m.owner == i}, bytes.Equal(m.proof, own.hp.Proof), "na", m.mutd, out, msg, site)
		}
	}

	// post-merge vectors carry the header hash only: the three stage functions are reached through the verif export
	var vecs []*vec
	for _, de := range []struct{ dir, era string }{{"block_proofs_bellatrix", "roots"}, {"block_proofs_capella", "capella"}, {"block_proofs_deneb", "deneb"}} {
		files, _ := filepath.Glob(filepath.Join(dir, de.dir, "*.yaml"))
		sort.Strings(files)
		for _, f := range files {
			v, err := parseVec(f, de.era)
			if err != nil {
				return err
			}
			if eraOf(v.num) != de.era {
				return fmt.Errorf("%s: block number %d is not in era %s", f, v.num, de.era)
			}
			vecs = append(vecs, v)
		}
	}
	call := func(era string, hash h32, p proof) (string, string, string) {
		return guarded(func() error {
			switch era {
			case "roots":
				return val.VerifValidateMergeToCapella(hash[:], &shistory.BlockProofHistoricalRoots{BeaconBlockProof: toBytes(p.bb), BeaconBlockRoot: p.bbr[:], ExecutionBlockProof: toBytes(p.ex), Slot: p.slot})
			case "capella":
				return val.VerifValidateCapellaToDeneb(hash[:], &shistory.BlockProofHistoricalSummariesCapella{BeaconBlockProof: toBytes(p.bb), BeaconBlockRoot: p.bbr[:], ExecutionBlockProof: toBytes(p.ex), Slot: p.slot})
			}
			return val.VerifValidatePostDeneb(hash[:], &shistory.BlockProofHistoricalSummariesDeneb{BeaconBlockProof: toBytes(p.bb), BeaconBlockRoot: p.bbr[:], ExecutionBlockProof: toBytes(p.ex), Slot: p.slot})
		})
	}
	for i, v := range vecs {
		r := caseRng(d.seed, "vec:post:"+v.name)
		type pm struct {
			mutd string
			p    proof
			hash h32
			same bool
		}
		G := execG(fmtOf(v.era))
		muts := []pm{{"none", v.p.clone(), v.hash, true}}
		for k := range v.p.bb {
			p := v.p.clone()
			p.bb[k] = corrupt(r, p.bb[k], k)
			muts = append(muts, pm{fmt.Sprintf("sibB%d", k), p, v.hash, true})
		}
		for k := range v.p.ex {
			p := v.p.clone()
			p.ex[k] = corrupt(r, p.ex[k], k)
			muts = append(muts, pm{fmt.Sprintf("sibE%d", k), p, v.hash, true})
			q := p.clone()
			q.bbr = fold(v.hash, q.ex, G)
			muts = append(muts, pm{fmt.Sprintf("sibE%d+recompute", k), q, v.hash, true})
		}
		{
			p := v.p.clone()
			p.bbr = corrupt(r, p.bbr, i)
			muts = append(muts, pm{"bbr", p, v.hash, true})
		}
		var other *vec
		for j := 1; j < len(vecs); j++ {
			if o := vecs[(i+j)%len(vecs)]; o.era == v.era {
				other = o
				break
			}
		}
		nAcc := uint64(lens["roots"])
		base := uint64(0)
		if v.era != "roots" {
			nAcc, base = uint64(lens["summ"]), CapStart
		}
		slots := []uint64{v.p.slot + 1, v.p.slot - 1, v.p.slot + E, v.p.slot - E, base + nAcc*E, base + nAcc*E + E - 1, base + (nAcc-1)*E + v.p.slot%E,
			1 << 40, 1 << 63, ^uint64(0), base - 1, 0}
		for _, s := range slots {
			p := v.p.clone()
			p.slot = s
			muts = append(muts, pm{fmt.Sprintf("slot=%d", s), p, v.hash, true})
			if other != nil {
				q := p.clone()
				q.bbr = fold(other.hash, q.ex, G)
				muts = append(muts, pm{fmt.Sprintf("otherHeader+recompute+slot=%d", s), q, other.hash, false})
			}
		}
		if other != nil {
			muts = append(muts, pm{"otherHeader", v.p.clone(), other.hash, false})
			q := v.p.clone()
			q.bbr = fold(other.hash, q.ex, G)
			muts = append(muts, pm{"otherHeader+recompute", q, other.hash, false})
		}
		for _, m := range muts {
			cid := fmt.Sprintf("vec:%s:%s:%s", v.era, v.name, m.mutd)
			if !d.want(cid) {
				continue
			}
			out, msg, site := call(v.era, m.hash, m.p)
			slot := int64(-1)
			if m.p.slot < 1<<31 {
				slot = int64(m.p.slot)
			}
			commit := map[string]any{"fmt": fmtOf(v.era), "idx": v.p.slot}
			gidx, intact := v.p.slot, bytes.Equal(m.p.bytes(), v.p.bytes())
			if !m.same {
				commit = map[string]any{"fmt": fmtOf(other.era), "idx": other.p.slot}
			} else if q := v.p.clone(); !intact && repeatedAt(v.p, m.p.slot) {
				// mainnet has missed slots: block_roots repeats the previous root there, so this block root is ALSO the leaf at
				// the presented slot and the unchanged siblings are its honest branch (seen from the vector's own data)
				q.slot = m.p.slot
				commit["idx"], gidx, intact = m.p.slot, m.p.slot, bytes.Equal(m.p.bytes(), q.bytes())
			}
			s1 := "broken"
			if fold(m.hash, m.p.ex, G) == m.p.bbr {
				s1 = "forged"
				if m.same && m.p.bbr == v.p.bbr {
					s1 = "honest"
				}
			}
			emit(cid, "inner", v.num, slot, commit, map[string]any{"fmt": fmtOf(v.era), "idx": gidx, "same": m.same},
				intact, s1, m.mutd, out, msg, site)
		}
	}
	return nil
}

// ---- main ----------------------------------------------------------------------------------------------------------------

func Main(args []string) error {
	fs := flag.NewFlagSet("headerproof", flag.ContinueOnError)
	casesPath := fs.String("cases", "", "JSON file {world, cases} printed by TLC (MC_HeaderProof)")
	outPath := fs.String("out", "trace.ndjson", "trace output")
	seed := fs.Int64("seed", 1, "seed")
	reps := fs.Int("reps", 1, "concretisations (worlds) per TLC case")
	nrand := fs.Int("rand", 0, "seeded random cases")
	vectors := fs.String("vectors", "", "directory validation/testdata of the repository (mainnet vectors)")
	only := fs.String("only", "", "comma separated case ids to run (replay)")
	if err := fs.Parse(args); err != nil {
		return err
	}
	var in struct {
		World smallWorld  `json:"world"`
		Cases []smallCase `json:"cases"`
	}
	raw, err := os.ReadFile(*casesPath)
	if err != nil {
		return err
	}
	if err := json.Unmarshal(raw, &in); err != nil {
		return err
	}
	tw, err := tracelog.Create(*outPath)
	if err != nil {
		return err
	}
	d := &driver{tw: tw, seed: *seed, only: map[string]bool{}}
	for _, c := range strings.Split(*only, ",") {
		if c != "" {
			d.only[c] = true
		}
	}
	small := map[string]smallHdr{}
	for _, h := range in.World.Hdrs {
		small[h.ID] = h
	}
	for rep := 0; rep < *reps; rep++ {
		extra := 0
		if rep == 0 {
			extra = 12
		}
		w, em := newWorld(*seed*1000+int64(rep), &in.World, extra)
		vs := newVset(w)
		tw.Emit(map[string]any{"ev": "world", "rep": rep, "nSumm": w.nSumm, "selfcheck": w.selfcheck, "hdrs": len(w.hdrs),
			"epochs": len(w.epochs), "batches": len(w.rootsB) + len(w.summB)})
		d.honestPass("warm", rep, w, vs)
		for _, c := range in.Cases {
			d.runSmall(rep, w, em, vs, small, c.Ci, c)
		}
		if rep == 0 && *nrand > 0 {
			d.runRandom(w, vs, *nrand)
		}
		d.honestPass("cool", rep, w, vs)
	}
	if *vectors != "" {
		if err := d.runVectors(*vectors); err != nil {
			return fmt.Errorf("vectors: %w", err)
		}
	}
	tw.Emit(map[string]any{"ev": "end", "evaluations": d.nEval})
	return tw.Close()
}
