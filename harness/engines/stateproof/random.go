package stateproof

import (
	"fmt"
	"math/rand"
)

var emptyRoot = keccak([]byte{0x80})
var emptyCode = keccak(nil)

// randomKVs: n distinct 64-nibble keys with shared prefixes of random lengths (so that extension nodes, deep branches
// and - with small values - embedded nodes occur), values from mk (nil: storage words, small ones if small is set).
func randomKVs(rng *rand.Rand, n int, small bool, mk func(i int) ([]byte, *Acct)) []KV {
	seen := map[string]bool{}
	var keys [][]byte
	for len(keys) < n {
		k := make([]byte, 64)
		for i := range k {
			k[i] = byte(rng.Intn(16))
		}
		if len(keys) > 0 && rng.Intn(100) < 60 {
			base := keys[rng.Intn(len(keys))]
			var l int
			switch rng.Intn(4) {
			case 0:
				l = 60 + rng.Intn(4) // differ only in the last nibbles
			case 1:
				l = 1 + rng.Intn(6)
			default:
				l = 1 + rng.Intn(63)
			}
			if mk != nil && l > 62 {
				// account keys: a leaf at depth 64 (two address hashes sharing 63 nibbles) makes today's
				// validateAccountState reject the honest proof ("the leaf node has empty key") - a completeness matter
				// outside C13 that would only starve the honest-acceptance guard
				l = 62
			}
			copy(k, base[:l])
		}
		if seen[string(k)] || (mk != nil && seen[string(k[:63])]) {
			continue
		}
		seen[string(k)] = true
		seen[string(k[:63])] = true
		keys = append(keys, k)
	}
	kvs := make([]KV, n)
	for i, k := range keys {
		if mk != nil {
			v, a := mk(i)
			kvs[i] = KV{Key: k, Val: v, Acct: a}
			continue
		}
		var v []byte
		switch {
		case small && rng.Intn(100) < 70:
			v = []byte{byte(1 + rng.Intn(0x7f))}
		case rng.Intn(100) < 30:
			v = rlpString(randBytes(rng, 1+rng.Intn(20)))
		default:
			b := randBytes(rng, 32)
			b[0] |= 1
			v = rlpString(b)
		}
		kvs[i] = KV{Key: k, Val: v}
	}
	return kvs
}

type rtrie struct {
	root *Node
	kvs  []KV
	all  []PathNode // every node with its position
}

func mkTrie(kvs []KV) (*rtrie, error) {
	t := &rtrie{root: Build(kvs), kvs: kvs}
	if err := crossCheck(kvs, t.root); err != nil {
		return nil, err
	}
	WalkTrie(t.root, func(n *Node, pos []byte, emb bool) {
		t.all = append(t.all, PathNode{n, append([]byte(nil), pos...), emb})
	})
	return t, nil
}

// claim for the node at index j of a root-to-node path: the separately hashed nodes, the target last
func claimProof(pn []PathNode, j int) []*Node {
	var out []*Node
	for i := 0; i <= j; i++ {
		if !pn[i].Embedded || i == j {
			out = append(out, pn[i].N)
		}
	}
	return out
}

type contract struct {
	addr []byte
	st   [2]*rtrie // storage trie in state 1 / state 2
	code []byte
}

type rworld struct {
	reg       *registry
	roots     map[string][]byte
	acct      [2]*rtrie
	bh        [2][]byte
	contracts []*contract
	pool      []*Node // replacement nodes
	rng       *rand.Rand
}

func sizeFor(i, total, maxLeaves int, rng *rand.Rand) int {
	sched := []int{1, 2, 3, 5, 9, 17, 40, 90, 200, maxLeaves}
	n := sched[i%len(sched)]
	if n > 3 {
		n = n/2 + 1 + rng.Intn(n-n/2)
	}
	if n > maxLeaves {
		n = maxLeaves
	}
	return n
}

func buildRandomWorld(rng *rand.Rand, wid, n, maxLeaves int) (*rworld, error) {
	w := &rworld{reg: newRegistry(), roots: map[string][]byte{}, rng: rng}
	nc := 1 + rng.Intn(4)
	if nc > n {
		nc = n
	}
	// storage tries
	for c := 0; c < nc; c++ {
		ns := 1 + rng.Intn(60)
		if c == 0 && rng.Intn(3) == 0 {
			ns = 1 + rng.Intn(maxLeaves)
		}
		kvs := randomKVs(rng, ns, rng.Intn(3) > 0, nil)
		t1, err := mkTrie(kvs)
		if err != nil {
			return nil, err
		}
		// state 2: one value changed, possibly one key added
		kvs2 := append([]KV(nil), kvs...)
		i := rng.Intn(len(kvs2))
		kvs2[i] = KV{Key: kvs2[i].Key, Val: rlpString(randBytes(rng, 1+rng.Intn(31)))}
		t2, err := mkTrie(kvs2)
		if err != nil {
			return nil, err
		}
		w.contracts = append(w.contracts, &contract{st: [2]*rtrie{t1, t2}, code: randBytes(rng, 1+rng.Intn(300))})
	}
	// account tries
	mk := func(state int) func(i int) ([]byte, *Acct) {
		return func(i int) ([]byte, *Acct) {
			a := &Acct{Nonce: uint64(i + 1), Balance: uint64(1_000_000 + i), Root: emptyRoot, CodeHash: emptyCode}
			if i < nc {
				a.Root = w.contracts[i].st[state].root.Hash()
				a.CodeHash = keccak(w.contracts[i].code)
			} else if state == 1 && i%7 == 0 {
				a.Nonce += 100
			}
			return a.rlp(), a
		}
	}
	kv1 := randomKVs(rng, n, false, mk(0))
	kv2 := make([]KV, n)
	for i := range kv1 {
		v, a := mk(1)(i)
		kv2[i] = KV{Key: kv1[i].Key, Val: v, Acct: a}
	}
	for i := 0; i < nc; i++ {
		w.contracts[i].addr = kv1[i].Key
	}
	var err error
	if w.acct[0], err = mkTrie(kv1); err != nil {
		return nil, err
	}
	if w.acct[1], err = mkTrie(kv2); err != nil {
		return nil, err
	}
	w.reg.add(rawNode([]byte{0x80})) // the empty trie's "root"
	for _, c := range w.contracts {
		w.reg.addTrie(c.st[0].root)
		w.reg.addTrie(c.st[1].root)
		w.reg.addCode(c.code)
	}
	w.reg.addCode(nil)
	for s := 0; s < 2; s++ {
		w.reg.addTrie(w.acct[s].root)
		w.bh[s] = h256("rblock", wid, s)
		w.roots[string(w.bh[s])] = w.acct[s].root.Hash()
	}
	for _, t := range []*rtrie{w.acct[0], w.acct[1]} {
		for _, pn := range t.all {
			w.pool = append(w.pool, pn.N)
		}
	}
	for _, c := range w.contracts {
		for _, pn := range c.st[0].all {
			w.pool = append(w.pool, pn.N)
		}
	}
	return w, nil
}

func (w *rworld) acctProof(state int, addr []byte) []*Node {
	pn := PathNodes(w.acct[state].root, addr)
	var out []*Node
	for _, p := range pn {
		if !p.Embedded {
			out = append(out, p.N)
		}
	}
	return out
}

func cloneCase(c *ccase) *ccase {
	d := *c
	d.proof = append([]*Node(nil), c.proof...)
	d.aproof = append([]*Node(nil), c.aproof...)
	d.path = append([]byte(nil), c.path...)
	d.addr = append([]byte(nil), c.addr...)
	d.hon = false
	return &d
}

func mutateBytes(rng *rand.Rand, b []byte) []byte {
	out := append([]byte(nil), b...)
	if len(out) == 0 {
		return []byte{byte(rng.Intn(256))}
	}
	switch rng.Intn(5) {
	case 0:
		out[rng.Intn(len(out))] ^= 1 << uint(rng.Intn(8))
	case 1:
		out = out[:rng.Intn(len(out))]
	case 2:
		out = append(out, byte(rng.Intn(256)))
	case 3:
		out[rng.Intn(len(out))] = byte(rng.Intn(256))
	default:
		i := rng.Intn(len(out))
		out = append(out[:i], out[i+1:]...)
	}
	return out
}

// mutate applies one mutation of the catalogue; returns the label.
func (w *rworld) mutate(c *ccase) string {
	rng := w.rng
	pickProof := func() (*[]*Node, string) {
		if c.kind == "code" || (c.kind == "cstn" && rng.Intn(3) == 0) {
			return &c.aproof, "a:"
		}
		return &c.proof, ""
	}
	other := func() *Node { return w.pool[rng.Intn(len(w.pool))] }
	for tries := 0; tries < 20; tries++ {
		switch op := rng.Intn(24); op {
		case 0:
			p, l := pickProof()
			if len(*p) == 0 {
				continue
			}
			i := rng.Intn(len(*p))
			*p = append(append([]*Node(nil), (*p)[:i]...), (*p)[i+1:]...)
			return l + "drop"
		case 1:
			p, l := pickProof()
			if len(*p) == 0 {
				continue
			}
			i := rng.Intn(len(*p))
			q := append([]*Node(nil), (*p)[:i+1]...)
			*p = append(q, (*p)[i:]...)
			return l + "dup"
		case 2:
			p, l := pickProof()
			if len(*p) < 2 {
				continue
			}
			i, j := rng.Intn(len(*p)), rng.Intn(len(*p))
			if i == j {
				continue
			}
			(*p)[i], (*p)[j] = (*p)[j], (*p)[i]
			return l + "swap"
		case 3, 4:
			p, l := pickProof()
			if len(*p) == 0 {
				continue
			}
			(*p)[rng.Intn(len(*p))] = other()
			return l + "repl"
		case 5, 6, 7:
			p, l := pickProof()
			if len(*p) == 0 {
				continue
			}
			i := rng.Intn(len(*p))
			(*p)[i] = rawNode(mutateBytes(rng, (*p)[i].Enc()))
			return l + "bytes"
		case 8:
			p, l := pickProof()
			*p = append(*p, other())
			return l + "append"
		case 9:
			p, l := pickProof()
			*p = append([]*Node{other()}, *p...)
			return l + "prepend"
		case 10:
			p, l := pickProof()
			if len(*p) < 2 {
				continue
			}
			rng.Shuffle(len(*p), func(i, j int) { (*p)[i], (*p)[j] = (*p)[j], (*p)[i] })
			return l + "shuffle"
		case 11:
			p, l := pickProof()
			*p = nil
			return l + "empty"
		case 12:
			p, l := pickProof()
			if len(*p) == 0 {
				continue
			}
			for len(*p) <= 65 {
				*p = append(*p, (*p)[len(*p)-1])
			}
			return l + "toolong"
		case 13:
			if c.kind == "code" || len(c.path) == 0 {
				continue
			}
			c.path = c.path[:rng.Intn(len(c.path))]
			return "trunc"
		case 14:
			if c.kind == "code" || len(c.path) >= 64 {
				continue
			}
			c.path = append(c.path, byte(rng.Intn(16)))
			return "extend"
		case 15:
			if c.kind == "code" || len(c.path) == 0 {
				continue
			}
			i := rng.Intn(len(c.path))
			c.path[i] = (c.path[i] + 1 + byte(rng.Intn(15))) % 16
			return "flip"
		case 16:
			c.keyHash = other().Hash()
			return "keyhash"
		case 17:
			c.keyHash = randBytes(rng, 32)
			return "keyhash-junk"
		case 18:
			c.blockHash = w.bh[1]
			return "header"
		case 19:
			c.blockHash = randBytes(rng, 32)
			return "header-unknown"
		case 20:
			if c.kind == "atn" {
				continue
			}
			if rng.Intn(2) == 0 && len(w.acct[0].kvs) > 1 {
				c.addr = append([]byte(nil), w.acct[0].kvs[rng.Intn(len(w.acct[0].kvs))].Key...)
				return "account"
			}
			c.addr[rng.Intn(64)] ^= byte(1 + rng.Intn(15))
			return "account-absent"
		case 21:
			if c.kind != "code" {
				continue
			}
			c.code = mutateBytes(rng, c.code)
			return "code"
		case 22:
			// drop the last node and claim its parent (stale path)
			if c.kind == "code" || len(c.proof) < 2 {
				continue
			}
			c.proof = c.proof[:len(c.proof)-1]
			c.keyHash = c.proof[len(c.proof)-1].Hash()
			return "drop+keyhash"
		case 23:
			if c.kind == "code" || len(c.proof) == 0 {
				continue
			}
			b := make([]byte, 1025+rng.Intn(50))
			rng.Read(b)
			c.proof[rng.Intn(len(c.proof))] = rawNode(b)
			return "oversize"
		}
	}
	c.keyHash = randBytes(rng, 32)
	return "keyhash-junk"
}

func randomJob(idx int, seed int64, i, total, rcases, maxLeaves int) worldJob {
	return worldJob{build: func(e *env) ([]byte, stats, error) {
		rng := rand.New(rand.NewSource(seed*7919 + int64(i)*104729 + 17))
		wid := 100000 + i
		n := sizeFor(i, total, maxLeaves, rng)
		w, err := buildRandomWorld(rng, wid, n, maxLeaves)
		if err != nil {
			return nil, stats{}, err
		}
		var ccs []*ccase
		add := func(c *ccase, op string, hon bool) {
			c.hon = hon
			c.class = "random/" + c.kind + "/" + op
			c.abs = map[string]any{"kind": c.kind, "op": op, "hon": hon, "src": "random", "leaves": n}
			ccs = append(ccs, c)
		}
		withMutants := func(base *ccase, k int) {
			for m := 0; m < k; m++ {
				c := cloneCase(base)
				op := w.mutate(c)
				if rng.Intn(6) == 0 {
					op += "+" + w.mutate(c)
				}
				add(c, op, false)
			}
		}
		budget := rcases
		// (a) account trie nodes: every node on the paths of some accounts (all nodes when the trie is small)
		na := budget * 2 / 5
		at := w.acct[0]
		for len(ccs) < na {
			kv := at.kvs[rng.Intn(len(at.kvs))]
			pn := PathNodes(at.root, kv.Key)
			for j := range pn {
				base := &ccase{kind: "atn", blockHash: w.bh[0], path: append([]byte(nil), pn[j].Pos...), keyHash: pn[j].N.Hash(), proof: claimProof(pn, j)}
				op := "honest"
				if pn[j].Embedded {
					op = "embedded-target"
				}
				add(base, op, !pn[j].Embedded)
				withMutants(base, 3)
			}
			if len(at.kvs) == 1 && len(ccs) >= 8 {
				break
			}
		}
		// (b) storage trie nodes incl. embedded ones
		nb := budget * 4 / 5
		for len(ccs) < nb {
			ct := w.contracts[rng.Intn(len(w.contracts))]
			st := ct.st[0]
			kv := st.kvs[rng.Intn(len(st.kvs))]
			pn := PathNodes(st.root, kv.Key)
			ap := w.acctProof(0, ct.addr)
			for j := range pn {
				base := &ccase{kind: "cstn", blockHash: w.bh[0], path: append([]byte(nil), pn[j].Pos...), keyHash: pn[j].N.Hash(),
					proof: claimProof(pn, j), aproof: append([]*Node(nil), ap...), addr: append([]byte(nil), ct.addr...)}
				op := "honest"
				if pn[j].Embedded {
					op = "embedded-target"
				}
				add(base, op, !pn[j].Embedded)
				withMutants(base, 3)
			}
			if rng.Intn(4) == 0 {
				// the same claim against the later header (the storage trie changed there)
				j := len(pn) - 1
				c := &ccase{kind: "cstn", blockHash: w.bh[1], path: append([]byte(nil), pn[j].Pos...), keyHash: pn[j].N.Hash(),
					proof: claimProof(pn, j), aproof: w.acctProof(1, ct.addr), addr: append([]byte(nil), ct.addr...)}
				add(c, "later-header", false)
			}
		}
		// (c) bytecode
		for len(ccs) < budget {
			ct := w.contracts[rng.Intn(len(w.contracts))]
			base := &ccase{kind: "code", blockHash: w.bh[0], keyHash: keccak(ct.code), aproof: w.acctProof(0, ct.addr),
				addr: append([]byte(nil), ct.addr...), code: append([]byte(nil), ct.code...)}
			add(base, "honest", true)
			withMutants(base, 4)
			if len(at.kvs) > len(w.contracts) {
				// an account without code: its (empty) code hash with empty code is a legitimate item
				eoa := at.kvs[len(w.contracts)+rng.Intn(len(at.kvs)-len(w.contracts))]
				c := &ccase{kind: "code", blockHash: w.bh[0], keyHash: emptyCode, aproof: w.acctProof(0, eoa.Key), addr: append([]byte(nil), eoa.Key...), code: nil}
				add(c, "empty-code", false)
				c2 := cloneCase(c)
				c2.code = append([]byte(nil), ct.code...)
				add(c2, "empty-code+code", false)
				// ... and a contract's code with ITS hash in the key, claimed for the account without code
				c3 := cloneCase(c)
				c3.keyHash, c3.code = keccak(ct.code), append([]byte(nil), ct.code...)
				add(c3, "eoa+foreign-code", false)
			}
		}
		info := map[string]any{"src": "random", "leaves": n, "contracts": len(w.contracts), "nodes": len(w.reg.nodes)}
		b, st, err := runWorld(e, wid, w.reg, w.roots, ccs, info)
		if err != nil {
			return nil, st, fmt.Errorf("random world %d: %w", i, err)
		}
		return b, st, nil
	}}
}
