package stateproof

import (
	"bytes"
	"fmt"
	"math/rand"
	"sort"

	gethtrie "github.com/ethereum/go-ethereum/trie"
	"github.com/protolambda/ztyp/codec"
	"github.com/zen-eth/shisui/state"
)

// gethRoot computes the root of the same key/value set with go-ethereum's StackTrie.  Used ONLY to cross-check the
// harness's own builder (keys must have an even number of nibbles); it never contributes to a verdict.
func gethRoot(kvs []KV) ([]byte, error) {
	s := append([]KV(nil), kvs...)
	sort.Slice(s, func(i, j int) bool { return bytes.Compare(s[i].Key, s[j].Key) < 0 })
	st := gethtrie.NewStackTrie(nil)
	for _, kv := range s {
		if len(kv.Key)%2 != 0 {
			return nil, fmt.Errorf("odd key")
		}
		if err := st.Update(nibblesToBytes(kv.Key), kv.Val); err != nil {
			return nil, err
		}
	}
	h := st.Hash()
	return h[:], nil
}

func crossCheck(kvs []KV, root *Node) error {
	g, err := gethRoot(kvs)
	if err != nil {
		return err
	}
	if !bytes.Equal(g, root.Hash()) {
		return fmt.Errorf("harness MPT builder disagrees with go-ethereum on the root of a %d-leaf trie: %x vs %x", len(kvs), root.Hash(), g)
	}
	return nil
}

// selfCheck: (1) the builder agrees with go-ethereum on random tries incl. embedded nodes; (2) the hand-written SSZ
// encoders produce what the repo's own types decode to the same fields (decoding only - no validation involved).
func selfCheck() error {
	rng := rand.New(rand.NewSource(42))
	for trial := 0; trial < 30; trial++ {
		n := 1 + rng.Intn(40)
		kvs := randomKVs(rng, n, trial%2 == 0, nil)
		if err := crossCheck(kvs, Build(kvs)); err != nil {
			return err
		}
	}
	path := []byte{1, 2, 3}
	nh, bh, ah := randBytes(rng, 32), randBytes(rng, 32), randBytes(rng, 32)
	p1 := [][]byte{randBytes(rng, 40), randBytes(rng, 3), {}}
	p2 := [][]byte{randBytes(rng, 70)}
	{
		k := keyAccountTrieNode(path, nh)
		var kk state.AccountTrieNodeKey
		if err := kk.Deserialize(codec.NewDecodingReader(bytes.NewReader(k[1:]), uint64(len(k)-1))); err != nil {
			return err
		}
		if k[0] != state.AccountTrieNodeType || !bytes.Equal(kk.Path.Nibbles, path) || !bytes.Equal(kk.NodeHash[:], nh) {
			return fmt.Errorf("account trie node key encoder")
		}
		v := valAccountTrieNode(p1, bh)
		var vv state.AccountTrieNodeWithProof
		if err := vv.Deserialize(codec.NewDecodingReader(bytes.NewReader(v), uint64(len(v)))); err != nil {
			return err
		}
		if len(vv.Proof) != 3 || !bytes.Equal(vv.Proof[0], p1[0]) || !bytes.Equal(vv.Proof[1], p1[1]) || len(vv.Proof[2]) != 0 || !bytes.Equal(vv.BlockHash[:], bh) {
			return fmt.Errorf("account trie node value encoder")
		}
		v = valAccountTrieNode(nil, bh)
		var ve state.AccountTrieNodeWithProof
		if err := ve.Deserialize(codec.NewDecodingReader(bytes.NewReader(v), uint64(len(v)))); err != nil {
			return err
		}
		if len(ve.Proof) != 0 {
			return fmt.Errorf("empty proof encoder")
		}
	}
	{
		k := keyStorageTrieNode(ah, []byte{4, 5}, nh)
		var kk state.ContractStorageTrieNodeKey
		if err := kk.Deserialize(codec.NewDecodingReader(bytes.NewReader(k[1:]), uint64(len(k)-1))); err != nil {
			return err
		}
		if k[0] != state.ContractStorageTrieNodeType || !bytes.Equal(kk.Path.Nibbles, []byte{4, 5}) || !bytes.Equal(kk.NodeHash[:], nh) || !bytes.Equal(kk.AddressHash[:], ah) {
			return fmt.Errorf("storage trie node key encoder")
		}
		v := valStorageTrieNode(p1, p2, bh)
		var vv state.ContractStorageTrieNodeWithProof
		if err := vv.Deserialize(codec.NewDecodingReader(bytes.NewReader(v), uint64(len(v)))); err != nil {
			return err
		}
		if len(vv.StorageProof) != 3 || len(vv.AccountProof) != 1 || !bytes.Equal(vv.AccountProof[0], p2[0]) || !bytes.Equal(vv.StorageProof[1], p1[1]) || !bytes.Equal(vv.BlockHash[:], bh) {
			return fmt.Errorf("storage trie node value encoder")
		}
	}
	{
		k := keyBytecode(ah, nh)
		var kk state.ContractBytecodeKey
		if err := kk.Deserialize(codec.NewDecodingReader(bytes.NewReader(k[1:]), uint64(len(k)-1))); err != nil {
			return err
		}
		if k[0] != state.ContractByteCodeType || !bytes.Equal(kk.CodeHash[:], nh) || !bytes.Equal(kk.AddressHash[:], ah) {
			return fmt.Errorf("bytecode key encoder")
		}
		code := randBytes(rng, 55)
		v := valBytecode(code, p2, bh)
		var vv state.ContractBytecodeWithProof
		if err := vv.Deserialize(codec.NewDecodingReader(bytes.NewReader(v), uint64(len(v)))); err != nil {
			return err
		}
		if !bytes.Equal(vv.Code, code) || len(vv.AccountProof) != 1 || !bytes.Equal(vv.AccountProof[0], p2[0]) || !bytes.Equal(vv.BlockHash[:], bh) {
			return fmt.Errorf("bytecode value encoder")
		}
	}
	return nil
}
