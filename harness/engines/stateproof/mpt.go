// Harness-owned minimal Merkle-Patricia trie: RLP by hand, leaf / extension / branch nodes, children referenced by
// Keccak hash or embedded when their encoding is shorter than 32 bytes.  Nothing in this file uses code under test
// (state/trie); go-ethereum's trie is used only in crosscheck.go to compare roots.  Malformed nodes (empty keys,
// over-long extensions, arbitrary reference bytes) can be built on purpose.
package stateproof

import (
	"bytes"
	"sort"

	"golang.org/x/crypto/sha3"
)

func keccak(b []byte) []byte {
	h := sha3.NewLegacyKeccak256()
	h.Write(b)
	return h.Sum(nil)
}

// ---- RLP ----

func rlpLen(n int, off byte) []byte {
	if n <= 55 {
		return []byte{off + byte(n)}
	}
	var l []byte
	for x := n; x > 0; x >>= 8 {
		l = append([]byte{byte(x)}, l...)
	}
	return append([]byte{off + 55 + byte(len(l))}, l...)
}

func rlpString(b []byte) []byte {
	if len(b) == 1 && b[0] < 0x80 {
		return []byte{b[0]}
	}
	return append(rlpLen(len(b), 0x80), b...)
}

func rlpList(items ...[]byte) []byte {
	var p []byte
	for _, it := range items {
		p = append(p, it...)
	}
	return append(rlpLen(len(p), 0xc0), p...)
}

func rlpUint(x uint64) []byte {
	if x == 0 {
		return []byte{0x80}
	}
	var b []byte
	for ; x > 0; x >>= 8 {
		b = append([]byte{byte(x)}, b...)
	}
	return rlpString(b)
}

// hex-prefix (compact) encoding of a nibble key
func compact(nib []byte, leaf bool) []byte {
	flag := byte(0)
	if leaf {
		flag = 2
	}
	var out []byte
	if len(nib)%2 == 1 {
		out = append(out, (flag|1)<<4|nib[0])
		nib = nib[1:]
	} else {
		out = append(out, flag<<4)
	}
	for i := 0; i < len(nib); i += 2 {
		out = append(out, nib[i]<<4|nib[i+1])
	}
	return out
}

// ---- nodes ----

const (
	kLeaf = "leaf"
	kExt  = "ext"
	kBr   = "br"
	kRaw  = "raw"
)

type Node struct {
	Kind string
	Key  []byte    // nibbles (leaf: remaining key, ext: shared prefix)
	Ch   [16]*Node // branch children
	Next *Node     // ext child
	// RefOverride, if set, is written verbatim where the reference to Next would go (crafted extension nodes
	// pointing at a hash with an arbitrary preimage); RefHash is that hash (for the trace record).
	RefOverride []byte
	RefHash     []byte
	Val         []byte // leaf: value content (the string stored in the leaf)
	Acct        *Acct  // leaf: set when Val is an account
	enc         []byte
	hash        []byte
}

type Acct struct {
	Nonce    uint64
	Balance  uint64
	Root     []byte
	CodeHash []byte
}

func (a *Acct) rlp() []byte {
	return rlpList(rlpUint(a.Nonce), rlpUint(a.Balance), rlpString(a.Root), rlpString(a.CodeHash))
}

func rawNode(b []byte) *Node { return &Node{Kind: kRaw, enc: append([]byte(nil), b...)} }

func (n *Node) Enc() []byte {
	if n.enc != nil {
		return n.enc
	}
	switch n.Kind {
	case kLeaf:
		n.enc = rlpList(rlpString(compact(n.Key, true)), rlpString(n.Val))
	case kExt:
		ref := n.RefOverride
		if ref == nil {
			ref = n.Next.ref()
		}
		n.enc = rlpList(rlpString(compact(n.Key, false)), ref)
	case kBr:
		items := make([][]byte, 17)
		for i := 0; i < 16; i++ {
			if n.Ch[i] == nil {
				items[i] = []byte{0x80}
			} else {
				items[i] = n.Ch[i].ref()
			}
		}
		items[16] = []byte{0x80}
		n.enc = rlpList(items...)
	}
	return n.enc
}

func (n *Node) Hash() []byte {
	if n.hash == nil {
		n.hash = keccak(n.Enc())
	}
	return n.hash
}

// Embedded reports whether a parent references this node by inlining its encoding.
func (n *Node) Embedded() bool { return len(n.Enc()) < 32 }

func (n *Node) ref() []byte {
	if n.Embedded() {
		return n.Enc()
	}
	return rlpString(n.Hash())
}

type KV struct {
	Key  []byte // nibbles
	Val  []byte
	Acct *Acct
}

// Build constructs the trie of the given pairs (keys are nibble strings, none a prefix of another).
func Build(kvs []KV) *Node {
	s := append([]KV(nil), kvs...)
	sort.Slice(s, func(i, j int) bool { return bytes.Compare(s[i].Key, s[j].Key) < 0 })
	return build(s, 0)
}

func build(s []KV, depth int) *Node {
	if len(s) == 1 {
		return &Node{Kind: kLeaf, Key: append([]byte(nil), s[0].Key[depth:]...), Val: s[0].Val, Acct: s[0].Acct}
	}
	// common prefix below depth (s is sorted: compare first and last)
	a, b := s[0].Key, s[len(s)-1].Key
	n := 0
	for depth+n < len(a) && depth+n < len(b) && a[depth+n] == b[depth+n] {
		n++
	}
	if n > 0 {
		return &Node{Kind: kExt, Key: append([]byte(nil), a[depth:depth+n]...), Next: build(s, depth+n)}
	}
	br := &Node{Kind: kBr}
	for i := 0; i < len(s); {
		j := i
		for j < len(s) && s[j].Key[depth] == s[i].Key[depth] {
			j++
		}
		br.Ch[s[i].Key[depth]] = build(s[i:j], depth+1)
		i = j
	}
	return br
}

// NodeAt returns the node located exactly at path below root (descending through hashed and embedded children
// alike), nil if the path does not end at a node boundary.  This is the harness's own trie reading, used to map the
// abstract positions of a TLC case to concrete nodes; the verdict is recomputed by the TLA+ judge, not here.
func NodeAt(root *Node, path []byte) *Node {
	n := root
	for {
		if n == nil {
			return nil
		}
		if len(path) == 0 {
			return n
		}
		switch n.Kind {
		case kBr:
			n, path = n.Ch[path[0]], path[1:]
		case kExt:
			if len(n.Key) == 0 || len(path) < len(n.Key) || !bytes.Equal(n.Key, path[:len(n.Key)]) {
				return nil
			}
			n, path = n.Next, path[len(n.Key):]
		default:
			return nil
		}
	}
}

// Walk calls f for every node below root with its position (nibble path) and whether the parent embeds it.
func WalkTrie(root *Node, f func(n *Node, pos []byte, embedded bool)) {
	var rec func(n *Node, pos []byte, top bool)
	rec = func(n *Node, pos []byte, top bool) {
		if n == nil {
			return
		}
		f(n, pos, !top && n.Embedded())
		switch n.Kind {
		case kBr:
			for i, c := range n.Ch {
				if c != nil {
					rec(c, append(append([]byte(nil), pos...), byte(i)), false)
				}
			}
		case kExt:
			if n.Next != nil {
				rec(n.Next, append(append([]byte(nil), pos...), n.Key...), false)
			}
		}
	}
	rec(root, nil, true)
}

// PathNodes returns the nodes met on the way from the root along key (a full key or a node position), each with
// its position and whether it is embedded in its parent; it stops where the trie ends.
type PathNode struct {
	N        *Node
	Pos      []byte
	Embedded bool
}

func PathNodes(root *Node, key []byte) []PathNode {
	var out []PathNode
	n, pos, top := root, []byte{}, true
	for n != nil {
		out = append(out, PathNode{n, append([]byte(nil), pos...), !top && n.Embedded()})
		top = false
		rest := key[len(pos):]
		switch n.Kind {
		case kBr:
			if len(rest) == 0 {
				return out
			}
			pos = append(pos, rest[0])
			n = n.Ch[rest[0]]
		case kExt:
			if len(rest) < len(n.Key) || !bytes.Equal(n.Key, rest[:len(n.Key)]) {
				return out
			}
			pos = append(pos, n.Key...)
			n = n.Next
		default:
			return out
		}
	}
	return out
}
