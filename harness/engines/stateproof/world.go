package stateproof

import (
	"crypto/sha256"
	"encoding/binary"
	"encoding/json"
	"fmt"
	"math/rand"
	"strings"
)

// ---- registry: every distinct byte string that is used as a trie node gets a small integer id -----------------

type registry struct {
	ids    map[string]int
	nodes  []*Node
	byHash map[string]int
	codes  map[string]int
	codeBy map[string]int // code hash -> code id
	codeL  [][]byte
}

func newRegistry() *registry {
	return &registry{ids: map[string]int{}, byHash: map[string]int{}, codes: map[string]int{}, codeBy: map[string]int{}}
}

func (r *registry) add(n *Node) int {
	if n == nil {
		return 0
	}
	e := string(n.Enc())
	if id, ok := r.ids[e]; ok {
		// keep the structured description if the first registration was raw bytes
		if r.nodes[id-1].Kind == kRaw && n.Kind != kRaw {
			r.nodes[id-1] = n
		}
		return id
	}
	r.nodes = append(r.nodes, n)
	id := len(r.nodes)
	r.ids[e] = id
	r.byHash[string(n.Hash())] = id
	return id
}

func (r *registry) addTrie(root *Node) {
	WalkTrie(root, func(n *Node, pos []byte, emb bool) { r.add(n) })
}

func (r *registry) idOfBytes(b []byte) int { return r.ids[string(b)] }
func (r *registry) idOfHash(h []byte) int  { return r.byHash[string(h)] }

func (r *registry) addCode(c []byte) int {
	if id, ok := r.codes[string(c)]; ok {
		return id
	}
	r.codeL = append(r.codeL, c)
	id := len(r.codeL)
	r.codes[string(c)] = id
	r.codeBy[string(keccak(c))] = id
	return id
}

// records renders the universe for the trace: one record per node, in id order, as the harness's builder knows it.
func (r *registry) records() []map[string]any {
	out := make([]map[string]any, len(r.nodes))
	ref := func(c *Node) map[string]any {
		if c == nil {
			return map[string]any{"t": "n", "id": 0}
		}
		if c.Embedded() {
			return map[string]any{"t": "e", "id": r.ids[string(c.Enc())]}
		}
		return map[string]any{"t": "h", "id": r.ids[string(c.Enc())]}
	}
	for i, n := range r.nodes {
		rec := map[string]any{"k": n.Kind, "key": ints(n.Key), "ch": []any{}, "vt": "", "va": 0, "vb": 0, "sz": len(n.Enc())}
		switch n.Kind {
		case kBr:
			ch := make([]any, 16)
			for j := 0; j < 16; j++ {
				ch[j] = ref(n.Ch[j])
			}
			rec["ch"] = ch
		case kExt:
			if n.RefOverride != nil {
				rec["ch"] = []any{map[string]any{"t": "h", "id": r.byHash[string(n.RefHash)]}}
			} else {
				rec["ch"] = []any{ref(n.Next)}
			}
		case kLeaf:
			if n.Acct != nil {
				rec["vt"], rec["va"], rec["vb"] = "acct", r.byHash[string(n.Acct.Root)], r.codeBy[string(n.Acct.CodeHash)]
			} else {
				rec["vt"] = "val"
				if len(n.Val) == 32 {
					rec["va"] = r.byHash[string(n.Val)]
				}
			}
		}
		out[i] = rec
	}
	return out
}

func ints(b []byte) []int {
	r := make([]int, len(b))
	for i, x := range b {
		r[i] = int(x)
	}
	return r
}

// ---- deterministic bytes --------------------------------------------------------------------------------------

func h256(tag string, xs ...int) []byte {
	h := sha256.New()
	h.Write([]byte(tag))
	for _, x := range xs {
		var b [8]byte
		binary.BigEndian.PutUint64(b[:], uint64(x))
		h.Write(b[:])
	}
	return h.Sum(nil)
}

func storVal(small bool, id int) []byte {
	if small {
		return []byte{byte(id%100 + 1)}
	}
	return append([]byte{0xa0}, h256("val", id)...) // the RLP of a 32-byte storage word
}

func codeBytes(i int) []byte {
	var out []byte
	for len(out) < 10+3*i {
		out = append(out, h256("code", i, len(out))...)
	}
	return out[:10+3*i]
}

// ---- abstract worlds (TLC cases) --------------------------------------------------------------------------------

type absKey [3]int

func keyNum(k absKey) int { return 4*k[0] + 2*k[1] + k[2] }

type trieDesc struct {
	kind  string
	keys  []absKey // sorted by keyNum
	small map[int]bool
	x     int
}

// nmap maps abstract nibbles {0,1} at each depth to two distinct real nibbles.
type nmap struct {
	n0, n1 [72]byte
}

func newNmap(rng *rand.Rand) *nmap {
	m := &nmap{}
	for i := range m.n0 {
		m.n0[i] = byte(rng.Intn(16))
		m.n1[i] = byte((int(m.n0[i]) + 1 + rng.Intn(15)) % 16)
	}
	return m
}

func (m *nmap) at(base int, p []int) []byte {
	out := make([]byte, len(p))
	for i, b := range p {
		if b == 0 {
			out[i] = m.n0[base+i]
		} else {
			out[i] = m.n1[base+i]
		}
	}
	return out
}

type absWorld struct {
	td     trieDesc
	real   string // top | exact | bottom
	m      *nmap
	base   int
	prefix []byte // bottom: the 61 shared leading nibbles
	suffix []byte // top: the 61 shared trailing nibbles
	tries  map[string]*Node
	rootBr map[string]bool
	tiny   map[int]*Node
	x      []*Node // crafted nodes X1..X6
	reg    *registry
	bh     map[string][]byte // trie name / "X<i>" -> block hash
	roots  map[string][]byte // string(block hash) -> state root
	wid    int
}

func sortedKeys(ks []absKey) []absKey {
	out := append([]absKey(nil), ks...)
	for i := range out {
		for j := i + 1; j < len(out); j++ {
			if keyNum(out[j]) < keyNum(out[i]) {
				out[i], out[j] = out[j], out[i]
			}
		}
	}
	return out
}

func otherShape(ks []absKey) []absKey {
	if len(ks) > 1 {
		return ks[1:]
	}
	if ks[0] == (absKey{1, 1, 1}) {
		return sortedKeys([]absKey{ks[0], {0, 0, 0}})
	}
	return sortedKeys([]absKey{ks[0], {1, 1, 1}})
}

// full real key of an abstract key
func (w *absWorld) key(k absKey, real string) []byte {
	switch real {
	case "top":
		return append(w.m.at(0, k[:]), w.suffix...)
	case "exact":
		return w.m.at(0, k[:])
	default:
		return append(append([]byte(nil), w.prefix...), w.m.at(61, k[:])...)
	}
}

// real position of an abstract node position in trie t
func (w *absWorld) pos(t string, q []int) []byte {
	real := w.real
	if t == "R" || t == "Q" || t == "S" {
		real = "top"
	}
	if real != "bottom" {
		return w.m.at(0, q)
	}
	if len(q) == 0 && !w.rootBr[t] {
		return nil
	}
	return append(append([]byte(nil), w.prefix...), w.m.at(61, q)...)
}

func (w *absWorld) tinyStor(i int) *Node {
	if n, ok := w.tiny[i]; ok {
		return n
	}
	n := Build([]KV{
		{Key: append(w.m.at(0, []int{0, 0, 0}), w.suffix...), Val: storVal(false, 20+i)},
		{Key: append(w.m.at(0, []int{1, 0, 0}), w.suffix...), Val: storVal(false, 40+i)},
	})
	w.tiny[i] = n
	return n
}

func (w *absWorld) acctTrie(keys []absKey, saltFirst int) *Node {
	var kvs []KV
	for i, k := range keys {
		salt := 0
		if i == 0 {
			salt = saltFirst
		}
		id := keyNum(k) + salt
		a := &Acct{Nonce: uint64(id + 1), Balance: uint64(1000 + id), Root: w.tinyStor(id).Hash(), CodeHash: keccak(codeBytes(id))}
		kvs = append(kvs, KV{Key: w.key(k, w.real), Val: a.rlp(), Acct: a})
	}
	return Build(kvs)
}

func (w *absWorld) storTrie(keys []absKey, small map[int]bool, saltFirst int, firstVal []byte) *Node {
	var kvs []KV
	for i, k := range keys {
		salt := 0
		if i == 0 {
			salt = saltFirst
		}
		v := storVal(small[keyNum(k)], keyNum(k)+salt)
		if i == 0 && firstVal != nil {
			v = firstVal
		}
		kvs = append(kvs, KV{Key: w.key(k, w.real), Val: v})
	}
	return Build(kvs)
}

func (w *absWorld) fixedAcctTrie(rootA0, rootA1 []byte) *Node {
	a0 := &Acct{Nonce: 1, Balance: 7, Root: rootA0, CodeHash: keccak(codeBytes(0))}
	a1 := &Acct{Nonce: 2, Balance: 8, Root: rootA1, CodeHash: keccak(codeBytes(1))}
	return Build([]KV{
		{Key: w.key(absKey{0, 0, 0}, "top"), Val: a0.rlp(), Acct: a0},
		{Key: w.key(absKey{1, 1, 0}, "top"), Val: a1.rlp(), Acct: a1},
	})
}

func buildAbsWorld(td trieDesc, real string, rng *rand.Rand, wid int) (*absWorld, error) {
	w := &absWorld{td: td, real: real, m: newNmap(rng), tries: map[string]*Node{}, rootBr: map[string]bool{}, tiny: map[int]*Node{},
		reg: newRegistry(), bh: map[string][]byte{}, roots: map[string][]byte{}, wid: wid}
	w.suffix = append([]byte(nil), w.m.n0[3:64]...)
	w.prefix = append([]byte(nil), w.m.n0[0:61]...)
	if real == "bottom" {
		w.base = 61
	}
	keys := sortedKeys(td.keys)
	other := otherShape(keys)
	y0 := rawNode(randBytes(rng, 40+rng.Intn(20)))
	var x6 *Node = rawNode(randBytes(rng, 33))
	if td.kind == "atn" || td.kind == "acct" || td.kind == "code" {
		w.tries["A"] = w.acctTrie(keys, 0)
		w.tries["B"] = w.acctTrie(keys, 8)
		w.tries["C"] = w.acctTrie(other, 0)
	} else {
		if td.x > 0 {
			probe := w.storTrie(keys, td.small, 0, make([]byte, 32))
			pn := PathNodes(probe, w.key(keys[0], w.real))
			leaf := pn[len(pn)-1]
			if leaf.N.Kind != kLeaf {
				return nil, fmt.Errorf("vref probe: no leaf for the first key")
			}
			rem := leaf.N.Key
			depth := len(leaf.Pos) + len(rem)
			mk := func(y *Node) *Node {
				switch td.x {
				case 1:
					return &Node{Kind: kExt, Key: rem, RefOverride: rlpString(y.Hash()), RefHash: y.Hash()}
				case 2:
					return &Node{Kind: kExt, Key: nil, RefOverride: rlpString(y.Hash()), RefHash: y.Hash()}
				default:
					k := append(append([]byte(nil), rem...), w.m.n0[depth])
					return &Node{Kind: kExt, Key: k, RefOverride: rlpString(y.Hash()), RefHash: y.Hash()}
				}
			}
			// a storage word of 31 significant bytes is stored as the 32 bytes 0x9f || word: grind the claimed node
			// until the crafted extension's hash has that form, so the trie is one an attacker can really create
			for i := 0; ; i++ {
				x6 = mk(y0)
				if x6.Hash()[0] == 0x9f || i > 20000 {
					break
				}
				y0 = rawNode(randBytes(rng, 40+rng.Intn(20)))
			}
			w.tries["A"] = w.storTrie(keys, td.small, 0, x6.Hash())
		} else {
			w.tries["A"] = w.storTrie(keys, td.small, 0, nil)
		}
		w.tries["B"] = w.storTrie(keys, td.small, 8, nil)
		w.tries["C"] = w.storTrie(other, td.small, 0, nil)
		w.tries["R"] = w.fixedAcctTrie(w.tries["A"].Hash(), w.tries["B"].Hash())
		w.tries["Q"] = w.fixedAcctTrie(w.tries["C"].Hash(), w.tries["B"].Hash())
	}
	for t, n := range w.tries {
		// bottom realisation: the abstract root is a branch iff the real root is the extension spelling exactly the prefix
		w.rootBr[t] = real == "bottom" && n.Kind == kExt && len(n.Key) == 61 && t != "R" && t != "Q"
	}
	yh := y0.Hash()
	w.x = []*Node{
		rawNode(randBytes(rng, 40)),
		{Kind: kExt, Key: nil, RefOverride: rlpString(yh), RefHash: yh},
		{Kind: kLeaf, Key: nil, Val: storVal(false, 99)},
		{Kind: kExt, Key: w.m.at(w.base, []int{0, 0, 0, 0}), RefOverride: rlpString(yh), RefHash: yh},
		y0,
		x6,
	}
	// registry: storage tries first so that account leaves can name their storage roots
	for _, n := range w.tiny {
		w.reg.addTrie(n)
	}
	for _, t := range []string{"A", "B", "C", "R", "Q"} {
		if n := w.tries[t]; n != nil {
			w.reg.addTrie(n)
		}
	}
	for _, n := range w.x {
		w.reg.add(n)
	}
	for i := 0; i < 16; i++ {
		w.reg.addCode(codeBytes(i))
	}
	for t, n := range w.tries {
		b := h256("blockhash:"+t, wid)
		w.bh[t] = b
		w.roots[string(b)] = n.Hash()
	}
	for i, n := range w.x {
		t := fmt.Sprintf("X%d", i+1)
		b := h256("blockhash:"+t, wid)
		w.bh[t] = b
		w.roots[string(b)] = n.Hash()
	}
	return w, nil
}

func randBytes(rng *rand.Rand, n int) []byte {
	b := make([]byte, n)
	rng.Read(b)
	return b
}

// ---- concretisation of one abstract case --------------------------------------------------------------------------

type absCase struct {
	Kind   string   `json:"kind"`
	Keys   [][]int  `json:"keys"`
	Small  [][]int  `json:"small"`
	X      int      `json:"x"`
	Tgt    []int    `json:"tgt"`
	Op     string   `json:"op"`
	Mi     int      `json:"mi"`
	Mj     int      `json:"mj"`
	Bh     absRef   `json:"bh"`
	Path   []int    `json:"path"`
	Kh     absRef   `json:"kh"`
	Proof  []absRef `json:"proof"`
	Addr   []int    `json:"addr"`
	Aproof []absRef `json:"aproof"`
	Code   int      `json:"code"`
	Val    string   `json:"val"`
	Put    string   `json:"put"`
	Snd    bool     `json:"snd"`
	Hon    bool     `json:"hon"`
}

type absRef struct {
	T string
	Q []int
}

func (r *absRef) UnmarshalJSON(b []byte) error {
	var raw []json.RawMessage
	if err := json.Unmarshal(b, &raw); err != nil {
		return err
	}
	if len(raw) != 2 {
		return fmt.Errorf("bad ref %s", b)
	}
	if err := json.Unmarshal(raw[0], &r.T); err != nil {
		return err
	}
	return json.Unmarshal(raw[1], &r.Q)
}

// concrete case: what is handed to the code under test, plus the ids for the trace
type ccase struct {
	kind      string
	blockHash []byte
	path      []byte
	keyHash   []byte
	proof     []*Node
	aproof    []*Node
	addr      []byte // 64 nibbles (nil for atn)
	code      []byte
	abs       map[string]any
	hon       bool
	class     string // coverage label
}

func (w *absWorld) node(c *absCase, r absRef) (*Node, error) {
	switch r.T {
	case "A", "B", "C", "R", "Q":
		n := NodeAt(w.tries[r.T], w.pos(r.T, r.Q))
		if n == nil {
			return nil, fmt.Errorf("no concrete node at abstract position %s%v (realisation %s)", r.T, r.Q, w.real)
		}
		return n, nil
	case "S":
		n := NodeAt(w.tinyStor(keyNum(absKey{c.Tgt[0], c.Tgt[1], c.Tgt[2]})), w.m.at(0, r.Q))
		if n == nil {
			return nil, fmt.Errorf("no tiny-storage node at %v", r.Q)
		}
		return n, nil
	case "X":
		return w.x[r.Q[0]-1], nil
	}
	return nil, fmt.Errorf("reference %s is not a node", r.T)
}

func (w *absWorld) concretise(c *absCase, rng *rand.Rand) (*ccase, error) {
	cc := &ccase{kind: c.Kind, hon: c.Hon}
	if cc.kind == "vref" || cc.kind == "acct" {
		cc.kind = "cstn"
	}
	crafted := c.Op == "craftedroot"
	// header
	switch c.Bh.T {
	case "U":
		cc.blockHash = randBytes(rng, 32)
	case "X":
		cc.blockHash = w.bh[fmt.Sprintf("X%d", c.Bh.Q[0])]
	default:
		cc.blockHash = w.bh[c.Bh.T]
	}
	// claimed path
	pathTrie := "A"
	if c.Kind == "acct" {
		pathTrie = "S"
	}
	if crafted {
		cc.path = w.m.at(w.base, c.Path)
	} else if c.Kind == "vref" && w.real == "top" && strings.HasPrefix(c.Op, "vref-") && len(c.Path) >= 3 {
		// the abstract full key: in the top realisation every key continues with the shared 61-nibble suffix
		cc.path = append(w.key(absKey{c.Path[0], c.Path[1], c.Path[2]}, "top"), w.m.at(64, c.Path[3:])...)
	} else {
		cc.path = w.pos(pathTrie, c.Path)
	}
	// key hash
	switch c.Kh.T {
	case "J":
		cc.keyHash = randBytes(rng, 32)
	case "K":
		cc.keyHash = keccak(codeBytes(c.Kh.Q[0]))
	default:
		n, err := w.node(c, c.Kh)
		if err != nil {
			return nil, err
		}
		cc.keyHash = n.Hash()
	}
	mapProof := func(rs []absRef) ([]*Node, error) {
		out := make([]*Node, 0, len(rs)+1)
		for _, r := range rs {
			n, err := w.node(c, r)
			if err != nil {
				return nil, err
			}
			out = append(out, n)
		}
		return out, nil
	}
	var err error
	if cc.proof, err = mapProof(c.Proof); err != nil {
		return nil, err
	}
	if cc.aproof, err = mapProof(c.Aproof); err != nil {
		return nil, err
	}
	// bottom realisation of a trie whose abstract root is a branch: the real root is the extension that spells the
	// 61-nibble prefix; it is part of every proof of the trie under test
	if w.real == "bottom" && !crafted {
		t := "A"
		if c.Kind == "atn" && (c.Bh.T == "B" || c.Bh.T == "C") {
			t = c.Bh.T
		}
		if w.rootBr[t] {
			if c.Kind == "atn" || c.Kind == "cstn" || c.Kind == "vref" {
				cc.proof = append([]*Node{w.tries[t]}, cc.proof...)
			} else {
				cc.aproof = append([]*Node{w.tries[t]}, cc.aproof...)
			}
		}
	}
	if len(c.Addr) > 0 {
		k := absKey{c.Addr[0], c.Addr[1], c.Addr[2]}
		if c.Kind == "cstn" || c.Kind == "vref" {
			cc.addr = w.key(k, "top")
		} else {
			cc.addr = w.key(k, w.real)
		}
	}
	if c.Kind == "code" {
		cc.code = codeBytes(c.Code)
	}
	if cc.hon && (c.Kind == "atn" || c.Kind == "cstn" || c.Kind == "vref") && len(cc.proof) > 0 {
		// bottom realisation: the abstract root lies below the prefix extension and may be small enough to be embedded
		// there, in which case the claim has no honest proof
		if last := cc.proof[len(cc.proof)-1]; last.Embedded() && last != w.tries["A"] {
			cc.hon = false
		}
	}
	cc.class = c.Kind + "/" + c.Op
	cc.abs = map[string]any{"kind": c.Kind, "op": c.Op, "mi": c.Mi, "mj": c.Mj, "x": c.X, "real": w.real, "tgt": c.Tgt,
		"val": c.Val, "put": c.Put, "snd": c.Snd, "hon": cc.hon}
	return cc, nil
}

func nibblesToBytes(n []byte) []byte {
	out := make([]byte, len(n)/2)
	for i := range out {
		out[i] = n[2*i]<<4 | n[2*i+1]
	}
	return out
}
