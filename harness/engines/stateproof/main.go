// Package stateproof drives the real state.StateValidator.ValidateContent and state.Storage.Put (C13) with
// (a) the abstract cases enumerated by TLC from spec/StateProof.tla, concretised with the harness-owned MPT builder,
// and (b) a seeded random driver over tries of 1..500 leaves, and records one event per evaluation for the
// Trace_StateProof judge: the universe of nodes as the builder knows them (never as the code under test decodes
// them), the proof as node ids, the path, the hashes as ids, and the observed outcome (ok / err / panic + site) and
// what reached the store.
package stateproof

import (
	"bufio"
	"bytes"
	"crypto/sha256"
	"encoding/hex"
	"encoding/json"
	"flag"
	"fmt"
	"math/rand"
	"os"
	"runtime"
	"sort"
	"strings"
	"sync"

	"verifharness/common"
)

func init() { common.Register("stateproof", Main) }

type worldJob struct {
	idx   int
	build func(e *env) ([]byte, stats, error) // returns the ndjson lines of the world
}

type stats struct {
	Cases, Dups                     int
	Accepted, HonestTotal, HonestOK int
	Panics                          int
	Class                           map[string]*[4]int // coverage label -> evaluations, accepted, rejected with an error, panicked
	HonestByKind                    map[string]*[2]int // kind -> honest claims, accepted
	EmbTraversed                    int                // accepted proofs that descend through an embedded node
	MaxLeaves                       int
	digests                         []string
}

func (s *stats) add(o stats) {
	s.Cases += o.Cases
	s.Dups += o.Dups
	s.Accepted += o.Accepted
	s.HonestTotal += o.HonestTotal
	s.HonestOK += o.HonestOK
	s.Panics += o.Panics
	s.EmbTraversed += o.EmbTraversed
	if o.MaxLeaves > s.MaxLeaves {
		s.MaxLeaves = o.MaxLeaves
	}
	if s.Class == nil {
		s.Class, s.HonestByKind = map[string]*[4]int{}, map[string]*[2]int{}
	}
	for k, v := range o.Class {
		if s.Class[k] == nil {
			s.Class[k] = &[4]int{}
		}
		for i := range v {
			s.Class[k][i] += v[i]
		}
	}
	for k, v := range o.HonestByKind {
		if s.HonestByKind[k] == nil {
			s.HonestByKind[k] = &[2]int{}
		}
		s.HonestByKind[k][0] += v[0]
		s.HonestByKind[k][1] += v[1]
	}
	s.digests = append(s.digests, o.digests...)
}

func Main(args []string) error {
	fs := flag.NewFlagSet("stateproof", flag.ContinueOnError)
	casesPath := fs.String("cases", "", "ndjson file of abstract cases printed by TLC (StateProof.tla)")
	out := fs.String("out", "trace.ndjson", "trace output")
	seed := fs.Int64("seed", 1, "seed")
	reals := fs.Int("reals", 1, "realisations per abstract trie")
	nRandom := fs.Int("random", 0, "number of random worlds")
	rcases := fs.Int("rcases", 150, "evaluations per random world (upper bound)")
	maxLeaves := fs.Int("maxleaves", 500, "largest random trie")
	mem := fs.Bool("mem", false, "use the in-memory mock store instead of pebble on a MemFS")
	workers := fs.Int("workers", runtime.GOMAXPROCS(0), "parallel worlds")
	only := fs.String("worlds", "", "comma separated world (job) indexes to execute; default all")
	fs.BoolVar(&dumpWire, "dump", false, "include the content key and value (hex) in every event")
	wire := fs.String("wire", "", "run one concrete item from a json file {key_hex, content_hex, headers_hex{block hash: state root}} and print what the code did")
	if err := fs.Parse(args); err != nil {
		return err
	}
	if *wire != "" {
		return runWire(*wire)
	}
	if err := selfCheck(); err != nil {
		return fmt.Errorf("self check of the harness encoders failed: %w", err)
	}
	var jobs []worldJob
	if *casesPath != "" {
		js, err := tlcJobs(*casesPath, *seed, *reals)
		if err != nil {
			return err
		}
		jobs = append(jobs, js...)
	}
	for i := 0; i < *nRandom; i++ {
		jobs = append(jobs, randomJob(len(jobs), *seed, i, *nRandom, *rcases, *maxLeaves))
	}
	for i := range jobs {
		jobs[i].idx = i
	}
	if *only != "" {
		keep := map[int]bool{}
		for _, f := range strings.Split(*only, ",") {
			var x int
			if _, err := fmt.Sscan(f, &x); err == nil {
				keep[x] = true
			}
		}
		var js []worldJob
		for _, j := range jobs {
			if keep[j.idx] {
				js = append(js, j)
			}
		}
		jobs = js
	}
	results := make([][]byte, len(jobs))
	pos := map[int]int{}
	for i, j := range jobs {
		pos[j.idx] = i
	}
	var total stats
	var mu sync.Mutex
	var firstErr error
	ch := make(chan worldJob)
	var wg sync.WaitGroup
	for k := 0; k < *workers; k++ {
		wg.Add(1)
		go func() {
			defer wg.Done()
			e, err := newEnv(*mem)
			if err != nil {
				mu.Lock()
				firstErr = err
				mu.Unlock()
				for range ch {
				}
				return
			}
			defer e.close()
			for j := range ch {
				b, st, err := j.build(e)
				mu.Lock()
				if err != nil && firstErr == nil {
					firstErr = fmt.Errorf("world %d: %w", j.idx, err)
				}
				results[pos[j.idx]] = b
				total.add(st)
				mu.Unlock()
			}
		}()
	}
	for _, j := range jobs {
		ch <- j
	}
	close(ch)
	wg.Wait()
	if firstErr != nil {
		return firstErr
	}
	f, err := os.Create(*out)
	if err != nil {
		return err
	}
	bw := bufio.NewWriterSize(f, 1<<20)
	for _, b := range results {
		bw.Write(b)
	}
	if err := bw.Flush(); err != nil {
		return err
	}
	if err := f.Close(); err != nil {
		return err
	}
	sj, _ := json.Marshal(map[string]any{"worlds": len(jobs), "stats": total})
	if err := os.WriteFile(*out+".sum.json", sj, 0o644); err != nil {
		return err
	}
	if err := os.WriteFile(*out+".digests", []byte(strings.Join(total.digests, "\n")), 0o644); err != nil {
		return err
	}
	fmt.Printf("STATS worlds=%d cases=%d dups=%d accepted=%d honest=%d/%d panics=%d\n", len(jobs), total.Cases, total.Dups, total.Accepted,
		total.HonestOK, total.HonestTotal, total.Panics)
	return nil
}

// ---- TLC cases -----------------------------------------------------------------------------------------------------

func allowedReals(kind string, nSmall int) []string {
	switch kind {
	case "atn":
		return []string{"top", "bottom"}
	case "acct", "code":
		return []string{"top"}
	case "vref":
		return []string{"exact", "bottom", "top"}
	}
	if nSmall == 0 {
		return []string{"exact", "top", "bottom"}
	}
	return []string{"exact", "bottom"}
}

func tlcJobs(path string, seed int64, reals int) ([]worldJob, error) {
	f, err := os.Open(path)
	if err != nil {
		return nil, err
	}
	defer f.Close()
	type group struct {
		key   string
		cases []*absCase
	}
	groups := map[string]*group{}
	var order []string
	sc := bufio.NewScanner(f)
	sc.Buffer(make([]byte, 1<<20), 1<<26)
	for sc.Scan() {
		ln := bytes.TrimSpace(sc.Bytes())
		if len(ln) == 0 {
			continue
		}
		c := &absCase{}
		if err := json.Unmarshal(ln, c); err != nil {
			return nil, fmt.Errorf("bad case line: %w: %s", err, trunc(string(ln), 200))
		}
		sort.Slice(c.Keys, func(i, j int) bool { return keyNum3(c.Keys[i]) < keyNum3(c.Keys[j]) })
		sort.Slice(c.Small, func(i, j int) bool { return keyNum3(c.Small[i]) < keyNum3(c.Small[j]) })
		k := fmt.Sprint(c.Kind, c.Keys, c.Small, c.X)
		g := groups[k]
		if g == nil {
			g = &group{key: k}
			groups[k] = g
			order = append(order, k)
		}
		g.cases = append(g.cases, c)
	}
	if err := sc.Err(); err != nil {
		return nil, err
	}
	sort.Strings(order)
	var jobs []worldJob
	for gi, k := range order {
		g := groups[k]
		c0 := g.cases[0]
		td := trieDesc{kind: c0.Kind, small: map[int]bool{}, x: c0.X}
		for _, kk := range c0.Keys {
			td.keys = append(td.keys, absKey{kk[0], kk[1], kk[2]})
		}
		for _, kk := range c0.Small {
			td.small[keyNum3(kk)] = true
		}
		al := allowedReals(c0.Kind, len(c0.Small))
		n := reals
		if n > len(al) {
			n = len(al)
		}
		for r := 0; r < n; r++ {
			real := al[(int(h256(k, int(seed))[0])+r)%len(al)]
			gi, r, g, td, real := gi, r, g, td, real
			jobs = append(jobs, worldJob{build: func(e *env) ([]byte, stats, error) {
				rng := rand.New(rand.NewSource(seed*1000003 + int64(gi)*131 + int64(r)))
				wid := gi*8 + r + 1
				w, err := buildAbsWorld(td, real, rng, wid)
				if err != nil {
					return nil, stats{}, err
				}
				var ccs []*ccase
				for _, c := range g.cases {
					cc, err := w.concretise(c, rng)
					if err != nil {
						return nil, stats{}, fmt.Errorf("%s: %w", g.key, err)
					}
					ccs = append(ccs, cc)
				}
				return runWorld(e, wid, w.reg, w.roots, ccs, map[string]any{"src": "tlc", "real": real, "kind": td.kind, "keys": c0.Keys, "small": c0.Small, "x": td.x})
			}})
		}
	}
	return jobs, nil
}

var dumpWire bool

// throughEmbedded: some proof node other than the last has an embedded child (the accepted walk may have descended
// through it) - coverage accounting only
func throughEmbedded(cc *ccase) bool {
	for i, n := range cc.proof {
		if i == len(cc.proof)-1 {
			break
		}
		if n.Kind == kBr {
			for _, c := range n.Ch {
				if c != nil && c.Embedded() {
					return true
				}
			}
		}
		if n.Kind == kExt && n.Next != nil && n.Next.Embedded() {
			return true
		}
	}
	return false
}

func keyNum3(k []int) int { return 4*k[0] + 2*k[1] + k[2] }

// runWorld registers every node of the cases, writes the world event, runs the cases on the real code.
func runWorld(e *env, wid int, reg *registry, roots map[string][]byte, ccs []*ccase, info map[string]any) ([]byte, stats, error) {
	st := stats{Class: map[string]*[4]int{}, HonestByKind: map[string]*[2]int{}}
	if v, ok := info["leaves"].(int); ok {
		st.MaxLeaves = v
	}
	for _, cc := range ccs {
		for _, n := range cc.proof {
			reg.add(n)
		}
		for _, n := range cc.aproof {
			reg.add(n)
		}
		if cc.kind == "code" {
			reg.addCode(cc.code)
		}
	}
	e.hs.roots = roots
	var buf bytes.Buffer
	enc := json.NewEncoder(&buf)
	if err := enc.Encode(map[string]any{"ev": "world", "w": wid, "U": reg.records(), "ncodes": len(reg.codeL), "info": info}); err != nil {
		return nil, st, err
	}
	seen := map[string]bool{}
	for _, cc := range ccs {
		key, content := cc.wire()
		d := string(key) + "\x00" + string(content)
		if seen[d] {
			st.Dups++
			continue
		}
		seen[d] = true
		res := e.run(cc, reg)
		st.Cases++
		dg := sha256.Sum256([]byte(d))
		st.digests = append(st.digests, hex.EncodeToString(dg[:8]))
		acc := res.val.R == "ok" && res.put.R == "ok"
		cl := st.Class[cc.class]
		if cl == nil {
			cl = &[4]int{}
			st.Class[cc.class] = cl
		}
		cl[0]++
		if acc {
			st.Accepted++
			cl[1]++
			if throughEmbedded(cc) {
				st.EmbTraversed++
			}
		}
		if cc.hon {
			hk := st.HonestByKind[cc.kind]
			if hk == nil {
				hk = &[2]int{}
				st.HonestByKind[cc.kind] = hk
			}
			hk[0]++
			st.HonestTotal++
			if acc {
				st.HonestOK++
				hk[1]++
			}
		}
		if res.val.R == "panic" || res.put.R == "panic" {
			st.Panics++
			cl[3]++
		} else if !acc {
			cl[2]++
		}
		ev := cc.event(wid, reg, e.hs, res)
		if dumpWire {
			ev["key_hex"], ev["content_hex"] = hex.EncodeToString(key), hex.EncodeToString(content)
			rs := map[string]string{}
			for b, r := range roots {
				rs[hex.EncodeToString([]byte(b))] = hex.EncodeToString(r)
			}
			ev["headers_hex"] = rs
		}
		if err := enc.Encode(ev); err != nil {
			return nil, st, err
		}
	}
	return buf.Bytes(), st, nil
}

// runWire re-executes one concrete item (witness files under replays/known) against the real code.
func runWire(path string) error {
	b, err := os.ReadFile(path)
	if err != nil {
		return err
	}
	var w struct {
		Key     string            `json:"key_hex"`
		Content string            `json:"content_hex"`
		Headers map[string]string `json:"headers_hex"`
	}
	if err := json.Unmarshal(b, &w); err != nil {
		return err
	}
	e, err := newEnv(true)
	if err != nil {
		return err
	}
	for k, v := range w.Headers {
		kb, _ := hex.DecodeString(k)
		vb, _ := hex.DecodeString(v)
		e.hs.roots[string(kb)] = vb
	}
	key, _ := hex.DecodeString(w.Key)
	content, _ := hex.DecodeString(w.Content)
	cid := sha256.Sum256(key)
	val := guard(func() error { return e.val.ValidateContent(key, content) })
	put := guard(func() error { return e.st.Put(key, cid[:], content) })
	fmt.Printf("ValidateContent: %s %s %s %s %s\n", val.R, val.Site, val.Cls, val.Loc, val.Msg)
	fmt.Printf("Storage.Put:     %s %s %s %s %s\n", put.R, put.Site, put.Cls, put.Loc, put.Msg)
	for _, p := range e.rec.puts {
		fmt.Printf("stored under %x: %x\n", p.id, p.val)
	}
	return nil
}
