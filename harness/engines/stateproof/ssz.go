package stateproof

import "encoding/binary"

// SSZ by hand (portal state network content keys and offer values), independent of state/types.go.

func u32(x int) []byte {
	b := make([]byte, 4)
	binary.LittleEndian.PutUint32(b, uint32(x))
	return b
}

// Nibbles: first byte 0x00 (even count) or 0x1n (odd count, n = first nibble), then packed pairs.
func sszNibbles(nib []byte) []byte {
	var out []byte
	if len(nib)%2 == 0 {
		out = append(out, 0)
	} else {
		out = append(out, 0x10|nib[0])
		nib = nib[1:]
	}
	for i := 0; i < len(nib); i += 2 {
		out = append(out, nib[i]<<4|nib[i+1])
	}
	return out
}

// List[ByteList]: offset table then items.
func sszProof(nodes [][]byte) []byte {
	var out []byte
	off := 4 * len(nodes)
	for _, n := range nodes {
		out = append(out, u32(off)...)
		off += len(n)
	}
	for _, n := range nodes {
		out = append(out, n...)
	}
	return out
}

func cat(parts ...[]byte) []byte {
	var out []byte
	for _, p := range parts {
		out = append(out, p...)
	}
	return out
}

// 0x20 | Container(path: Nibbles, node_hash: Bytes32)
func keyAccountTrieNode(path []byte, nodeHash []byte) []byte {
	return cat([]byte{0x20}, u32(36), nodeHash, sszNibbles(path))
}

// 0x21 | Container(address_hash: Bytes32, path: Nibbles, node_hash: Bytes32)
func keyStorageTrieNode(addrHash []byte, path []byte, nodeHash []byte) []byte {
	return cat([]byte{0x21}, addrHash, u32(68), nodeHash, sszNibbles(path))
}

// 0x22 | Container(address_hash: Bytes32, code_hash: Bytes32)
func keyBytecode(addrHash, codeHash []byte) []byte { return cat([]byte{0x22}, addrHash, codeHash) }

// Container(proof: TrieProof, block_hash: Bytes32)
func valAccountTrieNode(proof [][]byte, blockHash []byte) []byte {
	return cat(u32(36), blockHash, sszProof(proof))
}

// Container(storage_proof: TrieProof, account_proof: TrieProof, block_hash: Bytes32)
func valStorageTrieNode(sproof, aproof [][]byte, blockHash []byte) []byte {
	sp := sszProof(sproof)
	return cat(u32(40), u32(40+len(sp)), blockHash, sp, sszProof(aproof))
}

// Container(code: ByteList, account_proof: TrieProof, block_hash: Bytes32)
func valBytecode(code []byte, aproof [][]byte, blockHash []byte) []byte {
	return cat(u32(40), u32(40+len(code)), blockHash, code, sszProof(aproof))
}

// stored (retrieval) values: Container(node: ByteList) / Container(code: ByteList)
func containerOne(b []byte) []byte { return cat(u32(4), b) }
