package stateproof

import (
	"bytes"
	"crypto/sha256"
	"errors"
	"fmt"
	"runtime/debug"
	"strings"

	cp "github.com/cockroachdb/pebble"
	"github.com/cockroachdb/pebble/vfs"
	"github.com/ethereum/go-ethereum/common"
	"github.com/ethereum/go-ethereum/core/types"
	"github.com/holiman/uint256"
	"github.com/protolambda/zrnt/eth2/beacon/capella"
	"github.com/zen-eth/shisui/state"
	"github.com/zen-eth/shisui/storage"
	"github.com/zen-eth/shisui/storage/pebble"
	"github.com/zen-eth/shisui/validation"
)

// ---- controllable header source ---------------------------------------------------------------------------------

type headerSource struct {
	roots map[string][]byte // block hash -> state root
}

var _ validation.Oracle = (*headerSource)(nil)

func (h *headerSource) GetBlockHeaderByHash(hash []byte) (*types.Header, error) {
	r, ok := h.roots[string(hash)]
	if !ok {
		return nil, errors.New("verif: header not found")
	}
	return &types.Header{Root: common.BytesToHash(r)}, nil
}
func (h *headerSource) GetHistoricalSummaries(uint64) (capella.HistoricalSummaries, error) {
	return nil, errors.New("verif: not used")
}
func (h *headerSource) GetFinalizedStateRoot() ([]byte, error) {
	return nil, errors.New("verif: not used")
}

// ---- recording store around the real pebble content store ---------------------------------------------------------

type putRec struct{ key, id, val []byte }

type recStore struct {
	inner storage.ContentStorage
	puts  []putRec
}

func (r *recStore) Get(k, id []byte) ([]byte, error) { return r.inner.Get(k, id) }
func (r *recStore) Put(k, id, v []byte) error {
	r.puts = append(r.puts, putRec{append([]byte(nil), k...), append([]byte(nil), id...), append([]byte(nil), v...)})
	return r.inner.Put(k, id, v)
}
func (r *recStore) Radius() *uint256.Int { return r.inner.Radius() }
func (r *recStore) Close() error         { return r.inner.Close() }

type quietLogger struct{}

func (quietLogger) Infof(string, ...interface{})      {}
func (quietLogger) Errorf(string, ...interface{})     {}
func (quietLogger) Fatalf(f string, a ...interface{}) { panic(fmt.Sprintf(f, a...)) }

type env struct {
	db  *cp.DB
	rec *recStore
	st  *state.Storage
	hs  *headerSource
	val *state.StateValidator
}

func newEnv(memOnly bool) (*env, error) {
	e := &env{hs: &headerSource{roots: map[string][]byte{}}}
	var inner storage.ContentStorage
	if memOnly {
		inner = storage.NewMockStorage()
	} else {
		db, err := cp.Open("db", &cp.Options{FS: vfs.NewMem(), DisableAutomaticCompactions: true, MemTableSize: 8 << 20, Logger: quietLogger{}})
		if err != nil {
			return nil, err
		}
		e.db = db
		var node [32]byte
		cs, err := pebble.NewStorage(storage.PortalStorageConfig{StorageCapacityMB: 4000, NetworkName: "verif", NodeId: node}, db)
		if err != nil {
			return nil, err
		}
		inner = cs
	}
	e.rec = &recStore{inner: inner}
	e.st = state.NewStateStorage(e.rec, nil)
	e.val = state.NewStateValidator(e.hs)
	return e, nil
}

func (e *env) close() {
	if e.db != nil {
		e.db.Close()
	}
}

// ---- guarded calls ------------------------------------------------------------------------------------------------

type outcome struct {
	R    string // ok | err | panic
	Site string // innermost shisui function on the panic stack
	Cls  string // runtime error class
	Msg  string
	Loc  string // file:line of the site (information only)
}

func classify(v any) string {
	s := fmt.Sprint(v)
	switch {
	case strings.Contains(s, "index out of range [-"):
		return "index out of range (negative)"
	case strings.Contains(s, "index out of range"):
		return "index out of range"
	case strings.Contains(s, "slice bounds out of range"):
		return "slice bounds out of range"
	case strings.Contains(s, "nil pointer dereference"):
		return "nil pointer dereference"
	case strings.Contains(s, "interface conversion"):
		return "interface conversion"
	}
	if len(s) > 60 {
		s = s[:60]
	}
	return s
}

func siteOf(stack string) (string, string) {
	lines := strings.Split(stack, "\n")
	seenPanic := false
	for i, ln := range lines {
		if strings.HasPrefix(ln, "panic(") {
			seenPanic = true
			continue
		}
		if !seenPanic {
			continue
		}
		if strings.HasPrefix(ln, "github.com/zen-eth/shisui/") {
			fn := ln
			if j := strings.LastIndex(fn, "("); j > 0 {
				fn = fn[:j]
			}
			fn = strings.TrimPrefix(fn, "github.com/zen-eth/shisui/")
			loc := ""
			if i+1 < len(lines) {
				f := strings.Fields(strings.TrimSpace(lines[i+1]))
				if len(f) > 0 {
					loc = f[0]
					if k := strings.Index(loc, "/state/"); k >= 0 {
						loc = loc[k+1:]
					}
				}
			}
			return fn, loc
		}
	}
	return "?", ""
}

func guard(f func() error) (o outcome) {
	defer func() {
		if r := recover(); r != nil {
			site, loc := siteOf(string(debug.Stack()))
			o = outcome{R: "panic", Site: site, Cls: classify(r), Msg: trunc(fmt.Sprint(r), 100), Loc: loc}
		}
	}()
	if err := f(); err != nil {
		return outcome{R: "err", Msg: trunc(err.Error(), 100)}
	}
	return outcome{R: "ok"}
}

func trunc(s string, n int) string {
	if len(s) > n {
		return s[:n]
	}
	return s
}

// ---- one evaluation ------------------------------------------------------------------------------------------------

func encs(ns []*Node) [][]byte {
	out := make([][]byte, len(ns))
	for i, n := range ns {
		out[i] = n.Enc()
	}
	return out
}

func (cc *ccase) wire() (key, content []byte) {
	switch cc.kind {
	case "atn":
		return keyAccountTrieNode(cc.path, cc.keyHash), valAccountTrieNode(encs(cc.proof), cc.blockHash)
	case "cstn":
		return keyStorageTrieNode(nibblesToBytes(cc.addr), cc.path, cc.keyHash), valStorageTrieNode(encs(cc.proof), encs(cc.aproof), cc.blockHash)
	default:
		return keyBytecode(nibblesToBytes(cc.addr), cc.keyHash), valBytecode(cc.code, encs(cc.aproof), cc.blockHash)
	}
}

type result struct {
	val, put outcome
	n        int  // number of writes to the underlying store
	sid      int  // universe id of the stored node / code id (0: not a known item)
	keyOK    bool // written under the content id
	wf       bool // stored bytes are a one-field container
	rb       bool // read-back through state.Storage.Get returns the written bytes
}

func (e *env) run(cc *ccase, reg *registry) result {
	key, content := cc.wire()
	cid := sha256.Sum256(key)
	var res result
	res.val = guard(func() error { return e.val.ValidateContent(key, content) })
	e.rec.puts = e.rec.puts[:0]
	res.put = guard(func() error { return e.st.Put(key, cid[:], content) })
	res.n = len(e.rec.puts)
	if res.n > 0 {
		p := e.rec.puts[0]
		res.keyOK = bytes.Equal(p.id, cid[:]) // (the first argument is not used by the content stores)
		if len(p.val) >= 4 && bytes.Equal(p.val[:4], []byte{4, 0, 0, 0}) {
			res.wf = true
			item := p.val[4:]
			if cc.kind == "code" {
				res.sid = reg.codes[string(item)]
			} else {
				res.sid = reg.idOfBytes(item)
			}
		}
		var got []byte
		g := guard(func() error {
			var err error
			got, err = e.st.Get(key, cid[:])
			return err
		})
		res.rb = g.R == "ok" && bytes.Equal(got, p.val)
	}
	return res
}

// event renders one evaluation for the trace.
func (cc *ccase) event(wid int, reg *registry, hs *headerSource, res result) map[string]any {
	ids := func(ns []*Node) []int {
		out := make([]int, len(ns))
		for i, n := range ns {
			out[i] = reg.idOfBytes(n.Enc())
		}
		return out
	}
	bh := 0
	if r, ok := hs.roots[string(cc.blockHash)]; ok {
		bh = reg.idOfHash(r)
		if bh == 0 {
			bh = -1 // a known header whose state root is not the hash of any node of the universe
		}
	}
	ev := map[string]any{"ev": "case", "w": wid, "kind": cc.kind, "bh": bh, "path": ints(cc.path), "proof": ids(cc.proof),
		"addr": ints(cc.addr), "aproof": ids(cc.aproof), "kh": 0, "kc": 0, "code": 0,
		"val": res.val.R, "vsite": res.val.Site, "vcls": res.val.Cls, "put": res.put.R, "psite": res.put.Site, "pcls": res.put.Cls,
		"st":  map[string]any{"n": res.n, "id": res.sid, "key": res.keyOK, "wf": res.wf, "rb": res.rb},
		"abs": cc.abs, "msg": res.val.Msg + "|" + res.put.Msg, "loc": res.val.Loc + "|" + res.put.Loc}
	if cc.kind == "code" {
		ev["kc"] = reg.codeBy[string(cc.keyHash)]
		ev["code"] = reg.codes[string(cc.code)]
	} else {
		ev["kh"] = reg.idOfHash(cc.keyHash)
	}
	return ev
}
