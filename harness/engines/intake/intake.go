// Package intake drives the three sub-networks' own validateContents loops (history / beacon / state Network) with
// scripted verdicts and scripted store refusals and logs every call the loop makes through the two interfaces it calls
// through - validation.Validator and storage.ContentStorage (for the state network: the REAL state.Storage adapter over
// the scripted store) - in the loop's own order. spec/Trace_Intake.tla replays the events through the actions of
// spec/Intake.tla with Net set per run (extension of the specification beyond the listed properties; DESIGN I.10).
package intake

import (
	"bytes"
	"errors"
	"flag"
	"fmt"
	"math/rand"
	"sync"

	"github.com/ethereum/go-ethereum/crypto"
	"github.com/holiman/uint256"
	"github.com/protolambda/ztyp/codec"
	"github.com/zen-eth/shisui/beacon"
	"github.com/zen-eth/shisui/history"
	"github.com/zen-eth/shisui/portalwire"
	"github.com/zen-eth/shisui/state"
	"github.com/zen-eth/shisui/storage"

	"verifharness/common"
	"verifharness/netsim"
	"verifharness/tracelog"
)

func init() { common.Register("intake", Main) }

const nKeys = 6

type item struct {
	Key   int  `json:"key"` // 1..nKeys
	Valid bool `json:"valid"`
	Fits  bool `json:"fits"`
}

type conc struct {
	key, content []byte
	id           []byte
}

type world struct {
	w     *tracelog.Writer
	t     int
	net   string
	mu    sync.Mutex
	keys  [nKeys]conc
	db    map[string][]byte // by content id
	batch []item
	node  *netsim.Node
	run   func(keys, contents [][]byte) error
	inner string // result of the scripted (inner) store's last Put, state network only
}

func (w *world) idx(key []byte) int {
	for i := range w.keys {
		if bytes.Equal(w.keys[i].key, key) {
			return i + 1
		}
	}
	return 0
}

func (w *world) idxByID(id []byte) int {
	for i := range w.keys {
		if bytes.Equal(w.keys[i].id, id) {
			return i + 1
		}
	}
	return 0
}

func (w *world) script(k int) (item, bool) {
	for _, it := range w.batch {
		if it.Key == k {
			return it, true
		}
	}
	return item{}, false
}

// ---- validator: scripted verdict, logged ----
func (w *world) ValidateContent(key, content []byte) error {
	k := w.idx(key)
	it, ok := w.script(k)
	good := ok && it.Valid && k > 0 && bytes.Equal(content, w.keys[k-1].content)
	w.w.Emit(map[string]any{"ev": "validate", "t": w.t, "key": k, "verdict": map[bool]string{true: "ok", false: "err"}[good], "scripted": ok})
	if good {
		return nil
	}
	return errors.New("refused (scripted validator)")
}

// ---- the scripted store (what the protocol's Put / Get reach; for the state network the inner store of state.Storage) ----
type scripted struct{ w *world }

func (s scripted) Radius() *uint256.Int { return storage.MaxDistance }
func (s scripted) Close() error         { return nil }
func (s scripted) Get(key, id []byte) ([]byte, error) {
	w := s.w
	v, ok := w.db[string(id)]
	if w.net != "state" {
		w.w.Emit(map[string]any{"ev": "look", "t": w.t, "key": w.idx(key), "found": ok})
	}
	if !ok {
		return nil, storage.ErrContentNotFound
	}
	return v, nil
}
func (s scripted) Put(key, id, content []byte) error {
	w := s.w
	k := w.idx(key)
	if w.net == "state" {
		k = w.idxByID(id) // the adapter stores under (content id, content id)
	}
	it, ok := w.script(k)
	fits := ok && it.Fits
	if fits {
		w.db[string(id)] = append([]byte{}, content...)
	}
	if w.net == "state" {
		w.inner = map[bool]string{true: "ok", false: "err"}[fits]
		return map[bool]error{true: nil, false: storage.ErrInsufficientRadius}[fits]
	}
	w.w.Emit(map[string]any{"ev": "put", "t": w.t, "key": k, "res": map[bool]string{true: "ok", false: "err"}[fits], "inner": map[bool]string{true: "ok", false: "err"}[fits]})
	if !fits {
		return storage.ErrInsufficientRadius
	}
	return nil
}

// ---- state network: the real adapter between the loop and the scripted store, logged from outside ----
type outer struct {
	w  *world
	st *state.Storage
}

func (o outer) Radius() *uint256.Int             { return o.st.Radius() }
func (o outer) Close() error                     { return nil }
func (o outer) Get(k, id []byte) ([]byte, error) { return o.st.Get(k, id) }
func (o outer) Put(k, id, v []byte) error {
	o.w.inner = "none"
	err := o.st.Put(k, id, v)
	o.w.w.Emit(map[string]any{"ev": "put", "t": o.w.t, "key": o.w.idx(k), "res": map[bool]string{true: "ok", false: "err"}[err == nil], "inner": o.w.inner})
	return err
}

func ser(o interface {
	Serialize(*codec.EncodingWriter) error
}) []byte {
	var buf bytes.Buffer
	if err := o.Serialize(codec.NewEncodingWriter(&buf)); err != nil {
		panic(err)
	}
	return buf.Bytes()
}

func newWorld(tw *tracelog.Writer, rng *rand.Rand, t int, net string) (*world, error) {
	w := &world{w: tw, t: t, net: net, db: map[string][]byte{}}
	var st storage.ContentStorage = scripted{w}
	proto := map[string]portalwire.ProtocolId{"history": portalwire.History, "beacon": portalwire.Beacon, "state": portalwire.State}[net]
	if net == "state" {
		st = outer{w, state.NewStateStorage(scripted{w}, nil)}
	}
	var err error
	w.node, err = netsim.NewNode(netsim.NewSwitch(), netsim.NodeOpts{IP: "10.0.0.1", Port: 9001, Protocol: proto, Store: st, NoStart: true})
	if err != nil {
		return nil, err
	}
	for i := range w.keys {
		blob := make([]byte, 40+rng.Intn(100))
		rng.Read(blob)
		h := make([]byte, 32)
		rng.Read(h)
		switch net {
		case "history":
			w.keys[i] = conc{key: append([]byte{[]byte{0x00, 0x01, 0x02}[i%3]}, h...), content: blob}
		case "beacon":
			w.keys[i] = conc{key: append([]byte{0x10}, h...), content: blob}
		case "state":
			// a one-node proof: the adapter checks the key's node hash against the last proof node and stores that node
			node := blob
			k := &state.AccountTrieNodeKey{Path: state.Nibbles{Nibbles: []byte{byte(i), 3, 7}[:1+i%3]}}
			copy(k.NodeHash[:], crypto.Keccak256(node))
			c := &state.AccountTrieNodeWithProof{Proof: state.TrieProof{state.EncodedTrieNode(node)}}
			copy(c.BlockHash[:], h)
			w.keys[i] = conc{key: append([]byte{state.AccountTrieNodeType}, ser(k)...), content: ser(c)}
		}
		w.keys[i].id = w.node.P.ToContentId(w.keys[i].key)
	}
	switch net {
	case "history":
		n := history.NewHistoryNetwork(w.node.P, w)
		w.run = n.VerifValidateContents
	case "beacon":
		n := beacon.NewBeaconNetwork(w.node.P, nil, w)
		w.run = n.VerifValidateContents
	case "state":
		n := state.NewStateNetwork(w.node.P, w)
		w.run = n.VerifValidateContents
	}
	tw.Emit(map[string]any{"ev": "init", "t": t, "net": net})
	return w, nil
}

func (w *world) heldNow() []int {
	out := []int{}
	for i := range w.keys {
		if _, ok := w.db[string(w.keys[i].id)]; ok {
			out = append(out, i+1)
		}
	}
	return out
}

func (w *world) deliver(b []item) {
	w.batch = b
	keys, contents := [][]byte{}, [][]byte{}
	for _, it := range b {
		keys = append(keys, w.keys[it.Key-1].key)
		contents = append(contents, w.keys[it.Key-1].content)
	}
	w.w.Emit(map[string]any{"ev": "batch", "t": w.t, "items": b})
	var err error
	func() {
		defer func() {
			if r := recover(); r != nil {
				err = fmt.Errorf("panic: %v", r)
			}
		}()
		err = w.run(keys, contents)
	}()
	w.w.Emit(map[string]any{"ev": "done", "t": w.t, "res": map[bool]string{true: "ok", false: "err"}[err == nil], "held": w.heldNow()})
}

func Main(args []string) error {
	fs := flag.NewFlagSet("intake", flag.ContinueOnError)
	out := fs.String("out", "trace.ndjson", "trace output")
	seed := fs.Int64("seed", 1, "seed")
	runs := fs.Int("runs", 30, "runs per network")
	nb := fs.Int("batches", 12, "batches per run")
	if err := fs.Parse(args); err != nil {
		return err
	}
	tw, err := tracelog.Create(*out)
	if err != nil {
		return err
	}
	defer tw.Close()
	t := 0
	for r := 0; r < *runs; r++ {
		for _, net := range []string{"history", "beacon", "state"} {
			t++
			rng := common.Rng(*seed*1000003 + int64(t))
			w, err := newWorld(tw, rng, t, net)
			if err != nil {
				return err
			}
			for b := 0; b < *nb; b++ {
				n := 1 + rng.Intn(4)
				var items []item
				used := map[int]bool{}
				for len(items) < n {
					k := 1 + rng.Intn(nKeys)
					if used[k] {
						continue // one script per key and batch
					}
					used[k] = true
					items = append(items, item{Key: k, Valid: rng.Intn(5) != 0, Fits: rng.Intn(4) != 0})
				}
				w.deliver(items)
			}
			w.node.D5.Close()
		}
	}
	return nil
}
