// Package store drives the real storage/pebble ContentStorage and records ndjson traces for the
// Trace_Store judge (DESIGN.md 6: C04 C05 C06 C17).
package store

import (
	"bytes"
	"crypto/sha256"
	"encoding/binary"
	"errors"
	"flag"
	"fmt"
	"math/rand"
	"os"
	"sync"
	"sync/atomic"
	"time"

	cp "github.com/cockroachdb/pebble"
	"github.com/cockroachdb/pebble/vfs"
	"github.com/zen-eth/shisui/history"
	"github.com/zen-eth/shisui/storage"
	"github.com/zen-eth/shisui/storage/pebble"

	"verifharness/common"
	"verifharness/tracelog"
)

func init() { common.Register("store", Main) }

type item struct {
	K   []int `json:"k"`
	Len int   `json:"len"`
	Tag int   `json:"tag"`
}

// compaction bookkeeping through the verif gate, per store instance: prune starts a background
// db.Compact after its synced commit; closing the DB before that goroutine finished panics inside pebble.
type compCount struct{ commits, done atomic.Int64 }

var (
	compMu    sync.Mutex
	compBy    = map[*pebble.ContentStorage]*compCount{}
	gateExtra atomic.Value // func(point string)
)

func compOf(c *pebble.ContentStorage) *compCount {
	compMu.Lock()
	defer compMu.Unlock()
	cc := compBy[c]
	if cc == nil {
		cc = &compCount{}
		compBy[c] = cc
	}
	return cc
}

func forget(cs storage.ContentStorage) {
	if c, ok := cs.(*pebble.ContentStorage); ok {
		compMu.Lock()
		delete(compBy, c)
		compMu.Unlock()
	}
}

func installGate() {
	pebble.VerifGate = func(c *pebble.ContentStorage, point string) {
		switch point {
		case "prune.commit":
			compOf(c).commits.Add(1)
		case "compact.done":
			compOf(c).done.Add(1)
		}
		if f, ok := gateExtra.Load().(func(string)); ok && f != nil {
			f(point)
		}
	}
}

// waitCompactions waits until every background compaction started by this instance's prunes has ended.
func waitCompactions(cs storage.ContentStorage) {
	c, ok := cs.(*pebble.ContentStorage)
	if !ok || c == nil {
		return
	}
	cc := compOf(c)
	deadline := time.Now().Add(20 * time.Second)
	for cc.done.Load() < cc.commits.Load() && time.Now().Before(deadline) {
		time.Sleep(200 * time.Microsecond)
	}
}

type env struct {
	adapter string // "" = the pebble store itself; "history" = history.NewHistoryStorage(hybrid) on top of it
	ephDB   *cp.DB
	pst     storage.ContentStorage
	fs      vfs.FS
	dir     string
	db      *cp.DB
	cs      storage.ContentStorage
	node    [32]byte
	capM    uint64
}

func pebbleOpts(fs vfs.FS) *cp.Options {
	// automatic compactions are off (deterministic file-system operation counts for the crash mode); without them a
	// store that never prunes would stall at pebble's L0 stop-writes threshold and hang the driver instead of being judged
	return &cp.Options{FS: fs, DisableAutomaticCompactions: true, MemTableSize: 1 << 20, L0StopWritesThreshold: 1 << 30,
		Cache: sharedCache, Logger: quietLogger{}}
}

var sharedCache = cp.NewCache(8 << 20)

type quietLogger struct{}

func (quietLogger) Infof(string, ...interface{})      {}
func (quietLogger) Errorf(string, ...interface{})     {}
func (quietLogger) Fatalf(f string, a ...interface{}) { panic(fmt.Sprintf(f, a...)) }

func (e *env) open() error {
	db, err := cp.Open(e.dir, pebbleOpts(e.fs))
	if err != nil {
		return err
	}
	e.db = db
	cs, err := pebble.NewStorage(storage.PortalStorageConfig{StorageCapacityMB: e.capM, NetworkName: "verif", NodeId: e.node}, db)
	if err != nil {
		db.Close()
		e.db = nil
		return err
	}
	e.cs, e.pst = cs, cs
	if e.adapter == "history" {
		if e.ephDB == nil {
			edb, err := cp.Open("eph", pebbleOpts(vfs.NewMem()))
			if err != nil {
				return err
			}
			e.ephDB = edb
		}
		hs, err := history.NewHistoryStorage(cs, history.NewEphemeralStorage(storage.PortalStorageConfig{NetworkName: "verif"}, e.ephDB))
		if err != nil {
			return err
		}
		e.cs = hs
	}
	return nil
}

// keyFor gives the content key handed to the store next to the id: the pebble store ignores it, the history
// adapter routes on its first byte (every selector but the ephemeral OFFER type 0x05 - the block types, the ephemeral
// find-content type 0x04, unknown ones - must reach the same store, for Put and for Get alike).
func (e *env) keyFor(id []byte) []byte {
	if e.adapter != "history" {
		return nil
	}
	return append([]byte{[]byte{0, 1, 2, 3, 4, 6, 0xff}[id[7]%7]}, id...)
}

func (e *env) close() {
	if e.db != nil {
		waitCompactions(e.inner())
		forget(e.inner())
		e.db.Close()
		e.db = nil
	}
}

// inner is the pebble store below an adapter (compaction bookkeeping is keyed by it)
func (e *env) inner() storage.ContentStorage {
	if e.pst != nil {
		return e.pst
	}
	return e.cs
}

func scan(db *cp.DB) (items []item, rec int, bytesHeld int) {
	rec = -1
	it, err := db.NewIter(&cp.IterOptions{})
	if err != nil {
		panic(err)
	}
	defer it.Close()
	items = []item{}
	for it.First(); it.Valid(); it.Next() {
		if bytes.Equal(it.Key(), storage.SizeKey) {
			if len(it.Value()) == 8 {
				rec = int(binary.BigEndian.Uint64(it.Value()))
			} else {
				rec = -2
			}
			continue
		}
		items = append(items, item{tracelog.Ints(it.Key()), len(it.Key()) + len(it.Value()), common.Tag(it.Value())})
		bytesHeld += len(it.Key()) + len(it.Value())
	}
	return
}

func radiusBytes(cs storage.ContentStorage) []int {
	rb := cs.Radius().Bytes32()
	return tracelog.Ints(rb[:])
}

// ---- id pools ------------------------------------------------------------------------------------

// mkPool builds a pool of content ids around a node id: SHA-256-like random ids, ids whose distance is
// dominated by the first byte only or by the last byte only (these separate the big-endian from the
// little-endian reading), and pairs that differ in a single bit.
func mkPool(rng *rand.Rand, node [32]byte, n int, style int) [][]byte {
	pool := make([][]byte, 0, n)
	add := func(dist []byte) {
		id := make([]byte, 32)
		allZero := true
		for i := range id {
			id[i] = dist[i] ^ node[i]
			if dist[i] != 0 {
				allZero = false
			}
		}
		if allZero { // id == node id is outside the property's domain (key collides with the size record)
			return
		}
		for _, p := range pool {
			if bytes.Equal(p, id) {
				return
			}
		}
		pool = append(pool, id)
	}
	for len(pool) < n {
		d := make([]byte, 32)
		switch k := rng.Intn(10); {
		case style == 0 || k < 4: // uniform
			rng.Read(d)
		case k < 6: // high byte only
			d[0] = byte(1 + rng.Intn(255))
		case k < 8: // low byte only
			d[31] = byte(1 + rng.Intn(255))
		case k < 9: // high and low byte
			d[0] = byte(rng.Intn(256))
			d[31] = byte(1 + rng.Intn(255))
		default: // single-bit neighbour of an existing id
			if len(pool) == 0 {
				rng.Read(d)
			} else {
				p := pool[rng.Intn(len(pool))]
				for i := range d {
					d[i] = p[i] ^ node[i]
				}
				bit := []int{0, 7, 255, 248, rng.Intn(256)}[rng.Intn(5)]
				d[bit/8] ^= 1 << (7 - uint(bit%8))
			}
		}
		add(d)
	}
	return pool
}

var sizeClasses = []int{0, 1, 31, 1000, 20000, 49000, 49968, 49969, 60000, 250000}

func mkVal(rng *rand.Rand, n int) []byte {
	v := make([]byte, n)
	rng.Read(v)
	return v
}

// handed tracks every slice Get ever returned, with a private copy taken at return time.
type handed struct {
	got  [][]byte
	want [][]byte
}

func (h *handed) add(v []byte) {
	h.got = append(h.got, v)
	h.want = append(h.want, append([]byte(nil), v...))
}
func (h *handed) changed() int {
	n := 0
	for i := range h.got {
		if !bytes.Equal(h.got[i], h.want[i]) {
			n++
		}
	}
	return n
}

func putRes(err error) string {
	switch {
	case err == nil:
		return "ok"
	case errors.Is(err, storage.ErrInsufficientRadius):
		return "radius"
	default:
		return "err"
	}
}

// ---- sequential histories ------------------------------------------------------------------------

func runSeq(w *tracelog.Writer, seed int64, traces, ops int, capM uint64, disk bool) error {
	for t := 0; t < traces; t++ {
		rng := common.Rng(seed*1000003 + int64(t))
		e := &env{capM: capM}
		if t%5 == 4 && capM == 1 {
			e.capM = 2
		}
		rng.Read(e.node[:])
		if t%3 == 1 {
			e.adapter = "history"
		}
		var tmp string
		if disk {
			var err error
			tmp, err = os.MkdirTemp("", "vstore")
			if err != nil {
				return err
			}
			e.fs, e.dir = vfs.Default, tmp
		} else {
			e.fs, e.dir = vfs.NewMem(), "db"
		}
		if err := e.open(); err != nil {
			return err
		}
		capB := int(e.capM) * 1000000
		w.Emit(map[string]any{"ev": "init", "t": t, "node": tracelog.Ints(e.node[:]), "cap": capB})
		pool := mkPool(rng, e.node, 24+rng.Intn(30), t%3)
		small := t%4 == 0 // traces whose items all stay <= 5% of the capacity (WithinCapacity antecedent)
		h := &handed{}
		// scripted prefix (every 7th trace): a radius that has already shrunk, then prunes that delete everything they scan.
		// Distances are byte palindromes (byte 0 = byte 31), so the big- and little-endian readings coincide.
		type scripted struct {
			v, n int
		}
		var script []scripted
		if t%7 == 6 && e.capM == 1 {
			palin := func(v int) []byte {
				id := make([]byte, 32)
				copy(id, e.node[:])
				id[0] ^= byte(v)
				id[31] ^= byte(v)
				return id
			}
			pool = nil
			for v := 1; v <= 120; v++ {
				pool = append(pool, palin(v))
			}
			script = append(script, scripted{1, 600000})
			for v := 100; v >= 86; v-- {
				script = append(script, scripted{v, 40000})
			}
			for i := 0; i < 9; i++ {
				script = append(script, scripted{1, 600000})
			}
			script = append(script, scripted{2, 1000}, scripted{90, 1000})
		}
		// scripted prefix (traces 3, 10, 17, ...): the usage figure EXACTLY at 95 % of the capacity when the store is reopened (the
		// radius is re-derived only ABOVE it), then one byte more
		if t%7 == 3 && e.capM == 1 {
			script = append(script, scripted{1, 949968 - 32}, scripted{1, -2}, scripted{2, 0}, scripted{1, -2}, scripted{3, 1}, scripted{1, -2})
		}
		for step := 0; step < ops; step++ {
			id := pool[rng.Intn(len(pool))]
			k := rng.Intn(20)
			forced := -1
			if step < len(script) {
				id, forced, k = pool[script[step].v-1], script[step].n, 10
				if forced == -2 {
					forced, k = -1, 4 // a scripted reopen
				}
			}
			switch {
			case k < 4:
				v, err := e.cs.Get(e.keyFor(id), id)
				ev := map[string]any{"ev": "get", "t": t, "id": tracelog.Ints(id)}
				if err == nil {
					ev["res"], ev["len"], ev["tag"] = "found", 32+len(v), common.Tag(v)
					h.add(v)
				} else if errors.Is(err, storage.ErrContentNotFound) {
					ev["res"], ev["len"], ev["tag"] = "notfound", 0, 0
				} else {
					ev["res"], ev["len"], ev["tag"] = "err", 0, 0
				}
				ev["changed"] = h.changed()
				w.Emit(ev)
			case k < 5:
				e.close()
				if err := e.open(); err != nil {
					w.Emit(map[string]any{"ev": "reopen", "t": t, "res": "err", "snap": []item{}, "sizeRec": -1, "radius": tracelog.Ints(make([]byte, 32)), "changed": 0})
					return nil
				}
				s, rec, _ := scan(e.db)
				w.Emit(map[string]any{"ev": "reopen", "t": t, "res": "ok", "snap": s, "sizeRec": rec, "radius": radiusBytes(e.cs), "changed": h.changed()})
			default:
				n := sizeClasses[rng.Intn(len(sizeClasses))]
				if forced >= 0 {
					n = forced
				} else if small {
					n = []int{0, 1, 31, 1000, 20000, 49000, 49968}[rng.Intn(7)] * int(e.capM)
				} else if t%7 == 5 { // big items: prunes that delete everything they scan (no retained item fixes the new radius)
					n = []int{300000, 600000, 995000, 49000, 20000}[rng.Intn(5)] * int(e.capM)
				} else if rng.Intn(40) == 0 {
					n = capB + 1000
				}
				v := mkVal(rng, n)
				err := e.cs.Put(e.keyFor(id), id, v)
				s, rec, _ := scan(e.db)
				w.Emit(map[string]any{"ev": "put", "t": t, "id": tracelog.Ints(id), "len": 32 + n, "tag": common.Tag(v),
					"res": putRes(err), "snap": s, "sizeRec": rec, "radius": radiusBytes(e.cs), "changed": h.changed()})
			}
		}
		e.close()
		if tmp != "" {
			os.RemoveAll(tmp)
		}
	}
	if capM == 1 && !disk {
		return runBulk(w, seed, traces)
	}
	return nil
}

// runBulk fills a 1 MB store with about 25 000 TINY items (values of 0..18 bytes), so that the farthest 5 % of the capacity
// is more than a thousand items, and measures the bytes held right before and right after every put near the capacity
// (sums only - a snapshot of 25 000 items per event is beyond the judge): the put that crosses the capacity must free
// 5 % of it in the same call however many items that takes.
func runBulk(w *tracelog.Writer, seed int64, t int) error {
	rng := common.Rng(seed*1000003 + 777)
	e := &env{capM: 1}
	rng.Read(e.node[:])
	e.fs, e.dir = vfs.NewMem(), "db"
	if err := e.open(); err != nil {
		return err
	}
	defer e.close()
	capB := 1000000
	w.Emit(map[string]any{"ev": "init", "t": t, "node": tracelog.Ints(e.node[:]), "cap": capB})
	sums := func() (count, held, rec int) {
		rec = -1
		it, err := e.db.NewIter(&cp.IterOptions{})
		if err != nil {
			panic(err)
		}
		defer it.Close()
		for it.First(); it.Valid(); it.Next() {
			if bytes.Equal(it.Key(), storage.SizeKey) {
				if len(it.Value()) == 8 {
					rec = int(binary.BigEndian.Uint64(it.Value()))
				}
				continue
			}
			count++
			held += len(it.Key()) + len(it.Value())
		}
		return
	}
	sum, crossings := 0, 0
	for i := 0; i < 60000 && crossings < 2; i++ {
		id := make([]byte, 32)
		rng.Read(id)
		n := rng.Intn(19)
		v := mkVal(rng, n)
		near := sum+32+n > capB-1500
		pre, prec := 0, 0
		if near {
			prec, pre, _ = sums()
		}
		err := e.cs.Put(nil, id, v)
		if !near {
			if err == nil {
				sum += 32 + n
			}
			continue
		}
		postc, post, rec := sums()
		w.Emit(map[string]any{"ev": "bulk", "t": t, "len": 32 + n, "res": putRes(err), "pre": pre, "precount": prec, "post": post, "postcount": postc, "sizeRec": rec})
		if err == nil && pre+32+n > capB {
			crossings++
		}
		sum = post
	}
	return nil
}

// ---- buffer recycling (C04: bytes handed back stay unchanged) -------------------------------------

// runRecycle issues gets, keeps the returned slices, then pushes a lot of unrelated traffic (puts, gets,
// flushes, compactions) through the same store and re-compares every slice after each burst.
func runRecycle(w *tracelog.Writer, seed int64, rounds int, trafficMB int) error {
	rng := common.Rng(seed)
	tmp, err := os.MkdirTemp("", "vstore")
	if err != nil {
		return err
	}
	defer os.RemoveAll(tmp)
	e := &env{capM: 1000}
	rng.Read(e.node[:])
	// the repository's own constructor, so the cache / memtable configuration is the production one
	db, err := pebble.NewDB(tmp, 16, 16, "verif")
	if err != nil {
		return err
	}
	e.db = db
	cs, err := pebble.NewStorage(storage.PortalStorageConfig{StorageCapacityMB: e.capM, NetworkName: "verif", NodeId: e.node}, db)
	if err != nil {
		return err
	}
	e.cs = cs
	w.Emit(map[string]any{"ev": "init", "t": 0, "node": tracelog.Ints(e.node[:]), "cap": int(e.capM) * 1000000})
	h := &handed{}
	mkid := func(i int) []byte { x := sha256.Sum256([]byte(fmt.Sprintf("id-%d-%d", seed, i))); return x[:] }
	next := 0
	for r := 0; r < rounds; r++ {
		base := next
		for i := 0; i < 100; i++ {
			if err := cs.Put(nil, mkid(next), mkVal(rng, 2000+rng.Intn(30000))); err != nil {
				return err
			}
			next++
		}
		// a few values of a mebibyte and more (a read path that treats large values differently)
		bigs := []int{}
		for i := 0; i < 3; i++ {
			if err := cs.Put(nil, mkid(next), mkVal(rng, 1<<20+rng.Intn(1<<19))); err != nil {
				return err
			}
			bigs = append(bigs, next)
			next++
		}
		if r%2 == 0 {
			db.Flush()
		}
		for i := 0; i < 100; i++ {
			v, err := cs.Get(nil, mkid(base+i))
			if err == nil {
				h.add(v)
			}
		}
		for _, b := range bigs {
			if v, err := cs.Get(nil, mkid(b)); err == nil {
				h.add(v)
			}
			// the same id is written again with other bytes of the same size class: the slice handed out must not follow
			if err := cs.Put(nil, mkid(b), mkVal(rng, 1<<20+rng.Intn(1<<19))); err != nil {
				return err
			}
		}
		// unrelated traffic
		for b := 0; b < trafficMB*1000000; {
			v := mkVal(rng, 30000+rng.Intn(30000))
			if err := cs.Put(nil, mkid(next), v); err != nil {
				return err
			}
			if g, err := cs.Get(nil, mkid(rng.Intn(next+1))); err == nil {
				_ = g
			}
			next++
			b += len(v)
		}
		db.Flush()
		if r%2 == 1 {
			db.Compact(make([]byte, 32), bytes.Repeat([]byte{0xff}, 32), true)
		}
		w.Emit(map[string]any{"ev": "recheck", "t": 0, "handed": len(h.got), "changed": h.changed()})
	}
	e.close()
	return nil
}

// ---- concurrent puts (C05 quiescent-point invariants) ---------------------------------------------

func runConc(w *tracelog.Writer, seed int64, rounds, gor, per int) error {
	for r := 0; r < rounds; r++ {
		rng := common.Rng(seed*7919 + int64(r))
		e := &env{capM: 1, fs: vfs.NewMem(), dir: "db"}
		rng.Read(e.node[:])
		if err := e.open(); err != nil {
			return err
		}
		w.Emit(map[string]any{"ev": "init", "t": r, "node": tracelog.Ints(e.node[:]), "cap": 1000000})
		g := gor
		if r%3 == 1 {
			g = 2 + rng.Intn(4)
		}
		for phase := 0; phase < 3; phase++ {
			// every goroutine gets its own ids and values, prepared up front (distinguishable producers)
			type op struct {
				id []byte
				v  []byte
			}
			plan := make([][]op, g)
			issued := []item{}
			for i := range plan {
				for j := 0; j < per; j++ {
					d := make([]byte, 32)
					rng.Read(d)
					n := []int{0, 100, 5000, 20000, 49968}[rng.Intn(5)]
					if r%2 == 0 {
						n = []int{100, 300, 1000}[rng.Intn(3)] // many small items: no prune, pure counter race
					}
					o := op{d, mkVal(rng, n)}
					plan[i] = append(plan[i], o)
					dist := make([]byte, 32)
					for x := range dist {
						dist[x] = d[x] ^ e.node[x]
					}
					issued = append(issued, item{tracelog.Ints(dist), 32 + n, common.Tag(o.v)})
				}
			}
			var wg sync.WaitGroup
			var errs atomic.Int64
			start := make(chan struct{})
			for i := 0; i < g; i++ {
				wg.Add(1)
				go func(ops []op) {
					defer wg.Done()
					<-start
					for _, o := range ops {
						if err := e.cs.Put(nil, o.id, o.v); err != nil && !errors.Is(err, storage.ErrInsufficientRadius) {
							errs.Add(1)
						}
					}
				}(plan[i])
			}
			close(start)
			wg.Wait()
			s, rec, _ := scan(e.db)
			w.Emit(map[string]any{"ev": "quiescent", "t": r, "procs": g, "issued": issued, "snap": s, "sizeRec": rec,
				"radius": radiusBytes(e.cs), "errs": int(errs.Load())})
		}
		e.close()
	}
	return nil
}

// ---- entry point ---------------------------------------------------------------------------------

func Main(args []string) error {
	fs := flag.NewFlagSet("store", flag.ContinueOnError)
	mode := fs.String("mode", "seq", "seq|recycle|conc|crash|gated|torn")
	out := fs.String("out", "trace.ndjson", "trace output")
	in := fs.String("in", "", "generated cases (ndjson)")
	seed := fs.Int64("seed", 1, "seed")
	traces := fs.Int("traces", 10, "number of traces / rounds")
	ops := fs.Int("ops", 150, "operations per trace")
	capM := fs.Uint64("cap", 1, "capacity in MB")
	disk := fs.Bool("disk", false, "use the real file system instead of pebble's MemFS")
	gor := fs.Int("goroutines", 16, "goroutines (conc)")
	per := fs.Int("per", 20, "puts per goroutine and phase (conc)")
	traffic := fs.Int("traffic", 20, "MB of unrelated traffic per round (recycle)")
	stride := fs.Int("stride", 7, "crash-point stride (crash)")
	only := fs.Int("only", -1, "internal: run only this history (crash)")
	window := fs.Int("window", 500, "bytes at the end of the log cut one by one (torn)")
	if err := fs.Parse(args); err != nil {
		return err
	}
	installGate()
	w, err := tracelog.Create(*out)
	if err != nil {
		return err
	}
	defer w.Close()
	switch *mode {
	case "seq":
		return runSeq(w, *seed, *traces, *ops, *capM, *disk)
	case "recycle":
		return runRecycle(w, *seed, *traces, *traffic)
	case "conc":
		return runConc(w, *seed, *traces, *gor, *per)
	case "crash":
		return runCrash(w, *out, *seed, *traces, *ops, *stride, *only)
	case "gated":
		return runGated(w, *in, *seed)
	case "torn":
		return runTorn(w, *seed, *traces, *ops, *window)
	}
	return fmt.Errorf("unknown mode %q", *mode)
}
