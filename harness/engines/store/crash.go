package store

import (
	"bufio"
	"bytes"
	"encoding/json"
	"errors"
	"fmt"
	"os"
	"os/exec"
	"sync"
	"sync/atomic"
	"time"

	cp "github.com/cockroachdb/pebble"
	"github.com/cockroachdb/pebble/vfs"
	"github.com/cockroachdb/pebble/vfs/errorfs"
	"github.com/zen-eth/shisui/storage"
	"github.com/zen-eth/shisui/storage/pebble"

	"verifharness/common"
	"verifharness/tracelog"
)

// ---- crash points (C17) ---------------------------------------------------------------------------

type histOp struct {
	id []byte
	v  []byte
}

// mkHistory: with distinct = false ids come from a pool of 30 (overwrites; the usage figure then over-counts, which
// hides a lost update of it); with distinct = true every put has its own id, so the usage figure equals the bytes
// held exactly and a size record that misses one item is visible (seed C17-3).
func mkHistory(seed int64, n int, distinct bool) (node [32]byte, ops []histOp) {
	rng := common.Rng(seed)
	rng.Read(node[:])
	np := 30
	if distinct {
		np = n
	}
	pool := mkPool(rng, node, np, int(seed%3))
	for i := 0; i < n; i++ {
		sz := []int{0, 1000, 20000, 30000, 49968, 49968, 60000}[rng.Intn(7)]
		id := pool[rng.Intn(len(pool))]
		if distinct {
			id = pool[i]
			sz = []int{0, 1000, 20000, 30000, 49968, 49968, 49968}[rng.Intn(7)]
		}
		ops = append(ops, histOp{id, mkVal(rng, sz)})
	}
	return
}

const freezeAtEnd = -1 // runHistory: copy the file system at the moment the last put returns

type crashOut struct {
	fsOps   int64
	endFS   vfs.FS // freezeAtEnd: the file system as it was when the last put returned
	fs      vfs.FS
	issued  []item // every put that was started before the run stopped
	crashed bool
}

// runHistory executes the put history on a strict in-memory file system. At file-system operation
// number crashAt the process "dies": that operation and every later one (from any goroutine, background
// compactions included) blocks, so the file system stays exactly as it was at that moment. keep=true
// then copies it as it is (all unsynced writes survive); keep=false first discards everything not yet
// synced. The copy is what the reopen sees. With keep=true the frozen instance is released afterwards and
// shut down normally; with keep=false it stays frozen (its goroutines are abandoned).
func runHistory(node [32]byte, ops []histOp, crashAt int64, keep bool) (res crashOut, err error) {
	res.issued = []item{}
	mem := vfs.NewStrictMem()
	var n atomic.Int64
	hitCh := make(chan struct{})
	unfreeze := make(chan struct{})
	var endFrozen atomic.Bool
	endRelease := make(chan struct{})
	inj := errorfs.InjectorFunc(func(op errorfs.Op, path string) error {
		k := n.Add(1)
		if crashAt > 0 && k >= crashAt {
			if k == crashAt {
				close(hitCh)
			}
			<-unfreeze
		}
		if endFrozen.Load() {
			<-endRelease
		}
		return nil
	})
	fs := errorfs.Wrap(mem, inj)
	var mu sync.Mutex
	var hit atomic.Bool
	done := make(chan error, 1)
	var db *cp.DB
	go func() {
		var err error
		db, err = cp.Open("db", pebbleOpts(fs))
		if err != nil {
			done <- err
			return
		}
		cs, err := pebble.NewStorage(storage.PortalStorageConfig{StorageCapacityMB: 1, NetworkName: "verif", NodeId: node}, db)
		if err != nil {
			done <- err
			return
		}
		for _, o := range ops {
			if hit.Load() {
				break
			}
			dist := make([]byte, 32)
			for i := range dist {
				dist[i] = o.id[i] ^ node[i]
			}
			mu.Lock()
			res.issued = append(res.issued, item{tracelog.Ints(dist), 32 + len(o.v), common.Tag(o.v)})
			mu.Unlock()
			if err := cs.Put(nil, o.id, o.v); err != nil && !errors.Is(err, storage.ErrInsufficientRadius) {
				done <- fmt.Errorf("put during history: %w", err)
				return
			}
		}
		if crashAt == freezeAtEnd {
			// the process dies right after the last put returned: every later file-system operation (the compaction that
			// a prune starts in the background) blocks while the file system is copied with all written data kept
			endFrozen.Store(true)
			time.Sleep(2 * time.Millisecond)
			clone := vfs.NewMem()
			_, cerr := vfs.Clone(mem, clone, "db", "db")
			res.endFS = clone
			endFrozen.Store(false)
			close(endRelease)
			if cerr != nil {
				done <- cerr
				return
			}
		}
		waitCompactions(cs)
		forget(cs)
		db.Close() // returns "leaked iterators": prune never closes its iterator (noted in DESIGN.md, not a listed property)
		done <- nil
	}()
	select {
	case err := <-done:
		// the crash point lies beyond this run's operations (background compaction makes the count vary)
		res.fsOps = n.Load()
		res.fs = mem
		return res, err
	case <-hitCh:
	}
	hit.Store(true)
	time.Sleep(3 * time.Millisecond) // operations that passed the gate before the crash point complete
	res.crashed = true
	res.fsOps = n.Load()
	clone := vfs.NewMem()
	if keep {
		if _, err := vfs.Clone(mem, clone, "db", "db"); err != nil {
			return res, err
		}
		close(unfreeze)
		if err := <-done; err != nil {
			return res, fmt.Errorf("history after release: %w", err)
		}
	} else {
		mem.ResetToSyncedState()
		if _, err := vfs.Clone(mem, clone, "db", "db"); err != nil {
			return res, err
		}
		// the frozen instance is abandoned
	}
	mu.Lock()
	res.issued = append([]item{}, res.issued...)
	mu.Unlock()
	res.fs = clone
	return res, nil
}

// runCrash: every history runs in its own child process (a crash experiment that drops unsynced data abandons a
// frozen pebble instance; the memory goes back to the system only when the process ends).
func runCrash(w *tracelog.Writer, out string, seed int64, histories, nops, stride, only int) error {
	if only < 0 && histories > 1 {
		par := 4
		sem := make(chan struct{}, par)
		var wg sync.WaitGroup
		errs := make([]error, histories)
		for h := 0; h < histories; h++ {
			wg.Add(1)
			go func(h int) {
				defer wg.Done()
				sem <- struct{}{}
				defer func() { <-sem }()
				cmd := exec.Command(os.Args[0], "store", "--mode", "crash", "--seed", fmt.Sprint(seed), "--traces", fmt.Sprint(histories), "--ops", fmt.Sprint(nops),
					"--stride", fmt.Sprint(stride), "--only", fmt.Sprint(h), "--out", fmt.Sprintf("%s.%d", out, h))
				var buf bytes.Buffer
				cmd.Stdout, cmd.Stderr = &buf, &buf
				if err := cmd.Run(); err != nil {
					errs[h] = fmt.Errorf("crash child %d: %v\n%s", h, err, buf.String())
				}
			}(h)
		}
		wg.Wait()
		for h := 0; h < histories; h++ {
			if errs[h] != nil {
				return errs[h]
			}
			f, err := os.Open(fmt.Sprintf("%s.%d", out, h))
			if err != nil {
				return err
			}
			sc := bufio.NewScanner(f)
			sc.Buffer(make([]byte, 1<<20), 1<<28)
			for sc.Scan() {
				var m map[string]any
				if err := json.Unmarshal(sc.Bytes(), &m); err != nil {
					f.Close()
					return err
				}
				delete(m, "seq")
				w.Emit(m)
			}
			f.Close()
			os.Remove(fmt.Sprintf("%s.%d", out, h))
		}
		return nil
	}
	exp := 0
	for hI := 0; hI < histories; hI++ {
		if only >= 0 && hI != only {
			continue
		}
		exp = hI * 100000
		hseed := seed*104729 + int64(hI)
		node, ops := mkHistory(hseed, nops, hI%2 == 1)
		base, err := runHistory(node, ops, 0, false)
		if err != nil {
			return err
		}
		rng := common.Rng(hseed + 17)
		for k := int64(1 + rng.Intn(stride)); k <= base.fsOps+int64(stride); k += int64(stride) {
			for _, keep := range []bool{false, true} {
				r, err := runHistory(node, ops, k, keep)
				if err != nil {
					return err
				}
				if !r.crashed {
					continue
				}
				exp++
				w.Emit(map[string]any{"ev": "init", "t": exp, "node": tracelog.Ints(node[:]), "cap": 1000000})
				w.Emit(map[string]any{"ev": "crashrun", "t": exp, "history": hI, "k": int(k), "keep": keep, "issued": r.issued})
				reopenAndProbe(w, exp, node, r.fs, rng, ops)
			}
		}
	}
	return nil
}

// reopenAndProbe opens the surviving file system through pebble and the real NewStorage, logs the
// state before and after NewStorage, then continues with a few puts and gets.
func reopenAndProbe(w *tracelog.Writer, t int, node [32]byte, fs vfs.FS, rng interface{ Intn(int) int }, ops []histOp) {
	ev := map[string]any{"ev": "open", "t": t, "res": "ok", "pre": []item{}, "preRec": -1, "snap": []item{}, "sizeRec": -1,
		"radius": tracelog.Ints(make([]byte, 32)), "detail": "", "same": false}
	var db *cp.DB
	var cs storage.ContentStorage
	func() {
		defer func() {
			if r := recover(); r != nil {
				ev["res"], ev["detail"] = "panic", fmt.Sprint(r)
			}
		}()
		var err error
		db, err = cp.Open("db", pebbleOpts(fs))
		if err != nil {
			ev["res"], ev["detail"] = "dberr", err.Error()
			return
		}
		pre, preRec, _ := scan(db)
		ev["pre"], ev["preRec"] = pre, preRec
		cs, err = pebble.NewStorage(storage.PortalStorageConfig{StorageCapacityMB: 1, NetworkName: "verif", NodeId: node}, db)
		if err != nil {
			ev["res"], ev["detail"] = "err", err.Error()
			return
		}
		s, rec, _ := scan(db)
		ev["snap"], ev["sizeRec"], ev["radius"] = s, rec, radiusBytes(cs)
	}()
	w.Emit(ev)
	if ev["res"] != "ok" {
		if db != nil {
			waitCompactions(cs)
			db.Close()
		}
		return
	}
	// every id of the history is read back, then a few more puts
	seen := map[string]bool{}
	for _, o := range ops {
		if seen[string(o.id)] {
			continue
		}
		seen[string(o.id)] = true
		v, err := cs.Get(nil, o.id)
		g := map[string]any{"ev": "get", "t": t, "id": tracelog.Ints(o.id), "changed": 0}
		if err == nil {
			g["res"], g["len"], g["tag"] = "found", 32+len(v), common.Tag(v)
		} else if errors.Is(err, storage.ErrContentNotFound) {
			g["res"], g["len"], g["tag"] = "notfound", 0, 0
		} else {
			g["res"], g["len"], g["tag"] = "err", 0, 0
		}
		w.Emit(g)
	}
	for i := 0; i < 3; i++ {
		o := ops[rng.Intn(len(ops))]
		err := cs.Put(nil, o.id, o.v)
		s, rec, _ := scan(db)
		w.Emit(map[string]any{"ev": "put", "t": t, "id": tracelog.Ints(o.id), "len": 32 + len(o.v), "tag": common.Tag(o.v),
			"res": putRes(err), "snap": s, "sizeRec": rec, "radius": radiusBytes(cs), "changed": 0})
	}
	waitCompactions(cs)
	forget(cs)
	db.Close()
}

// ---- gated replay of TLC schedules (C05 concurrency) ----------------------------------------------

// A gated case: the store is pre-filled sequentially, then processes run their puts under a schedule.
//
//	{"node":[..]?, "prefill":[{"hi":h,"lo":l,"size":s}], "procs":[[{"hi","lo","size"}...]...], "schedule":[0,1,1,0,...]}
//
// Distances are abstract two-digit numbers: digit hi goes to byte 0 and digit lo to byte 30 of the 32-byte
// distance, which preserves both the big-endian and the little-endian order; "fill" marks a filler item
// at distance 1 (byte 31) that is nearer than all of them and brings the store close to its capacity. size is in units of 50 000
// bytes (5 % of the 1 MB capacity), key included.
type absPut struct {
	Hi   int  `json:"hi"`
	Lo   int  `json:"lo"`
	Size int  `json:"size"`
	Fill bool `json:"fill"`
	// Pal > 0: a palindromic distance (byte 0 = byte 31 = Pal): the big- and little-endian readings coincide, so the listed
	// finding about the store's little-endian decoding (F-C06-1) cannot mask what is observed
	Pal int `json:"pal"`
}
type gatedCase struct {
	Prefill  []absPut   `json:"prefill"`
	Procs    [][]absPut `json:"procs"`
	Schedule []int      `json:"schedule"`
}

const unit = 50000

func concPut(node [32]byte, a absPut, salt int) (id, v []byte) {
	d := make([]byte, 32)
	d[0], d[30] = byte(a.Hi), byte(a.Lo)
	if a.Fill {
		d[31] = 1 // nearer than every abstract distance in the big-endian (pruning) order
	}
	if a.Pal > 0 {
		d[0], d[30], d[31] = byte(a.Pal), 0, byte(a.Pal)
	}
	id = make([]byte, 32)
	for i := range id {
		id[i] = d[i] ^ node[i]
	}
	n := a.Size*unit - 32
	if n < 0 {
		n = 0
	}
	v = make([]byte, n)
	for i := range v {
		v[i] = byte(salt + i)
	}
	return
}

// builtinGated: schedules that are not TLC counterexamples of the lock-free design but of ONE lock moved (the radius check
// before the put lock). Process 0 puts a mid-distance item that will cross the capacity and is parked at the gate after its
// own check (it holds the put lock there); process 1, with a far item, is then let through the gate in front of the check
// (code >= 100: wait for a process to arrive at its gate, do not release it): with the lock around the check it never gets
// that far and the two puts run one after the other; without it, it checks against the old radius, queues on the lock, and
// commits after process 0's prune has lowered the radius.
func builtinGated() []gatedCase {
	var out []gatedCase
	for _, far := range []int{9, 200} {
		for _, mid := range []int{5, 100} {
			if mid >= far {
				continue
			}
			out = append(out, gatedCase{Prefill: []absPut{{Pal: 1, Size: 18}}, Procs: [][]absPut{{{Pal: mid, Size: 3}}, {{Pal: far, Size: 1}}},
				Schedule: []int{100, 0, 101, 1, 0, 0, 0, 0, 0, 0, 0, 0, 0}})
		}
	}
	return out
}

func runGated(w *tracelog.Writer, in string, seed int64) error {
	if in == "builtin" {
		for t, c := range builtinGated() {
			if err := runOneGated(w, t, seed+int64(t), c); err != nil {
				return err
			}
		}
		return nil
	}
	f, err := os.Open(in)
	if err != nil {
		return err
	}
	defer f.Close()
	sc := bufio.NewScanner(f)
	sc.Buffer(make([]byte, 1<<20), 1<<26)
	t := 0
	for sc.Scan() {
		if len(sc.Bytes()) == 0 {
			continue
		}
		var c gatedCase
		if err := json.Unmarshal(sc.Bytes(), &c); err != nil {
			return err
		}
		if err := runOneGated(w, t, seed+int64(t), c); err != nil {
			return err
		}
		t++
	}
	return sc.Err()
}

func runOneGated(w *tracelog.Writer, t int, seed int64, c gatedCase) error {
	rng := common.Rng(seed)
	e := &env{capM: 1, fs: vfs.NewMem(), dir: "db"}
	rng.Read(e.node[:])
	if err := e.open(); err != nil {
		return err
	}
	defer e.close()
	w.Emit(map[string]any{"ev": "init", "t": t, "node": tracelog.Ints(e.node[:]), "cap": 1000000})
	issued := []item{}
	note := func(id, v []byte) {
		dist := make([]byte, 32)
		for x := range dist {
			dist[x] = id[x] ^ e.node[x]
		}
		issued = append(issued, item{tracelog.Ints(dist), 32 + len(v), common.Tag(v)})
	}
	for i, a := range c.Prefill {
		id, v := concPut(e.node, a, i)
		note(id, v)
		if err := e.cs.Put(nil, id, v); err != nil {
			return fmt.Errorf("prefill put: %w", err)
		}
	}
	s0, rec0, _ := scan(e.db)
	w.Emit(map[string]any{"ev": "quiescent", "t": t, "procs": 1, "issued": issued, "snap": s0, "sizeRec": rec0,
		"radius": radiusBytes(e.cs), "errs": 0})
	issued = []item{}

	// controller
	type proc struct {
		goid    atomic.Int64
		arrive  chan string   // gate point reached (or "done")
		release chan struct{} // permission to pass the gate
	}
	procs := make([]*proc, len(c.Procs))
	cur := make([]item, len(c.Procs)) // the (last) item each process puts: distance and length, for the step events
	byGoid := sync.Map{}
	gateExtra.Store(func(point string) {
		if point == "compact.done" {
			return
		}
		if p, ok := byGoid.Load(common.Goid()); ok {
			pr := p.(*proc)
			pr.arrive <- point
			<-pr.release
		}
	})
	defer gateExtra.Store(func(string) {})
	var wg sync.WaitGroup
	for i := range c.Procs {
		pr := &proc{arrive: make(chan string), release: make(chan struct{})}
		procs[i] = pr
		plan := c.Procs[i]
		for j, a := range plan {
			id, v := concPut(e.node, a, 100*(i+1)+j)
			note(id, v)
		}
		cur[i] = issued[len(issued)-1]
		wg.Add(1)
		if i > 0 {
			time.Sleep(20 * time.Millisecond) // processes start in order (process 0 gets to its first gate first)
		}
		go func(i int) {
			defer wg.Done()
			byGoid.Store(common.Goid(), pr)
			for j, a := range plan {
				id, v := concPut(e.node, a, 100*(i+1)+j)
				err := e.cs.Put(nil, id, v)
				w.Emit(map[string]any{"ev": "g.ret", "t": t, "p": i, "res": putRes(err)})
			}
			byGoid.Delete(common.Goid())
			pr.arrive <- "done"
		}(i)
	}
	// at[i]: "" = not (yet) at a gate - running or blocked on a lock; "done"; else the gate it waits at
	at := make([]string, len(procs))
	poll := func(i int, d time.Duration) {
		if at[i] != "" {
			return
		}
		select {
		case at[i] = <-procs[i].arrive:
		case <-time.After(d):
		}
	}
	step := func(i int) bool {
		poll(i, 20*time.Millisecond)
		if at[i] == "done" || at[i] == "" {
			return false
		}
		w.Emit(map[string]any{"ev": "g.step", "t": t, "p": i, "point": at[i], "radius": radiusBytes(e.cs), "d": cur[i].K, "len": cur[i].Len, "judge": len(c.Procs[i]) == 1})
		at[i] = ""
		procs[i].release <- struct{}{}
		poll(i, 50*time.Millisecond) // a process that now blocks on a lock is picked up later
		return true
	}
	for _, i := range c.Schedule {
		if i >= 100 && i-100 < len(procs) {
			poll(i-100, 500*time.Millisecond) // wait for the process to arrive at its gate, leave it there
			continue
		}
		if i >= 0 && i < len(procs) {
			step(i)
		}
	}
	// drain: round-robin until every process has finished
	deadline := time.Now().Add(60 * time.Second)
	for {
		alldone := true
		for i := range procs {
			step(i)
			if at[i] != "done" {
				alldone = false
			}
		}
		if alldone {
			break
		}
		if time.Now().After(deadline) {
			return fmt.Errorf("gated replay: processes did not finish (goroutines blocked)")
		}
	}
	wg.Wait()
	s, rec, _ := scan(e.db)
	w.Emit(map[string]any{"ev": "quiescent", "t": t, "procs": len(procs), "issued": issued, "snap": s, "sizeRec": rec,
		"radius": radiusBytes(e.cs), "errs": 0})
	return nil
}

// ---- torn log tails (C17: death *during* a write) ----------------------------------------------------

// runTorn runs histories of small puts, freezes the process at a late file-system operation keeping all
// written data, and then cuts the newest write-ahead log at every byte offset of its last `window` bytes
// (a torn tail: the unsynced end of the log reached the disk only partly). Each cut is reopened through
// the real NewStorage. Records that belong together but are not written atomically show up here.
func runTorn(w *tracelog.Writer, seed int64, histories, nops, window int) error {
	exp := 0
	for hI := 0; hI < histories; hI++ {
		hseed := seed*15485863 + int64(hI)
		rng := common.Rng(hseed)
		var node [32]byte
		rng.Read(node[:])
		// distinct ids: without overwrites the persisted usage figure equals the bytes held exactly, so a
		// lost update of either is visible
		full := hI%2 == 1
		var ops []histOp
		if !full {
			pool := mkPool(rng, node, nops, int(hseed%3))
			for i := 0; i < nops; i++ {
				ops = append(ops, histOp{pool[i], mkVal(rng, []int{0, 1, 40, 100, 300, 700}[rng.Intn(6)])})
			}
		} else {
			// a store filled to its capacity with items of just under 5 %, then small puts: the put that crosses the capacity
			// prunes in the same call, so the end of the log is [item + usage figure][prune batch] (seed C17-3); up to two
			// more small puts follow
			pool := mkPool(rng, node, 64, int(hseed%3))
			total, i := 0, 0
			for ; total+49932 <= 1000000; i++ {
				ops = append(ops, histOp{pool[i], mkVal(rng, 49900)})
				total += 49932
			}
			crossed := false
			for extra := rng.Intn(3); i < len(pool) && (!crossed || extra > 0); i++ {
				if crossed {
					extra--
				}
				v := mkVal(rng, []int{40, 100, 300, 600}[rng.Intn(4)])
				ops = append(ops, histOp{pool[i], v})
				total += 32 + len(v)
				if total > 1000000 {
					crossed = true
				}
			}
		}
		crashAt := int64(0)
		if full {
			crashAt = freezeAtEnd
		}
		base, err := runHistory(node, ops, crashAt, false)
		if err != nil {
			return err
		}
		if full {
			base.fs = base.endFS
		}
		// the history ran to the end and the database was closed: its log holds every put; the process is
		// taken to have died with the tail of that log only partly on disk
		{
			r := base
			k := base.fsOps
			names, err := r.fs.List("db")
			if err != nil {
				return err
			}
			newest := ""
			for _, n := range names {
				if len(n) > 4 && n[len(n)-4:] == ".log" && n > newest {
					newest = n
				}
			}
			if newest == "" {
				continue
			}
			data, err := readAll(r.fs, "db/"+newest)
			if err != nil {
				return err
			}
			if len(data) == 0 {
				continue
			}
			exp++
			w.Emit(map[string]any{"ev": "init", "t": exp, "node": tracelog.Ints(node[:]), "cap": 1000000})
			w.Emit(map[string]any{"ev": "crashrun", "t": exp, "history": hI, "k": int(k), "keep": true, "issued": r.issued, "full": full})
			lo := len(data) - window
			if lo < 0 {
				lo = 0
			}
			for cut := lo; cut <= len(data); cut++ {
				c2 := vfs.NewMem()
				if _, err := vfs.Clone(r.fs, c2, "db", "db"); err != nil {
					return err
				}
				f, err := c2.Create("db/" + newest)
				if err != nil {
					return err
				}
				f.Write(data[:cut])
				f.Close()
				w.Emit(map[string]any{"ev": "reinit", "t": exp, "cut": cut, "of": len(data)})
				reopenLight(w, exp, node, c2)
			}
		}
	}
	return nil
}

func readAll(fs vfs.FS, name string) ([]byte, error) {
	f, err := fs.Open(name)
	if err != nil {
		return nil, err
	}
	defer f.Close()
	st, err := f.Stat()
	if err != nil {
		return nil, err
	}
	buf := make([]byte, st.Size())
	_, err = f.ReadAt(buf, 0)
	if err != nil && len(buf) > 0 && err.Error() != "EOF" {
		return nil, err
	}
	return buf, nil
}

// reopenLight is reopenAndProbe without the follow-up operations.
func reopenLight(w *tracelog.Writer, t int, node [32]byte, fs vfs.FS) {
	ev := map[string]any{"ev": "open", "t": t, "res": "ok", "pre": []item{}, "preRec": -1, "snap": []item{}, "sizeRec": -1,
		"radius": tracelog.Ints(make([]byte, 32)), "detail": "", "same": false}
	var db *cp.DB
	var cs storage.ContentStorage
	func() {
		defer func() {
			if r := recover(); r != nil {
				ev["res"], ev["detail"] = "panic", fmt.Sprint(r)
			}
		}()
		var err error
		db, err = cp.Open("db", pebbleOpts(fs))
		if err != nil {
			ev["res"], ev["detail"] = "dberr", err.Error()
			return
		}
		pre, preRec, _ := scan(db)
		ev["pre"], ev["preRec"] = pre, preRec
		cs, err = pebble.NewStorage(storage.PortalStorageConfig{StorageCapacityMB: 1, NetworkName: "verif", NodeId: node}, db)
		if err != nil {
			ev["res"], ev["detail"] = "err", err.Error()
			return
		}
		s, rec, _ := scan(db)
		ev["snap"], ev["sizeRec"], ev["radius"] = s, rec, radiusBytes(cs)
		if sameItems(s, ev["pre"].([]item)) { // keep the trace small: "same" = the key scan after NewStorage equals the one before
			ev["snap"], ev["same"] = []item{}, true
		}
	}()
	w.Emit(ev)
	if db != nil {
		waitCompactions(cs)
		forget(cs)
		db.Close()
	}
}

func sameItems(a, b []item) bool {
	if len(a) != len(b) {
		return false
	}
	for i := range a {
		if a[i].Len != b[i].Len || a[i].Tag != b[i].Tag || len(a[i].K) != len(b[i].K) {
			return false
		}
		for j := range a[i].K {
			if a[i].K[j] != b[i].K[j] {
				return false
			}
		}
	}
	return true
}
