// Package lightclient drives the real beacon.ConsensusLightClient (C12): it concretises abstract update
// sequences (from TLC's Gen_LightClient or from a seeded random driver) into real SSZ objects over synthetic
// 512-key BLS committees, calls the real Verify*/Apply* entry points and records, per update, independently
// computed FACTS about the delivered update (slots, participation, whether each Merkle branch holds, for which
// committees the aggregate signature is the valid one), the verify verdict and the store projection before and
// after, for the Trace_LightClient judge.
package lightclient

import (
	"crypto/sha256"
	"encoding/binary"
	"fmt"
	"math/big"
	"math/rand"

	blsu "github.com/protolambda/bls12-381-util"
	"github.com/protolambda/zrnt/eth2/beacon/common"
	"github.com/protolambda/zrnt/eth2/configs"
	"github.com/protolambda/ztyp/tree"
)

const (
	committeeSize  = 512
	slotsPerPeriod = 8192 // 32 slots * 256 epochs (beacon.CalcSyncPeriod)
	// generalized indices in the BeaconState (Altair .. Deneb), as stated by the consensus light-client
	// specification: finalized_checkpoint.root and next_sync_committee
	gindexFinalizedRoot = 105
	gindexNextCommittee = 55
)

var blsOrder, _ = new(big.Int).SetString("73eda753299d7d483339d80809a1d80553bda402fffe5bfeffffffff00000001", 16)

// ---- hashing / merkleisation (own implementation: the facts must not be computed by the code under test) ----

type root = [32]byte

func h2(a, b root) root {
	var buf [64]byte
	copy(buf[:32], a[:])
	copy(buf[32:], b[:])
	return sha256.Sum256(buf[:])
}

// merkleize folds a power-of-two number of chunks.
func merkleize(chunks []root) root {
	for len(chunks) > 1 {
		next := make([]root, len(chunks)/2)
		for i := range next {
			next[i] = h2(chunks[2*i], chunks[2*i+1])
		}
		chunks = next
	}
	return chunks[0]
}

func u64chunk(v uint64) (r root) { binary.LittleEndian.PutUint64(r[:8], v); return }

// headerRoot is hash_tree_root(BeaconBlockHeader): five fields padded to eight chunks.
func headerRoot(h *common.BeaconBlockHeader) root {
	return merkleize([]root{u64chunk(uint64(h.Slot)), u64chunk(uint64(h.ProposerIndex)), root(h.ParentRoot), root(h.StateRoot), root(h.BodyRoot), {}, {}, {}})
}

func pubkeyRoot(p *common.BLSPubkey) root {
	var a, b root
	copy(a[:], p[:32])
	copy(b[:16], p[32:])
	return h2(a, b)
}

// committeeRoot is hash_tree_root(SyncCommittee) = H(root(Vector[BLSPubkey, 512]), root(aggregate_pubkey)).
func committeeRoot(sc *common.SyncCommittee) root {
	if len(sc.Pubkeys) != committeeSize {
		return root{}
	}
	leaves := make([]root, committeeSize)
	for i := range sc.Pubkeys {
		leaves[i] = pubkeyRoot(&sc.Pubkeys[i])
	}
	return h2(merkleize(leaves), pubkeyRoot(&sc.AggregatePubkey))
}

// branchHolds folds a Merkle branch from a leaf at generalized index g and compares with the expected root.
func branchHolds(leaf root, branch []root, g uint64, want root) bool {
	v := leaf
	for i := 0; g > 1; i, g = i+1, g>>1 {
		if i >= len(branch) {
			return false
		}
		if g&1 == 1 {
			v = h2(branch[i], v)
		} else {
			v = h2(v, branch[i])
		}
	}
	return v == want
}

// sparseTree is a binary tree in which some generalized indices carry given values and every other subtree is
// an arbitrary (seeded) filler, so that branches for several leaves are consistent under one root.
type sparseTree struct {
	leaves map[uint64]root
	salt   root
	memo   map[uint64]root
}

func newSparseTree(rng *rand.Rand, leaves map[uint64]root) *sparseTree {
	t := &sparseTree{leaves: leaves, memo: map[uint64]root{}}
	rng.Read(t.salt[:])
	return t
}

func (t *sparseTree) hasLeafBelow(g uint64) bool {
	for l := range t.leaves {
		for x := l; x >= g; x >>= 1 {
			if x == g {
				return true
			}
		}
	}
	return false
}

func (t *sparseTree) node(g uint64) root {
	if v, ok := t.leaves[g]; ok {
		return v
	}
	if v, ok := t.memo[g]; ok {
		return v
	}
	var v root
	if !t.hasLeafBelow(g) {
		v = h2(t.salt, u64chunk(g))
	} else {
		v = h2(t.node(2*g), t.node(2*g+1))
	}
	t.memo[g] = v
	return v
}

// branch returns the sibling path of g, bottom-up.
func (t *sparseTree) branch(g uint64) []root {
	var b []root
	for ; g > 1; g >>= 1 {
		b = append(b, t.node(g^1))
	}
	return b
}

// ---- committees -------------------------------------------------------------------------------------

type committee struct {
	name string
	sks  []*big.Int
	sc   *common.SyncCommittee
	root root
}

func skFromInt(k *big.Int) *blsu.SecretKey {
	var b [32]byte
	k.FillBytes(b[:])
	var sk blsu.SecretKey
	if err := sk.Deserialize(&b); err != nil {
		panic(err)
	}
	return &sk
}

func newCommittee(rng *rand.Rand, name string) *committee {
	c := &committee{name: name, sks: make([]*big.Int, committeeSize), sc: &common.SyncCommittee{Pubkeys: make([]common.BLSPubkey, committeeSize)}}
	sum := new(big.Int)
	for i := range c.sks {
		var b [32]byte
		rng.Read(b[:])
		k := new(big.Int).SetBytes(b[:])
		k.Mod(k, new(big.Int).Sub(blsOrder, big.NewInt(1)))
		k.Add(k, big.NewInt(1))
		c.sks[i] = k
		pk, err := blsu.SkToPk(skFromInt(k))
		if err != nil {
			panic(err)
		}
		c.sc.Pubkeys[i] = pk.Serialize()
		sum.Add(sum, k)
	}
	sum.Mod(sum, blsOrder)
	apk, _ := blsu.SkToPk(skFromInt(sum))
	c.sc.AggregatePubkey = apk.Serialize()
	c.root = committeeRoot(c.sc)
	return c
}

// copySC returns a deep copy (updates carry their own committee object; the store keeps pointers into updates).
func copySC(sc *common.SyncCommittee) common.SyncCommittee {
	out := common.SyncCommittee{Pubkeys: make([]common.BLSPubkey, len(sc.Pubkeys)), AggregatePubkey: sc.AggregatePubkey}
	copy(out.Pubkeys, sc.Pubkeys)
	return out
}

// aggregateSign returns the unique valid aggregate signature of the members of sc at the set bit positions over msg
// (signature under the sum of their secret keys, looked up by public key), or nil if no bit is set, the sum is zero
// or a participating key is not one the harness generated.
func (w *world) aggregateSign(sc *common.SyncCommittee, bits []byte, msg []byte) *common.BLSSignature {
	sum := new(big.Int)
	n := 0
	for i := 0; i < committeeSize && i < len(sc.Pubkeys); i++ {
		if bits[i/8]>>(uint(i)%8)&1 == 1 {
			k, ok := w.skOf[sc.Pubkeys[i]]
			if !ok {
				return nil
			}
			sum.Add(sum, k)
			n++
		}
	}
	sum.Mod(sum, blsOrder)
	if n == 0 || sum.Sign() == 0 {
		return nil
	}
	s := common.BLSSignature(blsu.Sign(skFromInt(sum), msg).Serialize())
	return &s
}

type world struct {
	coms   []*committee
	byRoot map[root]*committee
	skOf   map[common.BLSPubkey]*big.Int // every key the harness generated
	spec   *common.Spec
	gvr    common.Root // genesis validators root
	p0min  int64       // smallest base period such that all slots lie after the last scheduled fork
}

func newWorld(seed int64) *world {
	rng := rand.New(rand.NewSource(seed*7919 + 17))
	w := &world{byRoot: map[root]*committee{}, skOf: map[common.BLSPubkey]*big.Int{}, spec: configs.Mainnet}
	for _, n := range []string{"A", "B", "C"} {
		c := newCommittee(rng, n)
		w.coms = append(w.coms, c)
		w.byRoot[c.root] = c
		for i, pk := range c.sc.Pubkeys {
			w.skOf[pk] = c.sks[i]
		}
	}
	rng.Read(w.gvr[:])
	last := uint64(0)
	for _, e := range []common.Epoch{w.spec.ALTAIR_FORK_EPOCH, w.spec.BELLATRIX_FORK_EPOCH, w.spec.CAPELLA_FORK_EPOCH, w.spec.DENEB_FORK_EPOCH, w.spec.ELECTRA_FORK_EPOCH, w.spec.FULU_FORK_EPOCH} {
		if uint64(e) < 1<<40 && uint64(e) > last {
			last = uint64(e)
		}
	}
	w.p0min = int64(last/256) + 2
	// self-test of the independent merkleisation against the library the code under test uses
	h := &common.BeaconBlockHeader{Slot: 12345, ProposerIndex: 7, ParentRoot: common.Root{1}, StateRoot: common.Root{2}, BodyRoot: common.Root{3}}
	if headerRoot(h) != root(h.HashTreeRoot(tree.GetHashFn())) {
		panic("harness self-test: header root mismatch")
	}
	if w.coms[0].root != root(w.coms[0].sc.HashTreeRoot(w.spec, tree.GetHashFn())) {
		panic("harness self-test: committee root mismatch")
	}
	return w
}

func (w *world) com(name string) *committee {
	for _, c := range w.coms {
		if c.name == name {
			return c
		}
	}
	return nil
}

func (w *world) comName(sc *common.SyncCommittee) string {
	if sc == nil {
		return "none"
	}
	r := committeeRoot(sc)
	if c, ok := w.byRoot[r]; ok {
		return c.name
	}
	return fmt.Sprintf("?%x", r[:4])
}

func tag(r root) int { return int(binary.BigEndian.Uint32(r[:4]) >> 1) }

// signingRoot is compute_signing_root(header, compute_domain(DOMAIN_SYNC_COMMITTEE, fork_version, genesis_validators_root)).
func signingRoot(hdr root, forkVersion common.Version, gvr common.Root) root {
	dom := common.ComputeDomain(common.BLSDomainType{0x07, 0, 0, 0}, forkVersion, gvr)
	return h2(hdr, root(dom))
}
