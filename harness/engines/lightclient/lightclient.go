package lightclient

import (
	"encoding/json"
	"errors"
	"flag"
	"fmt"
	"hash/fnv"
	"math/rand"
	"os"
	"runtime"
	"runtime/debug"
	"strings"
	"sync"
	"time"

	"github.com/ethereum/go-ethereum/log"
	"github.com/protolambda/zrnt/eth2/beacon/altair"
	"github.com/protolambda/zrnt/eth2/beacon/capella"
	zcommon "github.com/protolambda/zrnt/eth2/beacon/common"
	"github.com/protolambda/zrnt/eth2/beacon/deneb"
	"github.com/protolambda/ztyp/view"
	"github.com/zen-eth/shisui/beacon"

	"verifharness/common"
	"verifharness/tracelog"
)

func init() { common.Register("lightclient", Main) }

// ---- abstract input (what TLC's Gen_LightClient prints) ---------------------------------------------

type absStep struct {
	Att    int64  `json:"att"`
	Sig    int64  `json:"sig"`
	Fin    int64  `json:"fin"` // -1 = no finality part
	Next   string `json:"next"`
	Parts  int    `json:"parts"`
	Defect string `json:"defect"`
	Mode   string `json:"mode"`
	Cls    string `json:"cls"`
	Expect string `json:"expect"`
}

type absCase struct {
	Meta struct {
		PL      int64 `json:"pl"`
		MaxSlot int64 `json:"maxslot"`
		Now     int64 `json:"now"`
		N       int   `json:"n"`
	} `json:"meta"`
	Start struct {
		Fin int64  `json:"fin"`
		Cur string `json:"cur"`
	} `json:"start"`
	Steps []absStep `json:"steps"`
}

// step is a concrete instruction for the builder: real slots, real participation count, a defect and its variant.
type step struct {
	Att, Sig, Fin int64
	Now           int64
	Next          string // committee name or "none"
	Parts         int
	Defect        string
	Variant       int
	Mode          string // "verified" | "blind"
	Cls           string
	Expect        string
	Signer        string // "" = the committee the store holds for the signature period
}

// ---- building one update ----------------------------------------------------------------------------

type facts struct {
	Kind    string   `json:"kind"`
	Att     int64    `json:"att"`
	Sig     int64    `json:"sig"`
	Fin     int64    `json:"fin"`
	Next    string   `json:"next"`
	Parts   int      `json:"parts"`
	FinOK   bool     `json:"finOK"`
	NextOK  bool     `json:"nextOK"`
	SigFor  []string `json:"sigFor"`
	AttH    int      `json:"attH"`
	FinH    int      `json:"finH"`
	Defect  string   `json:"defect"`
	Variant string   `json:"variant"`
	Fork    string   `json:"fork"`
}

type seqCtx struct {
	w       *world
	rng     *rand.Rand
	fork    string // wire type family used for this sequence: deneb | capella | altair
	headers map[int64]*zcommon.BeaconBlockHeader
	client  *beacon.ConsensusLightClient
}

func rndRoot(rng *rand.Rand) (r zcommon.Root) { rng.Read(r[:]); return }

// canonical header of a slot within one sequence (finalized headers refer to it)
func (s *seqCtx) header(slot int64) *zcommon.BeaconBlockHeader {
	if h, ok := s.headers[slot]; ok {
		c := *h
		return &c
	}
	h := &zcommon.BeaconBlockHeader{Slot: zcommon.Slot(slot), ProposerIndex: zcommon.ValidatorIndex(s.rng.Intn(1 << 20)),
		ParentRoot: rndRoot(s.rng), StateRoot: rndRoot(s.rng), BodyRoot: rndRoot(s.rng)}
	s.headers[slot] = h
	c := *h
	return &c
}

func toRoots(b []root) []zcommon.Root {
	out := make([]zcommon.Root, len(b))
	for i := range b {
		out[i] = zcommon.Root(b[i])
	}
	return out
}

func setBits(rng *rand.Rand, n int) []byte {
	bits := make([]byte, committeeSize/8)
	if n > committeeSize {
		n = committeeSize
	}
	var pos []int
	if rng.Intn(4) == 0 { // contiguous prefix
		for i := 0; i < n; i++ {
			pos = append(pos, i)
		}
	} else {
		pos = rng.Perm(committeeSize)[:n]
	}
	for _, i := range pos {
		bits[i/8] |= 1 << (uint(i) % 8)
	}
	return bits
}

func popcount(bits []byte) int {
	n := 0
	for i := 0; i < committeeSize && i/8 < len(bits); i++ {
		n += int(bits[i/8] >> (uint(i) % 8) & 1)
	}
	return n
}

func flipBit(rng *rand.Rand, b []byte) { b[rng.Intn(len(b))] ^= 1 << uint(rng.Intn(8)) }

// mutateHeader changes one field other than the slot (and other than the state root unless allowState).
func mutateHeader(rng *rand.Rand, h *zcommon.BeaconBlockHeader, allowState bool) string {
	k := rng.Intn(3)
	if allowState {
		k = rng.Intn(4)
	}
	switch k {
	case 0:
		h.ProposerIndex++
		return "proposer"
	case 1:
		flipBit(rng, h.ParentRoot[:])
		return "parentRoot"
	case 2:
		flipBit(rng, h.BodyRoot[:])
		return "bodyRoot"
	default:
		flipBit(rng, h.StateRoot[:])
		return "stateRoot"
	}
}

type built struct {
	obj   zcommon.SpecObj
	kind  string
	facts facts
}

var infinitySig = func() (s zcommon.BLSSignature) { s[0] = 0xc0; return }()

// build concretises one step against the client's CURRENT store (an honest signer signs with the committee the
// store holds for the signature period) and then computes the facts about the delivered objects independently.
func (s *seqCtx) build(st step) built {
	w, rng := s.w, s.rng
	store := &s.client.Store
	kind := "full"
	if st.Fin < 0 && st.Next == "none" {
		kind = "optimistic"
	} else if st.Next == "none" {
		kind = "finality"
	}
	variant := ""

	// finalized header, next committee, state tree
	var finHdr *zcommon.BeaconBlockHeader
	var nextSC zcommon.SyncCommittee
	hasFin, hasNext := kind != "optimistic", kind == "full"
	gFin, gNext := uint64(gindexFinalizedRoot), uint64(gindexNextCommittee)
	if hasFin {
		if st.Fin < 0 { // a full update without finality information: zero header
			finHdr = &zcommon.BeaconBlockHeader{}
		} else {
			finHdr = s.header(st.Fin)
		}
	}
	if hasNext {
		nextSC = copySC(w.com(st.Next).sc)
	}
	finDepthCut, nextDepthCut := false, false
	if st.Defect == "finBad" && hasFin {
		switch st.Variant % 6 {
		case 2:
			gFin ^= 1 << uint(rng.Intn(6))
			variant = fmt.Sprintf("finWrongIndex(g=%d)", gFin)
		case 3:
			gFin = 1<<5 | gFin&31
			finDepthCut = true
			variant = "finWrongDepth"
		}
	}
	if st.Defect == "nextBad" && hasNext {
		switch st.Variant % 6 {
		case 3:
			gNext ^= 1 << uint(rng.Intn(5))
			variant = fmt.Sprintf("nextWrongIndex(g=%d)", gNext)
		case 4:
			gNext = 1<<4 | gNext&15
			nextDepthCut = true
			variant = "nextWrongDepth"
		}
	}
	leaves := map[uint64]root{}
	if hasFin && !(st.Fin < 0) {
		leaves[gFin] = headerRoot(finHdr)
	}
	if hasNext {
		// avoid one leaf being an ancestor of the other in the displaced-index variants
		ok := true
		for x := gNext; x > 0; x >>= 1 {
			if _, clash := leaves[x]; clash {
				ok = false
			}
		}
		for l := range leaves {
			for x := l; x > 0; x >>= 1 {
				if x == gNext {
					ok = false
				}
			}
		}
		if !ok {
			gNext = gindexNextCommittee
			nextDepthCut = false
			variant = "nextBranchNode"
			st.Variant = 0
		}
		leaves[gNext] = w.com(st.Next).root
	}
	t := newSparseTree(rng, leaves)
	var finBranch altair.FinalizedRootProofBranch
	var nextBranch altair.SyncCommitteeProofBranch
	if hasFin && st.Fin >= 0 {
		b := toRoots(t.branch(gFin))
		if finDepthCut {
			b = append(b, rndRoot(rng))
		}
		copy(finBranch[:], b)
	}
	if hasNext {
		b := toRoots(t.branch(gNext))
		if nextDepthCut {
			b = append(b, rndRoot(rng))
		}
		copy(nextBranch[:], b)
	}

	att := &zcommon.BeaconBlockHeader{Slot: zcommon.Slot(st.Att), ProposerIndex: zcommon.ValidatorIndex(rng.Intn(1 << 20)),
		ParentRoot: rndRoot(rng), StateRoot: zcommon.Root(t.node(1)), BodyRoot: rndRoot(rng)}

	// signature
	bits := setBits(rng, st.Parts)
	signer := store.CurrentSyncCommittee
	if st.Sig/slotsPerPeriod != slotOf(store.FinalizedHeader)/slotsPerPeriod && store.NextSyncCommittee != nil {
		signer = store.NextSyncCommittee
	}
	signCom := signer // an honest signer: the committee the store holds for the signature period
	if st.Signer != "" {
		signCom = w.com(st.Signer).sc
	}
	if signCom == nil { // a store without a current committee (only reachable through a defect of the code under test)
		signCom = w.coms[rng.Intn(len(w.coms))].sc
	}
	fv := w.spec.ForkVersion(zcommon.Slot(st.Sig))
	gvr := w.gvr
	signBits := append([]byte(nil), bits...)
	msgHdr := headerRoot(att)
	if st.Defect == "otherCom" {
		var others []*committee
		for _, c := range w.coms {
			if c.root != committeeRoot(signCom) {
				others = append(others, c)
			}
		}
		o := others[rng.Intn(len(others))]
		signCom = o.sc
		variant = "signedBy" + o.name
	}
	if st.Defect == "sigBad" {
		switch st.Variant % 8 {
		case 4:
			if rng.Intn(2) == 0 {
				fv = w.spec.GENESIS_FORK_VERSION
				variant = "sigWrongForkVersion"
			} else {
				flipBit(rng, gvr[:])
				variant = "sigWrongGenesisRoot"
			}
		case 6:
			if st.Parts > 0 && st.Parts < committeeSize { // same count, different members: rotate the signing set by one position
				last := signBits[committeeSize/8-1] >> 7
				for i := committeeSize/8 - 1; i > 0; i-- {
					signBits[i] = signBits[i]<<1 | signBits[i-1]>>7
				}
				signBits[0] = signBits[0]<<1 | last
				variant = "sigByShiftedMembers"
			}
		case 7:
			if hasFin && st.Fin >= 0 {
				msgHdr = headerRoot(finHdr)
				variant = "sigOverFinalizedHeader"
			} else {
				msgHdr = headerRoot(s.header(st.Att + 1))
				variant = "sigOverOtherHeader"
			}
		}
	}
	sig := infinitySig
	if p := w.aggregateSign(signCom, signBits, func() []byte { r := signingRoot(msgHdr, fv, gvr); return r[:] }()); p != nil {
		sig = *p
	}

	// post-construction corruptions
	switch st.Defect {
	case "finBad":
		if hasFin {
			switch st.Variant % 6 {
			case 0:
				i := rng.Intn(len(finBranch))
				flipBit(rng, finBranch[i][:])
				variant = fmt.Sprintf("finBranchNode(%d)", i)
			case 1:
				variant = "finHeaderField(" + mutateHeader(rng, finHdr, true) + ")"
			case 4:
				finBranch = altair.FinalizedRootProofBranch{}
				variant = "finZeroBranch"
			case 5:
				other := newSparseTree(rng, map[uint64]root{gindexFinalizedRoot: headerRoot(finHdr)})
				copy(finBranch[:], toRoots(other.branch(gindexFinalizedRoot)))
				variant = "finBranchOfOtherState"
			}
		}
	case "nextBad":
		if hasNext {
			switch st.Variant % 6 {
			case 0:
				i := rng.Intn(len(nextBranch))
				flipBit(rng, nextBranch[i][:])
				variant = fmt.Sprintf("nextBranchNode(%d)", i)
			case 1:
				i := rng.Intn(committeeSize)
				donor := w.coms[(rng.Intn(2)+1+indexOf(w, st.Next))%len(w.coms)]
				nextSC.Pubkeys[i] = donor.sc.Pubkeys[rng.Intn(committeeSize)]
				variant = fmt.Sprintf("nextCommitteeKey(%d)", i)
			case 2:
				nextSC.AggregatePubkey = w.coms[(indexOf(w, st.Next)+1)%len(w.coms)].sc.AggregatePubkey
				variant = "nextAggregateKey"
			case 5:
				nextBranch = altair.SyncCommitteeProofBranch{}
				variant = "nextZeroBranch"
			}
		}
	case "sigBad":
		switch st.Variant % 8 {
		case 0:
			flipBit(rng, sig[:])
			variant = "sigFlipBit"
		case 1:
			variant = "attHeaderField(" + mutateHeader(rng, att, false) + ")"
		case 2:
			if st.Parts > 1 {
				for {
					i := rng.Intn(committeeSize)
					if bits[i/8]>>(uint(i)%8)&1 == 1 {
						bits[i/8] &^= 1 << (uint(i) % 8)
						break
					}
				}
				variant = "bitClearedAfterSigning"
			} else {
				flipBit(rng, sig[32:])
				variant = "sigFlipBit"
			}
		case 3:
			if st.Parts < committeeSize {
				for {
					i := rng.Intn(committeeSize)
					if bits[i/8]>>(uint(i)%8)&1 == 0 {
						bits[i/8] |= 1 << (uint(i) % 8)
						break
					}
				}
				variant = "bitSetWithoutSigning"
			} else {
				flipBit(rng, sig[32:])
				variant = "sigFlipBit"
			}
		case 5:
			sig = infinitySig
			variant = "sigInfinity"
		}
		if variant == "" { // variant not applicable for this step: fall back to a corrupted signature
			flipBit(rng, sig[32:])
			variant = "sigFlipBit"
		}
	}
	if st.Fin < 0 && hasFin {
		variant = "fullWithoutFinality"
	}

	agg := altair.SyncAggregate{SyncCommitteeBits: altair.SyncCommitteeBits(bits), SyncCommitteeSignature: sig}
	sigSlot := zcommon.Slot(st.Sig)
	var obj zcommon.SpecObj
	switch s.fork + "/" + kind {
	case "deneb/full":
		obj = &deneb.LightClientUpdate{AttestedHeader: deneb.LightClientHeader{Beacon: *att}, NextSyncCommittee: nextSC, NextSyncCommitteeBranch: nextBranch,
			FinalizedHeader: deneb.LightClientHeader{Beacon: *finHdr}, FinalityBranch: finBranch, SyncAggregate: agg, SignatureSlot: sigSlot}
	case "deneb/finality":
		obj = &deneb.LightClientFinalityUpdate{AttestedHeader: deneb.LightClientHeader{Beacon: *att}, FinalizedHeader: deneb.LightClientHeader{Beacon: *finHdr},
			FinalityBranch: finBranch, SyncAggregate: agg, SignatureSlot: sigSlot}
	case "deneb/optimistic":
		obj = &deneb.LightClientOptimisticUpdate{AttestedHeader: deneb.LightClientHeader{Beacon: *att}, SyncAggregate: agg, SignatureSlot: sigSlot}
	case "capella/full":
		obj = &capella.LightClientUpdate{AttestedHeader: capella.LightClientHeader{Beacon: *att}, NextSyncCommittee: nextSC, NextSyncCommitteeBranch: nextBranch,
			FinalizedHeader: capella.LightClientHeader{Beacon: *finHdr}, FinalityBranch: finBranch, SyncAggregate: agg, SignatureSlot: sigSlot}
	case "capella/finality":
		obj = &capella.LightClientFinalityUpdate{AttestedHeader: capella.LightClientHeader{Beacon: *att}, FinalizedHeader: capella.LightClientHeader{Beacon: *finHdr},
			FinalityBranch: finBranch, SyncAggregate: agg, SignatureSlot: sigSlot}
	case "capella/optimistic":
		obj = &capella.LightClientOptimisticUpdate{AttestedHeader: capella.LightClientHeader{Beacon: *att}, SyncAggregate: agg, SignatureSlot: sigSlot}
	case "altair/full":
		obj = &altair.LightClientUpdate{AttestedHeader: altair.LightClientHeader{Beacon: *att}, NextSyncCommittee: nextSC, NextSyncCommitteeBranch: nextBranch,
			FinalizedHeader: altair.LightClientHeader{Beacon: *finHdr}, FinalityBranch: finBranch, SyncAggregate: agg, SignatureSlot: sigSlot}
	case "altair/finality":
		obj = &altair.LightClientFinalityUpdate{AttestedHeader: altair.LightClientHeader{Beacon: *att}, FinalizedHeader: *finHdr,
			FinalityBranch: finBranch, SyncAggregate: agg, SignatureSlot: sigSlot}
	case "altair/optimistic":
		obj = &altair.LightClientOptimisticUpdate{AttestedHeader: altair.LightClientHeader{Beacon: *att}, SyncAggregate: agg, SignatureSlot: sigSlot}
	default:
		panic("unknown wire kind " + s.fork + "/" + kind)
	}

	// ---- facts, computed from the delivered objects only ----
	f := facts{Kind: kind, Att: int64(att.Slot), Sig: int64(sigSlot), Fin: -1, Next: "none", Parts: popcount(bits), FinOK: true, NextOK: true,
		SigFor: []string{}, AttH: tag(headerRoot(att)), Defect: st.Defect, Variant: variant, Fork: s.fork}
	if hasFin {
		f.Fin = int64(finHdr.Slot)
		f.FinH = tag(headerRoot(finHdr))
		br := make([]root, len(finBranch))
		for i := range finBranch {
			br[i] = root(finBranch[i])
		}
		f.FinOK = branchHolds(headerRoot(finHdr), br, gindexFinalizedRoot, root(att.StateRoot))
	}
	if hasNext {
		f.Next = w.comName(&nextSC)
		br := make([]root, len(nextBranch))
		for i := range nextBranch {
			br[i] = root(nextBranch[i])
		}
		f.NextOK = branchHolds(committeeRoot(&nextSC), br, gindexNextCommittee, root(att.StateRoot))
	}
	if f.Parts > 0 {
		// the message an honest committee signs for the delivered attested header at the delivered signature slot
		m := signingRoot(headerRoot(att), w.spec.ForkVersion(sigSlot), w.gvr)
		// candidates: the three generated committees and whatever the store holds (possibly a committee with a replaced key)
		cands := []*zcommon.SyncCommittee{w.coms[0].sc, w.coms[1].sc, w.coms[2].sc}
		if store.CurrentSyncCommittee != nil {
			cands = append(cands, store.CurrentSyncCommittee)
		}
		if store.NextSyncCommittee != nil {
			cands = append(cands, store.NextSyncCommittee)
		}
		seen := map[string]bool{}
		for _, sc := range cands {
			name := w.comName(sc)
			if seen[name] {
				continue
			}
			seen[name] = true
			if want := w.aggregateSign(sc, bits, m[:]); want != nil && *want == sig {
				f.SigFor = append(f.SigFor, name)
			}
		}
	}
	return built{obj: obj, kind: kind, facts: f}
}

func indexOf(w *world, name string) int {
	for i, c := range w.coms {
		if c.name == name {
			return i
		}
	}
	return 0
}

// ---- running one sequence against the real client ---------------------------------------------------

func (s *seqCtx) proj() map[string]any {
	st := &s.client.Store
	return map[string]any{
		"fin": slotOf(st.FinalizedHeader), "finH": tagOf(st.FinalizedHeader),
		"opt": slotOf(st.OptimisticHeader), "optH": tagOf(st.OptimisticHeader),
		"cur": s.w.comName(st.CurrentSyncCommittee), "nxt": s.w.comName(st.NextSyncCommittee),
		"prevMax": int64(st.PreviousMaxActiveParticipants), "curMax": int64(st.CurrentMaxActiveParticipants),
	}
}

// a nil header in the store (only reachable through a defect of the code under test) is projected as slot -1
func slotOf(h *zcommon.BeaconBlockHeader) int64 {
	if h == nil {
		return -1
	}
	return int64(h.Slot)
}

func tagOf(h *zcommon.BeaconBlockHeader) int {
	if h == nil {
		return 0
	}
	return tag(headerRoot(h))
}

func guard(f func() error) (err error, panicked string) {
	defer func() {
		if r := recover(); r != nil {
			panicked = fmt.Sprintf("%v | %s", r, firstFrames(string(debug.Stack())))
		}
	}()
	return f(), ""
}

func firstFrames(stack string) string {
	var out []string
	for _, ln := range strings.Split(stack, "\n") {
		if strings.Contains(ln, "zen-eth/shisui/") && !strings.HasPrefix(ln, "\t") {
			out = append(out, strings.TrimSpace(ln))
			if len(out) == 2 {
				break
			}
		}
	}
	return strings.Join(out, " <- ")
}

var knownErrs = []struct {
	err error
	cls string
}{
	{beacon.ErrInsufficientParticipation, "participation"}, {beacon.ErrInvalidTimestamp, "time"}, {beacon.ErrInvalidPeriod, "period"},
	{beacon.ErrNotRelevant, "relevance"}, {beacon.ErrInvalidFinalityProof, "finality"},
	{beacon.ErrInvalidNextSyncCommitteeProof, "nextcommittee"}, {beacon.ErrInvalidSignature, "signature"},
}

// setNow makes the client's expectedCurrentSlot() return `slot` for the next ~9 seconds.
func (s *seqCtx) setNow(slot int64) {
	s.client.Config.Chain.GenesisTime = uint64(time.Now().Unix()) - uint64(slot)*uint64(s.w.spec.SECONDS_PER_SLOT) - 3
}

func (s *seqCtx) clockIs(slot int64) bool {
	return int64(s.w.spec.TimeToSlot(zcommon.Timestamp(time.Now().Unix()), zcommon.Timestamp(s.client.Config.Chain.GenesisTime))) == slot
}

func (s *seqCtx) run(st step, ev map[string]any) {
	b := s.build(st)
	c := s.client
	pre := s.proj()
	var verr error
	var vpanic string
	for try := 0; try < 3; try++ {
		s.setNow(st.Now)
		verr, vpanic = guard(func() error {
			switch b.kind {
			case "full":
				return c.VerifyUpdate(b.obj)
			case "finality":
				return c.VerifyFinalityUpdate(b.obj)
			default:
				return c.VerifyOptimisticUpdate(b.obj)
			}
		})
		if s.clockIs(st.Now) {
			break
		}
	}
	verdict, vclass := "ok", "ok"
	if vpanic != "" {
		verdict, vclass = "panic: "+vpanic, "panic"
	} else if verr != nil {
		verdict, vclass = "err: "+verr.Error(), "other"
		for _, k := range knownErrs {
			if errors.Is(verr, k.err) {
				vclass = k.cls
			}
		}
	}
	mid := s.proj()
	applied := st.Mode == "blind" || verdict == "ok"
	apanic := ""
	if applied {
		var aerr error
		aerr, apanic = guard(func() error {
			switch b.kind {
			case "full":
				return c.ApplyUpdate(b.obj)
			case "finality":
				return c.ApplyFinalityUpdate(b.obj)
			default:
				return c.ApplyOptimisticUpdate(b.obj)
			}
		})
		if aerr != nil {
			apanic = "apply error: " + aerr.Error()
		}
	}
	ev["ev"] = "step"
	ev["u"] = b.facts
	ev["now"] = st.Now
	ev["mode"] = st.Mode
	ev["cls"] = st.Cls
	ev["expect"] = st.Expect
	ev["verdict"] = verdict
	ev["vclass"] = vclass
	ev["applied"] = applied
	ev["apanic"] = apanic
	ev["pre"] = pre
	ev["mid"] = mid
	ev["post"] = s.proj()
}

// ---- concretisation of TLC cases --------------------------------------------------------------------

var partsTiny = []int{1, 1, 2, 7}
var partsBelow = []int{341, 341, 341, 340, 256, 257, 171, 300}
var partsAbove = []int{342, 342, 342, 343, 400}
var partsFull = []int{512, 512, 511, 480}

func concParts(rng *rand.Rand, p, n int) int {
	switch {
	case p <= 0:
		return 0
	case p >= n:
		return partsFull[rng.Intn(len(partsFull))]
	case p*3 >= n*2:
		return partsAbove[rng.Intn(len(partsAbove))]
	case p == 1:
		return partsTiny[rng.Intn(len(partsTiny))]
	default:
		return partsBelow[rng.Intn(len(partsBelow))]
	}
}

// slotMap maps abstract slots (PeriodLen pl) to real slots preserving order, equality and period membership.
type slotMap struct {
	pl, p0 int64
	off    []int64
}

func newSlotMap(rng *rand.Rand, pl, p0 int64) slotMap {
	m := slotMap{pl: pl, p0: p0, off: make([]int64, pl)}
	for {
		seen := map[int64]bool{}
		for i := range m.off {
			v := rng.Int63n(slotsPerPeriod)
			switch rng.Intn(6) {
			case 0:
				v = 0
			case 1:
				v = slotsPerPeriod - 1
			case 2:
				v = rng.Int63n(4)
			case 3:
				v = slotsPerPeriod - 1 - rng.Int63n(4)
			}
			m.off[i] = v
			seen[v] = true
		}
		if len(seen) == len(m.off) {
			break
		}
	}
	for i := range m.off { // sort
		for j := i + 1; j < len(m.off); j++ {
			if m.off[j] < m.off[i] {
				m.off[i], m.off[j] = m.off[j], m.off[i]
			}
		}
	}
	return m
}

func (m slotMap) conc(a int64) int64 {
	if a < 0 {
		return -1
	}
	return (m.p0+a/m.pl)*slotsPerPeriod + m.off[a%m.pl]
}

func seqRng(seed int64, id string) *rand.Rand {
	h := fnv.New64a()
	fmt.Fprintf(h, "%d/%s", seed, id)
	return rand.New(rand.NewSource(int64(h.Sum64() >> 1)))
}

func (w *world) newSeq(rng *rand.Rand, startSlot int64, cur string) *seqCtx {
	s := &seqCtx{w: w, rng: rng, headers: map[int64]*zcommon.BeaconBlockHeader{}}
	s.fork = []string{"deneb", "capella", "altair"}[rng.Intn(3)]
	cfg := &beacon.Config{Chain: beacon.ChainConfig{ChainID: 1, GenesisRoot: w.gvr}, Spec: w.spec}
	boot := s.header(startSlot)
	s.client = &beacon.ConsensusLightClient{
		Config: cfg, Logger: log.NewLogger(log.DiscardHandler()),
		Store: beacon.LightClientStore{FinalizedHeader: boot, OptimisticHeader: boot, CurrentSyncCommittee: w.com(cur).sc,
			PreviousMaxActiveParticipants: view.Uint64View(0), CurrentMaxActiveParticipants: view.Uint64View(0)},
	}
	return s
}

func (w *world) basePeriod(rng *rand.Rand) int64 { return w.p0min + rng.Int63n(12000-w.p0min) }

func (w *world) runCase(seed int64, id string, ci int, ac *absCase) []map[string]any {
	rng := seqRng(seed, id)
	m := newSlotMap(rng, ac.Meta.PL, w.basePeriod(rng))
	s := w.newSeq(rng, m.conc(ac.Start.Fin), ac.Start.Cur)
	now := m.conc(ac.Meta.Now)
	if rng.Intn(2) == 0 {
		now = m.conc(ac.Meta.Now+1) - 1
	}
	evs := []map[string]any{{"ev": "init", "t": id, "src": "tlc", "case": ci, "store": s.proj(), "fork": s.fork}}
	for i, a := range ac.Steps {
		st := step{Att: m.conc(a.Att), Sig: m.conc(a.Sig), Fin: m.conc(a.Fin), Now: now, Next: a.Next, Parts: concParts(rng, a.Parts, ac.Meta.N),
			Defect: a.Defect, Variant: rng.Intn(1 << 16), Mode: a.Mode, Cls: a.Cls, Expect: a.Expect}
		ev := map[string]any{"t": id, "i": i, "src": "tlc", "abs": a}
		s.run(st, ev)
		evs = append(evs, ev)
	}
	return evs
}

// ---- seeded random driver (concrete level, relative to the real store) ---------------------------------

var rndParts = []int{0, 1, 2, 170, 171, 172, 255, 256, 257, 340, 341, 341, 341, 342, 342, 342, 343, 400, 450, 511, 512, 512, 512}

func pick64(rng *rand.Rand, xs ...int64) int64 { return xs[rng.Intn(len(xs))] }

func (w *world) runRandom(seed int64, id string, n int) []map[string]any {
	rng := seqRng(seed, id)
	p0 := w.basePeriod(rng)
	start := p0*slotsPerPeriod + pick64(rng, 0, 1, 32, rng.Int63n(slotsPerPeriod), slotsPerPeriod-1, slotsPerPeriod-40)
	s := w.newSeq(rng, start, w.coms[rng.Intn(3)].name)
	evs := []map[string]any{{"ev": "init", "t": id, "src": "rnd", "store": s.proj(), "fork": s.fork}}
	names := []string{"A", "B", "C"}
	for i := 0; i < n; i++ {
		sf, so := slotOf(s.client.Store.FinalizedHeader), slotOf(s.client.Store.OptimisticHeader)
		if sf < 0 {
			sf = 0
		}
		ps := func(k int64) int64 { return (sf/slotsPerPeriod + k) * slotsPerPeriod } // start of the k-th period after the store period
		nextKnown := s.client.Store.NextSyncCommittee != nil
		room := ps(1) - 1 - sf // slots left in the store period after the finalized slot
		var att, sig int64
		scen := rng.Intn(100)
		switch {
		case scen < 40 && room > 0: // attested header later in the store period
			att = sf + 1 + pick64(rng, 0, rng.Int63n(room), rng.Int63n(1+room/64), room-1)
			sig = att + pick64(rng, 1, 1, 1, 2, 1+rng.Int63n(40))
		case scen < 47: // attested header is the last slot of the store period, signed in the next period
			att = ps(1) - 1 - pick64(rng, 0, 0, 1, rng.Int63n(32))
			sig = ps(1) + pick64(rng, 0, 0, 1, rng.Int63n(32))
		case scen < 72 && nextKnown: // next period (rotation when finalized there too)
			att = ps(1) + pick64(rng, 0, 1, 64, rng.Int63n(slotsPerPeriod-1))
			sig = att + pick64(rng, 1, 1, 2, 1+rng.Int63n(40))
		case scen < 80: // stale: not after the finalized header (relevant only when it supplies a missing next committee)
			att = sf - pick64(rng, 0, 0, 1, rng.Int63n(1+sf-ps(0)), 1+sf-ps(0))
			sig = att + pick64(rng, 1, 1, 2, 1+sf-att)
		case scen < 85: // two periods ahead
			att = pick64(rng, ps(2)-1, ps(2), ps(2)+rng.Int63n(100), ps(1)+rng.Int63n(slotsPerPeriod))
			sig = pick64(rng, att+1, ps(2), ps(2)+1)
		case scen < 91: // behind / equal to the optimistic header
			att = pick64(rng, so, so-1, so+1, sf+1)
			sig = att + 1
		default: // anything near the store
			att = pick64(rng, sf+1, so+1, so, sf, sf-1, ps(1)-1, ps(1), ps(1)+1+rng.Int63n(100), ps(2)-1, ps(2), sf+rng.Int63n(slotsPerPeriod), ps(0)+rng.Int63n(slotsPerPeriod))
			sig = pick64(rng, att+1, att+1, att+2, att, att-1, ps(1), ps(2), ps(1)-1, att+slotsPerPeriod)
		}
		if att < 0 {
			att = 0
		}
		if sig < 0 {
			sig = 0
		}
		kindR := rng.Intn(10)
		fin, next := int64(-1), "none"
		if kindR < 7 { // finality or full
			fin = pick64(rng, att-64, att-96, att-64, att-64-att%32, att, att-1, att-rng.Int63n(200), att-rng.Int63n(200), sf+1+rng.Int63n(1+abs64(att-sf)),
				sf+1+rng.Int63n(1+abs64(att-sf)), att-att%32, sf+1, sf+1, sf, sf-1, ps(1), ps(1)-1, att+1)
			if att > sf && fin <= sf && rng.Intn(2) == 0 { // prefer a finalized header that is news to the store
				fin = sf + 1 + rng.Int63n(att-sf)
			}
			if fin < 0 {
				fin = 0
			}
			if kindR < 4 {
				next = names[rng.Intn(3)]
			}
		} else if kindR == 7 && rng.Intn(3) == 0 { // full update carrying no finality information
			next = names[rng.Intn(3)]
		}
		st := step{Att: att, Sig: sig, Fin: fin, Next: next, Parts: rndParts[rng.Intn(len(rndParts))], Defect: "none", Variant: rng.Intn(1 << 16),
			Mode: "verified", Cls: "rnd", Expect: ""}
		if rng.Intn(5) == 0 {
			st.Parts = rng.Intn(committeeSize + 1)
		}
		st.Now = pick64(rng, sig, sig, sig+1, sig+rng.Int63n(1000), sig+slotsPerPeriod)
		switch r := rng.Intn(100); {
		case r < 6:
			st.Now = sig - 1 - pick64(rng, 0, 0, rng.Int63n(100))
			if st.Now < 0 {
				st.Now = 0
			}
		case r < 14:
			st.Defect = "finBad"
		case r < 22:
			st.Defect = "nextBad"
		case r < 32:
			st.Defect = "sigBad"
		case r < 38:
			st.Defect = "otherCom"
		case r < 42:
			st.Signer = names[rng.Intn(3)]
		}
		if rng.Intn(7) == 0 {
			st.Mode = "blind"
		}
		ev := map[string]any{"t": id, "i": i, "src": "rnd"}
		s.run(st, ev)
		evs = append(evs, ev)
	}
	return evs
}

func abs64(x int64) int64 {
	if x < 0 {
		return -x
	}
	return x
}

// ---- entry point ------------------------------------------------------------------------------------

func Main(args []string) error {
	fs := flag.NewFlagSet("lightclient", flag.ContinueOnError)
	casesPath := fs.String("cases", "", "JSON file: array of abstract cases printed by Gen_LightClient")
	conc := fs.Int("conc", 1, "concretisations per abstract case")
	rnd := fs.Int("rnd", 0, "number of random sequences")
	rndLen := fs.Int("rndlen", 14, "updates per random sequence")
	seed := fs.Int64("seed", 1, "seed")
	out := fs.String("out", "trace.ndjson", "output trace")
	only := fs.String("only", "", "run only the sequence with this id")
	boot := fs.Int("boot", 0, "boot mode (LightClientBoot.tla): number of bootstrap sequences of 8 client pairs each")
	if err := fs.Parse(args); err != nil {
		return err
	}
	var cases []absCase
	if *casesPath != "" {
		b, err := os.ReadFile(*casesPath)
		if err != nil {
			return err
		}
		if err := json.Unmarshal(b, &cases); err != nil {
			return err
		}
	}
	w := newWorld(*seed)
	type job struct {
		id string
		f  func() []map[string]any
	}
	var jobs []job
	for ci := range cases {
		for j := 0; j < *conc; j++ {
			id, ci := fmt.Sprintf("c%d.%d", ci, j), ci
			jobs = append(jobs, job{id, func() []map[string]any { return w.runCase(*seed, id, ci, &cases[ci]) }})
		}
	}
	for r := 0; r < *rnd; r++ {
		id := fmt.Sprintf("r%d", r)
		jobs = append(jobs, job{id, func() []map[string]any { return w.runRandom(*seed, id, *rndLen) }})
	}
	for r := 0; r < *boot; r++ {
		id := fmt.Sprintf("b%d", r)
		jobs = append(jobs, job{id, func() []map[string]any { return w.runBoot(*seed, id, 8) }})
	}
	if *only != "" {
		var keep []job
		for _, j := range jobs {
			if j.id == *only {
				keep = append(keep, j)
			}
		}
		jobs = keep
	}
	results := make([][]map[string]any, len(jobs))
	var wg sync.WaitGroup
	sem := make(chan struct{}, runtime.GOMAXPROCS(0))
	for i := range jobs {
		wg.Add(1)
		sem <- struct{}{}
		go func(i int) {
			defer wg.Done()
			defer func() { <-sem }()
			results[i] = jobs[i].f()
		}(i)
	}
	wg.Wait()
	tw, err := tracelog.Create(*out)
	if err != nil {
		return err
	}
	for _, evs := range results {
		for _, ev := range evs {
			tw.Emit(ev)
		}
	}
	return tw.Close()
}
