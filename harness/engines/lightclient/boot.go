package lightclient

import (
	"errors"
	"fmt"
	"math/rand"
	"time"

	"github.com/ethereum/go-ethereum/log"
	zcommon "github.com/protolambda/zrnt/eth2/beacon/common"
	"github.com/protolambda/zrnt/eth2/beacon/deneb"
	"github.com/protolambda/zrnt/eth2/beacon/electra"
	"github.com/protolambda/ztyp/tree"
	"github.com/zen-eth/shisui/beacon"
)

// Boot mode (spec/LightClientBoot.tla): how the light client gets its store. The real ConsensusLightClient.Sync is
// called with a scripted ConsensusAPI (the interface the client itself calls through) whose bootstrap has the facets of
// the specification concretised over the synthetic committees: type of the current fork or an older one, header whose
// root is the trusted checkpoint or not, current committee proven under the header's state root or not (a flipped branch
// node, another committee, the branch of the next-committee index), fresh or older than the maximal checkpoint age,
// strict or lax configuration, API failure. Everything after the bootstrap fails in the scripted API, so Sync ends there;
// a second Sync on the same client shows what a failed / successful re-bootstrap does to a store that exists.

type bootFacets struct {
	API    string `json:"api"`
	Type   string `json:"type"`
	Hdr    string `json:"hdr"` // lcroot: the checkpoint is the root of the light-client header (what today's code compares); beaconroot: of the beacon header (the consensus specification's meaning); other
	Com    string `json:"com"`
	Age    string `json:"age"`
	Strict bool   `json:"strict"`
}

type bootAPI struct {
	obj   zcommon.SpecObj
	fail  bool
	calls []string
}

var errStop = errors.New("scripted API: nothing further")

func (a *bootAPI) GetBootstrap(zcommon.Root) (zcommon.SpecObj, error) {
	a.calls = append(a.calls, "bootstrap")
	if a.fail {
		return nil, errors.New("scripted API: bootstrap unavailable")
	}
	return a.obj, nil
}
func (a *bootAPI) GetUpdates(p, c uint64) ([]zcommon.SpecObj, error) {
	a.calls = append(a.calls, "updates")
	return nil, errStop
}
func (a *bootAPI) GetFinalityUpdate() (zcommon.SpecObj, error) {
	a.calls = append(a.calls, "finality")
	return nil, errStop
}
func (a *bootAPI) GetOptimisticUpdate() (zcommon.SpecObj, error) {
	a.calls = append(a.calls, "optimistic")
	return nil, errStop
}
func (a *bootAPI) ChainID() uint64 { return 1 }
func (a *bootAPI) Name() string    { return "portal" }

const maxAge = 1_209_600 // seconds, the code's default

type builtBoot struct {
	obj        zcommon.SpecObj
	checkpoint zcommon.Root
	hdr        *zcommon.BeaconBlockHeader
	com        *committee
}

// build concretises the facets; nowSlot is the slot the wall clock is at (the genesis time is set accordingly)
func (w *world) buildBoot(rng *rand.Rand, f bootFacets, nowSlot uint64) builtBoot {
	proven := w.coms[rng.Intn(3)]
	carried := proven
	leaves := map[uint64]root{32 + 22: proven.root, 32 + 23: w.coms[(rng.Intn(2)+1+comIndex(w, proven))%3].root}
	st := newSparseTree(rng, leaves)
	br := st.branch(32 + 22)
	variant := rng.Intn(4)
	if f.Com == "unproven" {
		switch variant {
		case 3:
			// the carried committee IS in the state, but as the NEXT committee (index 23), with its own genuine branch
			other := w.coms[(comIndex(w, proven)+1)%3]
			st = newSparseTree(rng, map[uint64]root{32 + 22: other.root, 32 + 23: proven.root})
			br = st.branch(32 + 23)
		case 0:
			br[rng.Intn(5)][rng.Intn(32)] ^= 1 << uint(rng.Intn(8))
		case 1:
			carried = w.coms[(comIndex(w, proven)+1)%3] // a genuine committee, but not the one under the state root
		case 2:
			br = st.branch(32 + 23) // the branch of the NEXT committee's index
		}
	}
	slot := nowSlot - 100 - uint64(rng.Intn(1000))
	if f.Age == "old" {
		slot = nowSlot - maxAge/12 - 5 - uint64(rng.Intn(100000))
	} else if rng.Intn(3) == 0 {
		slot = nowSlot - maxAge/12 + 5 // just inside
	}
	hdr := &zcommon.BeaconBlockHeader{Slot: zcommon.Slot(slot), ProposerIndex: zcommon.ValidatorIndex(rng.Intn(1000)), StateRoot: zcommon.Root(st.node(1))}
	rng.Read(hdr.ParentRoot[:])
	rng.Read(hdr.BodyRoot[:])
	lch := deneb.LightClientHeader{Beacon: *hdr}
	rng.Read(lch.Execution.BlockHash[:])
	var obj zcommon.SpecObj
	sc := copySC(carried.sc)
	if f.Type == "current" {
		b := &electra.LightClientBootstrap{Header: lch, CurrentSyncCommittee: sc}
		for i := 0; i < 5; i++ {
			b.CurrentSyncCommitteeBranch[i] = zcommon.Root(br[i])
		}
		rng.Read(b.CurrentSyncCommitteeBranch[5][:])
		obj = b
	} else {
		b := &deneb.LightClientBootstrap{Header: lch, CurrentSyncCommittee: sc}
		for i := 0; i < 5; i++ {
			b.CurrentSyncCommitteeBranch[i] = zcommon.Root(br[i])
		}
		obj = b
	}
	var cp zcommon.Root
	switch f.Hdr {
	case "lcroot":
		cp = lch.HashTreeRoot(tree.GetHashFn())
	case "beaconroot":
		cp = zcommon.Root(headerRoot(hdr))
	default:
		rng.Read(cp[:])
	}
	return builtBoot{obj: obj, checkpoint: cp, hdr: hdr, com: carried}
}

func comIndex(w *world, c *committee) int {
	for i := range w.coms {
		if w.coms[i] == c {
			return i
		}
	}
	return 0
}

// projection of the store: which header / committee it rests on
func bootProj(c *beacon.ConsensusLightClient, w *world) map[string]any {
	if c.Store.FinalizedHeader == nil {
		return map[string]any{"set": false, "fin": 0, "opt": 0, "cur": "none", "next": "none"}
	}
	next := "none"
	if c.Store.NextSyncCommittee != nil {
		next = w.comName(c.Store.NextSyncCommittee)
	}
	opt := 0
	if c.Store.OptimisticHeader != nil {
		opt = tag(headerRoot(c.Store.OptimisticHeader))
	}
	return map[string]any{"set": true, "fin": tag(headerRoot(c.Store.FinalizedHeader)), "opt": opt, "cur": w.comName(c.Store.CurrentSyncCommittee), "next": next}
}

func (w *world) runBoot(seed int64, id string, n int) []map[string]any {
	rng := seqRng(seed, id)
	evs := []map[string]any{}
	pick := func(good bool) bootFacets {
		f := bootFacets{API: "ok", Type: "current", Hdr: "lcroot", Com: "proven", Age: "fresh", Strict: rng.Intn(2) == 0}
		if good {
			if !f.Strict && rng.Intn(2) == 0 {
				f.Age = "old" // a lax configuration only warns
			}
			return f
		}
		switch rng.Intn(6) {
		case 0:
			f.API = "err"
		case 1:
			f.Type = "older"
		case 2:
			f.Hdr = "other"
		case 3:
			f.Hdr = "beaconroot"
		case 4:
			f.Com = "unproven"
		case 5:
			f.Age, f.Strict = "old", true
		}
		return f
	}
	for k := 0; k < n; k++ {
		nowSlot := uint64(w.p0min+rng.Int63n(5000))*slotsPerPeriod + uint64(rng.Intn(slotsPerPeriod))
		genesis := uint64(time.Now().Unix()) - nowSlot*12 - 3
		var client *beacon.ConsensusLightClient
		// two Syncs on the same client: the first decides whether a store exists when the second one bootstraps
		for round := 0; round < 2; round++ {
			f := pick(rng.Intn(2) == 0)
			b := w.buildBoot(rng, f, nowSlot)
			api := &bootAPI{obj: b.obj, fail: f.API == "err"}
			cfg := &beacon.Config{Chain: beacon.ChainConfig{ChainID: 1, GenesisTime: genesis, GenesisRoot: w.gvr}, Spec: w.spec,
				MaxCheckpointAge: maxAge, StrictCheckpointAge: f.Strict}
			if client == nil {
				client, _ = beacon.NewConsensusLightClient(api, cfg, b.checkpoint, log.NewLogger(log.DiscardHandler()))
			} else {
				client.API, client.Config, client.InitialCheckpoint = api, cfg, b.checkpoint
			}
			pre := bootProj(client, w)
			res, site := "err", ""
			func() {
				defer func() {
					if r := recover(); r != nil {
						res, site = "panic", fmt.Sprint(r)
					}
				}()
				if err := client.Sync(); err == nil {
					res = "ok"
				}
			}()
			evs = append(evs, map[string]any{"ev": "boot", "t": id, "k": k, "round": round, "f": f, "res": res, "site": site, "calls": api.calls,
				"pre": pre, "post": bootProj(client, w), "hdr": tag(headerRoot(b.hdr)), "com": b.com.name})
		}
	}
	return evs
}
