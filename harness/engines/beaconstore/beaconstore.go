// Package beaconstore drives the real beacon.Storage (beacon/storage.go) on pebble over an in-memory file
// system with seeded and TLC-generated operation sequences and logs, after every operation, the full projected
// state as a reader sees it (every bootstrap id, every update range, the finality / optimistic update at every
// slot of the universe, the historical summaries at every epoch). spec/Trace_BeaconStore.tla replays the puts
// through the actions of spec/BeaconStore.tla and compares every observation (extension of the specification
// beyond the listed properties; DESIGN I.10).
package beaconstore

import (
	"bufio"
	"bytes"
	"crypto/sha256"
	"encoding/binary"
	"encoding/json"
	"errors"
	"flag"
	"fmt"
	"math/rand"
	"os"

	cp "github.com/cockroachdb/pebble"
	"github.com/cockroachdb/pebble/vfs"
	"github.com/protolambda/zrnt/eth2/beacon/altair"
	zcommon "github.com/protolambda/zrnt/eth2/beacon/common"
	"github.com/protolambda/zrnt/eth2/beacon/deneb"
	"github.com/protolambda/zrnt/eth2/beacon/electra"
	"github.com/protolambda/zrnt/eth2/configs"
	"github.com/protolambda/ztyp/codec"
	"github.com/zen-eth/shisui/beacon"
	"github.com/zen-eth/shisui/storage"
	tbeacon "github.com/zen-eth/shisui/types/beacon"

	"verifharness/common"
	"verifharness/tracelog"
)

func init() { common.Register("beaconstore", Main) }

const (
	nIds      = 3
	maxPeriod = 11
	maxRange  = 3
)

// slots / epochs of the universe: increasing, with byte patterns that tell a numeric comparison from a bytewise one
var points = []uint64{1, 255, 256, 257, 65535, 65536, 1 << 24, 1<<24 + 1, 1<<32 + 7, 1 << 40}

type quiet struct{}

func (quiet) Infof(string, ...interface{})  {}
func (quiet) Errorf(string, ...interface{}) {}
func (quiet) Fatalf(string, ...interface{}) {}

var spec = configs.Mainnet

type world struct {
	fs     vfs.FS
	db     *cp.DB
	st     storage.ContentStorage
	ids    [nIds][]byte
	p0     uint64 // real period = p0 + abstract period
	w      *tracelog.Writer
	t      int
	digest zcommon.ForkDigest
	// net mode: bootstraps are stored under the content id the protocol derives from the key
	bootByKey bool
}

func (w *world) open() error {
	db, err := cp.Open("db", &cp.Options{FS: w.fs, Logger: quiet{}})
	if err != nil {
		return err
	}
	st, err := beacon.NewBeaconStorage(storage.PortalStorageConfig{StorageCapacityMB: 100, NetworkName: "beacon", Spec: spec}, db)
	if err != nil {
		return err
	}
	w.db, w.st = db, st
	return nil
}

func ser(o interface {
	Serialize(*zcommon.Spec, *codec.EncodingWriter) error
}) []byte {
	var buf bytes.Buffer
	if err := o.Serialize(spec, codec.NewEncodingWriter(&buf)); err != nil {
		panic(err)
	}
	return buf.Bytes()
}

func syncAgg(v uint64) altair.SyncAggregate {
	bits := make([]byte, 64)
	binary.LittleEndian.PutUint64(bits, v)
	return altair.SyncAggregate{SyncCommitteeBits: altair.SyncCommitteeBits(bits)}
}

func hdr(slot, variant uint64) deneb.LightClientHeader {
	return deneb.LightClientHeader{Beacon: zcommon.BeaconBlockHeader{Slot: zcommon.Slot(slot), ProposerIndex: zcommon.ValidatorIndex(variant)}}
}

// an update of the range: variant makes the bytes distinct
func (w *world) update(variant uint64) tbeacon.ForkedLightClientUpdate {
	sc := zcommon.SyncCommittee{Pubkeys: make([]zcommon.BLSPubkey, 512)}
	if w.digest == tbeacon.Electra {
		return tbeacon.ForkedLightClientUpdate{ForkDigest: tbeacon.Electra, LightClientUpdate: &electra.LightClientUpdate{
			AttestedHeader: hdr(100+variant, variant), NextSyncCommittee: sc, FinalizedHeader: hdr(50+variant, variant),
			SyncAggregate: syncAgg(variant), SignatureSlot: zcommon.Slot(101 + variant)}}
	}
	return tbeacon.ForkedLightClientUpdate{ForkDigest: tbeacon.Deneb, LightClientUpdate: &deneb.LightClientUpdate{
		AttestedHeader: hdr(100+variant, variant), NextSyncCommittee: sc, FinalizedHeader: hdr(50+variant, variant),
		SyncAggregate: syncAgg(variant), SignatureSlot: zcommon.Slot(101 + variant)}}
}

func (w *world) finality(slot, variant uint64) []byte {
	if w.digest == tbeacon.Electra {
		return ser(&tbeacon.ForkedLightClientFinalityUpdate{ForkDigest: tbeacon.Electra, LightClientFinalityUpdate: &electra.LightClientFinalityUpdate{
			AttestedHeader: hdr(slot+40, variant), FinalizedHeader: hdr(slot, variant), SyncAggregate: syncAgg(variant), SignatureSlot: zcommon.Slot(slot + 41)}})
	}
	return ser(&tbeacon.ForkedLightClientFinalityUpdate{ForkDigest: tbeacon.Deneb, LightClientFinalityUpdate: &deneb.LightClientFinalityUpdate{
		AttestedHeader: hdr(slot+40, variant), FinalizedHeader: hdr(slot, variant), SyncAggregate: syncAgg(variant), SignatureSlot: zcommon.Slot(slot + 41)}})
}

func (w *world) optimistic(sigSlot, variant uint64) []byte {
	return ser(&tbeacon.ForkedLightClientOptimisticUpdate{ForkDigest: w.digest, LightClientOptimisticUpdate: &deneb.LightClientOptimisticUpdate{
		AttestedHeader: hdr(sigSlot-1, variant), SyncAggregate: syncAgg(variant), SignatureSlot: zcommon.Slot(sigSlot)}})
}

func key(sel byte, body ...[]byte) []byte {
	k := []byte{sel}
	for _, b := range body {
		k = append(k, b...)
	}
	return k
}
func cid(k []byte) []byte { h := sha256.Sum256(k); return h[:] }
func u64(v uint64) []byte { b := make([]byte, 8); binary.LittleEndian.PutUint64(b, v); return b }

func res(err error) string {
	if err == nil {
		return "ok"
	}
	return "err"
}

// ---- operations ------------------------------------------------------------------------------------

func (w *world) putBoot(i int, v []byte) {
	err := guardErr(func() error { return w.st.Put(key(0x10, w.ids[i-1]), w.ids[i-1], v) })
	w.w.Emit(map[string]any{"ev": "putBoot", "t": w.t, "id": i, "tag": common.Tag(v), "valid": true, "res": res(err)})
}

func (w *world) putUpd(start int, vars []uint64, corrupt bool) {
	var rng tbeacon.LightClientUpdateRange
	tags := []int{}
	for _, v := range vars {
		u := w.update(v)
		rng = append(rng, u)
		tags = append(tags, common.Tag(ser(&u)))
	}
	content := ser(rng)
	if corrupt {
		content = content[:len(content)-7] // the last update is cut short: the whole range must be refused
	}
	k := key(0x11, u64(w.p0+uint64(start)), u64(uint64(len(vars))))
	err := guardErr(func() error { return w.st.Put(k, cid(k), content) })
	w.w.Emit(map[string]any{"ev": "putUpd", "t": w.t, "start": start, "tags": tags, "valid": !corrupt, "res": res(err)})
}

func (w *world) putFin(si int, variant uint64, corrupt bool) {
	c := w.finality(points[si], variant)
	tag := common.Tag(c)
	if corrupt {
		c = c[:len(c)/2]
	}
	k := key(0x12, u64(points[si]))
	err := guardErr(func() error { return w.st.Put(k, cid(k), c) })
	w.w.Emit(map[string]any{"ev": "putFin", "t": w.t, "s": si, "tag": tag, "valid": !corrupt, "res": res(err)})
}

func (w *world) putOpt(si int, variant uint64, corrupt bool) {
	c := w.optimistic(points[si], variant)
	tag := common.Tag(c)
	if corrupt {
		c = c[:3]
	}
	k := key(0x13, u64(points[si]))
	err := guardErr(func() error { return w.st.Put(k, cid(k), c) })
	w.w.Emit(map[string]any{"ev": "putOpt", "t": w.t, "s": si, "tag": tag, "valid": !corrupt, "res": res(err)})
}

func (w *world) putHS(ei int, v []byte, badKey bool) {
	k := key(0x14, u64(points[ei]))
	if badKey {
		k = k[:len(k)-1]
	}
	err := guardErr(func() error { return w.st.Put(k, cid(k), v) })
	w.w.Emit(map[string]any{"ev": "putHS", "t": w.t, "e": ei, "tag": common.Tag(v), "valid": !badKey, "res": res(err)})
}

func (w *world) restart() error {
	if err := w.st.Close(); err != nil {
		return err
	}
	if err := w.open(); err != nil {
		return err
	}
	w.w.Emit(map[string]any{"ev": "restart", "t": w.t})
	return nil
}

var errPanic = errors.New("panic")

func guardErr(f func() error) (err error) {
	defer func() {
		if r := recover(); r != nil {
			err = fmt.Errorf("%w: %v", errPanic, r)
		}
	}()
	return f()
}

// one read, as a sequence: <<tag>> found, <<0>> not found, <<-1>> error / panic
func (w *world) get(k []byte, id []byte) ([]byte, []int) {
	var v []byte
	err := guardErr(func() error {
		var e error
		v, e = w.st.Get(k, id)
		return e
	})
	switch {
	case errors.Is(err, storage.ErrContentNotFound):
		return nil, []int{0}
	case err != nil:
		return nil, []int{-1}
	case v == nil:
		return nil, []int{0} // (nil, nil): nothing held
	}
	return v, []int{common.Tag(v)}
}

func (w *world) observe() {
	boot := [][]int{}
	for i := 0; i < nIds; i++ {
		id := w.ids[i]
		if w.bootByKey {
			id = cid(key(0x10, w.ids[i]))
		}
		_, r := w.get(key(0x10, w.ids[i]), id)
		boot = append(boot, r)
	}
	upd := []map[string]any{}
	for s := 0; s <= maxPeriod; s++ {
		for c := 1; c <= maxRange && s+c-1 <= maxPeriod; c++ {
			k := key(0x11, u64(w.p0+uint64(s)), u64(uint64(c)))
			v, r := w.get(k, cid(k))
			if v != nil {
				var rg tbeacon.LightClientUpdateRange
				if err := rg.Deserialize(spec, codec.NewDecodingReader(bytes.NewReader(v), uint64(len(v)))); err != nil {
					r = []int{-1}
				} else {
					r = []int{}
					for i := range rg {
						r = append(r, common.Tag(ser(&rg[i])))
					}
				}
			}
			upd = append(upd, map[string]any{"s": s, "c": c, "r": r})
		}
	}
	fin, opt, hs := [][]int{}, [][]int{}, [][]int{}
	for i := range points {
		k := key(0x12, u64(points[i]))
		_, r := w.get(k, cid(k))
		fin = append(fin, r)
		k = key(0x13, u64(points[i]))
		_, r = w.get(k, cid(k))
		opt = append(opt, r)
		k = key(0x14, u64(points[i]))
		_, r = w.get(k, cid(k))
		hs = append(hs, r)
	}
	w.w.Emit(map[string]any{"ev": "obs", "t": w.t, "boot": boot, "upd": upd, "fin": fin, "opt": opt, "hs": hs})
}

// ---- drivers ---------------------------------------------------------------------------------------

func newWorld(tw *tracelog.Writer, rng *rand.Rand, t int) (*world, error) {
	w, err := newWorld0(tw, rng, t)
	if err != nil {
		return nil, err
	}
	tw.Emit(map[string]any{"ev": "init", "t": t, "p0": fmt.Sprint(w.p0), "fork": fmt.Sprintf("%x", w.digest[:])})
	w.observe()
	return w, nil
}

func newWorld0(tw *tracelog.Writer, rng *rand.Rand, t int) (*world, error) {
	w := &world{fs: vfs.NewMem(), w: tw, t: t}
	for i := range w.ids {
		w.ids[i] = make([]byte, 32)
		rng.Read(w.ids[i])
	}
	w.p0 = []uint64{0, 255, 65534, 1 << 33}[rng.Intn(4)]
	w.digest = []zcommon.ForkDigest{tbeacon.Electra, tbeacon.Deneb}[rng.Intn(2)]
	if err := w.open(); err != nil {
		return nil, err
	}
	return w, nil
}

func (w *world) close() { w.st.Close() }

func blob(rng *rand.Rand, variant uint64) []byte {
	b := make([]byte, 40+rng.Intn(200))
	rng.Read(b)
	binary.LittleEndian.PutUint64(b, variant)
	return b
}

func randomRun(tw *tracelog.Writer, seed int64, t, nops int) error {
	rng := common.Rng(seed)
	w, err := newWorld(tw, rng, t)
	if err != nil {
		return err
	}
	defer w.close()
	for i := 0; i < nops; i++ {
		v := uint64(rng.Intn(1 << 20))
		switch k := rng.Intn(20); {
		case k < 3:
			w.putBoot(1+rng.Intn(nIds), blob(rng, v))
		case k < 8:
			n := 1 + rng.Intn(maxRange+1)
			start := rng.Intn(maxPeriod - n + 2)
			vars := make([]uint64, n)
			for j := range vars {
				vars[j] = uint64(rng.Intn(1 << 20))
			}
			w.putUpd(start, vars, rng.Intn(8) == 0)
		case k < 11:
			w.putFin(rng.Intn(len(points)), v, rng.Intn(8) == 0)
		case k < 14:
			w.putOpt(rng.Intn(len(points)), v, rng.Intn(8) == 0)
		case k < 19:
			w.putHS(rng.Intn(len(points)), blob(rng, v), rng.Intn(10) == 0)
		default:
			if err := w.restart(); err != nil {
				return err
			}
		}
		w.observe()
	}
	return nil
}

// a behaviour printed by TLC (Gen_BeaconStore): the operations with their abstract arguments
type genOp struct {
	Op string `json:"op"`
	A  int    `json:"a"`
	Ts []int  `json:"ts"`
}

func replay(tw *tracelog.Writer, seed int64, t int, ops []genOp) error {
	rng := common.Rng(seed)
	w, err := newWorld(tw, rng, t)
	if err != nil {
		return err
	}
	defer w.close()
	salt := uint64(rng.Intn(1000)) * 16
	for _, o := range ops {
		switch o.Op {
		case "boot":
			b := make([]byte, 64)
			binary.LittleEndian.PutUint64(b, salt+uint64(o.Ts[0]))
			w.putBoot(o.A, b)
		case "upd":
			vars := make([]uint64, len(o.Ts))
			for j, x := range o.Ts {
				vars[j] = salt + uint64(x)
			}
			w.putUpd(o.A, vars, false)
		case "fin":
			w.putFin(o.A, salt+uint64(o.Ts[0]), false)
		case "opt":
			w.putOpt(o.A, salt+uint64(o.Ts[0]), false)
		case "hs":
			b := make([]byte, 48)
			binary.LittleEndian.PutUint64(b, salt+uint64(o.Ts[0]))
			w.putHS(o.A, b, false)
		case "restart":
			if err := w.restart(); err != nil {
				return err
			}
		default:
			return fmt.Errorf("unknown generated op %q", o.Op)
		}
		w.observe()
	}
	return nil
}

func Main(args []string) error {
	fs := flag.NewFlagSet("beaconstore", flag.ContinueOnError)
	out := fs.String("out", "trace.ndjson", "trace output")
	seed := fs.Int64("seed", 1, "seed")
	runs := fs.Int("runs", 20, "seeded random runs")
	nops := fs.Int("ops", 40, "operations per random run")
	in := fs.String("in", "", "TLC-generated behaviours (ndjson)")
	mode := fs.String("mode", "store", "store: beacon.Storage alone (BeaconStore.tla); net: the network's intake validate -> store (BeaconNet.tla)")
	if err := fs.Parse(args); err != nil {
		return err
	}
	tw, err := tracelog.Create(*out)
	if err != nil {
		return err
	}
	defer tw.Close()
	t := 0
	if *in != "" {
		f, err := os.Open(*in)
		if err != nil {
			return err
		}
		sc := bufio.NewScanner(f)
		sc.Buffer(make([]byte, 1<<20), 1<<26)
		for sc.Scan() {
			if len(sc.Bytes()) == 0 {
				continue
			}
			t++
			tw.Emit(map[string]any{"ev": "case", "t": t, "generated": true})
			if *mode == "net" {
				var ops []genNetOp
				if err := json.Unmarshal(sc.Bytes(), &ops); err != nil {
					return err
				}
				if err := replayNet(tw, *seed*7919+int64(t), t, ops); err != nil {
					return err
				}
				continue
			}
			var ops []genOp
			if err := json.Unmarshal(sc.Bytes(), &ops); err != nil {
				return err
			}
			if err := replay(tw, *seed*7919+int64(t), t, ops); err != nil {
				return err
			}
		}
		f.Close()
	}
	for i := 0; i < *runs; i++ {
		t++
		if *mode == "net" {
			if err := randomNet(tw, *seed*1000003+int64(i), t, *nops); err != nil {
				return err
			}
			continue
		}
		if err := randomRun(tw, *seed*1000003+int64(i), t, *nops); err != nil {
			return err
		}
	}
	return nil
}
