package beaconstore

import (
	"bytes"
	"crypto/sha256"
	"encoding/json"
	"errors"
	"fmt"
	"math/rand"
	"sync"
	"time"

	gethtypes "github.com/ethereum/go-ethereum/core/types"
	"github.com/holiman/uint256"
	"github.com/protolambda/zrnt/eth2/beacon/capella"
	zcommon "github.com/protolambda/zrnt/eth2/beacon/common"
	"github.com/protolambda/zrnt/eth2/beacon/deneb"
	"github.com/protolambda/zrnt/eth2/beacon/electra"
	"github.com/protolambda/ztyp/codec"
	"github.com/protolambda/ztyp/tree"
	"github.com/zen-eth/shisui/beacon"
	"github.com/zen-eth/shisui/portalwire"
	"github.com/zen-eth/shisui/storage"
	tbeacon "github.com/zen-eth/shisui/types/beacon"

	"verifharness/common"
	"verifharness/netsim"
	"verifharness/tracelog"
)

// Net mode (spec/BeaconNet.tla): the beacon sub-network's intake of offered content, beacon.Network.validateContents
// over the real BeaconValidator and the real beacon.Storage behind a real PortalProtocol. The harness stands at the two
// interfaces the code itself calls through - validation.Validator and storage.ContentStorage - with pass-through
// wrappers that log every call the loop makes, in the order it makes them: "validate" (the item's abstract facets and
// the real verdict), "put" (the real result). The batches come from TLC (Gen_BeaconNet: acceptable items and near
// misses) and from a seeded driver; every abstract facet is concretised into real bytes here.

type absItem struct {
	Kind string `json:"kind"`
	Kdec bool   `json:"kdec"`
	Dec  bool   `json:"dec"`
	Fork string `json:"fork"`
	Ka   int    `json:"ka"`
	Kb   int    `json:"kb"`
	Cv   int    `json:"cv"`
	Tags []int  `json:"tags"`
	Aux  string `json:"aux"`
}

type concItem struct {
	abs     absItem
	key     []byte
	content []byte
	root    []byte // the finalized state root the oracle answers with while this item is validated
	fail    bool   // ... or the oracle fails
}

type stubOracle struct {
	mu   sync.Mutex
	root []byte
	fail bool
}

func (o *stubOracle) GetHistoricalSummaries(epoch uint64) (capella.HistoricalSummaries, error) {
	return nil, errors.New("not available")
}
func (o *stubOracle) GetBlockHeaderByHash(hash []byte) (*gethtypes.Header, error) {
	return nil, errors.New("not available")
}
func (o *stubOracle) GetFinalizedStateRoot() ([]byte, error) {
	o.mu.Lock()
	defer o.mu.Unlock()
	if o.fail {
		return nil, errors.New("oracle unavailable")
	}
	return append([]byte{}, o.root...), nil
}

type netWorld struct {
	*world
	inner storage.ContentStorage
	node  *netsim.Node
	bn    *beacon.Network
	orc   *stubOracle
	real  *beacon.BeaconValidator
	batch []*concItem
	salt  uint64
	rng   *rand.Rand
}

// ---- the two pass-through wrappers ----

func (n *netWorld) find(key, content []byte, needContent bool) *concItem {
	for _, it := range n.batch {
		if bytes.Equal(it.key, key) && (!needContent || bytes.Equal(it.content, content)) {
			return it
		}
	}
	return nil
}

func (n *netWorld) ValidateContent(key, content []byte) error {
	it := n.find(key, content, true)
	if it != nil {
		n.orc.mu.Lock()
		n.orc.root, n.orc.fail = it.root, it.fail
		n.orc.mu.Unlock()
	}
	err := guardErr(func() error { return n.real.ValidateContent(key, content) })
	ev := map[string]any{"ev": "validate", "t": n.t, "known": it != nil, "verdict": res(err)}
	if err != nil {
		ev["why"] = fmt.Sprint(err)
	}
	if errors.Is(err, errPanic) {
		ev["verdict"] = "panic"
	}
	if it != nil {
		ev["item"] = it.abs
	} else {
		ev["item"] = absItem{Kind: "unknown", Tags: []int{0}, Aux: "ok", Fork: "electra"}
	}
	n.w.Emit(ev)
	if errors.Is(err, errPanic) {
		return errors.New("validator panicked")
	}
	return err
}

type logStore struct{ n *netWorld }

func (s logStore) Get(k, id []byte) ([]byte, error) { return s.n.inner.Get(k, id) }
func (s logStore) Radius() *uint256.Int             { return s.n.inner.Radius() }
func (s logStore) Close() error                     { return s.n.inner.Close() }
func (s logStore) Put(k, id, v []byte) error {
	err := guardErr(func() error { return s.n.inner.Put(k, id, v) })
	it := s.n.find(k, v, true)
	ev := map[string]any{"ev": "put", "t": s.n.t, "known": it != nil, "res": res(err), "idok": bytes.Equal(id, cid(k))}
	if it != nil {
		ev["item"] = it.abs
	} else {
		ev["item"] = absItem{Kind: "unknown", Tags: []int{0}, Aux: "ok", Fork: "electra"}
	}
	s.n.w.Emit(ev)
	return err
}

// ---- concretisation of the abstract facets ----

func currentSlot() uint64 {
	return uint64(spec.TimeToSlot(zcommon.Timestamp(time.Now().Unix()), zcommon.Timestamp(beacon.GenesisTime)))
}

func fourMonthsOfSlots() uint64 {
	return uint64((time.Hour * 24 * 30 * 4).Seconds()) / uint64(spec.SECONDS_PER_SLOT)
}

func (n *netWorld) bootstrap(slot, variant uint64, fork string) []byte {
	sc := zcommon.SyncCommittee{Pubkeys: make([]zcommon.BLSPubkey, 512)}
	if fork == "electra" {
		return ser(&tbeacon.ForkedLightClientBootstrap{ForkDigest: tbeacon.Electra, Bootstrap: &electra.LightClientBootstrap{Header: hdr(slot, variant), CurrentSyncCommittee: sc}})
	}
	return ser(&tbeacon.ForkedLightClientBootstrap{ForkDigest: tbeacon.Deneb, Bootstrap: &deneb.LightClientBootstrap{Header: hdr(slot, variant), CurrentSyncCommittee: sc}})
}

func fold(leaf [32]byte, branch [][32]byte, index uint64) [32]byte {
	v := leaf
	for i := range branch {
		if (index>>uint(i))&1 == 1 {
			v = sha256.Sum256(append(append([]byte{}, branch[i][:]...), v[:]...))
		} else {
			v = sha256.Sum256(append(append([]byte{}, v[:]...), branch[i][:]...))
		}
	}
	return v
}

func (n *netWorld) summaries(epoch, variant uint64, aux string) (content, root []byte) {
	var list capella.HistoricalSummaries
	for j := uint64(0); j < 2+variant%3; j++ {
		var s capella.HistoricalSummary
		s.BlockSummaryRoot = sha256.Sum256(u64(variant*16 + j))
		s.StateSummaryRoot = sha256.Sum256(u64(variant*16 + j + 8))
		list = append(list, s)
	}
	var proof tbeacon.HistoricalSummariesProof
	var br [][32]byte
	for j := range proof.Proof {
		h := sha256.Sum256(u64(variant*32 + uint64(j) + 1000))
		proof.Proof[j] = h
		br = append(br, h)
	}
	leaf := list.HashTreeRoot(spec, tree.GetHashFn())
	// what the code verifies: generalized index 59 (field 27 of a 32-field state, depth 5) over the FIRST FIVE of the six
	// proof nodes the container carries
	r := fold(leaf, br[:5], 59-32)
	switch aux {
	case "badbranch":
		proof.Proof[int(variant)%5][int(variant)%32] ^= 0x40
	case "otherlist":
		list[len(list)-1].StateSummaryRoot[31] ^= 1
	case "wrongdepth":
		r = fold(leaf, br[:4], 59-32) // the branch reaches the trusted root one level early
	}
	digest := tbeacon.Electra
	if variant%3 == 1 {
		digest = tbeacon.Deneb // the summaries' fork digest is not looked at
	}
	c := ser(&tbeacon.ForkedHistoricalSummariesWithProof{ForkDigest: digest,
		HistoricalSummariesWithProof: tbeacon.HistoricalSummariesWithProof{EPOCH: zcommon.Epoch(epoch), HistoricalSummaries: list, Proof: proof}})
	return c, r[:]
}

func badKey(k []byte, variant uint64) []byte {
	if variant%2 == 0 {
		return k[:len(k)-1]
	}
	return append(append([]byte{}, k...), 0)
}

// cut makes the content undecodable; anyDigest: the kind's decoder does not look at the fork digest (the summaries)
func cut(c []byte, variant uint64, anyDigest bool) []byte {
	if anyDigest {
		variant = variant % 2
	}
	switch variant % 3 {
	case 0:
		return c[:len(c)-7]
	case 1:
		return c[:len(c)/2]
	}
	return append([]byte{0xde, 0xad, 0xbe, 0xef}, c[4:]...) // a fork digest nobody knows
}

// concretise builds the real key and content of an abstract item; a.Tags is replaced by the fingerprints of the
// records a reader gets back once the item is stored
func (n *netWorld) concretise(a absItem) *concItem {
	it := &concItem{abs: a}
	tag := func(j int) uint64 { return n.salt + uint64(a.Tags[j]) }
	saved := n.digest
	n.digest = tbeacon.Electra
	if a.Fork != "electra" {
		n.digest = tbeacon.Deneb
	}
	defer func() { n.digest = saved }()
	v0 := tag(0)
	switch a.Kind {
	case "update":
		var rg tbeacon.LightClientUpdateRange
		tags := []int{}
		for j := range a.Tags {
			u := n.update(tag(j))
			rg = append(rg, u)
			tags = append(tags, common.Tag(ser(&u)))
		}
		it.content = ser(rg)
		it.key = key(0x11, u64(n.p0+uint64(a.Ka)), u64(uint64(a.Kb)))
		it.abs.Tags = tags
	case "bootstrap":
		slot := currentSlot() - 1000
		if v0%2 == 1 {
			slot = currentSlot() - fourMonthsOfSlots() + 10 // just inside the four months
		}
		if a.Aux == "old" {
			slot = currentSlot() - fourMonthsOfSlots() - 10
		}
		it.content = n.bootstrap(slot, v0, a.Fork)
		it.key = key(0x10, n.ids[a.Ka-1])
		it.abs.Tags = []int{common.Tag(it.content)}
	case "finality":
		it.content = n.finality(points[a.Cv], v0)
		it.key = key(0x12, u64(points[a.Ka]))
		it.abs.Tags = []int{common.Tag(it.content)}
	case "optimistic":
		it.content = n.optimistic(points[a.Cv], v0)
		it.key = key(0x13, u64(points[a.Ka]))
		it.abs.Tags = []int{common.Tag(it.content)}
	case "summaries":
		it.content, it.root = n.summaries(points[a.Cv], v0, a.Aux)
		it.fail = a.Aux == "oraclefail"
		it.key = key(0x14, u64(points[a.Ka]))
		it.abs.Tags = []int{common.Tag(it.content)}
	case "unknown":
		it.content = n.finality(points[1], v0)
		it.key = key([]byte{0x15, 0x0f, 0x00, 0xff}[v0%4], u64(points[1]))
		it.abs.Tags = []int{common.Tag(it.content)}
	case "emptykey":
		it.content = n.finality(points[1], v0)
		it.key = []byte{}
		it.abs.Tags = []int{common.Tag(it.content)}
	}
	if !a.Kdec && a.Kind != "bootstrap" && len(it.key) > 1 {
		it.key = badKey(it.key, v0)
	}
	if !a.Dec {
		it.content = cut(it.content, v0, a.Kind == "summaries")
	}
	return it
}

// ---- the driver ----

func newNetWorld(tw *tracelog.Writer, rng *rand.Rand, t int) (*netWorld, error) {
	w, err := newWorld0(tw, rng, t)
	if err != nil {
		return nil, err
	}
	n := &netWorld{world: w, inner: w.st, orc: &stubOracle{}, rng: rng, salt: uint64(rng.Intn(1000)) * 16}
	w.st = logStore{n}
	w.bootByKey = true
	n.node, err = netsim.NewNode(netsim.NewSwitch(), netsim.NodeOpts{IP: "10.0.0.1", Port: 9001, Protocol: portalwire.Beacon, Store: w.st})
	if err != nil {
		return nil, err
	}
	n.real = beacon.NewBeaconValidator(n.orc, spec)
	n.bn = beacon.NewBeaconNetwork(n.node.P, nil, n)
	tw.Emit(map[string]any{"ev": "init", "t": t, "p0": fmt.Sprint(w.p0), "net": true})
	w.observe()
	return n, nil
}

func (n *netWorld) closeNet() {
	n.node.Stop() // closes the store through the protocol
}

func (n *netWorld) restartNet() error {
	if err := n.inner.Close(); err != nil {
		return err
	}
	if err := n.world.open(); err != nil {
		return err
	}
	n.inner = n.world.st
	n.world.st = logStore{n}
	n.w.Emit(map[string]any{"ev": "restart", "t": n.t})
	return nil
}

// filler: acceptable items behind a refused one; the loop must never look at them
func (n *netWorld) filler(j int) absItem {
	return absItem{Kind: "optimistic", Kdec: true, Dec: true, Fork: "electra", Ka: len(points) - 1, Cv: len(points) - 1, Tags: []int{7 + j}, Aux: "ok"}
}

func (n *netWorld) deliver(items []absItem, size int) {
	n.batch = nil
	for _, a := range items {
		n.batch = append(n.batch, n.concretise(a))
	}
	for j := len(items); j < size; j++ {
		n.batch = append(n.batch, n.concretise(n.filler(j)))
	}
	keys, contents := [][]byte{}, [][]byte{}
	for _, it := range n.batch {
		keys = append(keys, it.key)
		contents = append(contents, it.content)
	}
	n.w.Emit(map[string]any{"ev": "batch", "t": n.t, "n": len(n.batch)})
	err := guardErr(func() error { return n.bn.VerifValidateContents(keys, contents) })
	r := res(err)
	if errors.Is(err, errPanic) {
		r = "panic"
	}
	n.w.Emit(map[string]any{"ev": "done", "t": n.t, "res": r})
	n.observe()
	n.observeAPI()
}

// observeAPI reads the same universe through the network's own getters (GetCheckpointData / GetUpdates / GetFinalityUpdate /
// GetOptimisticUpdate: local store first, else a lookup - which would sleep a second on this node's empty table, so the
// getters are asked only for what the store holds). Each answer is logged as the
// fingerprint of the returned object's encoding next to the fingerprint of the stored bytes without their fork digest.
func (n *netWorld) observeAPI() {
	one := func(f func() (zcommon.SpecObj, error), k []byte, id []byte) ([]int, []int) {
		if v, _ := n.get(k, id); v == nil {
			return []int{0}, []int{0}
		}
		var o zcommon.SpecObj
		err := guardErr(func() error {
			var e error
			o, e = f()
			return e
		})
		api := []int{0}
		switch {
		case errors.Is(err, errPanic):
			api = []int{-1}
		case err == nil && o != nil:
			api = []int{common.Tag(ser(o))}
		}
		v, _ := n.get(k, id)
		body := []int{0}
		if len(v) > 4 {
			body = []int{common.Tag(v[4:])}
		}
		return api, body
	}
	boot, bootB, fin, finB, opt, optB := [][]int{}, [][]int{}, [][]int{}, [][]int{}, [][]int{}, [][]int{}
	for i := 0; i < nIds; i++ {
		k := key(0x10, n.ids[i])
		var h tree.Root
		copy(h[:], n.ids[i])
		a, b := one(func() (zcommon.SpecObj, error) { return n.bn.GetCheckpointData(h) }, k, cid(k))
		boot, bootB = append(boot, a), append(bootB, b)
	}
	for i := range points {
		s := points[i]
		k := key(0x12, u64(s))
		a, b := one(func() (zcommon.SpecObj, error) { return n.bn.GetFinalityUpdate(s) }, k, cid(k))
		fin, finB = append(fin, a), append(finB, b)
		k = key(0x13, u64(s))
		a, b = one(func() (zcommon.SpecObj, error) { return n.bn.GetOptimisticUpdate(s) }, k, cid(k))
		opt, optB = append(opt, a), append(optB, b)
	}
	upd := []map[string]any{}
	for s := 0; s <= maxPeriod; s++ {
		for c := 1; c <= maxRange && s+c-1 <= maxPeriod; c++ {
			k := key(0x11, u64(n.p0+uint64(s)), u64(uint64(c)))
			v, _ := n.get(k, cid(k))
			if v == nil {
				upd = append(upd, map[string]any{"s": s, "c": c, "api": []int{0}, "body": []int{0}})
				continue
			}
			var objs []zcommon.SpecObj
			err := guardErr(func() error {
				var e error
				objs, e = n.bn.GetUpdates(n.p0+uint64(s), uint64(c))
				return e
			})
			api := []int{}
			switch {
			case errors.Is(err, errPanic):
				api = []int{-1}
			case err != nil:
				api = []int{0}
			default:
				for _, o := range objs {
					api = append(api, common.Tag(ser(o)))
				}
			}
			body := []int{0}
			if v != nil {
				var rg tbeacon.LightClientUpdateRange
				if err := rg.Deserialize(spec, codec.NewDecodingReader(bytes.NewReader(v), uint64(len(v)))); err == nil {
					body = []int{}
					for i := range rg {
						body = append(body, common.Tag(ser(rg[i].LightClientUpdate)))
					}
				}
			}
			upd = append(upd, map[string]any{"s": s, "c": c, "api": api, "body": body})
		}
	}
	n.w.Emit(map[string]any{"ev": "api", "t": n.t, "boot": boot, "bootBody": bootB, "fin": fin, "finBody": finB, "opt": opt, "optBody": optB, "upd": upd})
}

type genNetOp struct {
	Op   string          `json:"op"`
	N    int             `json:"n"`
	Item json.RawMessage `json:"item"`
}

func replayNet(tw *tracelog.Writer, seed int64, t int, ops []genNetOp) error {
	rng := common.Rng(seed)
	n, err := newNetWorld(tw, rng, t)
	if err != nil {
		return err
	}
	defer n.closeNet()
	var items []absItem
	size := 0
	flush := func() {
		if size > 0 {
			n.deliver(items, size)
		}
		items, size = nil, 0
	}
	for _, o := range ops {
		switch o.Op {
		case "batch":
			flush()
			size = o.N
		case "item":
			var a absItem
			if err := json.Unmarshal(o.Item, &a); err != nil {
				return err
			}
			items = append(items, a)
		case "restart":
			flush()
			if err := n.restartNet(); err != nil {
				return err
			}
			n.observe()
		default:
			return fmt.Errorf("unknown generated op %q", o.Op)
		}
	}
	flush()
	return nil
}

// seeded driver: batches of 1-4 items over the whole universe of the harness (12 periods, 10 slots / epochs)
func randomNet(tw *tracelog.Writer, seed int64, t, nbatches int) error {
	rng := common.Rng(seed)
	n, err := newNetWorld(tw, rng, t)
	if err != nil {
		return err
	}
	defer n.closeNet()
	kinds := []string{"update", "update", "update", "bootstrap", "bootstrap", "finality", "optimistic", "optimistic", "optimistic", "summaries", "summaries", "summaries", "unknown", "emptykey"}
	for b := 0; b < nbatches; b++ {
		if rng.Intn(9) == 0 {
			if err := n.restartNet(); err != nil {
				return err
			}
			n.observe()
		}
		size := 1 + rng.Intn(4)
		var items []absItem
		for j := 0; j < size; j++ {
			a := absItem{Kind: kinds[rng.Intn(len(kinds))], Kdec: true, Dec: true, Fork: "electra", Aux: "ok", Tags: []int{1 + rng.Intn(6)}}
			switch a.Kind {
			case "update":
				m := 1 + rng.Intn(maxRange)
				a.Ka = rng.Intn(maxPeriod - m + 2)
				a.Kb = m
				a.Tags = nil
				for k := 0; k < m; k++ {
					a.Tags = append(a.Tags, 1+rng.Intn(6))
				}
				if rng.Intn(8) == 0 {
					a.Fork = "older" // update ranges of an older fork are taken
				}
			case "bootstrap":
				a.Ka = 1 + rng.Intn(nIds)
			case "finality":
				a.Cv = rng.Intn(len(points) - 1)
				a.Ka = rng.Intn(a.Cv + 1) // any key slot up to the finalized slot
			case "optimistic":
				a.Cv = rng.Intn(len(points) - 1)
				a.Ka = a.Cv
			case "summaries":
				a.Cv = rng.Intn(len(points))
				a.Ka = a.Cv
			}
			// one facet wrong in a third of the items
			if a.Kind != "unknown" && a.Kind != "emptykey" && rng.Intn(3) == 0 {
				switch f := rng.Intn(5); {
				case f == 0:
					a.Dec = false
				case f == 1 && a.Kind != "bootstrap":
					a.Kdec = false
				case f == 2 && (a.Kind == "bootstrap" || a.Kind == "finality" || a.Kind == "optimistic"):
					a.Fork = "older"
				case f == 3:
					switch a.Kind {
					case "update":
						a.Kb = 1 + (a.Kb % maxRange)
						if a.Kb == len(a.Tags) {
							a.Kb++
						}
					case "finality":
						if a.Cv+1 < len(points) {
							a.Ka = a.Cv + 1 + rng.Intn(len(points)-a.Cv-1)
						}
					case "optimistic":
						a.Ka = (a.Cv + 1 + rng.Intn(len(points)-2)) % (len(points) - 1)
					case "summaries":
						a.Ka = (a.Cv + 1 + rng.Intn(len(points)-1)) % len(points)
					}
				case f == 4:
					switch a.Kind {
					case "bootstrap":
						a.Aux = "old"
					case "summaries":
						a.Aux = []string{"badbranch", "otherlist", "wrongdepth", "oraclefail"}[rng.Intn(4)]
					}
				}
			}
			items = append(items, a)
		}
		n.deliver(items, size)
	}
	return nil
}
