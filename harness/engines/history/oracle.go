package history

// Header sources. The stub implements validation.Oracle directly (layer "stub"); the same behaviour is also put
// behind an in-process JSON-RPC server so that the production validation.ValidationOracle is the oracle (layer "rpc"):
// its portal_historyGetContent is answered honestly, with another block's header, or with an error.

import (
	"bytes"
	"errors"
	"sync"

	"github.com/ethereum/go-ethereum/common"
	"github.com/ethereum/go-ethereum/common/hexutil"
	"github.com/ethereum/go-ethereum/core/types"
	"github.com/ethereum/go-ethereum/rpc"
	"github.com/protolambda/zrnt/eth2/beacon/capella"
	"github.com/protolambda/zrnt/eth2/configs"
	"github.com/protolambda/ztyp/codec"
	"github.com/zen-eth/shisui/portalwire"
	"github.com/zen-eth/shisui/types/beacon"
	"github.com/zen-eth/shisui/validation"
)

type source struct {
	mu        sync.Mutex
	chain     map[common.Hash]*block // what an honest source holds
	mode      string                 // honest | lie | err
	lie       *block                 // the block whose header a lying source returns
	summaries capella.HistoricalSummaries
	sumErr    bool
	consulted int
}

var errNotFound = errors.New("content not found")

// answer is the source's behaviour as a function of the requested hash (nil = error).
func (s *source) answer(hash []byte) *block {
	switch s.mode {
	case "honest":
		if len(hash) == 32 {
			return s.chain[common.BytesToHash(hash)]
		}
		return nil
	case "lie":
		return s.lie
	}
	return nil
}

func (s *source) set(mode string, lie *block) {
	s.mu.Lock()
	s.mode, s.lie, s.consulted = mode, lie, 0
	s.mu.Unlock()
}

var _ validation.Oracle = (*source)(nil)

func (s *source) GetBlockHeaderByHash(hash []byte) (*types.Header, error) {
	s.mu.Lock()
	defer s.mu.Unlock()
	s.consulted++
	b := s.answer(hash)
	if b == nil {
		return nil, errNotFound
	}
	return types.CopyHeader(b.header), nil
}

func (s *source) GetHistoricalSummaries(epoch uint64) (capella.HistoricalSummaries, error) {
	if s.sumErr {
		return nil, errNotFound
	}
	return s.summaries, nil
}

func (s *source) GetFinalizedStateRoot() ([]byte, error) { return nil, errors.New("not served") }

// ---- the same source behind JSON-RPC ------------------------------------------------------------------

type portalAPI struct{ s *source }

func (a *portalAPI) HistoryGetContent(key string) (*portalwire.ContentInfo, error) {
	k, err := hexutil.Decode(key)
	if err != nil || len(k) < 1 {
		return nil, errors.New("bad key")
	}
	a.s.mu.Lock()
	a.s.consulted++
	b := a.s.answer(k[1:])
	a.s.mu.Unlock()
	if b == nil {
		return nil, errNotFound
	}
	return &portalwire.ContentInfo{Content: hexutil.Encode(b.hwp)}, nil
}

func (a *portalAPI) BeaconGetContent(key string) (*portalwire.ContentInfo, error) {
	if a.s.sumErr {
		return nil, errNotFound
	}
	f := beacon.ForkedHistoricalSummariesWithProof{
		HistoricalSummariesWithProof: beacon.HistoricalSummariesWithProof{HistoricalSummaries: a.s.summaries},
	}
	var buf bytes.Buffer
	if err := f.Serialize(configs.Mainnet, codec.NewEncodingWriter(&buf)); err != nil {
		return nil, err
	}
	return &portalwire.ContentInfo{Content: hexutil.Encode(buf.Bytes())}, nil
}

func newRPCOracle(s *source) (*validation.ValidationOracle, func(), error) {
	srv := rpc.NewServer()
	if err := srv.RegisterName("portal", &portalAPI{s}); err != nil {
		return nil, nil, err
	}
	cl := rpc.DialInProc(srv)
	return validation.NewOracle(cl), func() { cl.Close(); srv.Stop() }, nil
}
