package history

// Harness-side, deliberately strict SSZ reader/writer for the three history content containers, and the
// independent recomputation of the roots of a body / receipt list with go-ethereum's types (trusted base).
// None of shisui's decoders is used here: this is the reference against which the validator is judged.

import (
	"bytes"
	"encoding/binary"

	"github.com/ethereum/go-ethereum/common"
	"github.com/ethereum/go-ethereum/core/types"
	"github.com/ethereum/go-ethereum/rlp"
	"github.com/ethereum/go-ethereum/trie"
)

func le32(b []byte) int { return int(binary.LittleEndian.Uint32(b)) }

func putOff(dst []byte, v int) []byte {
	var b [4]byte
	binary.LittleEndian.PutUint32(b[:], uint32(v))
	return append(dst, b[:]...)
}

// encContainer encodes an SSZ container whose fields are all variable-size.
func encContainer(fields ...[]byte) []byte {
	out := make([]byte, 0, 64)
	off := 4 * len(fields)
	for _, f := range fields {
		out = putOff(out, off)
		off += len(f)
	}
	for _, f := range fields {
		out = append(out, f...)
	}
	return out
}

// encByteLists encodes List[ByteList].
func encByteLists(items [][]byte) []byte {
	return encContainer(items...)
}

// splitOffsets reads n offsets at the start of buf: the first must be 4n, they must be monotonic and within buf.
func splitOffsets(buf []byte, n int) ([][]byte, bool) {
	if n == 0 {
		return nil, len(buf) == 0
	}
	if len(buf) < 4*n {
		return nil, false
	}
	offs := make([]int, n+1)
	for i := 0; i < n; i++ {
		offs[i] = le32(buf[4*i:])
	}
	offs[n] = len(buf)
	if offs[0] != 4*n {
		return nil, false
	}
	out := make([][]byte, n)
	for i := 0; i < n; i++ {
		if offs[i] > offs[i+1] || offs[i+1] > len(buf) {
			return nil, false
		}
		out[i] = buf[offs[i]:offs[i+1]]
	}
	return out, true
}

// parseByteLists: List[ByteList]. Strict SSZ: the empty region is the empty list, otherwise first offset / 4 = count >= 1.
// One leniency is recognised and reported as non-canonical (canon = false): a region of exactly four zero bytes read as
// the empty list (what fastssz's DecodeDynamicLength / UnmarshalDynamic do, DESIGN 8 F-C14-1).
func parseByteLists(region []byte, maxN, maxItem int) (items [][]byte, canon bool, ok bool) {
	if len(region) == 0 {
		return [][]byte{}, true, true
	}
	if len(region) < 4 {
		return nil, false, false
	}
	first := le32(region)
	if first == 0 && len(region) == 4 {
		return [][]byte{}, false, true
	}
	if first == 0 || first%4 != 0 || first > len(region) {
		return nil, false, false
	}
	n := first / 4
	if n > maxN {
		return nil, false, false
	}
	items, ok = splitOffsets(region, n)
	if !ok {
		return nil, false, false
	}
	for _, it := range items {
		if len(it) > maxItem {
			return nil, false, false
		}
	}
	return items, true, true
}

// ---- header with proof ------------------------------------------------------------------------------

type hwpParts struct {
	hdrRLP, proof []byte
	header        *types.Header
}

func parseHWP(content []byte) (*hwpParts, bool) {
	f, ok := splitOffsets(content, 2)
	if !ok || len(f[0]) > 8192 || len(f[1]) > 1024 {
		return nil, false
	}
	h := new(types.Header)
	if err := rlp.DecodeBytes(f[0], h); err != nil {
		return nil, false
	}
	if h.Number == nil || h.Difficulty == nil {
		return nil, false
	}
	return &hwpParts{hdrRLP: f[0], proof: f[1], header: h}, true
}

func encHWP(hdrRLP, proof []byte) []byte { return encContainer(hdrRLP, proof) }

// ---- body -------------------------------------------------------------------------------------------

type bodyParts struct {
	txs    [][]byte
	uncles []byte
	wds    [][]byte // nil = legacy encoding (no withdrawals field)
	canon  bool     // the container is the canonical SSZ encoding (set by parseBody)
}

func encBody(b bodyParts) []byte {
	if b.wds == nil {
		return encContainer(encByteLists(b.txs), b.uncles)
	}
	return encContainer(encByteLists(b.txs), b.uncles, encByteLists(b.wds))
}

// parseBody: a byte string is a Shanghai body iff its first offset is 12, a legacy body iff it is 8.
func parseBody(content []byte) (*bodyParts, bool) {
	if len(content) < 8 {
		return nil, false
	}
	switch le32(content) {
	case 12:
		f, ok := splitOffsets(content, 3)
		if !ok || len(f[1]) > 131072 {
			return nil, false
		}
		txs, c1, ok1 := parseByteLists(f[0], 16384, 16777216)
		wds, c2, ok2 := parseByteLists(f[2], 16, 192)
		if !ok1 || !ok2 {
			return nil, false
		}
		if wds == nil {
			wds = [][]byte{}
		}
		return &bodyParts{txs: txs, uncles: f[1], wds: wds, canon: c1 && c2}, true
	case 8:
		f, ok := splitOffsets(content, 2)
		if !ok || len(f[1]) > 131072 {
			return nil, false
		}
		txs, c1, ok1 := parseByteLists(f[0], 16384, 16777216)
		if !ok1 {
			return nil, false
		}
		return &bodyParts{txs: txs, uncles: f[1], canon: c1}, true
	}
	return nil, false
}

type bodyRoots struct {
	tx, un common.Hash
	wd     *common.Hash // nil = legacy encoding
	canon  bool         // every element re-encodes to the bytes it was decoded from
}

func rootsOfBody(b *bodyParts) (*bodyRoots, bool) {
	r := &bodyRoots{canon: b.canon}
	txs := make(types.Transactions, 0, len(b.txs))
	for _, raw := range b.txs {
		tx := new(types.Transaction)
		if err := tx.UnmarshalBinary(raw); err != nil {
			return nil, false
		}
		if re, err := tx.MarshalBinary(); err != nil || !bytes.Equal(re, raw) {
			r.canon = false
		}
		txs = append(txs, tx)
	}
	r.tx = types.DeriveSha(txs, trie.NewStackTrie(nil))
	var uncles []*types.Header
	if err := rlp.DecodeBytes(b.uncles, &uncles); err != nil {
		return nil, false
	}
	for _, u := range uncles {
		if u == nil || u.Number == nil || u.Difficulty == nil {
			return nil, false
		}
	}
	if re, err := rlp.EncodeToBytes(uncles); err != nil || !bytes.Equal(re, b.uncles) {
		r.canon = false
	}
	r.un = types.CalcUncleHash(uncles)
	if b.wds != nil {
		ws := make(types.Withdrawals, 0, len(b.wds))
		for _, raw := range b.wds {
			w := new(types.Withdrawal)
			if err := rlp.DecodeBytes(raw, w); err != nil {
				return nil, false
			}
			if re, err := rlp.EncodeToBytes(w); err != nil || !bytes.Equal(re, raw) {
				r.canon = false
			}
			ws = append(ws, w)
		}
		h := types.DeriveSha(ws, trie.NewStackTrie(nil))
		r.wd = &h
	}
	return r, true
}

// ---- receipts ---------------------------------------------------------------------------------------

func encReceipts(items [][]byte) []byte { return encByteLists(items) }

func rootOfReceipts(content []byte) (root common.Hash, canon bool, ok bool) {
	items, canon, ok := parseByteLists(content, 16384, 134217728)
	if !ok {
		return common.Hash{}, false, false
	}
	rs := make(types.Receipts, 0, len(items))
	for _, raw := range items {
		r := new(types.Receipt)
		if err := r.UnmarshalBinary(raw); err != nil {
			return common.Hash{}, false, false
		}
		if re, err := r.MarshalBinary(); err != nil || !bytes.Equal(re, raw) {
			canon = false
		}
		rs = append(rs, r)
	}
	return types.DeriveSha(rs, trie.NewStackTrie(nil)), canon, true
}
