package history

// The block universe of the engine: the repository's genuine mainnet vectors (all four proof eras) and
// synthetic blocks built with go-ethereum's types.

import (
	"bytes"
	"encoding/binary"
	"encoding/json"
	"fmt"
	"math/big"
	"math/rand"
	"os"
	"path/filepath"
	"sort"

	"github.com/ethereum/go-ethereum/common"
	"github.com/ethereum/go-ethereum/common/hexutil"
	"github.com/ethereum/go-ethereum/core/types"
	"github.com/ethereum/go-ethereum/crypto"
	"github.com/ethereum/go-ethereum/rlp"
	"github.com/ethereum/go-ethereum/trie"
	"github.com/protolambda/zrnt/eth2/beacon/capella"
	"github.com/protolambda/zrnt/eth2/configs"
	"github.com/protolambda/ztyp/codec"
	"gopkg.in/yaml.v3"
)

const (
	mergeBlock    = 15_537_394
	shanghaiBlock = 17_034_870
	cancunBlock   = 19_426_587
)

type block struct {
	name      string
	synthetic bool
	proven    bool // a genuine accumulator proof is known (mainnet vector)
	complete  bool // header, body and receipts of the same block (false: header-only vector with borrowed lists)
	era       string
	number    uint64
	hash      common.Hash
	header    *types.Header
	hdrRLP    []byte
	proof     []byte
	parts     bodyParts // raw transactions / uncles / withdrawals (wds nil = legacy)
	rcpts     [][]byte  // raw receipts
	// the genuine content values
	hwp, body, rc []byte
}

func (b *block) shanghai() bool { return b.header.WithdrawalsHash != nil }
func (b *block) emptyRc() bool  { return b.header.ReceiptHash == types.EmptyReceiptsHash }
func (b *block) hasUncles() bool {
	return b.header.UncleHash != types.EmptyUncleHash
}
func (b *block) wdKind() string {
	switch {
	case b.header.WithdrawalsHash == nil:
		return "none"
	case *b.header.WithdrawalsHash == types.EmptyWithdrawalsHash:
		return "empty"
	}
	return "some"
}

func eraOf(n uint64) string {
	switch {
	case n < mergeBlock:
		return "premerge"
	case n < shanghaiBlock:
		return "bellatrix"
	case n < cancunBlock:
		return "capella"
	}
	return "deneb"
}

func keyOf(sel byte, rest []byte) []byte { return append([]byte{sel}, rest...) }
func numKey(n uint64) []byte {
	var b [8]byte
	binary.LittleEndian.PutUint64(b[:], n)
	return keyOf(3, b[:])
}

type kv struct{ Key, Value string }

func readYAML(path string) ([]kv, error) {
	data, err := os.ReadFile(path)
	if err != nil {
		return nil, err
	}
	var es []struct {
		ContentKey   string `yaml:"content_key"`
		ContentValue string `yaml:"content_value"`
	}
	if err := yaml.Unmarshal(data, &es); err != nil {
		return nil, err
	}
	out := make([]kv, len(es))
	for i, e := range es {
		out[i] = kv{e.ContentKey, e.ContentValue}
	}
	return out, nil
}

func readJSONBlock(path string) ([]kv, error) {
	data, err := os.ReadFile(path)
	if err != nil {
		return nil, err
	}
	m := map[string]map[string]string{}
	if err := json.Unmarshal(data, &m); err != nil {
		return nil, err
	}
	names := make([]string, 0, len(m))
	for k := range m {
		names = append(names, k)
	}
	sort.Strings(names)
	var out []kv
	for _, n := range names {
		out = append(out, kv{m[n]["content_key"], m[n]["content_value"]})
	}
	return out, nil
}

func proofSizeOK(number uint64, n int) bool {
	switch eraOf(number) {
	case "premerge":
		return n == 15*32
	case "bellatrix":
		return n == 14*32+32+11*32+8
	case "capella":
		return n == 13*32+32+11*32+8
	}
	return n == 13*32+32+12*32+8
}

// loadVectors groups the (key, value) pairs of the repository's test data into blocks and cross-checks every block
// with the harness's own decoders (header hash = key, body and receipt roots = the header's).
//
//	complete blocks (header, body, receipts): history/testdata/validation/*.yaml, block_14764013.json and the fork
//	  collection (whose header proofs are in a superseded format: those headers count as unproven);
//	header-only vectors with accumulator proofs of the three post-merge eras: types/history/testdata/header_with_proof.yaml,
//	  and further pre-merge ones: validation/testdata/header_with_proofs.json.
func loadVectors(repo string) ([]*block, error) {
	var all []kv
	for _, f := range []string{"history/testdata/validation/1.yaml", "history/testdata/validation/100.yaml",
		"history/testdata/validation/7000000.yaml", "history/testdata/validation/15537393.yaml"} {
		es, err := readYAML(filepath.Join(repo, f))
		if err != nil {
			return nil, err
		}
		all = append(all, es...)
	}
	es, err := readJSONBlock(filepath.Join(repo, "history/testdata/block_14764013.json"))
	if err != nil {
		return nil, err
	}
	all = append(all, es...)
	for _, f := range []string{"history/testdata/test_data_collection_of_forks_blocks.yaml", "types/history/testdata/header_with_proof.yaml"} {
		es, err := readYAML(filepath.Join(repo, f))
		if err != nil {
			return nil, err
		}
		all = append(all, es...)
	}
	{
		data, err := os.ReadFile(filepath.Join(repo, "validation/testdata/header_with_proofs.json"))
		if err != nil {
			return nil, err
		}
		m := map[string]map[string]string{}
		if err := json.Unmarshal(data, &m); err != nil {
			return nil, err
		}
		names := make([]string, 0, len(m))
		for k := range m {
			names = append(names, k)
		}
		sort.Strings(names)
		for _, n := range names {
			all = append(all, kv{m[n]["content_key"], m[n]["value"]})
		}
	}
	byHash := map[common.Hash]*block{}
	var order []*block
	for _, e := range all { // headers first
		k, v := hexutil.MustDecode(e.Key), hexutil.MustDecode(e.Value)
		if len(k) != 33 || k[0] != 0 {
			continue
		}
		p, ok := parseHWP(v)
		if !ok {
			return nil, fmt.Errorf("vector %s: header with proof does not decode", e.Key)
		}
		h := p.header.Hash()
		if !bytes.Equal(h[:], k[1:]) {
			return nil, fmt.Errorf("vector %s: header hash differs from key", e.Key)
		}
		if _, dup := byHash[h]; dup {
			continue
		}
		n := p.header.Number.Uint64()
		if eraOf(n) == "bellatrix" && proofSizeOK(n, len(p.proof)) {
			// The repository's merge-to-Capella header vectors (types/history/testdata/header_with_proof.yaml) carry the
			// proof container in the superseded field order [execution_block_proof(11), beacon_block_root,
			// historical_roots_proof(14), slot]; the current container (types/history.BlockProofHistoricalRoots, and
			// validation/testdata/block_proofs_bellatrix which the repository's own tests verify) is
			// [beacon_block_proof(14), beacon_block_root, execution_block_proof(11), slot]. Same data, re-serialised.
			q := make([]byte, 0, len(p.proof))
			q = append(q, p.proof[12*32:26*32]...)
			q = append(q, p.proof[11*32:12*32]...)
			q = append(q, p.proof[0:11*32]...)
			q = append(q, p.proof[26*32:]...)
			if err := checkBellatrixYAML(repo, n, q); err != nil {
				return nil, err
			}
			p.proof = q
			v = encHWP(p.hdrRLP, q)
		}
		b := &block{name: fmt.Sprintf("mainnet-%d", n), proven: proofSizeOK(n, len(p.proof)), era: eraOf(n), number: n, hash: h, header: p.header,
			hdrRLP: p.hdrRLP, proof: p.proof, hwp: v}
		byHash[h] = b
		order = append(order, b)
	}
	for _, e := range all {
		k, v := hexutil.MustDecode(e.Key), hexutil.MustDecode(e.Value)
		if (k[0] != 1 && k[0] != 2) || len(k) != 33 {
			continue
		}
		b := byHash[common.BytesToHash(k[1:])]
		if b == nil {
			continue
		}
		if k[0] == 1 {
			if b.body != nil {
				continue
			}
			p, ok := parseBody(v)
			if !ok {
				return nil, fmt.Errorf("vector %s: body does not decode", e.Key)
			}
			r, ok := rootsOfBody(p)
			if !ok || !r.canon || r.tx != b.header.TxHash || r.un != b.header.UncleHash || (r.wd == nil) != (b.header.WithdrawalsHash == nil) ||
				(r.wd != nil && *r.wd != *b.header.WithdrawalsHash) {
				return nil, fmt.Errorf("vector %s: body roots differ from the header's", e.Key)
			}
			b.parts, b.body = *p, v
		} else {
			if b.rc != nil {
				continue
			}
			if len(v) == 0 {
				if !b.emptyRc() {
					return nil, fmt.Errorf("vector %s: empty receipts for a header with receipts", e.Key)
				}
				b.rcpts, b.rc = [][]byte{}, []byte{}
				continue
			}
			root, canon, ok := rootOfReceipts(v)
			if !ok || !canon || root != b.header.ReceiptHash {
				return nil, fmt.Errorf("vector %s: receipts root differs from the header's", e.Key)
			}
			b.rcpts, _, _ = parseByteLists(v, 16384, 134217728)
			b.rc = v
		}
	}
	var out []*block
	nComplete := 0
	for _, b := range order {
		b.complete = b.body != nil && b.rc != nil
		if b.complete {
			nComplete++
		}
	}
	donor := func(hb *block) *block {
		for _, b := range order {
			if b.complete && b.wdKind() == hb.wdKind() && b.emptyRc() == hb.emptyRc() {
				return b
			}
		}
		return nil
	}
	for _, b := range order {
		if !b.complete {
			if !b.proven {
				continue // neither a usable header nor a body
			}
			d := donor(b)
			if d == nil {
				continue
			}
			// header-only vector: borrowed lists, only ever used as cross-kind junk under header keys
			b.parts, b.rcpts, b.body, b.rc = d.parts, d.rcpts, d.body, d.rc
		}
		out = append(out, b)
	}
	if nComplete < 6 {
		return nil, fmt.Errorf("only %d complete mainnet blocks found in the repository's test data", nComplete)
	}
	return out, nil
}

// checkBellatrixYAML compares a re-serialised proof with validation/testdata/block_proofs_bellatrix/<n>.yaml when present.
func checkBellatrixYAML(repo string, number uint64, proof []byte) error {
	data, err := os.ReadFile(filepath.Join(repo, fmt.Sprintf("validation/testdata/block_proofs_bellatrix/beacon_block_proof-%d.yaml", number)))
	if err != nil {
		return nil
	}
	var y struct {
		ExecutionBlockProof []string `yaml:"execution_block_proof"`
		BeaconBlockRoot     string   `yaml:"beacon_block_root"`
		BeaconBlockProof    []string `yaml:"beacon_block_proof"`
		Slot                uint64   `yaml:"slot"`
	}
	if err := yaml.Unmarshal(data, &y); err != nil {
		return err
	}
	var want []byte
	for _, h := range y.BeaconBlockProof {
		want = append(want, hexutil.MustDecode(h)...)
	}
	want = append(want, hexutil.MustDecode(y.BeaconBlockRoot)...)
	for _, h := range y.ExecutionBlockProof {
		want = append(want, hexutil.MustDecode(h)...)
	}
	var sl [8]byte
	binary.LittleEndian.PutUint64(sl[:], y.Slot)
	want = append(want, sl[:]...)
	if !bytes.Equal(want, proof) {
		return fmt.Errorf("bellatrix header vector %d: re-serialised proof differs from block_proofs_bellatrix", number)
	}
	return nil
}

func loadSummaries(repo string) (capella.HistoricalSummaries, error) {
	content, err := os.ReadFile(filepath.Join(repo, "validation/testdata/beacon_data/historical_summaries_at_slot_11476992.ssz"))
	if err != nil {
		return nil, err
	}
	s := new(capella.HistoricalSummaries)
	if err := s.Deserialize(configs.Mainnet, codec.NewDecodingReader(bytes.NewReader(content), uint64(len(content)))); err != nil {
		return nil, err
	}
	return *s, nil
}

// ---- synthetic blocks -------------------------------------------------------------------------------

func rndHash(rng *rand.Rand) (h common.Hash) { rng.Read(h[:]); return }
func rndAddr(rng *rand.Rand) (a common.Address) {
	rng.Read(a[:])
	return
}

func synthHeader(rng *rand.Rand, number uint64) *types.Header {
	h := &types.Header{
		ParentHash: rndHash(rng), UncleHash: types.EmptyUncleHash, Coinbase: rndAddr(rng), Root: rndHash(rng),
		TxHash: types.EmptyTxsHash, ReceiptHash: types.EmptyReceiptsHash, Difficulty: big.NewInt(int64(1 + rng.Intn(1<<30))),
		Number: new(big.Int).SetUint64(number), GasLimit: 30_000_000, GasUsed: uint64(rng.Intn(30_000_000)),
		Time: 1_500_000_000 + uint64(rng.Intn(1<<28)), Extra: []byte("verif"), MixDigest: rndHash(rng),
	}
	if number >= 12_965_000 {
		h.BaseFee = big.NewInt(int64(7 + rng.Intn(1<<30)))
	}
	if number >= mergeBlock {
		h.Difficulty = big.NewInt(0)
	}
	return h
}

func synthTxs(rng *rand.Rand, n int, typed bool) types.Transactions {
	key, _ := crypto.ToECDSA(common.FromHex("b71c71a67e1177ad4e901695e1b4b9ee17ae16c6668d313eac2f96dbcda3f291"))
	signer := types.LatestSignerForChainID(big.NewInt(1))
	var txs types.Transactions
	for i := 0; i < n; i++ {
		to := rndAddr(rng)
		data := make([]byte, rng.Intn(80))
		rng.Read(data)
		var inner types.TxData
		if typed && i%2 == 1 {
			inner = &types.DynamicFeeTx{ChainID: big.NewInt(1), Nonce: uint64(i), GasTipCap: big.NewInt(2), GasFeeCap: big.NewInt(int64(100 + rng.Intn(1000))),
				Gas: 21000 + uint64(rng.Intn(100000)), To: &to, Value: big.NewInt(int64(rng.Intn(1 << 40))), Data: data}
		} else {
			inner = &types.LegacyTx{Nonce: uint64(i), GasPrice: big.NewInt(int64(1 + rng.Intn(1<<30))), Gas: 21000 + uint64(rng.Intn(100000)),
				To: &to, Value: big.NewInt(int64(rng.Intn(1 << 40))), Data: data}
		}
		tx, err := types.SignNewTx(key, signer, inner)
		if err != nil {
			panic(err)
		}
		txs = append(txs, tx)
	}
	return txs
}

func synthReceipts(rng *rand.Rand, txs types.Transactions) types.Receipts {
	var rs types.Receipts
	cum := uint64(0)
	for i, tx := range txs {
		cum += 21000 + uint64(rng.Intn(50000))
		r := &types.Receipt{Type: tx.Type(), Status: uint64(rng.Intn(2)), CumulativeGasUsed: cum}
		for j := 0; j < i%3; j++ {
			d := make([]byte, rng.Intn(64))
			rng.Read(d)
			r.Logs = append(r.Logs, &types.Log{Address: rndAddr(rng), Topics: []common.Hash{rndHash(rng)}, Data: d})
		}
		if r.Logs == nil {
			r.Logs = []*types.Log{}
		}
		r.Bloom = types.CreateBloom(r)
		rs = append(rs, r)
	}
	return rs
}

// synthBlock builds a self-consistent block: header roots are derived from the body and receipts it carries.
func synthBlock(rng *rand.Rand, name string, number uint64, nTx, nUncles int, wd int /* -1 none, 0 empty, n */) *block {
	h := synthHeader(rng, number)
	txs := synthTxs(rng, nTx, number >= 12_965_000)
	rs := synthReceipts(rng, txs)
	var uncles []*types.Header
	for i := 0; i < nUncles; i++ {
		uncles = append(uncles, synthHeader(rng, number-1-uint64(i)))
	}
	if uncles == nil {
		uncles = []*types.Header{}
	}
	h.TxHash = types.DeriveSha(txs, trie.NewStackTrie(nil))
	h.ReceiptHash = types.DeriveSha(rs, trie.NewStackTrie(nil))
	h.UncleHash = types.CalcUncleHash(uncles)
	b := &block{name: name, synthetic: true, complete: true, era: eraOf(number), number: number, header: h}
	for _, tx := range txs {
		raw, _ := tx.MarshalBinary()
		b.parts.txs = append(b.parts.txs, raw)
	}
	if b.parts.txs == nil {
		b.parts.txs = [][]byte{}
	}
	b.parts.uncles, _ = rlp.EncodeToBytes(uncles)
	if wd >= 0 {
		ws := types.Withdrawals{}
		b.parts.wds = [][]byte{}
		for i := 0; i < wd; i++ {
			w := &types.Withdrawal{Index: uint64(1000 + i), Validator: uint64(rng.Intn(1 << 20)), Address: rndAddr(rng), Amount: uint64(rng.Intn(1 << 30))}
			ws = append(ws, w)
			raw, _ := rlp.EncodeToBytes(w)
			b.parts.wds = append(b.parts.wds, raw)
		}
		wh := types.DeriveSha(ws, trie.NewStackTrie(nil))
		h.WithdrawalsHash = &wh
	}
	b.rcpts = [][]byte{}
	for _, r := range rs {
		raw, _ := r.MarshalBinary()
		b.rcpts = append(b.rcpts, raw)
	}
	b.hash = h.Hash()
	b.hdrRLP, _ = rlp.EncodeToBytes(h)
	b.proof = synthProof(rng, number)
	b.hwp = encHWP(b.hdrRLP, b.proof)
	b.body = encBody(b.parts)
	if len(b.rcpts) == 0 {
		b.rc = []byte{}
	} else {
		b.rc = encReceipts(b.rcpts)
	}
	return b
}

// synthProof: random bytes with the size of the proof container of the block's era (it verifies against nothing).
func synthProof(rng *rand.Rand, number uint64) []byte {
	n := 15 * 32
	switch eraOf(number) {
	case "bellatrix":
		n = 14*32 + 32 + 11*32 + 8
	case "capella":
		n = 13*32 + 32 + 11*32 + 8
	case "deneb":
		n = 13*32 + 32 + 12*32 + 8
	}
	p := make([]byte, n)
	rng.Read(p)
	return p
}

func synthBlocks(rng *rand.Rand) []*block {
	return []*block{
		synthBlock(rng, "synth-legacy-uncles", 12_000_017, 3, 2, -1),
		synthBlock(rng, "synth-london", 14_000_033, 5, 1, -1),
		synthBlock(rng, "synth-paris", 16_000_001, 4, 0, -1),
		synthBlock(rng, "synth-shanghai", 18_000_002, 3, 0, 3),
		synthBlock(rng, "synth-cancun", 20_000_003, 2, 0, 16),
		synthBlock(rng, "synth-empty", 11_000_004, 0, 0, -1),
		synthBlock(rng, "synth-empty-uncle", 9_000_005, 0, 1, -1),
		synthBlock(rng, "synth-shanghai-nowd", 18_100_006, 0, 0, 0),
		synthBlock(rng, "synth-shanghai-nowd-tx", 18_200_007, 2, 0, 0),
	}
}
