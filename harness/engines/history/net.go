package history

// Layers "net" and "get": history.Network.validateContents (the OFFER path: validate, then store) and the block
// getters GetBlockHeader / GetBlockBody / GetReceipts (the lookup path: fetch from peers, validate, store, return)
// over a recording content store. The Network is the production type; its PortalProtocol has a real routing table
// with three fake peers and a find-content override that answers every FINDCONTENT with the case's content.

import (
	"bytes"
	"net"
	"sync"

	"github.com/ethereum/go-ethereum/common/mclock"
	"github.com/ethereum/go-ethereum/p2p/enode"
	"github.com/ethereum/go-ethereum/p2p/enr"
	"github.com/holiman/uint256"
	shhistory "github.com/zen-eth/shisui/history"
	"github.com/zen-eth/shisui/portalwire"
	"github.com/zen-eth/shisui/storage"
)

type putRec struct{ key, content []byte }

type recStore struct {
	mu   sync.Mutex
	db   map[string][]byte
	puts []putRec
}

func (s *recStore) Get(contentKey []byte, contentId []byte) ([]byte, error) {
	s.mu.Lock()
	defer s.mu.Unlock()
	if c, ok := s.db[string(contentId)]; ok {
		return append([]byte{}, c...), nil
	}
	return nil, storage.ErrContentNotFound
}

func (s *recStore) Put(contentKey []byte, contentId []byte, content []byte) error {
	s.mu.Lock()
	defer s.mu.Unlock()
	s.db[string(contentId)] = append([]byte{}, content...)
	s.puts = append(s.puts, putRec{append([]byte{}, contentKey...), append([]byte{}, content...)})
	return nil
}

func (s *recStore) Radius() *uint256.Int { return storage.MaxDistance }
func (s *recStore) Close() error         { return nil }

func (s *recStore) reset() {
	s.mu.Lock()
	s.db, s.puts = map[string][]byte{}, nil
	s.mu.Unlock()
}

// storedExactly: the only thing put is (key, content).
func (s *recStore) stored() (n int, puts []putRec) {
	s.mu.Lock()
	defer s.mu.Unlock()
	return len(s.puts), append([]putRec{}, s.puts...)
}

type quietNet struct{ self *enode.Node }

func (t quietNet) Self() *enode.Node                             { return t.self }
func (t quietNet) RequestENR(n *enode.Node) (*enode.Node, error) { return n, nil }
func (t quietNet) Ping(n *enode.Node) (uint64, error)            { return n.Seq(), nil }
func (t quietNet) LookupRandom() []*enode.Node                   { return nil }
func (t quietNet) LookupSelf() []*enode.Node                     { return nil }

type netLayer struct {
	comp   *concrete // companion of two-item offers: a genuine header-by-hash pair (no header source involved)
	compK  keyView
	compC  contentView
	store  *recStore
	nw     *shhistory.Network
	vt     *portalwire.VerifTable
	mu     sync.Mutex
	answer []byte
	asked  int
	n      int
}

func fakeNode(i int) *enode.Node {
	var r enr.Record
	r.Set(enr.IP(net.IP{127, 0, 0, byte(1 + i)}))
	r.Set(enr.UDP(30400 + i))
	r.SetSeq(1)
	var id enode.ID
	for j := range id {
		id[j] = byte(37*i + 11*j + 1)
	}
	return enode.SignNull(&r, id)
}

func newNetLayer(e *engine) (*netLayer, error) {
	l := &netLayer{store: &recStore{db: map[string][]byte{}}}
	vt, err := portalwire.VerifNewTable(quietNet{fakeNode(0)}, new(mclock.Simulated), true, nil)
	if err != nil {
		return nil, err
	}
	l.vt = vt
	for i := 1; i <= 3; i++ {
		vt.Add(fakeNode(i), false, true)
	}
	portalwire.VerifFindContentFunc = func(n *enode.Node, contentKey []byte) (byte, interface{}, error) {
		l.mu.Lock()
		defer l.mu.Unlock()
		l.asked++
		return portalwire.ContentRawSelector, append([]byte{}, l.answer...), nil
	}
	pp := portalwire.VerifProtocolWithStorage(vt, l.store)
	l.nw = shhistory.NewHistoryNetwork(pp, e.vStub)
	for _, b := range e.mainnet {
		if b.proven && b.complete {
			l.comp = &concrete{idx: -1, variant: "batch-companion", blocks: b.name, key: keyOf(0, b.hash[:]), content: b.hwp, mode: "honest", era: b.era}
			l.compK = e.keyView(l.comp.key, nil)
			l.compC = e.contentView("hash", l.comp.content)
			break
		}
	}
	return l, nil
}

func (l *netLayer) run(e *engine, c *concrete, kvw keyView, cvw contentView, svw sourceView) {
	// ---- offer path
	l.store.reset()
	e.src.set(c.mode, c.lie)
	out, errs, site := guarded(func() error { return l.nw.VerifValidateContents([][]byte{c.key}, [][]byte{c.content}) })
	n, puts := l.store.stored()
	stored := n > 0
	if stored && (n != 1 || !bytes.Equal(puts[0].key, c.key) || !bytes.Equal(puts[0].content, c.content)) {
		errs = "stored something else than the offered pair; " + errs
		site = "store-mismatch"
	}
	e.emit("net", c, kvw, cvw, svw, out, errs, site, stored, false)
	// ---- offer path, two items per offer (companion first / companion last): every item is judged by what was stored for it
	l.n++
	if l.comp != nil && ((c.idx >= 0 && c.idx%4 == 0) || (c.idx < 0 && l.n%4 == 0)) && !bytes.Equal(c.key, l.comp.key) {
		for order := 0; order < 2; order++ {
			l.store.reset()
			e.src.set(c.mode, c.lie)
			keys, contents := [][]byte{l.comp.key, c.key}, [][]byte{l.comp.content, c.content}
			if order == 1 {
				keys, contents = [][]byte{c.key, l.comp.key}, [][]byte{c.content, l.comp.content}
			}
			out, errs, site := guarded(func() error { return l.nw.VerifValidateContents(keys, contents) })
			_, puts := l.store.stored()
			var sC, sComp bool
			for _, p := range puts {
				switch {
				case bytes.Equal(p.key, c.key) && bytes.Equal(p.content, c.content):
					sC = true
				case bytes.Equal(p.key, l.comp.key) && bytes.Equal(p.content, l.comp.content):
					sComp = true
				default:
					errs, site = "stored something else than an offered pair; "+errs, "store-mismatch"
					sC = true // charge it to the case item: it is judged as a store
				}
			}
			item := func(st bool) string {
				if out == "panic" {
					return "panic"
				}
				if st {
					return "accept"
				}
				return "reject"
			}
			e.emit("net2", c, kvw, cvw, svw, item(sC), errs, site, sC, false)
			// the companion is judged only when the offer reached it (stored, or the whole offer went through)
			if sComp || out == "accept" {
				l.comp.mode = c.mode
				e.emit("net2", l.comp, l.compK, l.compC, sourceView{Hid: -3, Tx: -3, Un: -3, Wd: -3, Rc: -3}, map[bool]string{true: "accept", false: "reject"}[sComp], "", "", sComp, false)
			}
		}
	}
	// ---- getter path
	if len(c.key) < 1 || c.key[0] > 2 {
		return
	}
	l.store.reset()
	l.mu.Lock()
	l.answer, l.asked = c.content, 0
	l.mu.Unlock()
	e.src.set(c.mode, c.lie)
	hash := c.key[1:]
	out, errs, site = guarded(func() error {
		var err error
		switch c.key[0] {
		case 0:
			_, err = l.nw.GetBlockHeader(hash)
		case 1:
			_, err = l.nw.GetBlockBody(hash)
		default:
			_, err = l.nw.GetReceipts(hash)
		}
		return err
	})
	n, puts = l.store.stored()
	stored = n > 0
	if stored && (n != 1 || !bytes.Equal(puts[0].key, c.key) || !bytes.Equal(puts[0].content, c.content)) {
		errs = "stored something else than the looked-up pair; " + errs
		site = "store-mismatch"
	}
	l.mu.Lock()
	asked := l.asked
	l.mu.Unlock()
	if asked == 0 && out != "panic" {
		errs = "lookup never asked a peer; " + errs
	}
	e.emit("get", c, kvw, cvw, svw, out, errs, site, stored, out == "accept")
}
